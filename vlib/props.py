"""Per-property checks.  Every check: extract (tie A) -> proofs + axiom audit -> build harness ->
corpus + generated correspondence cases + the property's own oracle -> evidence -> exit status."""
import argparse, itertools, json, os, sys, time
from . import common as C
from . import l2

REGISTRY = {}


def prop(pid):
    def deco(f):
        REGISTRY[pid] = f
        return f
    return deco


def prepare(run, need_harness=True, need_cli=False):
    with C.Lock():
        st = C.run_extractors()
        run.cov['extractors'] = {k: v for k, v in st.items() if k != 'constants'}
        run.extract_status = st
        ok, out = C.lake_build(['rjdriver'])
        if not ok:
            run.model_build_error = out[-4000:]
        else:
            run.model_build_error = None
        if need_harness:
            ok, out = C.build_harness()
            if not ok:
                raise SystemExit('harness build failed (the tree does not compile with hooks on):\n' + out[-3000:])
        if need_cli:
            ok, out = C.build_cli()
            if not ok:
                raise SystemExit('CLI build failed:\n' + out[-3000:])
    if run.model_build_error:
        run.violation(dict(kind='model-does-not-build', note='a generated definition or a model file no longer elaborates',
                           lean_output=run.model_build_error), no_input=True)
        return False
    return True


# ------------------------------------------------------------------ L2 helper

def l2_stream(run, scenarios, oracles, label, nontrivial=None, focus_gen=None):
    """Runs scenarios through model + implementation, evaluates oracles on the implementation's
    output, handles disagreements per DESIGN §2.6."""
    res = l2.run_batch(scenarios)
    disagreements, oracle_fail = [], []
    for r in res:
        ir = r['impl_r']
        nt = nontrivial(r) if nontrivial else True
        run.case((label, r['line']), nt, sample=dict(layer='L2', scenario=r['sc'].describe(), impl=r['impl'][:600]) if nt else None)
        run.count(f'{label}:res:' + str(ir.get('res')))
        run.cov['traces_validated_against_impl'] += 1
        for name, fn in oracles:
            msg = fn(r)
            if msg:
                oracle_fail.append((name, msg, r))
        if not r['agree']:
            disagreements.append(r)
    run.cov['disagreements_checked'] += len(res)
    for name, msg, r in oracle_fail[:3]:
        run.violation(dict(kind='oracle-failed-on-implementation', oracle=name, message=msg, layer='L2',
                           request_line=r['line'], scenario=r['sc'].describe(), impl=r['impl'], model=r['model']))
    if disagreements and not oracle_fail:
        r = disagreements[0]
        found = None
        if focus_gen:
            more = l2.run_batch(focus_gen())
            for r2 in more:
                for name, fn in oracles:
                    msg = fn(r2)
                    if msg:
                        found = (name, msg, r2); break
                if found: break
        if found:
            name, msg, r2 = found
            run.violation(dict(kind='oracle-failed-on-implementation', oracle=name, message=msg, layer='L2', found_by='focused search after a broken correspondence',
                               request_line=r2['line'], scenario=r2['sc'].describe(), impl=r2['impl'], model=r2['model']))
        else:
            run.violation(dict(kind='correspondence-broken', correspondence=f'L2/{label}', disagreeing_cases=len(disagreements),
                               request_line=r['line'], scenario=r['sc'].describe(), impl=r['impl'], model=r['model'],
                               note='model and implementation differ on this input; the property oracle did not fail on any explored input'), no_input=True)
    return res


def cmd_name(c): return c.split('(')[0]
def cmd_args(c): return c[c.index('(') + 1:-1].split(',') if '(' in c else []
def cmd_path(c):
    a = cmd_args(c)
    return bytes.fromhex(a[0]).decode() if a and cmd_name(c) not in ('SetRoot', 'GetEntries', 'Marker') else None


# ------------------------------------------------------------------ C13

def all_interleavings(a, b):
    n, m = len(a), len(b)
    for pos in itertools.combinations(range(n + m), n):
        out, ia, ib, ps = [], 0, 0, set(pos)
        for i in range(n + m):
            if i in ps:
                out.append(a[ia]); ia += 1
            else:
                out.append(b[ib]); ib += 1
        yield out


def oracle_order(r):
    """each entry deleted before its parent folder; all deletions before any creation; every folder
    created before its contents (evaluated on the implementation's destination trace)"""
    d = r['impl_r'].get('dest', [])
    names = [cmd_name(c) for c in d]
    dels = [i for i, n in enumerate(names) if n.startswith('Delete')]
    crs = [i for i, n in enumerate(names) if n in ('CreateFolder', 'CreateSymlink', 'CreateOrUpdateFile')]
    if dels and crs and max(dels) > min(crs):
        return 'a deletion is issued after a creation'
    deleted_at = {cmd_path(d[i]): i for i in dels}
    for p, i in deleted_at.items():
        par = p.rsplit('/', 1)[0] if '/' in p else ''
        if par != p and par in deleted_at and cmd_name(d[deleted_at[par]]) == 'DeleteFolder' and deleted_at[par] < i:
            return f'{p!r} is deleted after its parent folder {par!r}'
    created_at = {}
    for i in crs:
        created_at.setdefault(cmd_path(d[i]), i)
    listed_src = {e[2] for e in r['sc'].events if e[0] == 'E' and e[1] == 'S'}
    for p, i in created_at.items():
        par = p.rsplit('/', 1)[0] if '/' in p else ''
        if p != '' and par in created_at and created_at[par] > i:
            return f'{p!r} is created before its parent folder {par!r}'
    return None


def plan_sets(r):
    d = r['impl_r'].get('dest', [])
    dels = frozenset(c for c in d if cmd_name(c).startswith('Delete'))
    cps = frozenset((cmd_name(c), cmd_args(c)[0]) for c in d if cmd_name(c) in ('CreateFolder', 'CreateSymlink', 'CreateOrUpdateFile'))
    return dels, cps


@prop('C13')
def check_C13(run):
    if not prepare(run):
        return
    C.proofs_step(run, 'C13')
    run.cov['rule'] = ('L2: real sync() against scripted doers; listings delivered one message at a time in a forced order; '
                       'exhaustive interleavings of small tree pairs + sampled interleavings and sibling permutations of larger ones; '
                       'non-trivial = the plan has at least one deletion and one copy; distinct by request line')
    rng = run.rng
    quick = run.tier == 'quick'
    groups = []       # list of (group id, scenarios) — same tree pair, different timing
    npairs, size = (12, 4) if quick else (12, 6)
    gid = 0
    while len(groups) < npairs:
        base = l2.gen_scenario(rng, profile='folder', faults=False)
        base.beh, base.answers, base.dry, base.filters, base.err_at_cmd = 'ooooo', '', False, [], None
        sev = [e for e in base.events if e[1] == 'S' and e[0] != 'U'][: size] + [('Z', 'S')]
        dev = [e for e in base.events if e[1] == 'D' and e[0] != 'U'][: size] + [('Z', 'D')]
        sev = [e for i, e in enumerate(sev) if e[0] == 'Z' and i == len(sev) - 1 or e[0] == 'E']
        dev = [e for i, e in enumerate(dev) if e[0] == 'Z' and i == len(dev) - 1 or e[0] == 'E']
        scs = []
        for order in all_interleavings(sev, dev):
            s = base.clone(); s.events = order; scs.append(s)
        groups.append((gid, scs)); gid += 1
    # sampled: larger trees, random interleavings and sibling permutations
    for _ in range(20 if quick else 200):
        base = l2.gen_scenario(rng, profile='folder', faults=False)
        base.beh, base.answers, base.dry, base.filters, base.err_at_cmd = 'ooooo', '', False, [], None
        sev = [e for e in base.events if e[1] == 'S' and e[0] == 'E']
        dev = [e for e in base.events if e[1] == 'D' and e[0] == 'E']
        scs = []
        for _ in range(10):
            s2 = l2.linearise(rng, [(e[2], e[3]) for e in sev]); d2 = l2.linearise(rng, [(e[2], e[3]) for e in dev])
            s = base.clone()
            s.events = l2.interleave(rng, [('E', 'S', p, d) for p, d in s2] + [('Z', 'S')], [('E', 'D', p, d) for p, d in d2] + [('Z', 'D')])
            scs.append(s)
        groups.append((gid, scs)); gid += 1
    flat = [s for _, scs in groups for s in scs]
    res = l2_stream(run, flat, [('order', oracle_order)], 'planner-trace',
                    nontrivial=lambda r: any(cmd_name(c).startswith('Delete') for c in r['impl_r'].get('dest', [])) and
                                         any(cmd_name(c).startswith('Create') for c in r['impl_r'].get('dest', [])))
    # oracle independent of the model: same sets across all timings of one tree pair
    i = 0
    for g, scs in groups:
        sets = {}
        for s in scs:
            r = res[i]; i += 1
            if r['impl_r'].get('res') != 'ok':
                continue
            sets.setdefault(plan_sets(r), r)
        if len(sets) > 1:
            a, b = list(sets.values())[:2]
            run.violation(dict(kind='oracle-failed-on-implementation', oracle='same sets for every arrival order', layer='L2',
                               request_line_1=a['line'], request_line_2=b['line'], impl_1=a['impl'], impl_2=b['impl'],
                               scenario_1=a['sc'].describe(), scenario_2=b['sc'].describe()))
        run.count('timing-groups')
    run.cov['trusted_base'] = C.GLOBAL_TRUST + [
        'crossbeam select() delivers whichever stream is ready; the forced order (one message in flight) is the schedule',
        'parent-before-child order inside a listing is the walker\'s guarantee (C17)']
    run.assumptions = ['each path occurs at most once per listing (C17_exactly_once)']


# ------------------------------------------------------------------ main

def main(argv):
    ap = argparse.ArgumentParser()
    ap.add_argument('prop')
    ap.add_argument('rest', nargs='*')
    ap.add_argument('--tier', default=os.environ.get('VERIF_TIER', 'quick'))
    ap.add_argument('--seed', type=int, default=int(os.environ.get('VERIF_SEED', '1')))
    a = ap.parse_args(argv)
    if a.prop == 'replay':
        from . import replay
        return replay.replay(a.rest[0])
    if a.prop not in REGISTRY:
        print(f'unknown property {a.prop}', file=sys.stderr)
        return 2
    tier = a.tier if a.tier in ('quick', 'thorough') else 'quick'
    run = C.Run(a.prop, tier, a.seed)
    REGISTRY[a.prop](run)
    return run.finish()
