"""Per-property checks.  Every check: extract (tie A) -> proofs + axiom audit -> build harness ->
corpus + generated correspondence cases + the property's own oracle -> evidence -> exit status."""
import argparse, itertools, json, os, sys, time
from . import common as C
from . import l2

REGISTRY = {}


def prop(pid):
    def deco(f):
        REGISTRY[pid] = f
        return f
    return deco


def prepare(run, need_harness=True, need_cli=False):
    with C.Lock():
        st = C.run_extractors()
        run.cov['extractors'] = {k: v for k, v in st.items() if k != 'constants'}
        run.extract_status = st
        ok, out = C.lake_build(['rjdriver'])
        if not ok:
            run.model_build_error = out[-4000:]
        else:
            run.model_build_error = None
        if need_harness:
            ok, out = C.build_harness()
            if not ok:
                raise SystemExit('harness build failed (the tree does not compile with hooks on):\n' + out[-3000:])
        if need_cli:
            ok, out = C.build_cli()
            if not ok:
                raise SystemExit('CLI build failed:\n' + out[-3000:])
    if run.model_build_error:
        run.violation(dict(kind='model-does-not-build', note='a generated definition or a model file no longer elaborates',
                           lean_output=run.model_build_error), no_input=True)
        return False
    return True


# ------------------------------------------------------------------ L2 helper

def corpus_l2(prop):
    """minimised past failures and negation witnesses of this property: they run first"""
    d = os.path.join(C.V, 'corpus', prop)
    out = []
    if os.path.isdir(d):
        for f in sorted(os.listdir(d)):
            if f.endswith('.json'):
                j = json.load(open(os.path.join(d, f)))
                if j.get('layer') == 'L2':
                    out.append(l2.Scenario.from_dict(j['scenario']))
    return out


def l2_stream(run, scenarios, oracles, label, nontrivial=None, focus_gen=None):
    """Runs scenarios through model + implementation, evaluates oracles on the implementation's
    output, handles disagreements per DESIGN §2.6."""
    res = l2.run_batch(scenarios)
    disagreements, oracle_fail = [], []
    for r in res:
        ir = r['impl_r']
        nt = nontrivial(r) if nontrivial else True
        run.case((label, r['line']), nt, sample=dict(layer='L2', scenario=r['sc'].describe(), impl=r['impl'][:600]) if nt else None)
        run.count(f'{label}:res:' + str(ir.get('res')))
        run.cov['traces_validated_against_impl'] += 1
        for name, fn in oracles:
            msg = fn(r)
            if msg:
                oracle_fail.append((name, msg, r))
        if not r['agree']:
            disagreements.append(r)
    run.cov['disagreements_checked'] += len(res)
    for name, msg, r in oracle_fail[:3]:
        run.violation(dict(kind='oracle-failed-on-implementation', oracle=name, message=msg, layer='L2',
                           request_line=r['line'], scenario=r['sc'].describe(), impl=r['impl'], model=r['model']))
    if disagreements and not oracle_fail:
        r = disagreements[0]
        found = None
        if focus_gen:
            more = l2.run_batch(focus_gen())
            for r2 in more:
                for name, fn in oracles:
                    msg = fn(r2)
                    if msg:
                        found = (name, msg, r2); break
                if found: break
        if found:
            name, msg, r2 = found
            run.violation(dict(kind='oracle-failed-on-implementation', oracle=name, message=msg, layer='L2', found_by='focused search after a broken correspondence',
                               request_line=r2['line'], scenario=r2['sc'].describe(), impl=r2['impl'], model=r2['model']))
        else:
            run.violation(dict(kind='correspondence-broken', correspondence=f'L2/{label}', disagreeing_cases=len(disagreements),
                               request_line=r['line'], scenario=r['sc'].describe(), impl=r['impl'], model=r['model'],
                               note='model and implementation differ on this input; the property oracle did not fail on any explored input'), no_input=True)
    return res


def cmd_name(c): return c.split('(')[0]
def cmd_args(c): return c[c.index('(') + 1:-1].split(',') if '(' in c else []
def cmd_path(c):
    a = cmd_args(c)
    return bytes.fromhex(a[0]).decode() if a and cmd_name(c) not in ('SetRoot', 'GetEntries', 'Marker') else None


# ------------------------------------------------------------------ C13

def all_interleavings(a, b):
    n, m = len(a), len(b)
    for pos in itertools.combinations(range(n + m), n):
        out, ia, ib, ps = [], 0, 0, set(pos)
        for i in range(n + m):
            if i in ps:
                out.append(a[ia]); ia += 1
            else:
                out.append(b[ib]); ib += 1
        yield out


def oracle_order(r):
    """each entry deleted before its parent folder; all deletions before any creation; every folder
    created before its contents (evaluated on the implementation's destination trace)"""
    d = r['impl_r'].get('dest', [])
    names = [cmd_name(c) for c in d]
    dels = [i for i, n in enumerate(names) if n.startswith('Delete')]
    crs = [i for i, n in enumerate(names) if n in ('CreateFolder', 'CreateSymlink', 'CreateOrUpdateFile')]
    if dels and crs and max(dels) > min(crs):
        return 'a deletion is issued after a creation'
    deleted_at = {cmd_path(d[i]): i for i in dels}
    for p, i in deleted_at.items():
        par = p.rsplit('/', 1)[0] if '/' in p else ''
        if par != p and par in deleted_at and cmd_name(d[deleted_at[par]]) == 'DeleteFolder' and deleted_at[par] < i:
            return f'{p!r} is deleted after its parent folder {par!r}'
    created_at = {}
    for i in crs:
        created_at.setdefault(cmd_path(d[i]), i)
    listed_src = {e[2] for e in r['sc'].events if e[0] == 'E' and e[1] == 'S'}
    for p, i in created_at.items():
        par = p.rsplit('/', 1)[0] if '/' in p else ''
        if p != '' and par in created_at and created_at[par] > i:
            return f'{p!r} is created before its parent folder {par!r}'
    return None


def plan_sets(r):
    d = r['impl_r'].get('dest', [])
    dels = frozenset(c for c in d if cmd_name(c).startswith('Delete'))
    cps = frozenset((cmd_name(c), cmd_args(c)[0]) for c in d if cmd_name(c) in ('CreateFolder', 'CreateSymlink', 'CreateOrUpdateFile'))
    return dels, cps


@prop('C13')
def check_C13(run):
    if not prepare(run):
        return
    C.proofs_step(run, 'C13')
    run.cov['rule'] = ('L2: real sync() against scripted doers; listings delivered one message at a time in a forced order; '
                       'exhaustive interleavings of small tree pairs + sampled interleavings and sibling permutations of larger ones; '
                       'non-trivial = the plan has at least one deletion and one copy; distinct by request line')
    rng = run.rng
    quick = run.tier == 'quick'
    groups = []       # list of (group id, scenarios) — same tree pair, different timing
    npairs, size = (12, 4) if quick else (12, 6)
    gid = 0
    while len(groups) < npairs:
        base = l2.gen_scenario(rng, profile='folder', faults=False)
        base.beh, base.answers, base.dry, base.filters, base.err_at_cmd = 'ooooo', '', False, [], None
        sev = [e for e in base.events if e[1] == 'S' and e[0] != 'U'][: size] + [('Z', 'S')]
        dev = [e for e in base.events if e[1] == 'D' and e[0] != 'U'][: size] + [('Z', 'D')]
        sev = [e for i, e in enumerate(sev) if e[0] == 'Z' and i == len(sev) - 1 or e[0] == 'E']
        dev = [e for i, e in enumerate(dev) if e[0] == 'Z' and i == len(dev) - 1 or e[0] == 'E']
        scs = []
        for order in all_interleavings(sev, dev):
            s = base.clone(); s.events = order; scs.append(s)
        groups.append((gid, scs)); gid += 1
    # sampled: larger trees, random interleavings and sibling permutations
    for _ in range(20 if quick else 200):
        base = l2.gen_scenario(rng, profile='folder', faults=False)
        base.beh, base.answers, base.dry, base.filters, base.err_at_cmd = 'ooooo', '', False, [], None
        sev = [e for e in base.events if e[1] == 'S' and e[0] == 'E']
        dev = [e for e in base.events if e[1] == 'D' and e[0] == 'E']
        scs = []
        for _ in range(10):
            s2 = l2.linearise(rng, [(e[2], e[3]) for e in sev]); d2 = l2.linearise(rng, [(e[2], e[3]) for e in dev])
            s = base.clone()
            s.events = l2.interleave(rng, [('E', 'S', p, d) for p, d in s2] + [('Z', 'S')], [('E', 'D', p, d) for p, d in d2] + [('Z', 'D')])
            scs.append(s)
        groups.append((gid, scs)); gid += 1
    flat = [s for _, scs in groups for s in scs]
    res = l2_stream(run, flat, [('order', oracle_order)], 'planner-trace',
                    nontrivial=lambda r: any(cmd_name(c).startswith('Delete') for c in r['impl_r'].get('dest', [])) and
                                         any(cmd_name(c).startswith('Create') for c in r['impl_r'].get('dest', [])))
    # oracle independent of the model: same sets across all timings of one tree pair
    i = 0
    for g, scs in groups:
        sets = {}
        for s in scs:
            r = res[i]; i += 1
            if r['impl_r'].get('res') != 'ok':
                continue
            sets.setdefault(plan_sets(r), r)
        if len(sets) > 1:
            a, b = list(sets.values())[:2]
            run.violation(dict(kind='oracle-failed-on-implementation', oracle='same sets for every arrival order', layer='L2',
                               request_line_1=a['line'], request_line_2=b['line'], impl_1=a['impl'], impl_2=b['impl'],
                               scenario_1=a['sc'].describe(), scenario_2=b['sc'].describe()))
        run.count('timing-groups')
    run.cov['trusted_base'] = C.GLOBAL_TRUST + [
        'crossbeam select() delivers whichever stream is ready; the forced order (one message in flight) is the schedule',
        'parent-before-child order inside a listing is the walker\'s guarantee (C17)']
    run.assumptions = ['each path occurs at most once per listing (C17_exactly_once)']


# ------------------------------------------------------------------ main

def main(argv):
    ap = argparse.ArgumentParser()
    ap.add_argument('prop')
    ap.add_argument('rest', nargs='*')
    ap.add_argument('--tier', default=os.environ.get('VERIF_TIER', 'quick'))
    ap.add_argument('--seed', type=int, default=int(os.environ.get('VERIF_SEED', '1')))
    a = ap.parse_args(argv)
    if a.prop == 'replay':
        from . import replay
        return replay.replay(a.rest[0])
    if a.prop not in REGISTRY:
        print(f'unknown property {a.prop}', file=sys.stderr)
        return 2
    tier = a.tier if a.tier in ('quick', 'thorough') else 'quick'
    run = C.Run(a.prop, tier, a.seed)
    REGISTRY[a.prop](run)
    return run.finish()


# ------------------------------------------------------------------ C11

def c11_lengths(cfg, thorough):
    first, growth, maxc, small = cfg
    s = {0, 1, 2, small - 1, small, small + 1, first - 1, first, first + 1, first + small - 1, first + small, first + small + 1}
    for k in range(12, 23):
        s |= {2 ** k - 1, 2 ** k, 2 ** k + 1}
    tot, c = 0, first
    while tot < 2 * maxc + first:
        tot += c
        s |= {tot - 1, tot, tot + 1, tot + small - 1, tot + small, tot + small + 1}
        c = min(c * growth, maxc)
    if thorough:
        s |= set(range(0, 2 * first + 2))
    return sorted(x for x in s if x >= 0)


def listed_size(sc, path):
    if path == '':
        d = sc.src_reply[1] if sc.src_reply[0] == 'R' else None
        return int(d.split(':')[2]) if d and d.startswith('F:') else None
    for e in sc.events:
        if e[0] == 'E' and e[1] == 'S' and e[2] == path and e[3].startswith('F:'):
            return int(e[3].split(':')[2])
    return None


def oracle_relay(r):
    """success => for every file fetched, the bytes the source sent total the listed size and were all
    forwarded, the time stamp only on the last chunk"""
    ir, sc = r['impl_r'], r['sc']
    if ir.get('res') != 'ok':
        return None
    scripts = dict(sc.files)
    dest = ir.get('dest', [])
    for c in ir.get('src', []):
        if cmd_name(c) != 'GetFileContent':
            continue
        p = bytes.fromhex(cmd_args(c)[0]).decode()
        size = listed_size(sc, p)
        chunks, total, ended = [], 0, False
        for d, more in scripts.get(p, []):
            chunks.append(d); total += len(d)
            if not more:
                ended = True; break
        if not ended or total != size:
            return f'success although source file {p!r} delivered {total} bytes (terminated={ended}) for a listed size of {size}'
        sent = [cmd_args(x) for x in dest if cmd_name(x) == 'CreateOrUpdateFile' and bytes.fromhex(cmd_args(x)[0]).decode() == p]
        if b''.join(bytes.fromhex(a[1]) for a in sent) != b''.join(chunks):
            return f'destination did not receive the bytes of {p!r}'
        if sent and (sent[-1][2] == '-' or any(a[2] != '-' for a in sent[:-1])):
            return f'time stamp of {p!r} not exactly on the last chunk'
    return None


@prop('C11')
def check_C11(run):
    from . import l3
    import shutil
    if not prepare(run):
        return
    C.proofs_step(run, 'C11')
    consts = run.extract_status.get('constants', {})
    cfg = tuple(consts.get(k) for k in ('firstChunk', 'chunkGrowth', 'maxChunk', 'smallBuf'))
    thorough = run.tier == 'thorough'
    run.cov['rule'] = ('L3: real GetFileContent on real files of boundary lengths (chunk length/flag sequence = model, CRC of every chunk = the file slice); '
                       'real CreateOrUpdateFile sequences onto absent/shorter/longer destination files (bytes and mtime read back); '
                       'L2: chunk relay with growing/shrinking sources; non-trivial = multi-chunk file or a length change; distinct by length / request line')
    if None in cfg:
        run.violation(dict(kind='extraction-broken', what='chunk constants of handle_get_file_contents', status=consts), no_input=True)
        return
    lengths = c11_lengths(cfg, thorough)
    if not thorough:
        small = [x for x in lengths if x <= 70000]
        big = [x for x in lengths if x > 70000]
        lengths = small + run.rng.sample(big, min(len(big), 24))
    model = C.run_model([f'chunks {n}' for n in lengths])
    d = l3.scratch()
    try:
        os.makedirs(os.path.join(d, 'src')); os.makedirs(os.path.join(d, 'dst'))
        lines, datas = [], []
        for i, n in enumerate(lengths):
            data = l3.content(i + run.seed * 7919, n)
            l3.make_tree(os.path.join(d, 'src'), [(f'f{i}', 'F', data, 1_600_000_000_123_456_789 + i)])
            datas.append(data)
            lines.append(l3.l3_line([['SR', C.X(os.path.join(d, 'src'))], ['GFC', C.X(f'f{i}')]], 60000))
        impl = C.run_harness(lines, timeout=1800)
        wlines, wmeta = [], []
        for i, (n, m_ans, (i_ans, _)) in enumerate(zip(lengths, model, impl)):
            resp, status = l3.parse_resp(i_ans) if i_ans.startswith('resp=') else ([], i_ans)
            got = [x for x in resp if x.startswith('FileContent')]
            lens = '[' + ';'.join(','.join([cmd_args(x)[0], cmd_args(x)[2]]) for x in got) + ']'
            nt = len(got) > 1
            run.case(('reader', n), nt, sample=dict(layer='L3', length=n, impl_chunks=lens) if nt else None)
            run.count('reader-files'); run.cov['traces_validated_against_impl'] += 1
            # oracle (independent of the model): concatenation = file, exactly the last flag is 0
            off, ok_or = 0, True
            for j, x in enumerate(got):
                a = cmd_args(x); ln = int(a[0])
                if a[1] != l3.crc(datas[i][off:off + ln]) or (a[2] == '0') != (j == len(got) - 1):
                    ok_or = False
                off += ln
            if off != n or not got or status or len(got) != len(resp) - 1:
                ok_or = False
            if not ok_or:
                run.violation(dict(kind='oracle-failed-on-implementation', oracle='chunks concatenate to the file; exactly the last has more_to_follow=false',
                                   layer='L3', length=n, impl=i_ans[:2000], model=m_ans))
            elif lens != m_ans:
                run.violation(dict(kind='correspondence-broken', correspondence='L3/chunk-sequence', length=n, impl=lens, model=m_ans,
                                   note='bytes are still delivered exactly; the chunking differs from the model'), no_input=True)
            # writer: the model's chunking onto an absent / shorter / longer destination file
            if i % (1 if thorough else 3) == 0 or n < 100:
                pre = ['absent', 'shorter', 'longer'][len(wlines) % 3]
                if pre != 'absent':
                    pl = max(0, n - 5) if pre == 'shorter' else n + 4097
                    l3.make_tree(os.path.join(d, 'dst'), [(f'f{i}', 'F', b'\xee' * pl, 1_000_000_000)])
                chunks = [tuple(map(int, c.split(','))) for c in m_ans[1:-1].split(';')]
                cmds, off = [['SR', C.X(os.path.join(d, 'dst'))]], 0
                srcfile = os.path.join(d, 'src', f'f{i}').encode().hex()
                mt = 1_600_000_000_123_456_789 + i
                for ln, more in chunks:
                    cmds.append(['CUF', C.X(f'f{i}'), f'f{srcfile}:{off}:{ln}', '-' if more else str(mt), str(more)])
                    off += ln
                wlines.append(l3.l3_line(cmds, 60000)); wmeta.append((i, n, pre, mt))
        wres = C.run_harness(wlines, timeout=1800)
        snap = l3.snapshot(os.path.join(d, 'dst'))
        import hashlib
        for (i, n, pre, mt), (ans, _) in zip(wmeta, wres):
            run.case(('writer', n, pre), n > cfg[0], sample=dict(layer='L3', length=n, previous_dest=pre, impl=ans[:200]) if n > cfg[0] else None)
            run.count(f'writer-{pre}'); run.cov['traces_validated_against_impl'] += 1
            e = snap.get(f'f{i}'.encode())
            want = ('F', n, hashlib.sha1(datas[i]).hexdigest(), mt)
            if ans != 'resp=[RootDetails(D,0,47)]' or e != want:
                run.violation(dict(kind='oracle-failed-on-implementation', oracle='destination bytes and mtime equal the source after the last chunk',
                                   layer='L3', length=n, previous_dest=pre, impl=ans[:500], dest_entry=e, want=want))
    finally:
        shutil.rmtree(d, ignore_errors=True)
    # L2 relay: sources that grow / shrink between listing and read
    rng = run.rng
    scs = []
    for _ in range(600 if not thorough else 6000):
        sc = l2.gen_scenario(rng, profile='folder', faults=False)
        sc.beh, sc.answers, sc.dry, sc.filters = 'ooooo', '', False, []
        sc.files = [(p, l2.gen_file_script(rng, sum(len(x) for x, _ in ch), rng.random() < 0.5)) for p, ch in sc.files]
        scs.append(sc)
    l2_stream(run, corpus_l2('C11') + scs, [('relay', oracle_relay)], 'chunk-relay',
              nontrivial=lambda r: any(len(ch) > 1 for _, ch in r['sc'].files))
    run.cov['trusted_base'] = C.GLOBAL_TRUST + ['read(2)/write(2) on the host file system; regular files give full reads (short-read schedules are covered by the theorem only)']
    run.assumptions = ['chunk constants extracted from doer.rs on this run: first=%s growth=%s max=%s small=%s' % cfg]
