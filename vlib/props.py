"""Per-property checks.  Every check: extract (tie A) -> proofs + axiom audit -> build harness ->
corpus + generated correspondence cases + the property's own oracle -> evidence -> exit status."""
import argparse, itertools, json, os, sys, tempfile, time
from . import common as C
from . import l2

REGISTRY = {}
FALLBACKS = {}          # property id (or '*') -> CLI-only searches run when the in-process harness does not build


def prop(pid):
    def deco(f):
        REGISTRY[pid] = f
        return f
    return deco


def prepare(run, need_harness=True, need_cli=False):
    with C.Lock():
        st = C.run_extractors()
        run.cov['extractors'] = {k: v for k, v in st.items() if k != 'constants'}
        run.extract_status = st
        ok, out = C.lake_build(['rjdriver'])
        if not ok:
            run.model_build_error = out[-4000:]
        else:
            run.model_build_error = None
        run.harness_ok = True
        if need_harness:
            ok, out = C.build_harness()
            if not ok:
                # the in-process harness no longer compiles against this tree (a type or signature it uses changed): every L1-L3 tie is
                # broken.  Reported; the check goes on with what does not need the harness (the CLI-based searches for a failing input).
                run.harness_ok = False
                errs = [l for l in out.splitlines() if l.startswith('error')][:6]
                run.violation(dict(kind='harness-does-not-build', note='the in-process harness (which compiles /repo/src and calls it) does not build against this tree: the model-to-code ties through it cannot be evaluated',
                                   compiler_errors=errs, output_tail=out[-1500:]), no_input=True)
                need_cli = True
        if need_cli:
            ok, out = C.build_cli()
            if not ok:
                run.violation(dict(kind='tree-does-not-build', note='cargo build of /repo fails: nothing can be evaluated', output_tail=out[-3000:]), no_input=True)
                return False
    if run.model_build_error:
        run.violation(dict(kind='model-does-not-build', note='a generated definition or a model file no longer elaborates',
                           lean_output=run.model_build_error), no_input=True)
        return False
    return True


# ------------------------------------------------------------------ L2 helper

def corpus_l2(prop):
    """minimised past failures and negation witnesses of this property: they run first"""
    d = os.path.join(C.V, 'corpus', prop)
    out = []
    if os.path.isdir(d):
        for f in sorted(os.listdir(d)):
            if f.endswith('.json'):
                j = json.load(open(os.path.join(d, f)))
                if j.get('layer') == 'L2':
                    out.append(l2.Scenario.from_dict(j['scenario']))
    return out


def l2_stream(run, scenarios, oracles, label, nontrivial=None, focus_gen=None):
    """Runs scenarios through model + implementation, evaluates oracles on the implementation's
    output, handles disagreements per DESIGN §2.6."""
    res = l2.run_batch(scenarios)
    disagreements, oracle_fail = [], []
    for r in res:
        ir = r['impl_r']
        nt = nontrivial(r) if nontrivial else True
        run.case((label, r['line']), nt, sample=dict(layer='L2', scenario=r['sc'].describe(), impl=r['impl'][:600]) if nt else None)
        run.count(f'{label}:res:' + str(ir.get('res')))
        run.cov['traces_validated_against_impl'] += 1
        for name, fn in oracles:
            msg = fn(r)
            if msg:
                oracle_fail.append((name, msg, r))
        if not r['agree']:
            disagreements.append(r)
    run.cov['disagreements_checked'] += len(res)
    for name, msg, r in oracle_fail[:3]:
        run.violation(dict(kind='oracle-failed-on-implementation', oracle=name, message=msg, layer='L2',
                           request_line=r['line'], scenario=r['sc'].describe(), impl=r['impl'], model=r['model']))
    if disagreements and not oracle_fail:
        r = disagreements[0]
        found = None
        if focus_gen:
            more = l2.run_batch(focus_gen())
            for r2 in more:
                for name, fn in oracles:
                    msg = fn(r2)
                    if msg:
                        found = (name, msg, r2); break
                if found: break
        if found:
            name, msg, r2 = found
            run.violation(dict(kind='oracle-failed-on-implementation', oracle=name, message=msg, layer='L2', found_by='focused search after a broken correspondence',
                               request_line=r2['line'], scenario=r2['sc'].describe(), impl=r2['impl'], model=r2['model']))
        else:
            run.violation(dict(kind='correspondence-broken', correspondence=f'L2/{label}', disagreeing_cases=len(disagreements),
                               request_line=r['line'], scenario=r['sc'].describe(), impl=r['impl'], model=r['model'],
                               note='model and implementation differ on this input; the property oracle did not fail on any explored input'), no_input=True)
    return res


def cmd_name(c): return c.split('(')[0]
def cmd_args(c): return c[c.index('(') + 1:-1].split(',') if '(' in c else []
def cmd_path(c):
    a = cmd_args(c)
    return bytes.fromhex(a[0]).decode() if a and cmd_name(c) not in ('SetRoot', 'GetEntries', 'Marker') else None


# ------------------------------------------------------------------ C13

def all_interleavings(a, b):
    n, m = len(a), len(b)
    for pos in itertools.combinations(range(n + m), n):
        out, ia, ib, ps = [], 0, 0, set(pos)
        for i in range(n + m):
            if i in ps:
                out.append(a[ia]); ia += 1
            else:
                out.append(b[ib]); ib += 1
        yield out


def oracle_order(r):
    """each entry deleted before its parent folder; all deletions before any creation; every folder
    created before its contents (evaluated on the implementation's destination trace)"""
    d = r['impl_r'].get('dest', [])
    names = [cmd_name(c) for c in d]
    dels = [i for i, n in enumerate(names) if n.startswith('Delete')]
    crs = [i for i, n in enumerate(names) if n in ('CreateFolder', 'CreateSymlink', 'CreateOrUpdateFile')]
    if dels and crs and max(dels) > min(crs):
        return 'a deletion is issued after a creation'
    deleted_at = {cmd_path(d[i]): i for i in dels}
    for p, i in deleted_at.items():
        par = p.rsplit('/', 1)[0] if '/' in p else ''
        if par != p and par in deleted_at and cmd_name(d[deleted_at[par]]) == 'DeleteFolder' and deleted_at[par] < i:
            return f'{p!r} is deleted after its parent folder {par!r}'
    created_at = {}
    for i in crs:
        created_at.setdefault(cmd_path(d[i]), i)
    listed_src = {e[2] for e in r['sc'].events if e[0] == 'E' and e[1] == 'S'}
    for p, i in created_at.items():
        par = p.rsplit('/', 1)[0] if '/' in p else ''
        if p != '' and par in created_at and created_at[par] > i:
            return f'{p!r} is created before its parent folder {par!r}'
    return None


def plan_sets(r):
    d = r['impl_r'].get('dest', [])
    dels = frozenset(c for c in d if cmd_name(c).startswith('Delete'))
    cps = frozenset((cmd_name(c), cmd_args(c)[0]) for c in d if cmd_name(c) in ('CreateFolder', 'CreateSymlink', 'CreateOrUpdateFile'))
    return dels, cps


@prop('C13')
def check_C13(run):
    if not prepare(run):
        return
    C.proofs_step(run, 'C13')
    from . import trials as _trials; _trials.run_trials(run, 'C13')
    general_l2(run)
    run.cov['rule'] = ('L2: real sync() against scripted doers; listings delivered one message at a time in a forced order; '
                       'exhaustive interleavings of small tree pairs + sampled interleavings and sibling permutations of larger ones; '
                       'non-trivial = the plan has at least one deletion and one copy; distinct by request line')
    rng = run.rng
    quick = run.tier == 'quick'
    groups = []       # list of (group id, scenarios) — same tree pair, different timing
    npairs, size = (12, 4) if quick else (12, 6)
    gid = 0
    while len(groups) < npairs:
        base = l2.gen_scenario(rng, profile='folder', faults=False)
        base.beh, base.answers, base.dry, base.filters, base.err_at_cmd = 'ooooo', '', False, [], None
        sev = [e for e in base.events if e[1] == 'S' and e[0] != 'U'][: size] + [('Z', 'S')]
        dev = [e for e in base.events if e[1] == 'D' and e[0] != 'U'][: size] + [('Z', 'D')]
        sev = [e for i, e in enumerate(sev) if e[0] == 'Z' and i == len(sev) - 1 or e[0] == 'E']
        dev = [e for i, e in enumerate(dev) if e[0] == 'Z' and i == len(dev) - 1 or e[0] == 'E']
        scs = []
        for order in all_interleavings(sev, dev):
            s = base.clone(); s.events = order; scs.append(s)
        groups.append((gid, scs)); gid += 1
    # sampled: larger trees, random interleavings and sibling permutations
    for _ in range(20 if quick else 200):
        base = l2.gen_scenario(rng, profile='folder', faults=False)
        base.beh, base.answers, base.dry, base.filters, base.err_at_cmd = 'ooooo', '', False, [], None
        sev = [e for e in base.events if e[1] == 'S' and e[0] == 'E']
        dev = [e for e in base.events if e[1] == 'D' and e[0] == 'E']
        scs = []
        for _ in range(10):
            s2 = l2.linearise(rng, [(e[2], e[3]) for e in sev]); d2 = l2.linearise(rng, [(e[2], e[3]) for e in dev])
            s = base.clone()
            s.events = l2.interleave(rng, [('E', 'S', p, d) for p, d in s2] + [('Z', 'S')], [('E', 'D', p, d) for p, d in d2] + [('Z', 'D')])
            scs.append(s)
        groups.append((gid, scs)); gid += 1
    # large listings (the ordered maps hold hundreds of keys, most of them matched on both sides), arrival nearly level
    for _ in range(6 if quick else 40):
        n = rng.choice([200, 330, 500])
        names = [f'e{i:03d}' for i in range(n)]
        sev, dev = [], []
        for nm in names:
            r = rng.random()
            t = rng.choice([10 ** 9, 2 * 10 ** 9])
            if r < 0.62: sev.append((nm, f'F:{t}:0')); dev.append((nm, f'F:{t}:0'))
            elif r < 0.78: sev.append((nm, f'F:{t}:0'))
            elif r < 0.94: dev.append((nm, f'F:{t}:0'))
            elif r < 0.97: sev.append((nm, 'D')); dev.append((nm, f'F:{t}:0'))
            else: sev.append((nm, f'F:{2 * t}:0')); dev.append((nm, f'F:{t}:0'))
        base = l2.gen_scenario(rng, profile='folder', faults=False)
        base.beh, base.answers, base.dry, base.filters, base.err_at_cmd = 'ooooo', '', False, [], None
        base.files = [(p, [(b'', False)]) for p, d in sev if d.startswith('F:')]
        scs = []
        for chunk in (1, 3, 7, n):
            for lead in ('S', 'D'):
                rot = rng.randrange(n)
                s2, d2 = sev[rot:] + sev[:rot], dev[rot:] + dev[:rot]
                ev, i, j = [], 0, 0
                while i < len(s2) or j < len(d2):
                    a = [('E', 'S', p, d) for p, d in s2[i:i + chunk]]; b = [('E', 'D', p, d) for p, d in d2[j:j + chunk]]
                    ev += (a + b) if lead == 'S' else (b + a); i += chunk; j += chunk
                s = base.clone(); s.events = ev + [('Z', 'S'), ('Z', 'D')]; scs.append(s)
        groups.append((gid, scs)); gid += 1
    flat = [s for _, scs in groups for s in scs]
    res = l2_stream(run, flat, [('order', oracle_order)], 'planner-trace',
                    nontrivial=lambda r: any(cmd_name(c).startswith('Delete') for c in r['impl_r'].get('dest', [])) and
                                         any(cmd_name(c).startswith('Create') for c in r['impl_r'].get('dest', [])))
    # oracle independent of the model: same sets across all timings of one tree pair
    i = 0
    for g, scs in groups:
        sets = {}
        for s in scs:
            r = res[i]; i += 1
            if r['impl_r'].get('res') != 'ok':
                continue
            sets.setdefault(plan_sets(r), r)
        if len(sets) > 1:
            a, b = list(sets.values())[:2]
            run.violation(dict(kind='oracle-failed-on-implementation', oracle='same sets for every arrival order', layer='L2',
                               request_line_1=a['line'], request_line_2=b['line'], impl_1=a['impl'], impl_2=b['impl'],
                               scenario_1=a['sc'].describe(), scenario_2=b['sc'].describe()))
        run.count('timing-groups')
    # ordered_map.rs itself: the real OrderedMap against the model OMap on long operation sequences
    olines = []
    for _ in range(300 if quick else 3000):
        n = rng.choice([5, 20, 60, 300, 700])
        keys = [str(i) for i in range(max(3, n // 2))]
        ops, live, nops = [], set(), 0
        p_remove = rng.choice([0.2, 0.45])          # (the planner removes most of what it adds when the trees are nearly equal)
        for _ in range(n):
            r = rng.random(); nops += 1
            if r < 0.5 or not live:
                k_ = rng.choice(keys) if rng.random() < 0.3 else str(len(keys) + nops)
                ops += ['a', k_, str(rng.randint(0, 9))]; live.add(k_)
            elif r < 0.6: ops += ['u', rng.choice(sorted(live)), str(rng.randint(0, 9))]
            elif r < 0.6 + p_remove:
                k_ = rng.choice(sorted(live)) if rng.random() < 0.9 else rng.choice(keys)
                ops += ['r', k_]; live.discard(k_)
            elif r < 0.98: ops += ['a', str(len(keys) + nops), '1']; live.add(str(len(keys) + nops))
            else: ops += ['R']
        if rng.random() < 0.05:
            ops += ['u', 'never-added', '1']; nops += 1      # update of a missing key: the unwrap panics (the planner theorem shows it unreachable)
        olines.append('omap %d %s' % (nops, ' '.join(ops)))
    for l, (ia, _), ma in zip(olines, C.run_harness(olines), C.run_model(olines)):
        run.count('omap:' + ('panic' if ia == 'panic' else 'ok')); run.cov['traces_validated_against_impl'] += 1
        if ia != ma:
            run.violation(dict(kind='correspondence-broken', correspondence='L1/ordered-map', request_line=l[:3000], impl=ia[:1500], model=ma[:1500],
                               note='the real OrderedMap and the model differ on this operation sequence (iteration order / content / update of a missing key)'), no_input=True)
            break
    run.cov['disagreements_checked'] += len(olines)
    run.cov['trusted_base'] = C.GLOBAL_TRUST + [
        'crossbeam select() delivers whichever stream is ready; the forced order (one message in flight) is the schedule',
        'parent-before-child order inside a listing is the walker\'s guarantee (C17)']
    run.assumptions = ['each path occurs at most once per listing (C17_exactly_once)']


# ------------------------------------------------------------------ main

def main(argv):
    ap = argparse.ArgumentParser()
    ap.add_argument('prop')
    ap.add_argument('rest', nargs='*')
    ap.add_argument('--tier', default=os.environ.get('VERIF_TIER', 'quick'))
    ap.add_argument('--seed', type=int, default=int(os.environ.get('VERIF_SEED', '1')))
    a = ap.parse_args(argv)
    if a.prop == 'replay':
        from . import replay
        return replay.replay(a.rest[0])
    from . import props2  # noqa: registers C04, C12
    if a.prop not in REGISTRY:
        print(f'unknown property {a.prop}', file=sys.stderr)
        return 2
    tier = a.tier if a.tier in ('quick', 'thorough') else 'quick'
    run = C.Run(a.prop, tier, a.seed)
    try:
        REGISTRY[a.prop](run)
    except Exception:
        import traceback
        tb = traceback.format_exc()
        if getattr(run, 'harness_ok', True):
            # the machinery met something it cannot evaluate (an answer of the implementation it cannot parse, a tool that died): on the
            # unchanged tree this does not happen; after a change the property is no longer shown to hold, so it is reported as such
            C.log('check body stopped:\n' + tb[-3000:])
            run.violation(dict(kind='check-stopped', note='the check could not evaluate the implementation\'s behaviour (see traceback); the property is not shown to hold',
                               traceback=tb[-3000:]), no_input=True)
        else:
            C.log('check body stopped after the harness failed to build:\n' + tb[-1500:])
    if not getattr(run, 'harness_ok', True):
        # search for a failing input with what does not need the harness
        try:
            for fb in FALLBACKS.get(a.prop, []) + FALLBACKS.get('*', []):
                fb(run)
        except Exception:
            import traceback
            C.log('fallback search stopped:\n' + traceback.format_exc()[-1500:])
    return run.finish()


# ------------------------------------------------------------------ C11

def c11_lengths(cfg, thorough):
    first, growth, maxc, small = cfg
    s = {0, 1, 2, small - 1, small, small + 1, first - 1, first, first + 1, first + small - 1, first + small, first + small + 1}
    for k in range(12, 23):
        s |= {2 ** k - 1, 2 ** k, 2 ** k + 1}
    tot, c = 0, first
    while tot < 2 * maxc + first:
        tot += c
        s |= {tot - 1, tot, tot + 1, tot + small - 1, tot + small, tot + small + 1}
        c = min(c * growth, maxc)
    if thorough:
        s |= set(range(0, 2 * first + 2))
    return sorted(x for x in s if x >= 0)


def listed_size(sc, path):
    if path == '':
        d = sc.src_reply[1] if sc.src_reply[0] == 'R' else None
        return int(d.split(':')[2]) if d and d.startswith('F:') else None
    for e in sc.events:
        if e[0] == 'E' and e[1] == 'S' and e[2] == path and e[3].startswith('F:'):
            return int(e[3].split(':')[2])
    return None


def oracle_relay(r):
    """success => for every file fetched, the bytes the source sent total the listed size and were all
    forwarded, the time stamp only on the last chunk"""
    ir, sc = r['impl_r'], r['sc']
    if ir.get('res') != 'ok':
        return None
    scripts = dict(sc.files)
    dest = ir.get('dest', [])
    fetched = [bytes.fromhex(cmd_args(c)[0]).decode() for c in ir.get('src', []) if cmd_name(c) == 'GetFileContent']
    written = []
    for x in dest:
        if cmd_name(x) == 'CreateOrUpdateFile':
            p = bytes.fromhex(cmd_args(x)[0]).decode()
            if p not in written:
                written.append(p)
    for p in fetched + [w for w in written if w not in fetched]:
        size = listed_size(sc, p)
        chunks, total, ended = [], 0, False
        for d, more in scripts.get(p, []):
            chunks.append(d); total += len(d)
            if not more:
                ended = True; break
        if p not in fetched:
            return f'destination file {p!r} was written without reading the source at copy time (it then holds {total} bytes, listed {size})'
        if not ended or total != size:
            return f'success although source file {p!r} delivered {total} bytes (terminated={ended}) for a listed size of {size}'
        sent = [cmd_args(x) for x in dest if cmd_name(x) == 'CreateOrUpdateFile' and bytes.fromhex(cmd_args(x)[0]).decode() == p]
        if b''.join(bytes.fromhex(a[1]) for a in sent) != b''.join(chunks):
            return f'destination did not receive the bytes of {p!r}'
        if sent and (sent[-1][2] == '-' or any(a[2] != '-' for a in sent[:-1])):
            return f'time stamp of {p!r} not exactly on the last chunk'
    return None


def run_under_pty(argv, env, timeout=180, preexec=None):
    """runs a command with a pseudo-terminal as stdin/stdout/stderr (the progress bar and everything that hangs off it only runs on a terminal)"""
    import pty, select, subprocess, time as _t
    m, s_ = pty.openpty()
    p = subprocess.Popen(argv, stdin=s_, stdout=s_, stderr=s_, env=env, close_fds=True, preexec_fn=preexec)
    os.close(s_)
    out, t_end = b'', _t.time() + timeout
    while True:
        r, _, _ = select.select([m], [], [], 0.2)
        if r:
            try:
                d = os.read(m, 65536)
            except OSError:
                d = b''
            if not d:
                break
            out += d
        elif p.poll() is not None:
            break
        if _t.time() > t_end:
            p.kill(); break
    p.wait(); os.close(m)
    return p.returncode, out


def c11_terminal_copy(run):
    """L4 on a terminal: with a live progress bar the boss sends progress markers *between the parts of one file* (every MiB); the copy must
    still be exact.  Files around the marker step, onto absent / longer / shorter destinations; local and remote destination."""
    from . import l3, l4
    import shutil
    if not os.path.exists(C.CLI_BIN):
        return
    thorough = run.tier == 'thorough'
    sb = l4.Sandbox(); sb.place_remote('same')
    try:
        sizes = [0, 5, 4097, (1 << 20) + 1, (2 << 20) - 4096, (2 << 20) + 1, 3 << 20, (5 << 20) + 17] + ([(10 << 20) + 1, 33 << 20] if thorough else [])
        for trial, remote in enumerate([False, True]):
            base = os.path.join(sb.dir, f't{trial}'); src, dst = base + '/src', base + '/dst'; os.makedirs(src + '/sub'); os.makedirs(dst + '/sub')
            want = {}
            for i, n in enumerate(sizes):
                rel = ('sub/' if i % 2 else '') + f'f{i}'
                data = l3.content(i + 77 * trial, n); want[rel] = data
                with open(os.path.join(src, rel), 'wb') as f: f.write(data)
                os.utime(os.path.join(src, rel), ns=(1_600_000_000_000_000_000 + i, 1_600_000_000_000_000_000 + i))
                if i % 3 == 1:
                    with open(os.path.join(dst, rel), 'wb') as f: f.write(b'\xee' * (n + 5000 if i % 2 else max(0, n - 7)))
                    os.utime(os.path.join(dst, rel), ns=(1_500_000_000_000_000_000, 1_500_000_000_000_000_000))
            dest_arg = (('localhost:' + dst + '/') if remote else dst + '/')
            rc, out = run_under_pty([C.CLI_BIN, src + '/', dest_arg] + (['--deploy', 'error'] if remote else []), sb.env({}))
            bad = None
            if rc != 0:
                bad = f'exit status {rc}: {out[-300:]!r}'
            else:
                for rel, data in want.items():
                    try:
                        with open(os.path.join(dst, rel), 'rb') as f: got = f.read()
                    except OSError as e:
                        got = None
                    if got != data:
                        bad = f'{rel}: source {len(data)} bytes, destination {"missing" if got is None else str(len(got)) + " bytes"} after a run that reported success'
                        break
            run.case(('terminal-copy', trial, tuple(sizes)), True, sample=dict(layer='L4', terminal=True, remote_dest=remote, sizes=sizes, exit=rc))
            run.count('terminal-copy:' + ('remote' if remote else 'local')); run.cov['traces_validated_against_impl'] += 1
            if bad:
                run.violation(dict(kind='oracle-failed-on-implementation', layer='L4', oracle='copied bytes equal the source, on a terminal with a live progress bar', message=bad,
                                   sizes=sizes, remote_dest=remote, how='the CLI under a pseudo-terminal (python pty), src/ -> dst/; compare bytes'))
                break
    finally:
        sb.close()


def terminal_failed_delete(run):
    """L4 on a terminal, as uid 65534: a destination symlink (to a file outside the destination, writable) stands where the source has a file;
    its deletion fails (the destination folder is not writable); with a live progress bar the boss sends progress markers between the
    commands - whatever they do to its waiting, nothing may be written through the surviving link and the run ends non-zero."""
    from . import l3, l4
    import shutil
    if not os.path.exists(C.CLI_BIN) or not l4.nobody_can_run():
        run.count('terminal-failed-delete:skipped'); return
    def pre():
        os.setgroups([]); os.setgid(65534); os.setuid(65534)
    sb = l4.Sandbox()
    try:
        os.chmod(sb.dir, 0o755)
        for trial in range(3 if run.tier != 'thorough' else 12):
            base = os.path.join(sb.dir, f'tfd{trial}'); src, dst, out = base + '/src', base + '/dst', base + '/outside'
            os.makedirs(src); os.makedirs(dst); os.makedirs(out); os.chmod(base, 0o777)
            with open(out + '/precious', 'w') as f: f.write('precious')
            os.utime(out + '/precious', ns=(10**18, 10**18)); os.chmod(out, 0o777); os.chmod(out + '/precious', 0o666)
            with open(src + '/f', 'w') as f: f.write('from the source')
            os.utime(src + '/f', ns=(2 * 10**18, 2 * 10**18))
            for k_ in range(trial * 3):            # (more entries before it: the failing deletion is not always the only command)
                with open(src + f'/e{k_}', 'w') as f: f.write('e')
                with open(dst + f'/e{k_}', 'w') as f: f.write('e')
                os.utime(src + f'/e{k_}', ns=(10**18, 10**18)); os.utime(dst + f'/e{k_}', ns=(10**18, 10**18))
            os.symlink('../outside/precious', dst + '/f')
            subprocess_chown = [os.path.join(dp, n) for dp, dn, fn in os.walk(base) for n in dn + fn]
            os.chmod(dst, 0o555)
            before = (open(out + '/precious').read(), os.stat(out + '/precious').st_mtime_ns, sorted(os.listdir(out)))
            rc, outp = run_under_pty([C.CLI_BIN, src + '/', dst + '/', '--dest-entry-needs-deleting', 'delete'], sb.env({}), timeout=120, preexec=pre)
            after = (open(out + '/precious').read(), os.stat(out + '/precious').st_mtime_ns, sorted(os.listdir(out)))
            run.case(('terminal-failed-delete', trial), True, sample=dict(layer='L4', terminal=True, uid=65534, rc=rc, outside_untouched=before == after))
            run.count(f'terminal-failed-delete:rc={rc}'); run.cov['traces_validated_against_impl'] += 1
            os.chmod(dst, 0o755)
            if before != after or rc == 0:
                run.violation(dict(kind='oracle-failed-on-implementation', oracle='a failed deletion of a symlink is followed by no write through it, and the run ends non-zero (on a terminal, with progress markers between the commands)',
                                   layer='L4', rc=rc, outside_before=list(before), outside_after=list(after), output_tail=outp[-400:].decode(errors='replace'),
                                   how='the CLI under a pseudo-terminal as uid 65534; destination folder mode 555 holding a symlink f -> ../outside/precious (mode 666); the source holds a file f'))
                break
            shutil.rmtree(base, ignore_errors=True)
    finally:
        import subprocess as _sp9
        _sp9.run(['chmod', '-R', 'u+rwx', sb.dir], capture_output=True); sb.close()


def c11_concurrent_writer(run):
    from . import l3
    import shutil
    thorough = run.tier == 'thorough'
    # L4: a concurrent writer appends to / truncates source files after they were listed and before they are read.  The channel capacity
    # override keeps the source at most about one file ahead of the destination, so "not yet on the destination by a margin of 15 files"
    # means "not yet read"; the copy order is the directory order (os.scandir = read_dir).  Unchanged code: status 12 "size changed".
    from . import l4
    import subprocess, time as _time
    rng = run.rng
    prepare_cli_ok, _out = C.build_cli()
    sbw = l4.Sandbox()
    try:
        for trial, mode in enumerate(['append', 'truncate', 'append'] if not thorough else ['append', 'truncate'] * 6):
            base = os.path.join(sbw.dir, f'w{trial}'); src, dst = base + '/src', base + '/dst'; os.makedirs(src)
            nfiles, fsize = 70, rng.choice([1000, 4096, 50000])
            for i in range(nfiles):
                with open(os.path.join(src, f'f{i:03d}'), 'wb') as f: f.write(l3.content(i + trial * 1000, fsize))
            order = [e.name for e in os.scandir(src)]
            p_ = subprocess.Popen([C.CLI_BIN, src + '/', dst + '/', '--no-progress'], env=sbw.env({'RJRSSYNC_VERIF_CAPACITY': '20000'}), stdout=subprocess.PIPE, stderr=subprocess.PIPE)
            touched, t_end = [], _time.time() + 60
            while p_.poll() is None and _time.time() < t_end:
                try:
                    have = set(os.listdir(dst))
                except FileNotFoundError:
                    have = set()
                if len(have) >= 10:
                    last = max(order.index(n) for n in have if n in order)
                    for n in order[last + 15:]:
                        fp = os.path.join(src, n)
                        if mode == 'append':
                            with open(fp, 'ab') as f: f.write(b'GROWN' * rng.choice([1, 1000]))
                        else:
                            os.truncate(fp, max(0, fsize - rng.choice([1, 500])))
                        touched.append(n)
                    break
                _time.sleep(0.001)
            try:
                out_, err_ = p_.communicate(timeout=90)
            except subprocess.TimeoutExpired:
                p_.kill(); out_, err_ = p_.communicate()
            rc = p_.returncode
            bad = []
            if rc == 0:
                for n in touched:
                    try:
                        sb_, db_ = open(os.path.join(src, n), 'rb').read(), open(os.path.join(dst, n), 'rb').read()
                    except OSError:
                        continue
                    if sb_ != db_: bad.append((n, len(sb_), len(db_)))
            run.case(('concurrent-writer', mode, trial, fsize), bool(touched), sample=dict(layer='L4', writer=mode, file_bytes=fsize, files_changed_before_their_read=len(touched), rc=rc))
            run.count(f'concurrent-writer:{mode}:' + ('changed-before-read' if touched else 'too-late') + f':rc={rc}'); run.cov['traces_validated_against_impl'] += 1
            if bad or (touched and rc not in (0, 12)):
                run.violation(dict(kind='oracle-failed-on-implementation', oracle='a source file whose length at copy time differs from the listed length makes the run fail; status 0 only with identical bytes', layer='L4',
                                   writer=mode, file_bytes=fsize, rc=rc, files_changed_before_their_read=len(touched), differing=[dict(file=n, source_bytes=a_, dest_bytes=b_) for n, a_, b_ in bad[:4]], stderr=err_.decode(errors='replace')[-400:]))
                break
            shutil.rmtree(base, ignore_errors=True)
    finally:
        sbw.close()


FALLBACKS.setdefault('C11', []).append(c11_concurrent_writer)


@prop('C11')
def check_C11(run):
    from . import l3
    import shutil
    if not prepare(run):
        return
    C.proofs_step(run, 'C11')
    from . import trials as _trials; _trials.run_trials(run, 'C11')
    doer_model_stream(run)
    general_l2(run)
    consts = run.extract_status.get('constants', {})
    cfg = tuple(consts.get(k) for k in ('firstChunk', 'chunkGrowth', 'maxChunk', 'smallBuf'))
    thorough = run.tier == 'thorough'
    run.cov['rule'] = ('L3: real GetFileContent on real files of boundary lengths (chunk length/flag sequence = model, CRC of every chunk = the file slice); '
                       'real CreateOrUpdateFile sequences onto absent/shorter/longer destination files (bytes and mtime read back); '
                       'L2: chunk relay with growing/shrinking sources; non-trivial = multi-chunk file or a length change; distinct by length / request line')
    if None in cfg:
        run.violation(dict(kind='extraction-broken', what='chunk constants of handle_get_file_contents', status=consts), no_input=True)
        return
    lengths = c11_lengths(cfg, thorough)
    if not thorough:
        small = [x for x in lengths if x <= 70000]
        big = [x for x in lengths if x > 70000]
        lengths = small + run.rng.sample(big, min(len(big), 24))
    # byte contents: random for every length; for the lengths around the chunk boundaries also degenerate contents (all zero, a zero
    # last / first chunk, a zero tail that is not chunk aligned, all 0xff, all newlines) — "for all byte contents"
    special = [n for n in lengths if n <= 70000 and (n in (0, 1, cfg[3], cfg[0] - 1, cfg[0], cfg[0] + 1) or n >= cfg[0])]
    if not thorough:
        special = special[::3] + [cfg[0], cfg[0] + cfg[0] * cfg[1], cfg[0] + cfg[0] * cfg[1] + cfg[0] * cfg[1] * cfg[1]]
    classes = ['rand'] * len(lengths)
    for j, n in enumerate(special):
        lengths.append(n); classes.append(['zero', 'zerolast', 'zerofirst', 'zerotail', 'ff', 'nl'][j % 6])
    model = C.run_model([f'chunks {n}' for n in lengths])
    def content_of(i, n, cls, m_ans):
        data = l3.content(i + run.seed * 7919, n)
        ch = [int(c.split(',')[0]) for c in m_ans[1:-1].split(';')] if m_ans.startswith('[') else [n]
        if cls == 'zero': return bytes(n)
        if cls == 'ff': return b'\xff' * n
        if cls == 'nl': return b'\n' * n
        if cls == 'zerolast': return data[:n - ch[-1]] + bytes(ch[-1])
        if cls == 'zerofirst': return bytes(ch[0]) + data[ch[0]:]
        if cls == 'zerotail': return data[:n // 3] + bytes(n - n // 3)
        return data
    d = l3.scratch()
    try:
        os.makedirs(os.path.join(d, 'src')); os.makedirs(os.path.join(d, 'dst'))
        lines, datas = [], []
        for i, n in enumerate(lengths):
            data = content_of(i, n, classes[i], model[i])
            run.count('content:' + classes[i])
            l3.make_tree(os.path.join(d, 'src'), [(f'f{i}', 'F', data, 1_600_000_000_123_456_789 + i)])
            datas.append(data)
            lines.append(l3.l3_line([['SR', C.X(os.path.join(d, 'src'))], ['GFC', C.X(f'f{i}')]], 60000))
        impl = C.run_harness(lines, timeout=1800)
        wlines, wmeta = [], []
        for i, (n, m_ans, (i_ans, _)) in enumerate(zip(lengths, model, impl)):
            resp, status = l3.parse_resp(i_ans) if i_ans.startswith('resp=') else ([], i_ans)
            got = [x for x in resp if x.startswith('FileContent')]
            lens = '[' + ';'.join(','.join([cmd_args(x)[0], cmd_args(x)[2]]) for x in got) + ']'
            nt = len(got) > 1
            run.case(('reader', n), nt, sample=dict(layer='L3', length=n, impl_chunks=lens) if nt else None)
            run.count('reader-files'); run.cov['traces_validated_against_impl'] += 1
            # oracle (independent of the model): concatenation = file, exactly the last flag is 0
            off, ok_or = 0, True
            for j, x in enumerate(got):
                a = cmd_args(x); ln = int(a[0])
                if a[1] != l3.crc(datas[i][off:off + ln]) or (a[2] == '0') != (j == len(got) - 1):
                    ok_or = False
                off += ln
            if off != n or not got or status or len(got) != len(resp) - 1:
                ok_or = False
            if not ok_or:
                run.violation(dict(kind='oracle-failed-on-implementation', oracle='chunks concatenate to the file; exactly the last has more_to_follow=false',
                                   layer='L3', length=n, impl=i_ans[:2000], model=m_ans))
            elif lens != m_ans:
                run.violation(dict(kind='correspondence-broken', correspondence='L3/chunk-sequence', length=n, impl=lens, model=m_ans,
                                   note='bytes are still delivered exactly; the chunking differs from the model'), no_input=True)
            # writer: the model's chunking onto an absent / shorter / longer destination file
            if i % (1 if thorough else 3) == 0 or n < 100 or classes[i] != 'rand':
                pre = ['absent', 'shorter', 'longer'][len(wlines) % 3]
                if pre != 'absent':
                    pl = max(0, n - 5) if pre == 'shorter' else n + 4097
                    l3.make_tree(os.path.join(d, 'dst'), [(f'f{i}', 'F', b'\xee' * pl, 1_000_000_000)])
                chunks = [tuple(map(int, c.split(','))) for c in m_ans[1:-1].split(';')]
                cmds, off = [['SR', C.X(os.path.join(d, 'dst'))]], 0
                srcfile = os.path.join(d, 'src', f'f{i}').encode().hex()
                mt = 1_600_000_000_123_456_789 + i
                for ln, more in chunks:
                    cmds.append(['CUF', C.X(f'f{i}'), f'f{srcfile}:{off}:{ln}', '-' if more else str(mt), str(more)])
                    off += ln
                wlines.append(l3.l3_line(cmds, 60000)); wmeta.append((i, n, pre, mt))
        wres = C.run_harness(wlines, timeout=1800)
        snap = l3.snapshot(os.path.join(d, 'dst'))
        import hashlib
        for (i, n, pre, mt), (ans, _) in zip(wmeta, wres):
            run.case(('writer', n, pre), n > cfg[0], sample=dict(layer='L3', length=n, previous_dest=pre, impl=ans[:200]) if n > cfg[0] else None)
            run.count(f'writer-{pre}'); run.cov['traces_validated_against_impl'] += 1
            e = snap.get(f'f{i}'.encode())
            want = ('F', n, hashlib.sha1(datas[i]).hexdigest(), mt)
            if ans != 'resp=[RootDetails(D,0,47)]' or e != want:
                run.violation(dict(kind='oracle-failed-on-implementation', oracle='destination bytes and mtime equal the source after the last chunk',
                                   layer='L3', length=n, previous_dest=pre, impl=ans[:500], dest_entry=e, want=want))
    finally:
        shutil.rmtree(d, ignore_errors=True)
    c11_concurrent_writer(run)
    c11_terminal_copy(run)
    c14_linksz_sweep(run)          # file parts of every size near a power of two through the real encrypted link (shared with C14)
    # L2 relay: sources that grow / shrink between listing and read
    rng = run.rng
    scs = []
    for _ in range(600 if not thorough else 6000):
        sc = l2.gen_scenario(rng, profile='folder', faults=False)
        sc.beh, sc.answers, sc.dry, sc.filters = 'ooooo', '', False, []
        sc.files = [(p, l2.gen_file_script(rng, sum(len(x) for x, _ in ch), rng.random() < 0.5)) for p, ch in sc.files]
        scs.append(sc)
    l2_stream(run, corpus_l2('C11') + scs, [('relay', oracle_relay)], 'chunk-relay',
              nontrivial=lambda r: any(len(ch) > 1 for _, ch in r['sc'].files))
    run.cov['trusted_base'] = C.GLOBAL_TRUST + ['read(2)/write(2) on the host file system; regular files give full reads (short-read schedules are covered by the theorem only)']
    run.assumptions = ['chunk constants extracted from doer.rs on this run: first=%s growth=%s max=%s small=%s' % cfg]


# ------------------------------------------------------------------ C16

C16_FIELDS = [  # (spec-file key, CLI flag, proceed word, documented default)
    ('dest_file_newer_behaviour', '--dest-file-newer', 'overwrite', 'p'),
    ('dest_file_older_behaviour', '--dest-file-older', 'overwrite', 'o'),
    ('files_same_time_behaviour', '--files-same-time', 'overwrite', 's'),
    ('dest_entry_needs_deleting_behaviour', '--dest-entry-needs-deleting', 'delete', 'o'),
    ('dest_root_needs_deleting_behaviour', '--dest-root-needs-deleting', 'delete', 'p'),
]
BEH_WORD = {'p': 'prompt', 'e': 'error', 's': 'skip'}
BEH_DEBUG = {'p': 'Prompt', 'e': 'Error', 's': 'Skip'}
DEPLOY_WORD = {'p': 'prompt', 'e': 'error', 'k': 'ok', 'f': 'force'}


def beh_word(b, proceed):
    return proceed if b == 'o' else BEH_WORD[b]


def doc_rule(default, spec, all_, flag):
    """the documented precedence, written down independently of model and code"""
    if flag:
        return flag
    base = spec or default
    if all_ and base != 's':
        return all_
    return base


class C16Case:
    """abstract case: optional spec file (list of syncs + root keys) and command-line options"""
    def __init__(self):
        self.spec_text = None; self.src = None; self.dest = None
        self.filters = []; self.deploy = None; self.flags = [None] * 5; self.all = None; self.dry = False
        self.expect = None   # oracle expectation for one field: (sync idx, field idx, value letter)

    def argv(self, spec_path):
        a = []
        if self.spec_text is not None:
            a += ['--spec', spec_path]
        else:
            a += [self.src, self.dest]
        for f in self.filters:
            a += ['--filter', f]
        if self.deploy:
            a += ['--deploy', DEPLOY_WORD[self.deploy]]
        for (key, flag, proceed, _), v in zip(C16_FIELDS, self.flags):
            if v:
                a += [flag, beh_word(v, proceed)]
        if self.all:
            a += ['--all-destructive-behaviour', 'proceed' if self.all == 'o' else BEH_WORD[self.all]]
        if self.dry:
            a.append('--dry-run')
        return a

    def model_line(self, ytoks):
        t = ['resolve', C.X(self.src) if self.src is not None and self.spec_text is None else '-',
             C.X(self.dest) if self.dest is not None and self.spec_text is None else '-',
             '1' if self.spec_text is not None else '0', str(len(self.filters))] + [C.X(f) for f in self.filters]
        t.append(self.deploy or '-')
        t += [v or '-' for v in self.flags] + [self.all or '-', str(int(self.dry))]
        return ' '.join(t) + ' ' + ytoks


def c16_run_cases(run, cases, label):
    import tempfile, shutil
    d = tempfile.mkdtemp(prefix='rjv-c16-')
    try:
        ylines, paths = [], []
        for i, c in enumerate(cases):
            p = os.path.join(d, f's{i}.yaml')
            if c.spec_text is not None:
                open(p, 'w').write(c.spec_text)
            paths.append(p)
            ylines.append('yaml ' + C.X(c.spec_text if c.spec_text is not None else ''))
        yt = [a for a, _ in C.run_harness(ylines)]
        impl = [a for a, _ in C.run_harness(['resolve ' + ' '.join([str(len(c.argv(p)))] + [C.X(x) for x in c.argv(p)]) for c, p in zip(cases, paths)])]
        model = C.run_model([c.model_line(y if c.spec_text is not None else 'YN') for c, y in zip(cases, yt)])
    finally:
        shutil.rmtree(d, ignore_errors=True)
    bad = []
    for c, y, i_ans, m_ans in zip(cases, yt, impl, model):
        run.case((label, c.spec_text, tuple(c.argv('SPEC'))), True,
                 sample=dict(layer='L1', argv=c.argv('SPEC'), spec_file=c.spec_text, impl=i_ans[:400]))
        run.count(f'{label}:{i_ans.split(":")[0]}' + (':' + i_ans.split(':')[1] if i_ans.startswith('err') else ''))
        run.cov['traces_validated_against_impl'] += 1
        # oracle: documented rule on the field this case is about
        if c.expect and c.expect != 'reject' and c.expect[0] != 'paths' and i_ans.startswith('ok:'):
            si, fi, want = c.expect
            syncs = i_ans[i_ans.index('[') + 1:].split(';')
            got = syncs[si].rstrip(')]').split(',')[-5:][fi] if si < len(syncs) else None
            wantw = {'p': 'Prompt', 'e': 'Error', 's': 'Skip', 'o': 'Overwrite' if fi < 3 else 'Delete'}[want]
            if got != wantw:
                run.violation(dict(kind='oracle-failed-on-implementation', oracle='documented precedence', layer='L1', argv=c.argv('SPEC'),
                                   spec_file=c.spec_text, field=C16_FIELDS[fi][0], want=wantw, got=got, impl=i_ans, model=m_ans))
                continue
        if isinstance(c.expect, tuple) and c.expect and c.expect[0] == 'paths':
            # the strings a spec file states for src / dest are taken as they are (as SRC DEST on the command line would be)
            want_s, want_d = c.expect[1], c.expect[2]
            import re as _re5
            m5 = _re5.search(r'Sync\(x([0-9a-f]*),x([0-9a-f]*),', i_ans)
            got_s, got_d = (bytes.fromhex(m5.group(1)).decode(errors='replace'), bytes.fromhex(m5.group(2)).decode(errors='replace')) if m5 else (None, None)
            if not i_ans.startswith('ok:') or (got_s, got_d) != (want_s, want_d):
                run.violation(dict(kind='oracle-failed-on-implementation', oracle='the src / dest strings of a spec file are used exactly as written (what SRC DEST on the command line would give)', layer='L1',
                                   spec_file=c.spec_text, want=[want_s, want_d], got=[got_s, got_d], impl=i_ans[:500], model=m_ans[:300]))
                continue
        if c.expect == 'reject' and not i_ans.startswith('err'):
            run.violation(dict(kind='oracle-failed-on-implementation', oracle='malformed spec file is rejected', layer='L1',
                               argv=c.argv('SPEC'), spec_file=c.spec_text, impl=i_ans, model=m_ans))
            continue
        if i_ans != m_ans:
            bad.append((c, i_ans, m_ans, y))
    run.cov['disagreements_checked'] += len(cases)
    if bad:
        c, i_ans, m_ans, y = bad[0]
        run.violation(dict(kind='correspondence-broken', correspondence=f'L1/{label}', disagreeing_cases=len(bad), argv=c.argv('SPEC'),
                           spec_file=c.spec_text, yaml_value=y, impl=i_ans, model=m_ans,
                           note='model and implementation resolve this input differently; the documented-precedence oracle did not fail'), no_input=True)


def spec_text_for(syncs, root=None):
    lines = []
    for k, v in (root or {}).items():
        lines.append(f'{k}: {v}')
    lines.append('syncs:')
    for s in syncs:
        first = True
        for k, v in s.items():
            lines.append(('  - ' if first else '    ') + f'{k}: {v}')
            first = False
    return '\n'.join(lines) + '\n'


@prop('C16')
def check_C16(run):
    if not prepare(run):
        return
    def on_broken(failed):
        return None   # the exhaustive product below is the search: it runs anyway and reports the failing argv
    C.proofs_step(run, 'C16', on_broken)
    from . import trials as _trials; _trials.run_trials(run, 'C16')
    st = run.extract_status
    broken = {k: v for k, v in st.items() if isinstance(v, str) and 'not recognised' in v and
              k.split(':')[0] in ('default', 'all-destructive', 'flag-override', 'filters-replace', 'deploy-override')}
    if broken:
        run.cov['extraction_unrecognised'] = broken
    rng = run.rng
    thorough = run.tier == 'thorough'
    run.cov['rule'] = ('L1: the real clap parser + resolve_spec (+ yaml-rust + parse_spec_file) on argument vectors and spec files; '
                       'the whole per-field product {absent,4}^3 x 5 fields exhaustively, random joint assignments with several syncs, '
                       'mutated spec texts, path-argument strings; oracle = documented precedence written independently; every case non-trivial; distinct by (argv, spec text)')
    cases = []
    vals = [None, 'p', 'e', 's', 'o']
    for fi, (key, flag, proceed, dflt) in enumerate(C16_FIELDS):
        for spec in vals:
            for all_ in vals:
                for fl in vals:
                    c = C16Case()
                    s = {'src': 'a', 'dest': 'b'}
                    if spec:
                        s[key] = beh_word(spec, proceed)
                    c.spec_text = spec_text_for([s])
                    c.all = all_; c.flags[fi] = fl
                    c.expect = (0, fi, doc_rule(dflt, spec, all_, fl))
                    cases.append(c)
        # without a spec file
        for all_ in vals:
            for fl in vals:
                c = C16Case(); c.src, c.dest = 'h:a', 'b'
                c.all = all_; c.flags[fi] = fl
                c.expect = (0, fi, doc_rule(dflt, None, all_, fl))
                cases.append(c)
    c16_run_cases(run, cases, 'per-field-product')
    run.cov['exhaustive_per_field_product'] = True
    # joint assignments
    cases = []
    for _ in range(600 if not thorough else 6000):
        c = C16Case()
        nsync = rng.choice([0, 1, 1, 2, 3])
        use_spec = rng.random() < 0.7
        c.all = rng.choice(vals); c.flags = [rng.choice(vals) for _ in range(5)]
        c.deploy = rng.choice([None, 'p', 'e', 'k', 'f']); c.dry = rng.random() < 0.3
        c.filters = rng.sample(['+a', '-b.*', '+.*\\.txt', '-'], rng.choice([0, 0, 1, 2]))
        if use_spec:
            syncs, specvals = [], []
            for _ in range(nsync):
                s = {'src': rng.choice(['a', '/x/y', 'C:\\\\d', '"q r"']), 'dest': rng.choice(['b', 'd/', '"é"'])}
                sv = []
                for key, _, proceed, dflt in C16_FIELDS:
                    v = rng.choice(vals); sv.append(v)
                    if v:
                        w = beh_word(v, proceed)
                        s[key] = rng.choice([w, w.upper(), w.capitalize()])
                if rng.random() < 0.4:
                    s['filters'] = rng.choice(['[ "+x", "-y" ]', '[]', '["-z"]'])
                syncs.append(s); specvals.append(sv)
            root = {}
            if rng.random() < 0.4: root['src_hostname'] = 'h1'
            if rng.random() < 0.3: root['dest_username'] = 'u2'
            if rng.random() < 0.3: root['deploy_behaviour'] = rng.choice(['ok', 'Force', 'error', 'prompt'])
            c.spec_text = spec_text_for(syncs, root) if nsync else 'syncs: []\n'
            if nsync:
                si, fi = rng.randrange(nsync), rng.randrange(5)
                c.expect = (si, fi, doc_rule(C16_FIELDS[fi][3], specvals[si][fi], c.all, c.flags[fi]))
        else:
            c.src = rng.choice(['a', 'u@h:p', 'h:p', 'C:\\x', 'C:', 'ab:c', '@h:p', 'u@:p', ':p', 'h:', 'é:x', 'a:b:c', 'u@h@i:p'])
            c.dest = rng.choice(['b', 'h2:/d/', 'D:\\y\\'])
            fi = rng.randrange(5)
            c.expect = (0, fi, doc_rule(C16_FIELDS[fi][3], None, c.all, c.flags[fi]))
        cases.append(c)
    c16_run_cases(run, cases, 'joint')
    # mutated spec texts
    good = spec_text_for([{'src': 'a', 'dest': 'b', 'filters': '[ "+x" ]', 'dest_file_newer_behaviour': 'error'}, {'src': 'c', 'dest': 'd'}],
                         {'src_hostname': 'h', 'deploy_behaviour': 'ok'})
    bad_specs = ['', '[1, 2]', 'just a string', 'syncs: 3', 'syncs: [ 1 ]', 'syncs: [ [ ] ]', 'syncs:\n  - src: a\n', 'syncs:\n  - dest: b\n',
                 'syncs:\n  - src: ""\n    dest: b\n', 'syncs:\n  - src: a\n    dest: ""\n', 'syncs:\n  - src: a\n    dest: b\n    bogus: 1\n',
                 'bogus: 1\nsyncs: []\n', 'syncs:\n  - src: a\n    dest: b\n    filters: "+x"\n', 'syncs:\n  - src: a\n    dest: b\n    filters: [ 1 ]\n',
                 'syncs:\n  - src: a\n    dest: b\n    dest_file_newer_behaviour: maybe\n', 'syncs:\n  - src: a\n    dest: b\n    dest_entry_needs_deleting_behaviour: overwrite\n',
                 'syncs:\n  - src: 5\n    dest: b\n', 'src_hostname: [a]\nsyncs: []\n', 'deploy_behaviour: proceed\nsyncs: []\n', '1: 2\n', 'syncs: [\n', '{ unbalanced',
                 'syncs:\n  - src: a\n    dest: b\n    1: 2\n', 'syncs:\n  - src: a\n    dest: b\n    dest_root_needs_deleting_behaviour: [delete]\n',
                 '? [complex, key]\n: value\n', 'syncs: ~\n', 'syncs: {a: b}\n']
    cases = []
    for t in bad_specs:
        c = C16Case(); c.spec_text = t; c.expect = 'reject'; cases.append(c)
    toks = ['syncs', 'src', 'dest', ':', '-', '[', ']', '"', '\n', '  ', 'filters', 'error', '1', '~', '&a', '*a', '---\n', '#', '{', '}', ',', 'é', 'deploy_behaviour']
    for _ in range(200 if not thorough else 3000):
        t = good
        for _ in range(rng.randint(1, 3)):
            i = rng.randrange(len(t) + 1)
            r = rng.random()
            if r < 0.4:
                t = t[:i] + rng.choice(toks) + t[i:]
            elif r < 0.7:
                j = min(len(t), i + rng.randint(1, 8)); t = t[:i] + t[j:]
            else:
                j = min(len(t), i + rng.randint(1, 8)); t = t[:i] + t[i:j] + t[i:]
        c = C16Case(); c.spec_text = t; cases.append(c)
    import json as _json5
    for sv, dv in [(' in', 'out'), ('in', 'out '), ('in ', ' out'), ('\tin', 'out'), ('in', 'out\n'), ('in', ' '), ('a  b', 'c\u00a0'), ('./in/', 'out/ '), (' h:in', 'out'), ('in', '\u3000out')]:
        c = C16Case(); c.spec_text = f'syncs:\n  - src: {_json5.dumps(sv)}\n    dest: {_json5.dumps(dv)}\n'; c.expect = ('paths', sv, dv); cases.append(c)
    c16_run_cases(run, cases, 'spec-text')
    # spec files that are not text at all: bytes that are not valid UTF-8 (a lone 0xE9, a truncated sequence, an overlong form, UTF-16) in a path,
    # a key, a comment: rejected before anything is touched (the documented behaviour: exit status 18); never silently re-spelled
    import tempfile as _tf, shutil as _sh
    d_ = _tf.mkdtemp(prefix='rjv-c16b-')
    try:
        goodb = b'syncs:\n  - src: a/\n    dest: out/cafe\n    # comment\n'
        bads = [goodb.replace(b'cafe', b'caf\xe9'), goodb.replace(b'comment', b'comm\xff nt'), goodb.replace(b'src', b's\xc3c'), goodb.replace(b'cafe', b'caf\xc3'), goodb.replace(b'cafe', b'\xc0\xaf'),
                goodb.replace(b'a/', b'\xed\xa0\x80/'), goodb.decode().encode('utf-16'), goodb + b'\x80', b'\xfe\xff' + goodb]
        blines = []
        for i, bb in enumerate(bads):
            fp = os.path.join(d_, f'b{i}.yaml'); open(fp, 'wb').write(bb)
            argv = ['--spec', fp]
            blines.append('resolve ' + ' '.join([str(len(argv))] + [C.X(x) for x in argv]))
        bans = [a_ for a_, _ in C.run_harness(blines)]
        for bb, a_ in zip(bads, bans):
            run.case(('spec-bytes', bb), True, sample=dict(layer='L1', spec_file_bytes=bb.hex()[:120], impl=a_[:200]) if bb is bads[0] else None)
            run.count('spec-bytes:' + a_.split(':')[0]); run.cov['traces_validated_against_impl'] += 1
            if not a_.startswith('err'):
                run.violation(dict(kind='oracle-failed-on-implementation', oracle='a spec file that is not valid UTF-8 is rejected, not re-spelled', layer='L1', spec_file_bytes=bb.hex(), impl=a_[:600]))
                break
    finally:
        _sh.rmtree(d_, ignore_errors=True)
    # path arguments
    strs = ['', 'f', 'h:f', 'u@h:f', 'C:', 'C:\\', 'C:\\x', 'C:x', 'C:/x', 'ab:\\x', '@h:f', 'u@:f', ':f', 'h:', 'u@h:', 'u@h@i:f', 'a:b:c', 'é:', 'é:\\x', '1:\\', 'h:\\x', ' :x', 'u@h', '@', 'a@b@c', '::', ':', 'x:', '\\:a']
    strs += [''.join(rng.choice(['a', ':', '@', '\\', 'C', 'é', '/']) for _ in range(rng.randint(0, 6))) for _ in range(400 if not thorough else 5000)]
    impl = [a for a, _ in C.run_harness(['rpd ' + C.X(s) for s in strs])]
    model = C.run_model(['rpd ' + C.X(s) for s in strs])
    # "a sync described in a spec file behaves exactly like the same sync given as SRC DEST": the argument [user@]host:path must
    # resolve to the (user, host, path) a spec file would state.  Independent rule (from the --help text): the only exception is the
    # Windows drive syntax, one letter + ':' + backslash, which is a local path.
    triples = []
    for host in ['b', 'C', 'ab', 'h1', 'é', 'host.example']:
        for user in ['', 'u', 'user.name']:
            for path_ in ['/srv/x', 'rel/p', '/', '~/d', 'C:\\x', 'a:b', '/x:y', 'x y', './p', '//x', 'é']:
                triples.append((user, host, path_))
    tstrs = [(u + '@' if u else '') + h + ':' + p_ for u, h, p_ in triples]
    timpl = [a for a, _ in C.run_harness(['rpd ' + C.X(s_) for s_ in tstrs])]
    for (u, h, p_), s_, i_ans in zip(triples, tstrs, timpl):
        run.case(('rpd-triple', s_), True, sample=None); run.count('path-arg:user-host-path'); run.cov['traces_validated_against_impl'] += 1
        want = f'ok:x{u.encode().hex()},x{h.encode().hex()},x{p_.encode().hex()}'
        if i_ans != want:
            run.violation(dict(kind='oracle-failed-on-implementation', oracle='SRC/DEST given as [user@]host:path names the same (user, host, path) as the spec-file keys *_username / *_hostname / src|dest', layer='L1',
                               argument=s_, expected=dict(user=u, host=h, path=p_), impl=i_ans))
            break
    for s, i_ans, m_ans in zip(strs, impl, model):
        run.case(('rpd', s), ':' in s, sample=None)
        run.count('path-arg:' + i_ans[:3]); run.cov['traces_validated_against_impl'] += 1
        if i_ans != m_ans:
            run.violation(dict(kind='correspondence-broken', correspondence='L1/path-argument', input=s, impl=i_ans, model=m_ans), no_input=True)
            break
    run.cov['disagreements_checked'] += len(strs)
    run.cov['trusted_base'] = C.GLOBAL_TRUST + ['yaml-rust (text -> value) and clap (argv -> options) are used as they are; the model starts at the YAML value and at the option values',
                                                'extractor extract_more.defaults: recognises the five all-destructive blocks, the five flag overrides, the defaults']
    run.assumptions = ['extraction status: ' + json.dumps(broken)] if broken else []


# ------------------------------------------------------------------ C06

def c06_paths(rng):
    names = ['build', 'builder.txt', 'dist', 'mydist', 'distx', 'a', 'b', 'ab', 'a.b', 'src', 'x y', 'é', 'A', 'Build', 'ok.txt', 'c_d', 'a-1', 'new\nline', 'a\nb', '\n', 'tab\there', 'b\r']
    paths = set()
    for _ in range(rng.randint(3, 8)):
        p = '/'.join(rng.choice(names) for _ in range(rng.randint(1, 3)))
        paths.add(p)
    paths.add('')
    return sorted(paths)


@prop('C06')
def check_C06(run):
    from . import regexgen as G
    if not prepare(run):
        return
    rng = run.rng
    thorough = run.tier == 'thorough'
    run.cov['rule'] = ('L1: the real compile_filters + apply_filters on generated (filter list, path) pairs; patterns from a grammar over the modelled subset '
                       '(literals that are prefixes/suffixes/substrings of the paths, classes, quantifiers, groups, top-level and nested alternation, (?i:), anchors, {n,m}); '
                       'oracle = every pattern compiled as \\A(?:p)\\z by the regex crate + the documented fold rule; an out-of-subset stream is judged by the oracle only; '
                       'non-trivial = some filter has alternation/quantifier and the verdicts over the paths are not all equal; distinct by request line')
    cases = []   # (filters text, filter asts or None, paths)
    for _ in range(1500 if not thorough else 30000):
        paths = c06_paths(rng)
        words = [w for p in paths for w in p.split('/') if w] or ['a']
        nf = rng.choice([0, 1, 1, 2, 3, 4])
        asts = [(rng.choice('+-'), ('e',) if rng.random() < 0.06 else G.gen_re(rng, rng.randint(0, 3), words)) for _ in range(nf)]
        cases.append(([s + ('' if a == ('e',) else G.render(a, 0, rng)) for s, a in asts], asts, paths))
    for _ in range(300 if not thorough else 5000):
        paths = c06_paths(rng)
        fl = [rng.choice('+-') + rng.choice(G.OUT_OF_SUBSET) for _ in range(rng.randint(1, 3))]
        cases.append((fl, None, paths))
    # corpus first
    cd = os.path.join(C.V, 'corpus', 'C06')
    corpus = []
    if os.path.isdir(cd):
        for f in sorted(os.listdir(cd)):
            j = json.load(open(os.path.join(cd, f)))
            corpus.append((j['filters'], None, j['paths']))
    cases = corpus + cases
    hlines = ['filt ' + ' '.join([str(len(f))] + [C.X(x) for x in f] + [str(len(p))] + [C.X(x) for x in p]) for f, _, p in cases]
    impl = [a for a, _ in C.run_harness(hlines)]
    midx = [i for i, c in enumerate(cases) if c[1] is not None]
    mlines = []
    for i in midx:
        f, asts, p = cases[i]
        t = ['filt', str(len(asts))]
        for s, a in asts:
            t += [s] + G.tokens(a)
        t += [str(len(p))] + [C.X(x) for x in p]
        mlines.append(' '.join(t))
    model = dict(zip(midx, C.run_model(mlines)))
    oracle_fail, disagree = [], []
    for i, ((f, asts, p), ans) in enumerate(zip(cases, impl)):
        iv = ans.split(' ')[0].split('=')[1] if ans.startswith('impl=') else ans
        ov = ans.split(' ')[1].split('=')[1] if ' oracle=' in ans else '?'
        nt = bool(asts) and any(G.has(a, ('|', '*', '+', '?', 'rep')) for _, a in asts) and len(set(iv)) > 1
        run.case(('filt', tuple(f), tuple(p)), nt, sample=dict(layer='L1', filters=f, paths=p, impl=iv, oracle=ov) if nt else None)
        run.count('filters:' + ('in-subset' if asts is not None else 'out-of-subset') + (':err' if iv in ('err', 'panic') else ''))
        run.cov['traces_validated_against_impl'] += 1
        rv = ans.split(' remote=')[1] if ' remote=' in ans else iv
        if rv != iv:
            bad = [p[k] for k in range(len(p)) if k < len(iv) and k < len(rv) and iv[k] != rv[k]]
            oracle_fail.append(dict(filters=f, paths=p, differing_paths=bad, impl=iv, verdicts_after_the_wire=rv, oracle_verdicts=ov, model=model.get(i),
                                    what='a remote doer (Filters after bincode) reaches another verdict than a local one for the same relative path'))
        elif iv == 'panic' or (ov != 'err' and iv != 'err' and iv != ov):
            bad = [p[k] for k in range(len(p)) if k < len(iv) and k < len(ov) and iv[k] != ov[k]]
            oracle_fail.append(dict(filters=f, paths=p, differing_paths=bad, impl=iv, oracle_verdicts=ov, model=model.get(i)))
        elif i in model and iv != 'err' and model[i] != 'impl=' + iv:
            disagree.append(dict(filters=f, paths=p, impl=iv, oracle_verdicts=ov, model=model[i], request_line=mlines[midx.index(i)]))
    run.cov['disagreements_checked'] += len(cases)

    general_l2(run)
    # L2: what the boss ships to the two doers (roots of every kind, all behaviours): the same, complete filter list
    scs = []
    for _ in range(400 if not thorough else 4000):
        sc_ = l2.gen_scenario(rng, rng.choice(['folder', 'mixed', 'mixed']), faults=False)
        sc_.filters = rng.sample(['+.*', '-a', '+a/.*', '-.*\\.b', '-build|dist', '-.*\\.bak', '+d.*', '-x y'], rng.randint(1, 3))
        sc_.beh, sc_.answers = rng.choice(['ooooo', 'oosoo', 'oooos', 'soooo']), ''
        scs.append(sc_)
    l2_stream(run, scs, [('same-filters', oracle_same_filters)], 'filters-shipped', nontrivial=lambda r: any(cmd_name(c) == 'GetEntries' for c in r['impl_r'].get('dest', [])))

    ok_cli, _o = C.build_cli()
    from .props2 import l4_filter_stream
    l4_fails = l4_filter_stream(run, 40 if not thorough else 500)

    def on_broken(failed):
        if oracle_fail:
            o = min(oracle_fail, key=lambda o: (len(o['filters']), sum(len(x) for x in o['filters'])))
            return dict(layer='L1', found_by='differential stream with the whole-path oracle', **o)
        if l4_fails:
            return dict(found_by='L4 filter stream', **l4_fails[0])
        return None
    C.proofs_step(run, 'C06', on_broken)
    from . import trials as _trials; _trials.run_trials(run, 'C06')
    if l4_fails and not any(not v[1] for v in run.violations):
        run.violation(dict(kind='oracle-failed-on-implementation', oracle='included entries are mirrored; excluded entries are untouched on both sides', failing_cases=len(l4_fails), **l4_fails[0]))
    if oracle_fail and not run.violations:
        o = min(oracle_fail, key=lambda o: (len(o['filters']), sum(len(x) for x in o['filters'])))
        run.violation(dict(kind='oracle-failed-on-implementation', oracle='whole-path match + last match wins', layer='L1', failing_cases=len(oracle_fail), **o))
    if disagree and not run.violations:
        run.violation(dict(kind='correspondence-broken', correspondence='L1/filter-verdict', disagreeing_cases=len(disagree), **disagree[0],
                           note='model and implementation differ; the whole-path oracle agrees with the implementation'), no_input=True)
    run.cov['trusted_base'] = C.GLOBAL_TRUST + ['the regex crate implements its documented semantics (it is also the oracle\'s engine, with \\A(?:p)\\z)',
                                                'the AST-level model of how the text pre++p++post parses (concatenation binds tighter than |) is validated against the crate by this stream']


# ------------------------------------------------------------------ C10

def c10_script(rng, nb, nd):
    """(items to doer, items to boss) by manipulating the honest streams"""
    import re
    def manip(honest, other):
        s = list(honest)
        for _ in range(rng.choice([0, 1, 1, 1, 2])):
            if not s:
                s.append('g%d:%d' % (rng.randint(0, 60), rng.randint(1, 10 ** 6))); continue
            i = rng.randrange(len(s))
            op = rng.choice(['dup', 'swap', 'drop', 'reflect', 'flip', 'trunc', 'inject', 'replay-later', 'header-flip'])
            if op == 'dup': s.insert(i, s[i])
            elif op == 'swap' and i + 1 < len(s): s[i], s[i + 1] = s[i + 1], s[i]
            elif op == 'drop': del s[i]
            elif op == 'reflect' and other: s.insert(i, rng.choice(other))
            elif op == 'flip': s[i] = re.split(r'[~/^]', s[i])[0] + '~%d' % rng.randint(0, 400) if s[i].startswith('f') else s[i]
            elif op == 'trunc': s[i] = re.split(r'[~/^]', s[i])[0] + '/%d' % rng.randint(0, 28) if s[i].startswith('f') else s[i]      # (the shortest frame body is 29 bytes: 13 + the 16-byte tag)
            elif op == 'inject': s.insert(i, 'g%d:%d' % (rng.randint(0, 60), rng.randint(1, 10 ** 6)))
            elif op == 'header-flip': s[i] = re.split(r'[~/^]', s[i])[0] + '^%d' % rng.randint(0, 63) if s[i].startswith('f') else s[i]
            elif op == 'replay-later': s.append(s[i])
        return s
    hb = [f'fb{i}' for i in range(nb)]; hd = [f'fd{i}' for i in range(nd)]
    return manip(hb, hd), manip(hd, hb)


def c10_expected(items, sender):
    """independent of the model: the longest in-order unmodified prefix of the right sender"""
    j = 0
    for it in items:
        if it.startswith('z'): continue          # a stall of the network changes nothing about what may be delivered
        if it == f'f{sender}{j}': j += 1
        else: break
    return list(range(j))


@prop('C10')
def check_C10(run):
    import subprocess, socket, shutil, time as _t
    from . import l3
    thorough = run.tier == 'thorough'
    if not prepare(run, need_cli=True):
        return
    rng = run.rng
    run.cov['rule'] = ('two real AsyncEncryptedComms ends over loopback TCP with the harness as the network: per direction a delivered stream obtained from the honest one by '
                       'dup / swap / drop / reflect / bit-flip / truncate / inject / late replay; oracle = delivered indices are the longest unmodified in-order prefix and no key stream is reused '
                       '(c_i^c_j != p_i^p_j); plus a real --doer process contacted with frames under a wrong key / raw bytes; non-trivial = at least one manipulation; distinct by request line')
    cases = []
    # corpus / systematic: every manipulation at every index of a fixed history
    for i in range(4):
        hb = [f'fb{k}' for k in range(4)]; hd = [f'fd{k}' for k in range(3)]
        for var in ([*hb[:i], hb[i], *hb[i:]], [*hb[:i], *hb[i + 1:]], [*hb[:i], hb[i] + '~13', *hb[i + 1:]], [*hb[:i], hb[i] + '/5', *hb[i + 1:]],
                    [*hb[:i], 'fd0', *hb[i:]], [*hb[:i], 'g40:7', *hb[i:]], hb + [hb[i]], hb[:i] + hb[i:][::-1],
                    *[[*hb[:i], hb[i] + '^%d' % b, *hb[i + 1:]] for b in (0, 7, 8 * i + 3, 33, 47, 63)]):
            cases.append((4, 3, var, hd))
            cases.append((3, 4, [f'fb{k}' for k in range(3)], [v.replace('fb', 'fD').replace('fd', 'fb').replace('fD', 'fd') for v in var]))
    for _ in range(300 if not thorough else 5000):
        nb, nd = rng.randint(0, 10), rng.randint(0, 10)
        td, tb = c10_script(rng, nb, nd)
        cases.append((nb, nd, td, tb))
    # long sessions: a counter that wraps or fails to carry repeats a nonce only after 2^7 / 2^8 (thorough: 2^15 / 2^16) frames of one direction;
    # honest delivery (key-stream reuse is looked for among all frames) and a replay at exactly those distances in place of the honest frame
    for n_long in ([300] if not thorough else [300, 1100, 70000]):
        hb = [f'fb{k}' for k in range(n_long)]; hd = [f'fd{k}' for k in range(n_long)]
        cases.append((n_long, n_long, hb, hd))
        if n_long <= 2000:
            for dist in (127, 128, 129, 256):
                j = dist + 30
                cases.append((n_long, n_long, hb[:j] + [hb[j - dist]] + hb[j + 1:], hd))
                cases.append((n_long, n_long, hb, hd[:j] + [hd[j - dist]] + hd[j + 1:]))
    # stalls: the network delivers nothing for a while - between frames (harmless: everything still arrives), and in the middle of a frame that
    # an attacker cut short or made up (a length header announcing more than follows), the genuine frames after it passed on afterwards:
    # nothing after the gap may be delivered, however long the stall.  The stall lengths: 1.3 s always; when the source holds socket or
    # channel time-outs (extracted: linkSocketPlain), every duration that occurs in it plus half a second.
    stall_ms = [1300]
    if run.extract_status.get('link-socket') or thorough:
        import re as _re3
        try:
            seen_ = [int(x) for x in _re3.findall(r'\d+', open(os.path.join(C.LEAN, 'RjModel', 'Generated', 'LinkSocket.lean')).read().split('durationsSeen')[-1])]
        except OSError:
            seen_ = []
        stall_ms += [x * 1000 + 500 for x in seen_ if 1 <= x <= 60][:3] + ([5500] if thorough else [])
    for ms in sorted(set(stall_ms)):
        hb = [f'fb{k}' for k in range(6)]; hd = [f'fd{k}' for k in range(6)]
        cases.append((6, 6, hb[:3] + [f'z{ms}'] + hb[3:], hd[:2] + [f'z{ms}'] + hd[2:]))                       # honest, with a stall between frames
        cases.append((6, 6, hb[:2] + ['h60:0', f'z{ms}'] + hb[3:], hd))                                       # frame 2 withheld, a bare header, stall, the rest
        cases.append((6, 6, hb[:2] + ['h60:20', f'z{ms}'] + hb[3:], hd))                                      # ... a header and part of a body
        cases.append((6, 6, hb, hd[:3] + ['h33:5', f'z{ms}'] + hd[4:]))                                       # the same towards the boss
        cases.append((6, 6, hb[:4] + ['fb4/7', f'z{ms}'] + hb[5:], hd))
    key = '%032x' % rng.getrandbits(128)
    hl = [f'mitm {key} {nb} {nd} {len(td)} ' + ' '.join(td) + f' {len(tb)} ' + ' '.join(tb) for nb, nd, td, tb in cases]
    hl = [' '.join(l.split()) for l in hl]
    impl = [a for a, _ in C.run_harness(hl, timeout=1800)]
    def mitems(items):
        return ' '.join(it if (it.startswith('f') and '~' not in it and '/' not in it and '^' not in it) else 'x' for it in items if not it.startswith('z'))
    ml = []
    for nb, nd, td, tb in cases:
        ml.append('frames 1 ' + mitems(td)); ml.append('frames 0 ' + mitems(tb))
    model = C.run_model(ml)
    oracle_fail, disagree = [], []
    for k, ((nb, nd, td, tb), ans) in enumerate(zip(cases, impl)):
        honest = td == [f'fb{i}' for i in range(nb)] and tb == [f'fd{i}' for i in range(nd)]
        run.case(('mitm', hl[k]), not honest, sample=dict(layer='link', boss_sends=nb, doer_sends=nd, delivered_to_doer=td, delivered_to_boss=tb, impl=ans) if not honest else None)
        run.count('link:' + ('honest' if honest else 'manipulated')); run.cov['traces_validated_against_impl'] += 1
        want = 'toDoer=[%s] toBoss=[%s] reuse=0' % (','.join(map(str, c10_expected(td, 'b'))), ','.join(map(str, c10_expected(tb, 'd'))))
        mwant = 'toDoer=%s toBoss=%s' % (model[2 * k], model[2 * k + 1])
        if ans != want:
            oracle_fail.append(dict(layer='link', request_line=hl[k], delivered_to_doer=td, delivered_to_boss=tb, impl=ans, oracle_expects=want, model=mwant))
        if not ans.startswith(mwant + ' '):
            disagree.append(dict(layer='link', request_line=hl[k], impl=ans, model=mwant))
    run.cov['disagreements_checked'] += len(cases)
    # messages around and beyond the frame buffer (8 MiB): a sender may refuse such a message (nothing of it reaches the wire: 'send-failed'),
    # but if frames go out, every one has its own nonce, a duplicate of the big frame is refused, and what is delivered is an in-order prefix
    big_cases = []
    for dir_ in ('d', 'b'):
        for size in ([8388000, 9000000] if not thorough else [8388000, 8388500, 8388607, 8388700, 9000000, 20_000_000]):
            honest_b, honest_d = [f'fb{i}' for i in range(3)], [f'fd{i}' for i in range(3)]
            big_cases.append((dir_, size, honest_b, honest_d))
            if dir_ == 'd': big_cases.append((dir_, size, honest_b, ['fd0', 'fd1', 'fd1', 'fd2']))
            else: big_cases.append((dir_, size, ['fb0', 'fb1', 'fb1', 'fb2'], honest_d))
    bl = [f'mitm {key} 3 3 {len(td)} ' + ' '.join(td) + f' {len(tb)} ' + ' '.join(tb) + f' big:{dir_}:1:{size}' for dir_, size, td, tb in big_cases]
    bans = [a for a, _ in C.run_harness(bl, timeout=1800)]
    for l_, (dir_, size, td, tb), ans in zip(bl, big_cases, bans):
        run.case(('mitm-big', l_), True, sample=dict(layer='link', oversize_message_bytes=size, direction=dir_, impl=ans) if size == 9000000 and td == [f'fb{i}' for i in range(3)] else None)
        run.count('link:oversize:' + ('refused-by-sender' if ans == 'send-failed' else 'sent')); run.cov['traces_validated_against_impl'] += 1
        want = 'toDoer=[%s] toBoss=[%s] reuse=0' % (','.join(map(str, c10_expected(td, 'b'))), ','.join(map(str, c10_expected(tb, 'd'))))
        if ans != 'send-failed' and ans != want:
            oracle_fail.append(dict(layer='link', request_line=l_, oversize_message_bytes=size, delivered_to_doer=td, delivered_to_boss=tb, impl=ans, oracle_expects=want + ' (or the sender refuses the message)'))

    # the way a doer process ends: responses still queued when the boss's Shutdown arrives, then one final message sent after the threads were
    # joined (shutdown_with_final_message_sent_after_threads_joined), over a network that reads slowly: every frame has its own nonce
    fl = [f'linkfinal {key} {n_} {sz_}' for n_, sz_ in ([(12, 1000000), (40, 300000), (3, 10), (60, 70000), (200, 500), (1000, 40), (30, 20000)] if not thorough else [(12, 1000000), (40, 300000), (3, 10), (60, 70000), (200, 5000), (6, 4200000), (25, 1500000)])]
    fans = [a for a, _ in C.run_harness(fl, timeout=1800)]
    for l_, ans in zip(fl, fans):
        run.case(('linkfinal', l_), True, sample=dict(layer='link', what='shutdown with a backlog and a final message', request=l_.split(' ', 2)[2], impl=ans) if l_ == fl[0] else None)
        run.count('link:final-message:' + ans.split(' reuse=')[-1]); run.cov['traces_validated_against_impl'] += 1
        n_ = int(l_.split()[2])
        if ans != f'frames={n_ + 1} of={n_ + 1} reuse=0':
            oracle_fail.append(dict(layer='link', request_line=l_, impl=ans, oracle_expects=f'frames={n_ + 1} of={n_ + 1} reuse=0 (every queued response and the final message arrive, no two frames under one key and nonce)'))

    def on_broken(failed):
        if oracle_fail:
            o = min(oracle_fail, key=lambda o: len(o['request_line']))
            return dict(found_by='manipulation scripts against the real link', **o)
        return None
    C.proofs_step(run, 'C10', on_broken)
    from . import trials as _trials; _trials.run_trials(run, 'C10')
    if oracle_fail and not run.violations:
        o = min(oracle_fail, key=lambda o: len(o['request_line']))
        run.violation(dict(kind='oracle-failed-on-implementation', oracle='delivered = unmodified in-order prefix; no key-stream reuse', failing_cases=len(oracle_fail), **o))
    if disagree and not run.violations:
        run.violation(dict(kind='correspondence-broken', correspondence='link/recvItems', disagreeing_cases=len(disagree), **disagree[0]), no_input=True)

    # a real --doer process: a peer without the key gets no command executed
    d = l3.scratch()
    try:
        n_doer = 4 if not thorough else 40
        for trial in range(n_doer):
            good = trial % 4 == 3          # sanity / non-vacuity: the right key does execute
            root = os.path.join(d, f't{trial}'); os.makedirs(root)
            l3.make_tree(root, [('victim', 'F', b'precious', 1_500_000_000_000_000_000), ('sub', 'D')])
            before = l3.snapshot(root)
            right = '%032x' % rng.getrandbits(128)
            used = right if good else '%032x' % rng.getrandbits(128)
            cmds = [['SR', C.X(root)], ['DF', C.X('victim')], ['CF', C.X('made')], ['MK']]
            toks = ['mkframes', used, str(len(cmds))] + [x for c in cmds for x in c]
            wire = bytes.fromhex(C.run_harness([' '.join(toks)])[0][0])
            if not good and trial % 4 == 1:
                wire = bytes(rng.getrandbits(8) for _ in range(8)) [:7] + b'\x00' + bytes(rng.getrandbits(8) for _ in range(64))   # raw bytes, plausible length
                wire = (40).to_bytes(8, 'little') + wire[:40]
            p = subprocess.Popen([C.CLI_BIN, '--doer'], stdin=subprocess.PIPE, stdout=subprocess.PIPE, stderr=subprocess.PIPE, env=C.ENV)
            try:
                line = p.stdout.readline().decode()
                p.stdin.write((right + '\n').encode()); p.stdin.flush()
                port = None
                while True:
                    line = p.stdout.readline().decode()
                    if not line: break
                    if 'port ' in line:
                        port = int(line.strip().rsplit(' ', 1)[1]); break
                s = socket.create_connection(('127.0.0.1', port), timeout=10)
                s.sendall(wire)
                s.settimeout(5)
                try:
                    got = s.recv(65536)
                except Exception:
                    got = b''
                s.close()
                p.stdin.close()
                try:
                    rc = p.wait(timeout=20)
                except subprocess.TimeoutExpired:
                    rc = 'timeout'; p.kill()
            finally:
                if p.poll() is None:
                    p.kill()
            after = l3.snapshot(root)
            run.case(('doer-process', trial, good), True, sample=dict(layer='L4', peer_holds_key=good, tree_changed=before != after, doer_exit=rc))
            run.count('doer-process:' + ('right-key' if good else 'wrong-key'))
            if not good and (before != after or rc == 'timeout'):
                run.violation(dict(kind='oracle-failed-on-implementation', oracle='a doer performs no command for a peer that does not hold the key, and exits', layer='L4',
                                   before={k.decode(): v for k, v in before.items()}, after={k.decode(): v for k, v in after.items()}, doer_exit=rc))
            if good and before == after:
                run.cov.setdefault('notes', []).append('sanity: frames under the right key did not execute (harness problem?)')
        # a recorded session replayed on a second connection to the same doer (its ssh session still open): the frames were made for
        # positions 0.. of *that* session; a doer that accepted another connection under the same key would execute them again
        for trial in range(2 if not thorough else 10):
            root = os.path.join(d, f'r{trial}'); os.makedirs(root)
            l3.make_tree(root, [('victim', 'F', b'precious', 1_500_000_000_000_000_000)])
            right = '%032x' % rng.getrandbits(128)
            cmds = [['SR', C.X(root)], ['CF', C.X('made')], ['MK']] + ([['DF', C.X('victim')]] if trial % 2 else [])
            toks = ['mkframes', right, str(len(cmds))] + [x for c in cmds for x in c]
            wire = bytes.fromhex(C.run_harness([' '.join(toks)])[0][0])
            p = subprocess.Popen([C.CLI_BIN, '--doer'], stdin=subprocess.PIPE, stdout=subprocess.PIPE, stderr=subprocess.PIPE, env=C.ENV)
            second, first_reply, second_reply, rc = 'not-tried', b'', b'', None
            try:
                p.stdout.readline()
                p.stdin.write((right + '\n').encode()); p.stdin.flush()
                port = None
                while True:
                    line = p.stdout.readline().decode()
                    if not line: break
                    if 'port ' in line:
                        port = int(line.strip().rsplit(' ', 1)[1]); break
                s = socket.create_connection(('127.0.0.1', port), timeout=10)
                s.sendall(wire); s.settimeout(5)
                try: first_reply = s.recv(65536)
                except Exception: pass
                deadline = time.time() + 5
                while not os.path.isdir(os.path.join(root, 'made')) and time.time() < deadline: time.sleep(0.02)
                executed_first = os.path.isdir(os.path.join(root, 'made'))
                s.close()                                   # the link is cut before Shutdown; stdin (the ssh session) stays open
                time.sleep(0.3)
                if executed_first: os.rmdir(os.path.join(root, 'made'))
                l3.make_tree(root, [('victim', 'F', b'precious', 1_500_000_000_000_000_000)])
                try:
                    s2 = socket.create_connection(('127.0.0.1', port), timeout=3)
                    s2.sendall(wire); s2.settimeout(3)
                    try: second_reply = s2.recv(65536)
                    except Exception: pass
                    time.sleep(0.5); s2.close(); second = 'accepted'
                except Exception:
                    second = 'refused'
                replayed = os.path.isdir(os.path.join(root, 'made')) or not os.path.exists(os.path.join(root, 'victim'))
                p.stdin.close()
                try: rc = p.wait(timeout=20)
                except subprocess.TimeoutExpired: rc = 'timeout'; p.kill()
            finally:
                if p.poll() is None: p.kill()
            run.case(('doer-process-replay', trial), True, sample=dict(layer='L4', what='recorded session replayed on a second connection', first_executed=executed_first, second_connection=second, replay_executed=replayed, doer_exit=rc))
            run.count('doer-process:replay-on-second-connection')
            if not executed_first:
                run.cov.setdefault('notes', []).append('sanity: the first, honest session did not execute (harness problem?)')
            if replayed or (second_reply and second_reply == first_reply) or rc == 'timeout':
                run.violation(dict(kind='oracle-failed-on-implementation', oracle='frames recorded from one session are not accepted on another connection to the same doer (a frame is bound to its position in its session); no key/nonce pair is used twice',
                                   layer='L4', second_connection=second, replay_executed=replayed, same_reply_bytes=bool(second_reply) and second_reply == first_reply, doer_exit=rc))
        # ---- two links of one boss (both doers remote): their nonce counters start at the same values, so the keys must differ
        from . import l4 as _l4
        sb2 = _l4.Sandbox(); sb2.place_remote('same')
        try:
            os.makedirs(sb2.dir + '/src'); open(sb2.dir + '/src/f', 'w').write('x')
            klog = os.path.join(sb2.dir, 'keys.log')
            r = _l4.run_cli(['localhost:' + sb2.dir + '/src/', 'localhost:' + sb2.dir + '/dst/', '--deploy', 'error'], env=sb2.env({'FAKE_KEY_LOG': klog}), timeout=60)
            ks = [l.strip() for l in open(klog)] if os.path.exists(klog) else []
            run.case(('two-links-one-boss', len(ks)), True, sample=dict(layer='L4', what='keys of the two links of one run', keys=len(ks), distinct=len(set(ks)), rc=r['rc'])); run.count('two-links-one-boss')
            if len(ks) != 2 or len(set(ks)) != 2 or r['rc'] != 0:
                run.violation(dict(kind='oracle-failed-on-implementation', oracle='no two frames are sealed under the same key and nonce: the two links of one boss (same nonce positions) use different keys',
                                   layer='L4', keys_seen=len(ks), distinct=len(set(ks)), rc=r['rc'], stderr=r['err'][-400:]))
        finally:
            sb2.close()
    finally:
        shutil.rmtree(d, ignore_errors=True)
    run.cov['trusted_base'] = C.GLOBAL_TRUST + ['AES-128-GCM is an ideal AEAD (correctness, ciphertext integrity, nonce binding): a computational assumption, stated as the laws of the AEAD parameter (a toy instance shows they are satisfiable)',
                                                'OsRng key freshness; TCP delivers bytes in order per connection']


# ------------------------------------------------------------------ C15

@prop('C15')
def check_C15(run):
    from . import l4
    import shutil
    thorough = run.tier == 'thorough'
    if not prepare(run, need_cli=True):
        return
    C.proofs_step(run, 'C15')
    from . import trials as _trials; _trials.run_trials(run, 'C15')
    rng = run.rng
    run.cov['rule'] = ('L1: the two key-text expressions on keys incl. every number of leading zero bytes; L4: the CLI against a fake ssh/scp (real --doer process, real TCP + AES-GCM) over '
                       'remote states {absent, same version, other version, broken} x deploy behaviours x prompt answers, one or both doers remote; log of launches / uploads / stdin of a wrong-version doer '
                       'vs the model; every case non-trivial; distinct by configuration / key')
    # ---- key text
    keys = ['00' * 16, 'ff' * 16, '00' * 15 + '01', '80' + '00' * 15, '0' * 31 + 'f', '0f' + 'a5' * 15]
    keys += ['00' * k + '%0*x' % (2 * (16 - k), rng.getrandbits(8 * (16 - k))) for k in range(0, 16)]
    keys += ['%032x' % rng.getrandbits(128) for _ in range(2000 if not thorough else 50000)]
    impl = [a for a, _ in C.run_harness(['key ' + k for k in keys])]
    model = C.run_model(['key ' + k for k in keys])
    for k, i_ans, m_ans in zip(keys, impl, model):
        run.case(('key', k), True, sample=dict(layer='L1', key=k, impl=i_ans) if k.startswith('00') else None)
        run.count('key:' + ('leading-zero-byte' if k.startswith('00') else 'other')); run.cov['traces_validated_against_impl'] += 1
        if not i_ans.endswith(' back=' + k) or len(bytes.fromhex(i_ans.split(' ')[0][4:])) != 32:
            run.violation(dict(kind='oracle-failed-on-implementation', oracle='the doer reconstructs the key bit-exactly from a 32-digit text', layer='L1', key=k, impl=i_ans, model=m_ans))
            break
        if i_ans != m_ans:
            run.violation(dict(kind='correspondence-broken', correspondence='L1/key-text', key=k, impl=i_ans, model=m_ans), no_input=True)
            break
    run.cov['disagreements_checked'] += len(keys)
    # the two expressions are still what the source says
    bl = open(os.path.join(C.REPO, 'src/boss_launch.rs')).read(); dr = open(os.path.join(C.REPO, 'src/doer.rs'), newline='').read()
    import re
    if not re.search(r'format!\("\{:x\}\\n",\s*key\)', bl) or not re.search(r'u128::from_str_radix\(&secret,\s*16\)', dr) or 'b.to_be_bytes()' not in dr:
        run.violation(dict(kind='extraction-broken', what='key text expressions (format!("{:x}\\n", key) / u128::from_str_radix(&secret, 16) / to_be_bytes) no longer found in the source; the L1 tie duplicates them'), no_input=True)
    # ---- launch matrix
    sb = l4.Sandbox()
    try:
        os.makedirs(sb.dir + '/src/sub'); open(sb.dir + '/src/f', 'w').write('hello'); open(sb.dir + '/src/sub/g', 'w').write('x' * 5000)
        configs = []
        for state in ('absent', 'same', 'other', 'broken'):
            for dep in ('p', 'e', 'k', 'f'):
                for ans in ((True, False) if dep == 'p' else (False,)):
                    configs.append((state, dep, ans, 'dest'))
        configs += [('absent', 'k', False, 'both'), ('other', 'p', True, 'both'), ('same', 'e', False, 'src'), ('other', 'e', False, 'src')]
        # versions that are *nearly* the boss's own (the property says "exactly"): extensions, truncations, case, padding
        V = sb.real_version()
        near = [V + '+profiling', V + '0', V + '.1', V[:-1], V.split('+')[0] if '+' in V else V + '+debug', V.upper() if V.upper() != V else V.lower(),
                ' ' + V, V + ' ', 'v' + V, V.replace('.', ',', 1), '', V + V, V[1:], V[:-1] + chr(ord(V[-1]) ^ 1)]
        near = [v for v in dict.fromkeys(near) if v != V]
        if thorough:
            for _ in range(40):
                i = rng.randrange(len(V) + 1); c = rng.choice('0123456789.+abcdefg ')
                v = rng.choice([V[:i] + c + V[i:], V[:i] + V[i + 1:], V[:i] + c + V[i + 1:], V[:i]])
                if v != V and v not in near: near.append(v)
        for v in near:
            configs.append((('other', v), 'e', False, 'dest'))
        configs.append((('other', near[0]), 'p', False, 'dest')); configs.append((('other', near[1]), 'k', False, 'src'))
        if thorough:
            configs = configs * 3
        mlines = [f'setup {dep} {state if isinstance(state, str) else state[0]} same {int(ans)} 1' for state, dep, ans, where in configs]
        model = C.run_model(mlines)
        depword = {'p': 'prompt', 'e': 'error', 'k': 'ok', 'f': 'force'}
        for (state, dep, ans, where), m_ans in zip(configs, model):
            announced = None
            if isinstance(state, tuple):
                state, announced = state
                sb.place_remote(state, version=announced)
            else:
                sb.place_remote(state)
            open(sb.log, 'w').close()
            shutil.rmtree(sb.dir + '/dst', ignore_errors=True)
            so = sb.dir + '/stdin-of-other-version.txt'
            if os.path.exists(so): os.unlink(so)
            src = ('localhost:' if where in ('src', 'both') else '') + sb.dir + '/src/'
            dst = ('localhost:' if where in ('dest', 'both') else '') + sb.dir + '/dst/'
            env = sb.env({'RJRSSYNC_TEST_PROMPT_RESPONSE': '9:.*:Deploy'} if ans else {})
            r = l4.run_cli([src, dst, '--deploy', depword[dep]], env=env, timeout=120)
            log = sb.fake_log()
            launches = sum(1 for l in log if l[0] == 'ssh' and '--doer' in l[2])
            uploads = any(l[0] == 'scp' for l in log)
            synced = os.path.exists(sb.dir + '/dst/sub/g')
            other_stdin = open(so).read() if os.path.exists(so) else ''
            m = dict(x.split('=') for x in m_ans.split())
            run.case(('launch', state, announced, dep, ans, where), True, sample=dict(layer='L4', remote_state=state, announced_version=announced, boss_version=V, deploy=depword[dep], answer_deploy=ans, remote_side=where,
                                                                           rc=r['rc'], launches=launches, uploads=uploads, model=m_ans))
            run.count(f'launch:{state}{"-near-version" if announced is not None else ""}:{depword[dep]}'); run.cov['traces_validated_against_impl'] += 1
            # oracle (property, independent of the model)
            why = None
            if uploads and not (dep in ('k', 'f') or (dep == 'p' and ans)):
                why = 'a binary was uploaded without consent'
            elif other_stdin.strip():
                why = 'a key was written to a doer that announced another version'
            elif (r['rc'] == 0) != synced:
                why = 'exit status and result disagree'
            elif state == 'other' and not uploads and r['rc'] == 0:
                why = 'sync traffic with a doer of another version'
            elif r['timeout'] or r['rc'] not in (0, 10, 11):
                why = f'unexpected exit {r["rc"]}'
            if why:
                run.violation(dict(kind='oracle-failed-on-implementation', oracle=why, layer='L4', remote_state=state, announced_version=announced, boss_version=V, deploy=depword[dep], answer_deploy=ans,
                                   remote_side=where, rc=r['rc'], stdin_of_that_doer=other_stdin[:80], fake_log=log, stderr=r['err'][-1500:]))
                continue
            # correspondence (one remote side: exact; both sides remote: the second setup finds the first's deployment)
            if where != 'both':
                got = f"launches={launches} uploads={int(uploads)} ok={int(r['rc'] == 0)}"
                want = f"launches={m['launches']} uploads={m['uploads']} ok={m['ok']}"
                if got != want:
                    run.violation(dict(kind='correspondence-broken', correspondence='L4/setup_comms', remote_state=state, announced_version=announced, deploy=depword[dep], answer_deploy=ans,
                                       impl=got, model=want, fake_log=log), no_input=True)
        run.cov['disagreements_checked'] += len(configs)
        # ---- consent is per deployment: two different hosts, both without a binary, behaviour prompt; the first prompt is answered
        # "Deploy", the second is left unanswered (= cancelled): nothing may be uploaded to the second host and the run fails
        import glob as _glob
        for answers, want_uploads, want_ok in (('1:.*:Deploy', 1, False), ('2:.*:Deploy', 2, True), ('', 0, False)):
            for d_ in _glob.glob(sb.remote + '-*'): shutil.rmtree(d_, ignore_errors=True)
            open(sb.log, 'w').close(); shutil.rmtree(sb.dir + '/dst', ignore_errors=True)
            r = l4.run_cli(['127.0.0.1:' + sb.dir + '/src/', 'localhost:' + sb.dir + '/dst/', '--deploy', 'prompt'], env=sb.env({'FAKE_PER_HOST': '1', 'RJRSSYNC_TEST_PROMPT_RESPONSE': answers}), timeout=120)
            log = sb.fake_log()
            ups = [l for l in log if l[0] == 'scp']
            hosts_with_binary = sorted(os.path.basename(d_).split('-', 1)[1] for d_ in _glob.glob(sb.remote + '-*') if os.path.exists(d_ + '/rjrssync/rjrssync') or os.path.isdir(d_ + '/rjrssync'))
            run.case(('consent-per-host', answers), True, sample=dict(layer='L4', what='two hosts needing a deploy, behaviour prompt', answers=answers, uploads=len(ups), hosts_with_binary=hosts_with_binary, rc=r['rc']))
            run.count('consent-per-host'); run.cov['traces_validated_against_impl'] += 1
            if len(ups) != want_uploads or (r['rc'] == 0) != want_ok or r['timeout']:
                run.violation(dict(kind='oracle-failed-on-implementation', oracle='a binary is uploaded only to a host whose own deploy prompt was answered "Deploy"; a cancelled prompt uploads nothing there and fails the run',
                                   layer='L4', answers=answers, uploads=[l[1] for l in ups], expected_uploads=want_uploads, rc=r['rc'], expected_success=want_ok, stderr=r['err'][-600:]))
        for d_ in _glob.glob(sb.remote + '-*'): shutil.rmtree(d_, ignore_errors=True)
        # ---- a newly generated key for every doer launch: both doers remote in one run, twice: four launches, four different keys
        sb.place_remote('same')
        klog = os.path.join(sb.dir, 'keys.log')
        for _ in range(2):
            shutil.rmtree(sb.dir + '/dst', ignore_errors=True)
            r = l4.run_cli(['localhost:' + sb.dir + '/src/', 'localhost:' + sb.dir + '/dst/', '--deploy', 'error'], env=sb.env({'FAKE_KEY_LOG': klog}), timeout=60)
        keys_seen = [l.strip() for l in open(klog)] if os.path.exists(klog) else []
        run.case(('key-per-launch', len(keys_seen)), True, sample=dict(layer='L4', what='keys written to the doers of two runs with both sides remote', launches=len(keys_seen), distinct=len(set(keys_seen)), rc=r['rc']))
        run.count('key-per-launch', len(keys_seen)); run.cov['traces_validated_against_impl'] += 1
        if len(keys_seen) != 4 or len(set(keys_seen)) != 4 or r['rc'] != 0 or any(len(k_) > 32 or not k_ or any(c_ not in '0123456789abcdef' for c_ in k_) for k_ in keys_seen):
            run.violation(dict(kind='oracle-failed-on-implementation', oracle='every doer launch gets a newly generated key (two runs with both doers remote: four launches, four distinct keys of at most 32 hex digits)',
                               layer='L4', launches=len(keys_seen), distinct_keys=len(set(keys_seen)), same_key_twice=len(set(keys_seen)) < len(keys_seen), rc=r['rc'], stderr=r['err'][-500:]))
        # ---- a history: another version is there, deployment is permitted and "succeeds", yet the relaunch still finds the other version (the
        # upload did not change what ssh launches): that doer, too, must never be handed a key, and the run fails
        for dep_ in ('ok', 'force', 'prompt'):
            sb.place_remote('other'); open(sb.log, 'w').close(); shutil.rmtree(sb.dir + '/dst', ignore_errors=True)
            so_ = sb.dir + '/stdin-of-other-version.txt'
            if os.path.exists(so_): os.unlink(so_)
            r = l4.run_cli([sb.dir + '/src/', 'localhost:' + sb.dir + '/dst/', '--deploy', dep_], env=sb.env({'FAKE_SCP_NOOP': '1', 'RJRSSYNC_TEST_PROMPT_RESPONSE': '9:.*:Deploy'}), timeout=120)
            seen_ = open(so_).read() if os.path.exists(so_) else ''
            launches_ = sum(1 for l in sb.fake_log() if l[0] == 'ssh' and '--doer' in l[2])
            run.case(('ineffective-upload', dep_), True, sample=dict(layer='L4', what='other version, deployment permitted, the upload changes nothing', deploy=dep_, launches=launches_, rc=r['rc'], other_version_stdin=seen_[:40]))
            run.count(f'ineffective-upload:{dep_}:rc={r["rc"]}'); run.cov['traces_validated_against_impl'] += 1
            if seen_.strip() or r['rc'] == 0:
                run.violation(dict(kind='oracle-failed-on-implementation', oracle='a doer that announces another version is never written anything, in no launch of the run (also the relaunch after a deployment)', layer='L4',
                                   deploy=dep_, launches=launches_, rc=r['rc'], written_to_the_other_version=seen_[:80], stderr=r['err'][-400:],
                                   how='fake scp logs the upload and changes nothing; the remote binary is a script that announces another version and records its stdin'))
                break
        # ---- the key as an *input*: the OS randomness the boss draws its key from is forced (LD_PRELOAD shim) to chosen values - leading zero
        # nibbles and bytes, all zero, all ones - and a same-version remote doer must be given exactly that value and the sync must work
        so = l4.build_force_key_shim(sb.dir)
        run.count('forced-key:' + ('shim-built' if so else 'skipped:no-c-compiler'))
        if so:
            sb.place_remote('same')
            forced_keys = ['00000000000000000000000000000001', '0f' + 'ab' * 15, '000000' + 'cd' * 13, '10' + '00' * 15, 'ff' * 16, '00' * 16, '0' + 'e' * 31, '%032x' % rng.getrandbits(128), '%032x' % rng.getrandbits(100)]
            for fk in forced_keys if thorough else forced_keys[:7]:
                shutil.rmtree(sb.dir + '/dst', ignore_errors=True)
                klog3 = os.path.join(sb.dir, 'keys3.log')
                if os.path.exists(klog3): os.remove(klog3)
                r = l4.run_cli([sb.dir + '/src/', 'localhost:' + sb.dir + '/dst/', '--deploy', 'error'], env=sb.env({'FAKE_KEY_LOG': klog3, 'LD_PRELOAD': so, 'FORCE_KEY_HEX': fk}), timeout=60)
                got_keys = [l.strip() for l in open(klog3)] if os.path.exists(klog3) else []
                synced = os.path.exists(sb.dir + '/dst/sub/g')
                run.case(('forced-key', fk), True, sample=dict(layer='L4', forced_key=fk, written=got_keys[:2], rc=r['rc']) if fk.startswith('0000') else None)
                run.count(f'forced-key:rc={r["rc"]}'); run.cov['traces_validated_against_impl'] += 1
                took = bool(got_keys) and all(c_ in '0123456789abcdefABCDEF' for c_ in got_keys[0]) and got_keys[0] != '' and int(got_keys[0], 16) == int(fk, 16)
                if got_keys and not took and len(set(got_keys)) == 1 and r['rc'] == 0:
                    run.count('forced-key:shim-not-effective'); break       # this build draws its randomness some other way: nothing learnt
                if r['rc'] != 0 or not synced or not took:
                    run.violation(dict(kind='oracle-failed-on-implementation', oracle='whatever the value of the generated key (leading zero digits and bytes included), the doer is given exactly that value and the link works', layer='L4',
                                       forced_key=fk, written_to_doer=got_keys[:2], rc=r['rc'], synced=synced, stderr=r['err'][-500:],
                                       how='LD_PRELOAD shim answers the 16-byte getrandom request with the forced bytes; fake ssh logs the first line written to the doer'))
                    break
        # ---- ... also the relaunch after a deployment that was decided late: the first doer has its key when an ssh line containing
        # 'No such file or directory' arrives; the boss deploys and launches again: that launch must get a key of its own
        sb.place_remote('same')
        klog2 = os.path.join(sb.dir, 'keys2.log'); shutil.rmtree(sb.dir + '/dst', ignore_errors=True)
        r = l4.run_cli([sb.dir + '/src/', 'localhost:' + sb.dir + '/dst/', '--deploy', 'ok'],
                       env=sb.env({'FAKE_KEY_LOG': klog2, 'FAKE_LATE_NOISE': sb.dir + '/noise.mark:bash: /opt/motd.sh: No such file or directory'}), timeout=240)
        keys2 = [l.strip() for l in open(klog2)] if os.path.exists(klog2) else []
        run.case(('key-per-relaunch', len(keys2)), True, sample=dict(layer='L4', what='keys of a launch and of the relaunch after a late deployment', launches=len(keys2), distinct=len(set(keys2)), rc=r['rc']))
        run.count(f'key-per-relaunch:launches={len(keys2)}:rc={r["rc"]}'); run.cov['traces_validated_against_impl'] += 1
        if len(set(keys2)) != len(keys2):
            run.violation(dict(kind='oracle-failed-on-implementation', oracle='every doer launch is given a newly generated key (also the relaunch after a deployment)', layer='L4',
                              how='fake ssh prints "...No such file or directory" on stderr after the first doer has been given its key; --deploy ok', launches=len(keys2), distinct_keys=len(set(keys2)), rc=r['rc'], stderr=r['err'][-400:]))
        # ---- every causally possible interleaving of the four handshake lines (stdout-started before both completed lines; per-stream
        # order), with unrelated ssh output lines in between: the launch must succeed.  A relay in the fake ssh holds the real doer's
        # lines back and releases them in the given order, 60 ms apart.
        sb.place_remote('same')
        orders = [['So', 'Se', 'Co', 'Ce'], ['So', 'Se', 'Ce', 'Co'], ['Se', 'So', 'Co', 'Ce'], ['Se', 'So', 'Ce', 'Co'], ['So', 'Co', 'Se', 'Ce']]
        trials = []
        for o in orders:
            trials.append(o)
            for _ in range(1 if not thorough else 6):
                w = list(o)
                for _ in range(rng.randint(1, 3)):
                    w.insert(rng.randrange(len(w) + 1), rng.choice('nN'))
                trials.append(w)
        for o in trials:
            for where in (('dest',) if not thorough else ('dest', 'src')):
                shutil.rmtree(sb.dir + '/dst', ignore_errors=True)
                src = ('localhost:' if where == 'src' else '') + sb.dir + '/src/'
                dst = ('localhost:' if where == 'dest' else '') + sb.dir + '/dst/'
                r = l4.run_cli([src, dst, '--deploy', 'error'], env=sb.env({'FAKE_RELAY_ORDER': ','.join(o)}), timeout=60)
                synced = os.path.exists(sb.dir + '/dst/sub/g')
                run.case(('handshake-order', tuple(o), where), True, sample=dict(layer='L4', order=o, remote_side=where, rc=r['rc']) if len(o) == 4 else None)
                run.count('handshake-order:' + ''.join(x for x in o if x not in 'nN')); run.cov['traces_validated_against_impl'] += 1
                if r['rc'] != 0 or not synced:
                    run.violation(dict(kind='oracle-failed-on-implementation', oracle='the launch succeeds for every causally possible interleaving of the stdout / stderr handshake lines and unrelated ssh output lines',
                                       layer='L4', order=o, remote_side=where, rc=r['rc'], timeout=r['timeout'], stderr=r['err'][-800:]))
                    break
    finally:
        sb.close()
    run.cov['trusted_base'] = C.GLOBAL_TRUST + ['OsRng key freshness (distinctness is not proved)', 'the fake ssh/scp scripts run the remote command locally under bash; real ssh/scp are not exercised',
                                                'the reader-thread message abstraction of the handshake loop (Line/Started/Completed/Closed/Error) is hand-modelled; its tie is the L4 matrix']


# ------------------------------------------------------------------ C14

def c14_gen_msg(rng, big=False):
    strs = ['', 'a', 'a/b', 'dir/é/x y', 'p' * 300, 'ü\u4e2d\U0001f600', 'C:\\w', '/abs/root/']
    def s(): return C.X(rng.choice(strs))
    def data():
        if big:
            return 'z%d:%d' % (rng.choice([4095, 4096, 4097, 65536, 1 << 20, (1 << 22) - 1, 1 << 22, (1 << 22) + 1]), rng.randint(0, 255))
        r = rng.random()
        if r < 0.3: return 'x' + bytes(rng.getrandbits(8) for _ in range(rng.randint(0, 40))).hex()
        return 'z%d:%d' % (rng.choice([0, 1, 31, 32, 33, 255, 256, 1000, 4096]), rng.randint(0, 255))
    def det():
        r = rng.random()
        if r < 0.4: return 'F:%d:%d' % (rng.choice(l2.TIMES + [2**63 - 1, 10**18 + 999999999]), rng.choice([0, 1, 2**32, 2**63]))
        if r < 0.6: return 'D'
        return l2.det_link(rng.choice(l2.KINDS), rng.choice(l2.TARGETS + [('N', 'é/ü'), ('X', '')]))
    def marker():
        k = rng.choice('DCX'); w = str(rng.choice([0, 1, 2**40, 2**64 - 1]))
        return [w, k] + ([str(rng.choice([0, 7, 2**32 - 1]))] if k == 'D' else [str(rng.choice([0, 9])), str(rng.choice([0, 2**50]))] if k == 'C' else [])
    if rng.random() < 0.55 or big:
        v = rng.choice(['CUF'] if big and rng.random() < 0.5 else ['SR', 'GE', 'CRA', 'GFC', 'CUF', 'CS', 'CF', 'DF', 'DD', 'DS', 'PTS', 'MK', 'SH'])
        if big and v != 'CUF':
            return ['R', 'FC', data(), str(rng.randint(0, 1))]
        t = {'SR': lambda: [s()], 'GE': lambda: [str(n := rng.randint(0, 3))] + [x for _ in range(n) for x in (rng.choice('+-'), C.X(rng.choice(['^a$', '^(?:.*\\.txt)$', '^é$'])))],
             'CRA': lambda: [], 'GFC': lambda: [s()], 'CUF': lambda: [s(), data(), rng.choice(['-', str(rng.choice(l2.TIMES))]), str(rng.randint(0, 1))],
             'CS': lambda: [s(), rng.choice(l2.KINDS), (lambda t: t[0] + t[1].encode().hex())(rng.choice(l2.TARGETS))], 'CF': lambda: [s()], 'DF': lambda: [s()], 'DD': lambda: [s()],
             'DS': lambda: [s(), rng.choice(l2.KINDS)], 'PTS': lambda: [], 'MK': marker, 'SH': lambda: []}[v]()
        return ['C', v] + t
    v = rng.choice(['RD', 'EN', 'EE', 'FC', 'PT', 'MK', 'ER'])
    t = {'RD': lambda: [rng.choice(['-', det()]), str(rng.randint(0, 1)), str(rng.choice([47, 92]))], 'EN': lambda: [s(), det()], 'EE': lambda: [],
         'FC': lambda: [data(), str(rng.randint(0, 1))], 'PT': lambda: [str(rng.choice([0, 5, 2**40])), str(rng.choice([0, 999999999]))], 'MK': marker, 'ER': lambda: [s()]}[v]()
    return ['R', v] + t


def c14_silent_link(run, seconds):
    """L4: a sync to a remote destination whose doer freezes for `seconds` right after the handshake (SIGSTOP/SIGCONT through the fake ssh):
    a link that has merely been silent must still deliver everything - the run ends 0 with the destination mirrored, only later."""
    from . import l3, l4
    if not os.path.exists(C.CLI_BIN):
        ok, _ = C.build_cli()
        if not ok: return None
    sb = l4.Sandbox(); sb.place_remote('same')
    try:
        src, dst = sb.dir + '/src', sb.dir + '/dst'
        l3.make_tree(src, [('', 'D'), ('a', 'F', b'alpha', 10**18), ('sub', 'D'), ('sub/b', 'F', l3.content(3, 70000), 10**18 + 5)])
        mark = sb.dir + '/paused.mark'
        t0 = time.time()
        r = l4.run_cli([src + '/', 'localhost:' + dst + '/', '--deploy', 'error'], env=sb.env({'FAKE_PAUSE': str(seconds), 'FAKE_PAUSE_MARK': mark}), timeout=seconds + 120)
        took = time.time() - t0
        good = r['rc'] == 0 and os.path.exists(dst + '/sub/b') and open(dst + '/sub/b', 'rb').read() == l3.content(3, 70000)
        run.case(('silent-link', seconds), True, sample=dict(layer='L4', what='remote doer frozen right after the handshake', seconds=seconds, rc=r['rc'], wall=round(took, 1), frozen=os.path.exists(mark)))
        run.count(f'silent-link:{seconds}s:rc={r["rc"]}'); run.cov['traces_validated_against_impl'] += 1
        if not os.path.exists(mark):
            return None           # the freeze did not happen (doer gone before): nothing learnt
        if not good:
            return dict(kind='oracle-failed-on-implementation', oracle='a link that was silent for a while still delivers every message: the run ends 0 with the destination mirrored', layer='L4',
                        how=f'fake ssh freezes the remote doer (SIGSTOP) for {seconds} s right after the handshake, then lets it go on (SIGCONT)', seconds=seconds, rc=r['rc'], wall=round(took, 1), stderr=r['err'][-600:])
        return None
    finally:
        sb.close()


def c14_linksz_sweep(run):
    thorough = run.tier == 'thorough'
    key = '%032x' % run.rng.getrandbits(128)
    # payload sizes through the real encrypted link, both directions: around every power of two (any buffer that grows, or any
    # off-by-a-tag in its size, bites in a window a few bytes wide) and the largest chunk itself
    maxc = (run.extract_status.get('constants', {}) or {}).get('maxChunk') or 4 * 1024 * 1024
    sz = [0, 1, 2, 15, 16, 17, 100] + list(range(2 ** 12 - 40, 2 ** 12 + 9, 4)) + list(range(2 ** 16 - 48, 2 ** 16 + 9))
    for k in ((13, 14, 15, 17, 18, 19) if not thorough else range(13, 23)):
        sz += list(range(2 ** k - 72, 2 ** k + 9, 8 if not thorough else 4))
    sz += [maxc - 1, maxc] if not thorough else [maxc - 17, maxc - 16, maxc - 1, maxc]
    sz += [maxc] * 4      # (the path next to the data is 1, 300, 1200, 4000 bytes long by the position in the group: the largest chunk with each)
    groups = [sz[i:i + 60] for i in range(0, len(sz), 60)]
    glines = [f'linksz {key} 120000 {len(g)} ' + ' '.join(map(str, g)) for g in groups]
    for g, (ans, _) in zip(groups, C.run_harness(glines, timeout=1800)):
        for x in g: run.case(('linksz', x), x >= 4096, sample=None)
        run.count('tcp-link:sized-payloads', len(g)); run.cov['traces_validated_against_impl'] += len(g)
        want = f'toDoer={len(g)} toBoss={len(g)} of={len(g)}'
        if ans != want:
            import re as _re
            m = _re.match(r'toDoer=(\d+) toBoss=(\d+)', ans)
            first = g[min(int(m.group(1)), int(m.group(2)))] if m and min(int(m.group(1)), int(m.group(2))) < len(g) else None
            run.violation(dict(kind='oracle-failed-on-implementation', oracle='every payload size from empty to the largest chunk crosses the encrypted link intact, exactly once, in order (both directions)',
                               layer='link', payload_sizes=g, impl=ans, want=want, first_payload_size_not_delivered=first))
            break



def c14_link_bursts(run):
    """the real encrypted link with a backlog: one end queues many messages at once (so the sending thread always finds several waiting) -
    many small ones; the largest chunk again and again; and a message a few bytes below the largest directly in front of a largest one, for every
    such distance (whatever a sender does with a backlog - batching, coalescing into one buffer - must not lose or reorder anything)"""
    thorough = run.tier == 'thorough'
    rng = run.rng
    key = '%032x' % rng.getrandbits(128)
    maxc = (run.extract_status.get('constants', {}) or {}).get('maxChunk') or 4 * 1024 * 1024
    bursts = [[rng.choice([0, 1, 13, 100, 1000, 4096, 5000]) for _ in range(300)], [maxc] * (6 if thorough else 3), [100, maxc, 100, maxc, 5000, maxc]]
    near = list(range(maxc - 200, maxc + 1, 1)) if thorough else sorted({maxc - k_ for k_ in (0, 8, 16, 28, 32, 54, 64, 100)})
    for k_ in range(0, len(near), 5):
        b_ = [maxc]
        for a_ in near[k_:k_ + 5]:
            b_ += [a_, maxc]
        bursts.append(b_)
    for half in (maxc // 2, maxc // 4):
        bursts.append([half - 40 + 8 * j for j in range(10)] * 2)
    lines = [f'linkburst {key} 120000 {len(b_)} ' + ' '.join(map(str, b_)) for b_ in bursts]
    for b_, (ans, _) in zip(bursts, C.run_harness(lines, timeout=1800)):
        run.case(('linkburst', tuple(b_[:12]), len(b_)), True, sample=None)
        run.count('tcp-link:bursts'); run.cov['traces_validated_against_impl'] += 1
        want = f'toDoer={len(b_)} of={len(b_)}'
        if ans != want:
            import re as _re6
            m6 = _re6.match(r'toDoer=(\d+)', ans)
            k6 = int(m6.group(1)) if m6 else None
            run.violation(dict(kind='oracle-failed-on-implementation', oracle='messages queued in a burst cross the encrypted link intact, exactly once, in order', layer='link', payload_sizes=b_[:40], burst_length=len(b_),
                               impl=ans, want=want, first_payload_size_not_delivered=b_[k6] if k6 is not None and k6 < len(b_) else None,
                               payload_size_before_it=b_[k6 - 1] if k6 else None))
            break


def c14_small_capacity_syncs(run):
    """L4: whole syncs through the real channels with a tiny capacity (override hook), so that every sender is held back again and again
    while the boss consumes with try_recv / select: everything must arrive (destination == source) and the run must end"""
    from . import l3, l4
    import shutil
    ok, out = C.build_cli()
    sb = l4.Sandbox(); sb.place_remote('same')
    try:
        for k, (cap, nfiles, fsize, place) in enumerate([(2000, 1200, 10, ''), (20000, 40, 100_000, ''), (3000, 300, 3000, 'localhost:')] + ([(1000, 5000, 1, ''), (50000, 20, 2_000_000, 'localhost:')] if run.tier == 'thorough' else [])):
            base = os.path.join(sb.dir, f'cap{k}'); src, dst = base + '/src', base + '/dst'; os.makedirs(src)
            for i in range(nfiles):
                with open(os.path.join(src, f'f{i:05d}'), 'wb') as f: f.write(l3.content(i, fsize))
            r = l4.run_cli([src + '/', place + dst + '/', '--no-progress'], env=sb.env({'RJRSSYNC_VERIF_CAPACITY': str(cap)}), timeout=90)
            same = r['rc'] == 0 and l3.snapshot(src) == l3.snapshot(dst)
            run.case(('small-capacity-sync', cap, nfiles, fsize, place), True, sample=dict(layer='L4', capacity=cap, files=nfiles, file_bytes=fsize, placement=place or 'local', rc=r['rc'], wall_s=round(r['wall'], 1)))
            run.count('small-capacity-sync'); run.cov['traces_validated_against_impl'] += 1
            if not same:
                run.violation(dict(kind='oracle-failed-on-implementation', oracle='with any capacity every message still arrives exactly once, in order: the sync completes and the destination equals the source', layer='L4',
                                   capacity_override=cap, files=nfiles, file_bytes=fsize, placement=place or 'local', rc=r['rc'], timed_out=r['timeout'], stderr=r['err'][-400:]))
                break
            shutil.rmtree(base, ignore_errors=True)
    finally:
        sb.close()


FALLBACKS.setdefault('C14', []).append(c14_small_capacity_syncs)
FALLBACKS.setdefault('C09', []).append(c14_small_capacity_syncs)


@prop('C14')
def check_C14(run):
    thorough = run.tier == 'thorough'
    if not prepare(run):
        return
    st = run.extract_status
    chan_bad = {k: v for k, v in st.items() if k.startswith('channel:')}
    rng = run.rng
    run.cov['rule'] = ('L1: real bincode bytes / serialized_size / decode of generated Command and Response values of every variant (payloads 0..4 MiB+1) = the model\'s bytes; '
                       'the real memory-bound channel between two threads for capacities {0,1,size-1,size,2*size,100 MiB}: sends admitted with an idle receiver = model, '
                       'then everything arrives in order and intact and the accounted size returns to 0; an honest run of the real TCP link; non-trivial = payload-carrying message / capacity below the total; distinct by request line')
    msgs = [c14_gen_msg(rng) for _ in range(3000 if not thorough else 30000)] + [c14_gen_msg(rng, big=True) for _ in range(12 if not thorough else 60)]
    lines = ['wire ' + ' '.join(m) for m in msgs]
    impl = [a for a, _ in C.run_harness(lines, timeout=1800)]
    model = C.run_model(lines, timeout=1800)
    bad = None
    for m, l, i_ans, m_ans in zip(msgs, lines, impl, model):
        nt = m[1] in ('CUF', 'FC', 'EN', 'GE', 'CS', 'RD')
        run.case(('wire', l), nt, sample=dict(layer='L1', message=l[:200], impl=i_ans[:200]) if nt and m[1] in ('CUF', 'EN') else None)
        run.count('wire:' + m[0] + ':' + m[1]); run.cov['traces_validated_against_impl'] += 1
        f = dict(x.split('=') for x in i_ans.split()) if i_ans.startswith('len=') else {}
        if not f or f.get('rt') != '1' or f.get('size') != f.get('len'):
            run.violation(dict(kind='oracle-failed-on-implementation', oracle='decode(encode m) re-encodes to the same bytes; serialized_size = length', layer='L1', request_line=l[:500], impl=i_ans[:500]))
            bad = True; break
        if not i_ans.startswith(m_ans + ' '):
            run.violation(dict(kind='correspondence-broken', correspondence='L1/bincode-bytes', request_line=l[:500], impl=i_ans[:400], model=m_ans[:400]), no_input=True)
            bad = True; break
    run.cov['disagreements_checked'] += len(lines)
    # channel
    cases = []
    for _ in range(200 if not thorough else 2000):
        n = rng.randint(1, 8)
        sizes = [rng.choice([13, 14, 100, 1000, 5000]) for _ in range(n)]
        if rng.random() < 0.5:
            sizes = [rng.choice([100, 1000])] * n
        sz = sizes[0]; tot = sum(sizes)
        for cap in {0, 1, sz - 1, sz, 2 * sz, rng.choice([tot - 1, tot, tot // 2]), 100 * 1024 * 1024}:
            cases.append((max(cap, 0), sizes))
    cases = cases[: (600 if not thorough else 6000)]
    mlines = ['chan %d %s' % (cap, ' '.join(map(str, sizes))) for cap, sizes in cases]
    model = C.run_model(mlines)
    hlines = ['chan %d %s %d %s' % (cap, m.split('=')[1], len(sizes), ' '.join(map(str, sizes))) for (cap, sizes), m in zip(cases, model)]
    # in portions: a channel that stalls costs the harness its deadline (12 s) per request and leaves spinning threads behind
    impl = []
    for k_ in range(0, len(hlines), 40):
        part = [a for a, _ in C.run_harness(hlines[k_:k_ + 40], timeout=900)]
        impl += part
        if any('STALLED' in a or a.startswith('HARNESS-DIED') for a in part):
            break
    cases, model, hlines = cases[:len(impl)], model[:len(impl)], hlines[:len(impl)]
    chan_fail = []
    for (cap, sizes), m_ans, i_ans, hl in zip(cases, model, impl, hlines):
        # independent oracle: a send is admitted iff what was counted before it does not exceed the capacity
        adm, before = 0, 0
        for s in sizes:
            if before > cap: break
            adm += 1; before += s
        nt = adm < len(sizes)
        run.case(('chan', hl), nt, sample=dict(layer='channel', capacity=cap, sizes=sizes, impl=i_ans) if nt else None)
        run.count('channel:' + ('sender-held-back' if nt else 'all-admitted')); run.cov['traces_validated_against_impl'] += 1
        want = f'admitted={adm} intact_in_order=1 counter_end=0 extra=0'
        if i_ans != want:
            chan_fail.append(dict(layer='channel', request_line=hl, capacity=cap, sizes=sizes, impl=i_ans, oracle_expects=want, model=m_ans))
        elif not i_ans.startswith(m_ans + ' '):
            run.violation(dict(kind='correspondence-broken', correspondence='channel/admission', request_line=hl, impl=i_ans, model=m_ans), no_input=True)
            break
    run.cov['disagreements_checked'] += len(cases)
    # honest TCP link
    key = '%032x' % rng.getrandbits(128)
    tl = []
    for _ in range(40 if not thorough else 400):
        nb, nd = rng.randint(0, 30), rng.randint(0, 30)
        # the network may cut the byte stream anywhere: segment boundaries inside length headers, between header and body, inside bodies
        cuts = ''
        if rng.random() < 0.8:
            cuts = ' cd:' + ','.join(str(rng.randint(1, 900)) for _ in range(rng.randint(1, 8))) + ' cb:' + ','.join(str(rng.randint(1, 900)) for _ in range(rng.randint(1, 8)))
        tl.append((nb, nd, f'mitm {key} {nb} {nd} {nb} ' + ' '.join(f'fb{i}' for i in range(nb)) + f' {nd} ' + ' '.join(f'fd{i}' for i in range(nd)) + cuts))
    for (nb, nd, l), (ans, _) in zip(tl, C.run_harness([' '.join(x[2].split()) for x in tl])):
        run.case(('tcp', l), nb + nd > 0, sample=None); run.count('tcp-link:honest'); run.cov['traces_validated_against_impl'] += 1
        want = 'toDoer=[%s] toBoss=[%s] reuse=0' % (','.join(map(str, range(nb))), ','.join(map(str, range(nd))))
        if ans != want:
            run.violation(dict(kind='oracle-failed-on-implementation', oracle='an honest TCP link delivers everything exactly once in order, wherever the byte stream is segmented', layer='link', request_line=l, impl=ans, want=want))
            break

    c14_linksz_sweep(run)
    c14_link_bursts(run)

    c14_small_capacity_syncs(run)
    # socket options (time-outs, non-blocking mode): none in the unchanged source (extracted; obligation C14_link_socket_plain).  If some appear,
    # the search waits out the durations that occur in the source (plus a margin) with a frozen remote doer; the thorough tier always does one pause.
    sock_bad = st.get('link-socket')
    silent_fail = None
    if not (sock_bad or thorough):
        silent_fail = c14_silent_link(run, 3)          # every run: a short silence
        if silent_fail: run.violation(silent_fail)
    if sock_bad or thorough:
        import re as _re2
        try:
            seen = [int(x) for x in _re2.findall(r'\d+', open(os.path.join(C.LEAN, 'RjModel', 'Generated', 'LinkSocket.lean')).read().split('durationsSeen')[-1])]
        except OSError:
            seen = []
        waits = sorted({x + 5 for x in seen if 2 <= x <= 120})[:2] if sock_bad else []
        for w in (waits or [35]):
            silent_fail = c14_silent_link(run, w)
            if silent_fail:
                run.violation(silent_fail); break

    def on_broken(failed):
        if silent_fail:
            return dict(found_by='frozen remote doer', **silent_fail)
        if chan_fail:
            return dict(found_by='real channel runs with an idle receiver', **min(chan_fail, key=lambda o: len(o['request_line'])))
        return None
    C.proofs_step(run, 'C14', on_broken)
    from . import trials as _trials; _trials.run_trials(run, 'C14')
    if chan_fail and not any(not v[1] for v in run.violations):
        run.violation(dict(kind='oracle-failed-on-implementation', oracle='admitted iff counted-before <= capacity; all arrive in order, intact; accounted size 0 after draining',
                           failing_cases=len(chan_fail), **min(chan_fail, key=lambda o: len(o['request_line']))))
    if chan_bad:
        run.cov['extraction_differs'] = chan_bad
    run.cov['trusted_base'] = C.GLOBAL_TRUST + ['bincode 1.3 default configuration and serde derive are what the model encodes (validated byte-for-byte on this run\'s messages); strings are carried as UTF-8 bytes; Response::ProfilingData is not modelled',
                                                'crossbeam unbounded channel = FIFO; Relaxed atomics on one counter are coherent per location; the channel skeleton extractor (feature record)']


# ------------------------------------------------------------------ shared L2 oracles (C02 C03 C05 C07)
is_mutating = l2.is_mutating

READONLY_SRC = ('SetRoot', 'GetEntries', 'GetFileContent')


def oracle_src_readonly(r):
    bad = [c for c in r['impl_r'].get('src', []) if cmd_name(c) not in READONLY_SRC]
    return f'source doer was sent {bad[0]}' if bad else None


def oracle_ancestors(r):
    d = r['impl_r'].get('dest', [])
    n = sum(1 for c in d if cmd_name(c) == 'CreateRootAncestors')
    if n > 1:
        return 'CreateRootAncestors sent more than once'
    if n and r['sc'].dry:
        return 'CreateRootAncestors sent in a dry run'
    if any(cmd_name(c) == 'CreateRootAncestors' for c in r['impl_r'].get('src', [])):
        return 'CreateRootAncestors sent to the source'
    return None


def oracle_dry(r):
    if not r['sc'].dry:
        return None
    bad = [c for c in r['impl_r'].get('dest', []) if is_mutating(c)]
    if bad:
        return f'dry run sent {bad[0]} to the destination'
    bad = [c for c in r['impl_r'].get('src', []) if cmd_name(c) not in ('SetRoot', 'GetEntries')]
    if bad:
        return f'dry run sent {bad[0]} to the source'
    return None


CONSENT_ERRS = ('err:RootErr', 'err:EntryErr', 'err:NewerErr', 'err:OlderErr', 'err:SameErr')


def oracle_consent_error_untouched(r):
    if r['impl_r'].get('res') in CONSENT_ERRS:
        bad = [c for c in r['impl_r'].get('dest', []) if is_mutating(c) and cmd_name(c) != 'CreateRootAncestors']
        if bad:
            return f'run ended with {r["impl_r"]["res"]} but had already sent {bad[0]}'
    return None


def sides_asked(sc):
    """which side is asked for its entries (as the harness decides which scripted listing messages are delivered)"""
    sk = sc.src_reply[1] if sc.src_reply[0] == 'R' else None
    src_is_leaf = bool(sk) and sk != 'D'
    slash = sc.dest_root.endswith('/') or sc.dest_root.endswith('\\')
    eff = sc.dest_reply2 if (src_is_leaf and slash) else sc.dest_reply
    dk = eff[1] if eff[0] == 'R' else None
    return sk == 'D', dk == 'D'


def effective_dest_listing(sc):
    return {e[2]: e[3] for e in sc.events if e[0] == 'E' and e[1] == 'D'} if sides_asked(sc)[1] else {}


def effective_src_listing(sc):
    return {e[2]: e[3] for e in sc.events if e[0] == 'E' and e[1] == 'S'} if sides_asked(sc)[0] else {}


def oracle_consent_behaviours(r):
    """no deletion with entry behaviour error/skip; no overwrite of an existing destination file whose case's
    behaviour is error/skip (prompt cases are decided by the answers: covered by the model comparison)"""
    sc, d = r['sc'], r['impl_r'].get('dest', [])
    newer, older, same, entry, root = sc.beh
    dl, sl = effective_dest_listing(sc), effective_src_listing(sc)
    for c in d:
        n = cmd_name(c)
        if n.startswith('Delete'):
            p = cmd_path(c)
            if p != '' and entry in 'es':
                return f'{c} sent although the entry-deletion behaviour is {"error" if entry == "e" else "skip"}'
            if p == '' and (root in 'es' or entry in 'es'):
                return f'destination root deleted although root/entry behaviour is error/skip'
        if n == 'CreateOrUpdateFile':
            p = cmd_path(c)
            sd, dd = sl.get(p), dl.get(p)
            if p == '':
                sd = sc.src_reply[1] if sc.src_reply[0] == 'R' else None
                dd = (sc.dest_reply2[1] if (sc.dest_reply2[0] == 'R' and (sc.dest_root.endswith('/') or sc.dest_root.endswith('\\')) and sd and sd != 'D') else
                      (sc.dest_reply[1] if sc.dest_reply[0] == 'R' else None))
            if sd and dd and sd.startswith('F:') and dd.startswith('F:'):
                sm, dm = int(sd.split(':')[1]), int(dd.split(':')[1])
                b = same if sm == dm else (older if sm > dm else newer)
                if b in 'es':
                    return f'existing destination file {p!r} overwritten although its case\'s behaviour is {"error" if b == "e" else "skip"}'
    return None


def oracle_no_panic(r):
    """the boss does not panic, whatever the doers answer and in whatever order their listings arrive (C18; a panic here is exit status 101)"""
    if r['impl_r'].get('res') == 'panic':
        return 'the boss (sync()) panicked: ' + str(r['impl_r'].get('panic_msg', ''))[:200]
    return None


def oracle_prompt_consent(r):
    """behaviour = prompt: a deletion / an overwrite in a category needs an affirmative answer given to a prompt *of that category*
    in this run (read off the prompts the implementation printed and the answers it was fed, position by position) — an answer
    remembered for one category, or from an earlier sync, consents to nothing in another"""
    sc, d = r['sc'], r['impl_r'].get('dest', [])
    if r['impl_r'].get('res') == 'panic':
        return None
    kinds = [l2.classify_prompt(l) for l in r.get('printed', [])]
    answers = [a.split(':', 2)[2] for a in r.get('conc', '').split(',') if a]
    granted = set(k for k, a in zip(kinds, answers) if a.startswith(('Overwrite', 'Delete')))
    newer, older, same, entry, root = sc.beh
    dl, sl = effective_dest_listing(sc), effective_src_listing(sc)
    for c in d:
        n = cmd_name(c)
        if n.startswith('Delete') and cmd_path(c) != '' and entry == 'p' and 'E' not in granted:
            return f'{c} sent although deletions are to be prompted for and no prompt about a deletion was answered with Delete (prompts asked: {"".join(kinds) or "none"})'
        if n == 'CreateOrUpdateFile' and cmd_path(c) != '':
            sd, dd = sl.get(cmd_path(c)), dl.get(cmd_path(c))
            if sd and dd and sd.startswith('F:') and dd.startswith('F:'):
                sm, dm = int(sd.split(':')[1]), int(dd.split(':')[1])
                b, k = (same, 'S') if sm == dm else ((older, 'O') if sm > dm else (newer, 'N'))
                if b == 'p' and k not in granted:
                    return (f'existing destination file {cmd_path(c)!r} (case {k}) overwritten although its case is to be prompted for and no prompt of that case '
                            f'was answered with Overwrite (prompts asked: {"".join(kinds) or "none"}; answers: {answers[:len(kinds)]})')
    return None


def oracle_equal_untouched(r):
    """an entry that is the same on both sides - a folder; a file with the same time and length while same-time files are skipped; a link
    with the same text (and kind, where the destination tells kinds apart) - and that lies beneath folders present on both sides is sent no
    deleting and no creating command, whatever the arrival order of the listings (what is equal is left alone: C04/C13)"""
    sc, d = r['sc'], r['impl_r'].get('dest', [])
    sa = sides_asked(sc)
    if not (sa[0] and sa[1]):
        return None
    src, dst = effective_src_listing(sc), effective_dest_listing(sc)
    diff = bool(sc.dest_reply[2]) if sc.dest_reply[0] == 'R' else False
    same_beh = sc.beh[2]
    touched = {}
    for c in d:
        n = cmd_name(c)
        if n.startswith('Delete') or n in ('CreateFolder', 'CreateSymlink', 'CreateOrUpdateFile'):
            touched.setdefault(cmd_path(c), c)
    if sc.dry:
        # a dry run sends nothing: what it says it would do is judged instead
        import re as _re
        root = sc.dest_root.rstrip('/\\')
        for hx in r['impl_r'].get('log', []):
            try:
                line = bytes.fromhex(hx).decode(errors='replace')
            except ValueError:
                continue
            m = _re.match(r"Would (delete dest \w+|create dest \w+) '(.*)'$", line, _re.S) or _re.match(r"Would (copy) source file '.*' => dest file '(.*)'$", line, _re.S)
            if m and m.group(2).startswith(root + '/'):
                what = 'Delete' if m.group(1).startswith('delete') else ('CreateOrUpdateFile' if m.group(1) == 'copy' else 'Create' + m.group(1).split()[-1].capitalize())
                touched.setdefault(m.group(2)[len(root) + 1:], f'{what}({m.group(2)[len(root) + 1:]!r}) [announced by the dry run: {line!r}]')
    for p, sdet in src.items():
        ddet = dst.get(p)
        if ddet is None or p not in touched or p == '':
            continue
        parts = p.split('/')
        if any(src.get('/'.join(parts[:k])) != 'D' or dst.get('/'.join(parts[:k])) != 'D' for k in range(1, len(parts))):
            continue
        equal = False
        if sdet == 'D' and ddet == 'D':
            equal = True
        elif sdet.startswith('F:') and ddet.startswith('F:'):
            equal = sdet == ddet and same_beh == 's'
            if not equal and cmd_name(touched[p]).startswith('Delete'):
                return f'{touched[p]} sent although both sides hold a file at {p!r} (a file is overwritten, never deleted)'
        elif sdet.startswith('L:') and ddet.startswith('L:'):
            _, sk, st = sdet.split(':', 2); _, dk, dt = ddet.split(':', 2)
            equal = st == dt and (not diff or sk == dk)
        if equal:
            return f'{touched[p]} sent although {p!r} is the same on both sides (source {sdet}, destination {ddet}) and lies beneath folders present on both sides'
    return None


def oracle_failure_reported(r):
    if r['faulty'] and r['impl_r'].get('res') == 'ok':
        return 'the destination doer answered a command with an error but the run ended ok'
    return None


def parse_summary(log_hex):
    """{'files_del','folders_del','links_del','files_cp','folders_cr','links_cp'} from the info lines"""
    import re
    out = dict(files_del=0, folders_del=0, links_del=0, files_cp=0, folders_cr=0, links_cp=0, nothing=False, would=[])
    for h in log_hex:
        l = bytes.fromhex(h).decode(errors='replace')
        m = re.match(r'(?:Deleted|Would delete) (\d+) file\(s\) totalling (.+?), (\d+) folder\(s\) and (\d+) symlink\(s\)', l)
        if m:
            out.update(files_del=int(m.group(1)), folders_del=int(m.group(3)), links_del=int(m.group(4))); continue
        m = re.match(r'(?:Copied|Would copy) (\d+) file\(s\) totalling (.+?), (?:created|would create) (\d+) folder\(s\) and (?:copied|would copy) (\d+) symlink\(s\)', l)
        if m:
            out.update(files_cp=int(m.group(1)), folders_cr=int(m.group(3)), links_cp=int(m.group(4))); continue
        if l == 'Nothing to do!':
            out['nothing'] = True; continue
        m = re.match(r"Would (delete|create|copy) (?:source|dest) (?:root )?(file|folder|symlink) '", l)
        if m:
            out['would'].append((m.group(1), m.group(2), l))
    return out


def trace_actions(dest):
    acts, seen_files = [], set()
    for c in dest:
        n = cmd_name(c)
        if n == 'DeleteFile': acts.append(('delete', 'file', cmd_path(c)))
        elif n == 'DeleteFolder': acts.append(('delete', 'folder', cmd_path(c)))
        elif n == 'DeleteSymlink': acts.append(('delete', 'symlink', cmd_path(c)))
        elif n == 'CreateFolder': acts.append(('create', 'folder', cmd_path(c)))
        elif n == 'CreateSymlink': acts.append(('create', 'symlink', cmd_path(c)))
        elif n == 'CreateOrUpdateFile':
            p = cmd_path(c)
            if p not in seen_files:
                seen_files.add(p); acts.append(('copy', 'file', p))
    return acts


def oracle_summary(r):
    ir = r['impl_r']
    if ir.get('res') != 'ok' or r['sc'].dry or 'Marker(Done)' not in ir.get('dest', []):
        return None      # (a skipped root deletion ends the sync with Ok before anything is planned: no summary)
    s = parse_summary(ir.get('log', []))
    acts = trace_actions(ir.get('dest', []))
    cnt = lambda a, k: sum(1 for x in acts if x[0] == a and x[1] == k)
    want = dict(files_del=cnt('delete', 'file'), folders_del=cnt('delete', 'folder'), links_del=cnt('delete', 'symlink'),
                files_cp=cnt('copy', 'file'), folders_cr=cnt('create', 'folder'), links_cp=cnt('create', 'symlink'))
    got = {k: s[k] for k in want}
    if got != want:
        return f'summary {got} differs from what was sent {want}'
    if s['nothing'] != (sum(want.values()) == 0):
        return '"Nothing to do!" does not match the commands sent'
    return None


def oracle_failed_delete_no_creation(r):
    """C02 quantifier 'a failing deletion followed by queued creations': when the destination command answered with an
    error is a deletion, no creation may be sent (evaluated on the implementation's destination trace)"""
    sc, d = r['sc'], r['impl_r'].get('dest', [])
    if sc.err_at_cmd is None or sc.dry:
        return None
    mut = [c for c in d if is_mutating(c)]
    if sc.err_at_cmd >= len(mut) or not cmd_name(mut[sc.err_at_cmd]).startswith('Delete'):
        return None
    cr = [c for c in d if cmd_name(c) in ('CreateFolder', 'CreateSymlink', 'CreateOrUpdateFile')]
    if cr:
        return f'the deletion {mut[sc.err_at_cmd]} fails, yet {cr[0]} is sent after it'
    return None


def oracle_no_command_through_link(r):
    """C02/C12 on the boss's side, independent of the model: replay the implementation's destination trace on the scripted
    destination (root details + listing); no mutating command may name a path that has a proper ancestor (the root included)
    which at that moment is a symlink, and no file may be written onto a path that is a symlink: the kernel would follow it"""
    sc, d = r['sc'], r['impl_r'].get('dest', [])
    if sc.dry:
        return None
    state = dict(effective_dest_listing(sc))
    sk = sc.src_reply[1] if sc.src_reply[0] == 'R' else None
    slash = sc.dest_root.endswith('/') or sc.dest_root.endswith('\\')
    eff = sc.dest_reply2 if (sk and sk != 'D' and slash) else sc.dest_reply
    if eff[0] == 'R' and eff[1]:
        state[''] = eff[1]
    for c in d:
        n = cmd_name(c)
        if not is_mutating(c) or n == 'CreateRootAncestors':
            continue
        p = cmd_path(c)
        parts = p.split('/') if p else []
        for i in range(len(parts)):
            q = '/'.join(parts[:i])
            if state.get(q, '').startswith('L:'):
                return f'{n}({p!r}) is sent while {q!r} is a destination symlink: it acts through the link'
        if n == 'CreateOrUpdateFile' and state.get(p, '').startswith('L:'):
            return f'CreateOrUpdateFile({p!r}) is sent while that path is a destination symlink: the write goes through the link'
        if n.startswith('Delete'):
            state.pop(p, None)
        elif n == 'CreateFolder':
            state[p] = 'D'
        elif n == 'CreateSymlink':
            state[p] = 'L:new'
        elif n == 'CreateOrUpdateFile':
            state[p] = 'F:new'
    return None


def oracle_same_filters(r):
    """C06 'same on both sides': every GetEntries the boss sends, to either doer, carries the user's filter list —
    same number, same signs, same order, each pattern containing the user's text (whatever the anchoring wrap)"""
    sc = r['sc']
    want = [(f[0], f[1:]) for f in sc.filters if f and f[0] in '+-']
    if len(want) != len(sc.filters):
        return None
    for side in ('src', 'dest'):
        for c in r['impl_r'].get(side, []):
            if cmd_name(c) != 'GetEntries':
                continue
            got = [a for a in cmd_args(c) if a]
            if len(got) != len(want):
                return f'GetEntries to the {side} doer carries {len(got)} filters, the user gave {len(want)}'
            for g, (sign, pat) in zip(got, want):
                if g[0] != sign or pat not in bytes.fromhex(g[1:]).decode(errors='replace'):
                    return f'GetEntries to the {side} doer carries {g[0]}{bytes.fromhex(g[1:]).decode(errors="replace")!r} where the user gave {sign}{pat!r}'
    return None


def gen_mixed(rng, n, faults=True):
    return [l2.gen_scenario(rng, faults=faults) for _ in range(n)]


def doer_model_stream(run, n=None):
    """the shared L3 stream: the doer / file-system model against the real doer (see fsx.py, props2.fsx_stream)"""
    from .props2 import fsx_stream
    return fsx_stream(run, n or (150 if run.tier != 'thorough' else 3000))


GENERIC_L2_ORACLES = None


def general_l2(run, n=None, label='general-traces'):
    """The shared L2 stream: the real sync() against scripted doers on mixed scenarios (roots of every kind, conflicts, filters,
    behaviours, answers, dry runs, error replies, unexpected replies): exact trace/prompt/log equality with the boss model and every
    model-independent oracle that is valid for *all* runs.  Run by every check whose property a change in boss_sync.rs can refute."""
    global GENERIC_L2_ORACLES
    if GENERIC_L2_ORACLES is None:
        GENERIC_L2_ORACLES = [('source-read-only', oracle_src_readonly), ('ancestors', oracle_ancestors), ('dry-run-read-only', oracle_dry),
                              ('consent-error-untouched', oracle_consent_error_untouched), ('behaviours', oracle_consent_behaviours), ('prompt-consent', oracle_prompt_consent), ('equal-untouched', oracle_equal_untouched),
                              ('failure-reported', oracle_failure_reported), ('summary', oracle_summary), ('relay', oracle_relay),
                              ('failed-delete-no-creation', oracle_failed_delete_no_creation), ('no-command-through-link', oracle_no_command_through_link),
                              ('same-filters', oracle_same_filters), ('order', oracle_order), ('no-panic', oracle_no_panic)]
    rng = run.rng
    n = n or (600 if run.tier != 'thorough' else 6000)
    scs = gen_mixed(rng, n)
    for _ in range(n // 4):
        sc_ = l2.gen_scenario(rng, rng.choice(['folder', 'mixed']), faults=False)
        sc_.filters = rng.sample(['+.*', '-a', '+a/.*', '-.*\\.b', '-build|dist', '-.*\\.bak', '+d.*', '-x y'], rng.randint(1, 3))
        scs.append(sc_)
    # kept conflicts: several destination entries (links, files) standing where the source has folders with contents, their deletion
    # refused by configuration or by prompt answers; listings in walker order (a whole directory before descending) and in random order
    for _ in range(n // 4):
        sc_ = l2.Scenario()
        sc_.src_root, sc_.dest_root = 'S', 'D'
        sc_.src_reply = ('R', 'D', 0, 47); sc_.dest_reply = ('R', 'D', rng.random() < 0.3, 47); sc_.dest_reply2 = ('R', None, False, 47)
        names = rng.sample(['a', 'b', 'c', 'd', 'e'], rng.randint(2, 4))
        # siblings whose names extend another's by a character that sorts below '/' (data, data.old, data-2, "data (copy)"): any
        # ordering shortcut over the kept entries has to cope with them
        for nm in list(names):
            if rng.random() < 0.4:
                names.insert(rng.randrange(len(names) + 1), nm + rng.choice(['.old', '-2', ' (copy)', '.', '!', '0', '_x']))
        top_s, kids_s, top_d, kids_d = [], [], [], []
        for nm in names:
            r_ = rng.random()
            if r_ < 0.55:       # source folder with contents, destination something else
                top_s.append((nm, 'D'))
                for kid in rng.sample(['f', 'g', 'sub'], rng.randint(1, 3)):
                    kids_s.append((nm + '/' + kid, 'D' if kid == 'sub' else l2.det_file(rng.choice(l2.TIMES), 0)))
                    if kid == 'sub' and rng.random() < 0.7: kids_s.append((nm + '/sub/h', l2.det_file(rng.choice(l2.TIMES), 0)))
                top_d.append((nm, rng.choice(['L:D:X2f6f757473696465', 'L:U:N6e6f7768657265', l2.det_file(5, 3)])))
            elif r_ < 0.65:     # source file (or link), destination a symlink to a file outside / to nothing, at the very same path: kept, the write would go through it
                top_s.append((nm, rng.choice([l2.det_file(7, 0), l2.det_file(rng.choice(l2.TIMES), 0), 'L:U:N78'])))
                top_d.append((nm, rng.choice(['L:F:X2f6f7574736964652f66', 'L:U:N6e6f7768657265', 'L:D:X2f6f757473696465'])))
            elif r_ < 0.75:     # equal folders
                top_s.append((nm, 'D')); top_d.append((nm, 'D'))
                kids_s.append((nm + '/f', l2.det_file(rng.choice(l2.TIMES), 0)))
                if rng.random() < 0.5: kids_d.append((nm + '/f', l2.det_file(rng.choice(l2.TIMES), 0)))
            elif r_ < 0.9:      # destination folder with contents, source a file / link
                top_s.append((nm, rng.choice([l2.det_file(7, 0), 'L:U:N78']))); top_d.append((nm, 'D')); kids_d.append((nm + '/old', l2.det_file(3, 1)))
            else:
                top_d.append((nm, l2.det_file(3, 1)))
        if rng.random() < 0.6:
            sl, dl = top_s + kids_s, top_d + kids_d            # walker order
        else:
            sl, dl = l2.linearise(rng, top_s + kids_s), l2.linearise(rng, top_d + kids_d)
        sc_.events = l2.interleave(rng, [('E', 'S', p, d) for p, d in sl] + [('Z', 'S')], [('E', 'D', p, d) for p, d in dl] + [('Z', 'D')])
        sc_.beh = rng.choice(['oooso', 'ooosp', 'ooopo', 'ooopp', 'sssso', 'ooooo', 'oooeo'])
        sc_.answers = ''.join(rng.choice('sSdDsS') for _ in range(rng.choice([0, 1, 2, 3, 5])))
        sc_.files = [(p, [(b'', False)]) for p, d in sl if d.startswith('F:')]
        scs.append(sc_)
    return l2_stream(run, scs, GENERIC_L2_ORACLES, label,
                     nontrivial=lambda r: any(is_mutating(c) for c in r['impl_r'].get('dest', [])) or r['impl_r'].get('res', '').startswith('err'))


# ------------------------------------------------------------------ C02

@prop('C02')
def check_C02(run):
    from . import l3, l4
    import shutil, subprocess
    thorough = run.tier == 'thorough'
    if not prepare(run, need_cli=True):
        return
    C.proofs_step(run, 'C02')
    from . import trials as _trials; _trials.run_trials(run, 'C02')
    rng = run.rng
    run.cov['rule'] = ('L2: the real sync() against scripted doers over mixed scenarios (roots of every kind, conflicts, behaviours, answers, dry runs, error replies, unexpected replies): '
                       'oracle = whitelist on the source trace, CreateRootAncestors only to the destination, at most once, never in a dry run; '
                       'L4: the CLI on real trees whose destination contains symlinks into populated decoy directories, snapshot of source + decoys + sandbox before/after; '
                       'non-trivial = the run sent at least one mutating command or ended in an error; distinct by request line')
    doer_model_stream(run)
    general_l2(run)
    terminal_failed_delete(run)
    scs = corpus_l2('C02') + gen_mixed(rng, 2500 if not thorough else 25000)
    # deletions that fail: the barrier after the delete phase
    for _ in range(300 if not thorough else 3000):
        sc_ = l2.gen_scenario(rng, 'folder', faults=False)
        sc_.beh, sc_.answers, sc_.dry = 'ooooo', '', False
        sc_.err_at_cmd = rng.randint(0, 4)
        scs.append(sc_)
    l2_stream(run, scs, [('source-read-only', oracle_src_readonly), ('ancestors', oracle_ancestors), ('failed-delete-no-creation', oracle_failed_delete_no_creation),
                         ('no-command-through-link', oracle_no_command_through_link)], 'boss-traces',
              nontrivial=lambda r: any(is_mutating(c) for c in r['impl_r'].get('dest', [])) or r['impl_r'].get('res', '').startswith('err'),
              focus_gen=lambda: gen_mixed(rng, 5000))
    # ---- L4 with decoys
    known = C.load_known()['open']
    sb = l4.Sandbox()
    try:
        def build(case):
            base = os.path.join(sb.dir, f'c{case}'); os.makedirs(base)
            src, dst, out = (os.path.join(base, x) for x in ('src', 'dst', 'outside'))
            l3.make_tree(out, [('', 'D'), ('dir', 'D'), ('dir/precious.txt', 'F', b'precious', 10**18), ('file.txt', 'F', b'outside file', 10**18)])
            return base, src, dst, out
        cases = []
        # A: ordinary behaviours — nothing outside may change, the source may not change
        for case in range(6 if not thorough else 40):
            base, src, dst, out = build(case)
            ents = [('', 'D'), ('d', 'D'), ('d/f', 'F', b'new', 2 * 10**18), ('g', 'F', b'gg', 2 * 10**18), ('l', 'L', '../outside/dir'), ('x', 'F', b'xx', 2 * 10**18)]
            l3.make_tree(src, ents)
            dents = [('', 'D'), ('d', 'L', '../outside/dir'), ('g', 'L', '../outside/file.txt'), ('x', 'L', '../outside/file.txt'), ('old', 'L', '../outside/dir'), ('l', 'D'), ('l/inner', 'F', b'i', 10**18)]
            rng.shuffle(dents); dents.sort(key=lambda e: (e[0] != '', e[0].count('/')))
            l3.make_tree(dst, dents[: rng.randint(2, len(dents))] if case else dents)
            extra = rng.choice([[], ['--dry-run'], ['--dest-file-newer', 'overwrite'], ['--files-same-time', 'overwrite'], ['--filter', '-g']])
            cases.append(('ordinary', base, src, dst, out, ['--dest-entry-needs-deleting', 'delete', '--dest-root-needs-deleting', 'delete'] + extra, None, None))
        # B: kept destination symlinks (the repaired findings F7a / F7b): a deletion that is skipped by a behaviour choice, at depth and on
        # the root, and a deletion that fails on the doer (run as uid 65534 in a destination it may not change) with creations queued behind it
        def as_nobody():
            os.setgroups([]); os.setgid(65534); os.setuid(65534)
        skip_variants = [['--dest-entry-needs-deleting', 'skip'], ['--all-destructive-behaviour', 'skip'], ['--dest-entry-needs-deleting', 'prompt']]
        for vi, sv in enumerate(skip_variants if not thorough else skip_variants * 3):
            base, src, dst, out = build(f'skip{vi}')
            big = [(f'a{i:02d}', 'F', b'x' * rng.choice([10, 100000]), 2 * 10**18) for i in range(rng.choice([0, 3, 24]))]
            l3.make_tree(src, [('', 'D')] + big + [('d', 'D'), ('d/f', 'F', b'new', 2 * 10**18), ('d/precious.txt', 'F', b'overwritten?', 2 * 10**18), ('d/sub', 'D'), ('d/sub/g', 'F', b'g', 2 * 10**18)])
            l3.make_tree(dst, [('', 'D'), ('d', 'L', '../outside/dir')])
            cases.append(('skip-incompatible-symlink', base, src, dst, out, sv, None, None))
        base, src, dst, out = build('rootgate')
        l3.make_tree(src, [('', 'F', b'new root file', 2 * 10**18)]); l3.make_tree(dst, [('', 'L', 'outside/file.txt')])
        cases.append(('root-symlink-entry-skip', base, src, dst, out, ['--dest-root-needs-deleting', 'delete', '--dest-entry-needs-deleting', 'skip'], None, 'noslash'))
        # a folder source onto a root that is a symlink to a populated outside folder, root deletion granted, entry deletion refused
        for vi, (sv, answers) in enumerate([(['--dest-root-needs-deleting', 'delete', '--dest-entry-needs-deleting', 'skip'], None),
                                            (['--dest-root-needs-deleting', 'prompt', '--dest-entry-needs-deleting', 'prompt'], '1:.*root.*:Delete,1:.*:Skip \\(all occurences\\)'),
                                            (['--dest-root-needs-deleting', 'delete', '--all-destructive-behaviour', 'skip'], None)]):
            base, src, dst, out = build(f'rootlinkdir{vi}')
            l3.make_tree(src, [('', 'D'), ('precious.txt', 'F', b'overwritten?', 2 * 10**18), ('n', 'F', b'new', 2 * 10**18), ('sub', 'D'), ('sub/b', 'F', b'b', 2 * 10**18), ('lnk', 'L', 'n')])
            l3.make_tree(dst, [('', 'L', 'outside/dir')])
            cases.append(('root-symlink-folder-source-entry-skip', base, src, dst, out, sv, None, 'noslash' if answers is None else ('noslash', answers)))
        for vi in range(2 if not thorough else 8):
            base, src, dst, out = build(f'faildel{vi}')
            l3.make_tree(src, [('', 'D'), ('d', 'D'), ('d/f', 'F', b'new', 2 * 10**18), ('d/g', 'F', b'new2', 2 * 10**18), ('d/precious.txt', 'F', b'overwritten?', 2 * 10**18), ('e', 'F', b'e', 2 * 10**18)])
            l3.make_tree(dst, [('', 'D'), ('d', 'L', '../outside/dir'), ('old', 'F', b'o', 10**18)][: 3 if vi % 2 else 2])
            subprocess.run(['chmod', '-R', 'a+rX', base], capture_output=True); os.chmod(out + '/dir', 0o777); os.chmod(out + '/dir/precious.txt', 0o666); os.chmod(sb.dir, 0o755)
            if l4.nobody_can_run():
                cases.append(('failing-deletion-then-queued-creations', base, src, dst, out, ['--dest-entry-needs-deleting', 'delete'], as_nobody, None))
            else:
                run.count('skipped:uid-65534-cannot-run-the-binary')
        for kind, base, src, dst, out, args, pre, spelling in cases:
            finding = None
            before = {k: l3.snapshot(p) for k, p in (('src', src), ('outside', out))}
            answers = None
            if isinstance(spelling, tuple):
                spelling, answers = spelling
            env = sb.env({'RJRSSYNC_TEST_PROMPT_RESPONSE': answers or '1:.*:Skip \\(all occurences\\)'} if args[-1] == 'prompt' else {})
            r = l4.run_cli(([src, dst] if spelling == 'noslash' else [src + '/', dst + '/']) + args, env=env, timeout=60, preexec=pre)
            after = {k: l3.snapshot(p) for k, p in (('src', src), ('outside', out))}
            changed = [k for k in before if before[k] != after[k]]
            run.case(('l4-decoy', kind, tuple(args), str(sorted(l3.snapshot(dst)))), True,
                     sample=dict(layer='L4', kind=kind, args=args, rc=r['rc'], changed=changed))
            run.count('l4-decoy:' + kind)
            if changed:
                diff = {k: {p.decode(errors='replace'): (before[k].get(p), after[k].get(p)) for p in set(before[k]) | set(after[k]) if before[k].get(p) != after[k].get(p)} for k in changed}
                if finding and any(f.get('id') == finding for f in known) and changed == ['outside']:
                    run.known.append(f'{finding}: with --dest-entry-needs-deleting=skip a destination symlink to a folder outside the destination is kept and the source folder\'s contents are created through it ({list(diff["outside"])[:2]})')
                else:
                    run.violation(dict(kind='oracle-failed-on-implementation', oracle='source and everything outside the destination unchanged', layer='L4', scenario=kind, args=args,
                                       rc=r['rc'], changed=diff, stderr=r['err'][-800:]))
    finally:
        sb.close()
    run.cov['trusted_base'] = C.GLOBAL_TRUST + ['the doer-side half of the property (every doer path is root.join(relative); read-only commands do not change the file system) is covered by C12/C01\'s file-system checks; here: boss side + L4 snapshots']
    run.assumptions = ['source and destination are not nested; no destination file is hard-linked from outside']


# ------------------------------------------------------------------ C03

@prop('C03')
def check_C03(run):
    thorough = run.tier == 'thorough'
    if not prepare(run):
        return
    C.proofs_step(run, 'C03')
    from . import trials as _trials; _trials.run_trials(run, 'C03')
    general_l2(run)
    rng = run.rng
    run.cov['rule'] = ('L2: behaviour assignments from the 4^5 product x prompt-answer scripts (skip/do, once/all, cancel at the k-th prompt, exhausted script = unattended terminal) x tree pairs mixing '
                       'newer/older/same-time files, extra entries, kind conflicts incl. the root; exact trace + prompts = model; oracles: consent error => nothing destructive sent; no deletion / overwrite '
                       'under an error/skip behaviour; non-trivial = a prompt was shown or a consent error occurred or something was deleted/overwritten; distinct by request line')
    scs = corpus_l2('C03')
    assigns = [''.join(rng.choice('peso') for _ in range(5)) for _ in range(200)] if not thorough else [a + b + c + d + e for a in 'peso' for b in 'peso' for c in 'peso' for d in 'peso' for e in 'peso']
    trees = [l2.gen_scenario(rng, faults=False) for _ in range(3 if not thorough else 5)]
    answer_scripts = ['', 's', 'd', 'c', 'S', 'D', 'sd', 'dc', 'sDc', 'SSdd', 'ddddddd', 'sssssss', 'dsc'] if thorough else None
    for a in assigns:
        for t in trees:
            for ans in (answer_scripts or [rng.choice(['', 'c', 's', 'd', 'S', 'D', 'sD', 'dSc', 'ddc', 'sdsd', 'DDDD'])]):
                s = t.clone(); s.beh = a; s.answers = ans; s.dry = False; s.err_at_cmd = None
                scs.append(s)
    scs += [l2.gen_scenario(rng, faults=False) for _ in range(600)]
    def nt(r):
        ir = r['impl_r']
        return bool(ir.get('prompts')) or ir.get('res') in CONSENT_ERRS or any(cmd_name(c).startswith('Delete') for c in ir.get('dest', []))
    l2_stream(run, scs, [('consent-error-untouched', oracle_consent_error_untouched), ('behaviours', oracle_consent_behaviours), ('prompt-consent', oracle_prompt_consent)], 'consent', nontrivial=nt,
              focus_gen=lambda: [l2.gen_scenario(rng, faults=False) for _ in range(6000)])
    run.cov['trusted_base'] = C.GLOBAL_TRUST + ['dialoguer / an attended terminal are not exercised: answers come through the test-answer hook; an unattended terminal is the exhausted script']


# ------------------------------------------------------------------ C05

@prop('C05')
def check_C05(run):
    from . import l3, l4
    import shutil
    thorough = run.tier == 'thorough'
    if not prepare(run, need_cli=True):
        return
    C.proofs_step(run, 'C05')
    from . import trials as _trials; _trials.run_trials(run, 'C05')
    general_l2(run)
    rng = run.rng
    run.cov['rule'] = ('L2: paired runs of the real sync() on the same scenario with and without dry_run; oracles: the dry run sends nothing mutating and no GetFileContent; its "Would ..." lines and summary counts '
                       'equal the real run\'s delete/create/copy commands (same kinds, same order, files once) whenever the real run succeeds; L4: CLI dry run on real trees, snapshot before/after incl. missing '
                       'destination ancestors; non-trivial = the plan has at least one action; distinct by request line')
    pairs = []
    for _ in range(800 if not thorough else 8000):
        s = l2.gen_scenario(rng, faults=False)
        d = s.clone(); d.dry = True; s.dry = False
        pairs.append((d, s))
    flat = corpus_l2('C05') + [x for p in pairs for x in p]
    ncorp = len(flat) - 2 * len(pairs)
    res = l2_stream(run, flat, [('dry-run-read-only', oracle_dry), ('summary', oracle_summary)], 'dry-run',
                    nontrivial=lambda r: len(trace_actions(r['impl_r'].get('dest', []))) + len(parse_summary(r['impl_r'].get('log', []))['would']) > 0)
    site_counts = {}
    for i in range(len(pairs)):
        rd, rr = res[ncorp + 2 * i], res[ncorp + 2 * i + 1]
        if rr['impl_r'].get('res') != 'ok' or rd['impl_r'].get('res') != 'ok':
            continue
        would = parse_summary(rd['impl_r'].get('log', []))
        acts = trace_actions(rr['impl_r'].get('dest', []))
        for a in acts:
            site_counts[a[0] + ':' + a[1]] = site_counts.get(a[0] + ':' + a[1], 0) + 1
        sep = chr(rd['sc'].dest_reply[3]) if rd['sc'].dest_reply[0] == 'R' else '/'
        ok = len(would['would']) == len(acts) and all(w[0] == a[0] and w[1] == a[1] and (a[2] == '' or a[2].replace('/', sep) + "'" in w[2]) for w, a in zip(would['would'], acts))
        sd, sr = would, parse_summary(rr['impl_r'].get('log', []))
        same_counts = all(sd[k] == sr[k] for k in ('files_del', 'folders_del', 'links_del', 'files_cp', 'folders_cr', 'links_cp', 'nothing'))
        if not ok or not same_counts:
            run.violation(dict(kind='oracle-failed-on-implementation', oracle='the dry run names exactly what the real run does', layer='L2',
                               request_line_dry=rd['line'], request_line_real=rr['line'], would=[w[2] for w in would['would']], real_actions=acts,
                               dry_summary={k: sd[k] for k in sd if k != 'would'}, real_summary={k: sr[k] for k in sr if k != 'would'}, scenario=rd['sc'].describe()))
            break
    run.cov['action_sites_exercised_in_paired_runs'] = site_counts
    # L4: a dry run changes nothing, not even missing ancestors
    sb = l4.Sandbox()
    try:
        for case in range(20 if not thorough else 120):
            base = os.path.join(sb.dir, f'd{case}'); os.makedirs(base)
            src, dst = os.path.join(base, 'src'), os.path.join(base, 'a/b/dst' if case % 2 else 'dst')
            l3.make_tree(src, [('', 'D'), ('f', 'F', b'x' * rng.randint(0, 9000), 2 * 10**18), ('d', 'D'), ('d/g', 'F', b'g', 2 * 10**18), ('l', 'L', 'f')])
            if case % 2 == 0 or case >= 10:
                l3.make_tree(dst, [('', 'D'), ('f', 'F', b'old', 10**18), ('gone', 'D'), ('gone/x', 'F', b'x', 10**18), ('d', 'F', b'file-not-folder', 10**18)])
            before = l3.snapshot(base)
            # every way of turning the output up or down: what is printed must not decide what is done
            OUT = [([], {}), (['--quiet'], {}), (['-q', '--no-progress'], {}), (['--verbose'], {}), (['--stats'], {}), (['--no-progress', '--stats'], {}), ([], {'RUST_LOG': 'error'}), ([], {'RUST_LOG': 'off'}),
                   ([], {'RUST_LOG': 'trace'}), (['--quiet'], {'RUST_LOG': 'warn'})]
            extra, envx = OUT[case % len(OUT)]
            r = l4.run_cli([src + '/', dst + '/', '--dry-run', '--dest-file-newer', 'overwrite'] + extra, env=sb.env(envx), timeout=60)
            after = l3.snapshot(base)
            run.case(('l4-dry', case, tuple(extra), tuple(envx.items())), True, sample=dict(layer='L4', rc=r['rc'], flags=extra, env=envx, would_lines=r['err'].count('Would ') + r['out'].count('Would ')))
            run.count('l4-dry-run:' + (' '.join(extra) or '-') + (':' + ','.join(f'{k}={v}' for k, v in envx.items()) if envx else ''))
            if before != after or r['rc'] != 0:
                run.violation(dict(kind='oracle-failed-on-implementation', oracle='--dry-run changes nothing (missing ancestors included), whatever the verbosity', layer='L4', rc=r['rc'], flags=extra, env=envx,
                                   changed=[p.decode(errors='replace') for p in set(before) | set(after) if before.get(p) != after.get(p)], stderr=r['err'][-500:]))
                break
    finally:
        sb.close()
    run.cov['trusted_base'] = C.GLOBAL_TRUST + ['the prediction theorems are per loop / per entry (C05_prediction_deletes, C05_prediction_copy_entry); the whole-run statement is carried by the paired L2 runs']


# ------------------------------------------------------------------ C07

@prop('C07')
def check_C07(run):
    from . import l3, l4
    import shutil
    thorough = run.tier == 'thorough'
    if not prepare(run, need_cli=True):
        return
    C.proofs_step(run, 'C07')
    from . import trials as _trials; _trials.run_trials(run, 'C07')
    _trials.run_spec_stream(run)
    doer_model_stream(run)
    general_l2(run)
    rng = run.rng
    run.cov['rule'] = ('L2: for scenarios with a non-empty plan, an error reply injected at every mutating destination command index k (the boss sees it at whatever poll the real timing gives; '
                       'the model is asked for every poll index): oracle = the run does not end ok; summary numbers = commands sent; source failures (error reply, unexpected reply, length change); '
                       'L4: real faults (ENOTEMPTY through a hidden entry, EISDIR/ENOTDIR kind conflicts made behind the boss\'s back, unwritable destination as uid 65534); non-trivial = a fault was injected or the plan is non-empty; distinct by request line')
    scs = corpus_l2('C07')
    bases = [l2.gen_scenario(rng, profile='folder', faults=False) for _ in range(60 if not thorough else 600)]
    for b in bases:
        b.beh, b.answers, b.dry = 'ooooo', '', False
    first = l2.run_batch(bases)
    for b, r in zip(bases, first):
        nm = sum(1 for c in r['impl_r'].get('dest', []) if is_mutating(c))
        for k in range(nm):
            s = b.clone(); s.err_at_cmd = k; scs.append(s)
    scs += gen_mixed(rng, 800 if not thorough else 8000)
    l2_stream(run, scs, [('failure-reported', oracle_failure_reported), ('summary', oracle_summary), ('relay', oracle_relay)], 'faults',
              nontrivial=lambda r: r['faulty'] or any(is_mutating(c) for c in r['impl_r'].get('dest', [])))
    terminal_failed_delete(run)
    # L4 real faults
    sb = l4.Sandbox()
    try:
        def tree(name):
            base = os.path.join(sb.dir, name); os.makedirs(base)
            return base, os.path.join(base, 'src'), os.path.join(base, 'dst')
        outcomes = []
        # ENOTEMPTY: a folder that must go holds an entry the filters hide
        base, src, dst = tree('notempty')
        l3.make_tree(src, [('', 'D'), ('keepme', 'F', b'k', 10**18)])
        l3.make_tree(dst, [('', 'D'), ('big', 'D'), ('big/hidden.txt', 'F', b'h', 10**18), ('big/seen.txt', 'F', b's', 10**18)])
        outcomes.append(('ENOTEMPTY', l4.run_cli([src + '/', dst + '/', '--filter', '-big/hidden.txt'], env=sb.env(), timeout=60), dst))
        # entries that cannot be described (a fifo, a socket, a file dated before 1970), on the source and on the destination, with nothing to copy
        # after them (an absent destination; an up-to-date tree; a second sync of a spec file): the run does not end 0
        import socket as _sock
        def special(dirp, what):
            if what == 'fifo': os.mkfifo(os.path.join(dirp, 'pipe'))
            elif what == 'socket':
                s_ = _sock.socket(_sock.AF_UNIX); s_.bind(os.path.join(dirp, 'sock')); s_.close()
            else:
                open(os.path.join(dirp, 'old'), 'w').write('o'); os.utime(os.path.join(dirp, 'old'), ns=(-10**18, -10**18))
        for what in ('fifo', 'socket', 'pre-1970'):
            for shape in ('dest-absent', 'up-to-date', 'on-dest', 'in-sub-folder'):
                base, src, dst = tree(f'odd-{what}-{shape}')
                l3.make_tree(src, [('', 'D'), ('d', 'D'), ('d/e', 'D')])
                if shape != 'dest-absent': l3.make_tree(dst, [('', 'D'), ('d', 'D'), ('d/e', 'D')])
                try:
                    special({'on-dest': dst, 'in-sub-folder': src + '/d/e'}.get(shape, src), what)
                except OSError:
                    run.count(f'undescribable:{what}:host-cannot-make-it'); continue
                r_ = l4.run_cli([src + '/', dst + '/', '--dest-entry-needs-deleting', 'delete'], env=sb.env(), timeout=60)
                run.case(('undescribable', what, shape), True, sample=dict(layer='L4', entry=what, shape=shape, rc=r_['rc']) if shape == 'dest-absent' else None)
                run.count(f'undescribable:{what}:{shape}:rc={r_["rc"]}'); run.cov['traces_validated_against_impl'] += 1
                if r_['rc'] == 0 or r_['timeout']:
                    run.violation(dict(kind='oracle-failed-on-implementation', oracle='an entry that cannot be described (and so cannot be mirrored) makes the run end non-zero, also when nothing is left to copy after it', layer='L4',
                                       entry=what, shape=shape, rc=r_['rc'], stdout=r_['out'][-300:], stderr=r_['err'][-300:],
                                       tree=f'source folders d, d/e; {"no destination" if shape == "dest-absent" else "the same folders on the destination"}; a {what} ' + {'on-dest': 'in the destination root', 'in-sub-folder': 'in the source folder d/e'}.get(shape, 'in the source root')))
                    break
        # unreadable source entry
        base, src, dst = tree('unreadable')
        l3.make_tree(src, [('', 'D'), ('sub', 'D'), ('sub/f', 'F', b'f', 10**18)])
        os.chmod(os.path.join(src, 'sub'), 0)
        import subprocess
        def as_nobody():
            os.setgroups([]); os.setgid(65534); os.setuid(65534)
        os.chmod(sb.dir, 0o755); os.chmod(base, 0o777); os.makedirs(dst); os.chmod(dst, 0o777)
        if l4.nobody_can_run():
            outcomes.append(('EACCES-source-dir', l4.run_cli([src + '/', dst + '/'], env=sb.env(), timeout=60, preexec=as_nobody), dst))
        else:
            run.count('skipped:uid-65534-cannot-run-the-binary')
        os.chmod(os.path.join(src, 'sub'), 0o755)
        # unwritable destination folder
        base, src, dst = tree('unwritable')
        l3.make_tree(src, [('', 'D'), ('a', 'F', b'a', 10**18), ('b', 'F', b'b', 10**18)])
        os.chmod(base, 0o777); os.makedirs(dst); os.chmod(dst, 0o555)
        if l4.nobody_can_run():
            outcomes.append(('EACCES-dest-dir', l4.run_cli([src + '/', dst + '/'], env=sb.env(), timeout=60, preexec=as_nobody), dst))
        os.chmod(dst, 0o755)
        # EFBIG: the destination accepts only `lim` bytes of a file (RLIMIT_FSIZE, SIGXFSZ ignored): limit inside the first part,
        # on a part boundary, inside a middle part, inside the last part, one byte short; exit 0 <=> the copy is complete
        import resource, signal
        sizes = [3000, 6000, 12388, 4096 + 8192 + 16384 + 5] + ([rng.randint(1, 60000) for _ in range(12)] if thorough else [rng.randint(1, 40000)])
        for n in sizes:
            lims = sorted({1, n // 3, 2048, 4096, 4096 + 8192, 5120, n - 50, n - 1, n, n + 1})
            for lim in [l for l in lims if 0 < l]:
                base, src, dst = tree(f'efbig{n}-{lim}')
                l3.make_tree(src, [('', 'D'), ('f', 'F', l3.content(n, n), 10**18 + 7), ('g', 'F', b'g', 10**18 + 9)])
                def limit(lim=lim):
                    signal.signal(signal.SIGXFSZ, signal.SIG_IGN)
                    resource.setrlimit(resource.RLIMIT_FSIZE, (lim, lim))
                r = l4.run_cli([src + '/', dst + '/', '--no-progress'], env=sb.env(), timeout=60, preexec=limit)
                diffs = tree_equal_mirror(l3.snapshot(src), l3.snapshot(dst))
                run.case(('l4-efbig', n, lim), True, sample=dict(layer='L4', fault='EFBIG', length=n, rlimit_fsize=lim, rc=r['rc']) if lim == n - 1 else None)
                run.count(f'l4-efbig:rc={r["rc"]}:' + ('limit<len' if lim < n else 'limit>=len'))
                if r['rc'] == 0 and diffs:
                    run.violation(dict(kind='oracle-failed-on-implementation', oracle='exit status 0 only if every planned copy was carried out (destination == source)', layer='L4', fault='EFBIG',
                                       length=n, rlimit_fsize=lim, rc=0, differences=[str(d)[:200] for d in diffs[:4]], stdout=r['out'][-300:])); break
                if (lim < n) != (r['rc'] == 12) or r['timeout'] or (r['rc'] == 12 and 'ERROR' not in r['err']):
                    run.violation(dict(kind='oracle-failed-on-implementation', oracle='a write that the destination refuses (EFBIG) ends the run with status 12 and an error message; a sufficient limit does not', layer='L4',
                                       fault='EFBIG', length=n, rlimit_fsize=lim, rc=r['rc'], stderr=r['err'][-500:])); break
                shutil.rmtree(base, ignore_errors=True)
        for name, r, dst in outcomes:
            run.case(('l4-fault', name), True, sample=dict(layer='L4', fault=name, rc=r['rc'], stderr_tail=r['err'][-200:]))
            run.count('l4-fault:' + name)
            if r['timeout'] or r['rc'] != 12 or 'ERROR' not in r['err']:
                run.violation(dict(kind='oracle-failed-on-implementation', oracle='a failing operation ends the run with status 12 and an error message', layer='L4', fault=name,
                                   rc=r['rc'], timeout=r['timeout'], stderr=r['err'][-800:]))
    finally:
        import subprocess as _sp
        _sp.run(['chmod', '-R', 'u+rwx', sb.dir]); sb.close()
    c11_concurrent_writer(run)
    run.cov['trusted_base'] = C.GLOBAL_TRUST + ['"every I/O error the OS can produce" is bounded by the error kinds provoked here; the doer turning each failure into an Error response is validated by L3/L4, not proved']


# ------------------------------------------------------------------ C08

def tree_equal_mirror(src_snap, dst_snap):
    """independent mirror comparison: same kinds, file bytes and mtimes, link texts"""
    diffs = []
    for p in set(src_snap) | set(dst_snap):
        a, b = src_snap.get(p), dst_snap.get(p)
        if a != b:
            diffs.append((p.decode(errors='replace'), a, b))
    return diffs


@prop('C08')
def check_C08(run):
    from . import l3, l4
    import shutil, resource, signal, subprocess
    thorough = run.tier == 'thorough'
    if not prepare(run, need_cli=True):
        return
    C.proofs_step(run, 'C08')
    from . import trials as _trials; _trials.run_trials(run, 'C08')
    doer_model_stream(run)
    rng = run.rng
    consts = run.extract_status.get('constants', {})
    run.cov['rule'] = ('L3: the real doer receives multi-chunk files under RLIMIT_FSIZE (SIGXFSZ ignored) so that the write of a chosen chunk fails with EFBIG while all later chunks are already queued; '
                       'final file (length, time-stamp class, completeness) = model; oracle: source mtime => source bytes. L4: the CLI (local doers) aborted at the n-th crash point for every n of a mixed sync '
                       '(command boundaries and the sub-steps of writing a file), oracle on the snapshot, then a recovery run with overwriting permitted must give the mirror; non-trivial = a fault or crash was injected; distinct by (chunks, limit) / crash point')
    # ---- L3 EFBIG
    d = l3.scratch()
    try:
        os.makedirs(os.path.join(d, 'src'))
        cases = []
        lengths = [12388, 4096 + 8192, 4096 + 1, 30000, 5000] + ([rng.randint(4097, 70000) for _ in range(20)] if thorough else [rng.randint(4097, 40000) for _ in range(4)])
        model_chunks = C.run_model([f'chunks {n}' for n in lengths])
        for n, mc in zip(lengths, model_chunks):
            chunks = [tuple(map(int, c.split(','))) for c in mc[1:-1].split(';')]
            limits = sorted({1, chunks[0][0] - 1, chunks[0][0], chunks[0][0] + 1, n // 2, n - 1, n - 50 if n > 50 else 1})
            for lim in limits:
                if 0 < lim < n:
                    for pre in (None, n + 500, 10):
                        cases.append((n, chunks, lim, pre))
        if not thorough:
            cases = cases[::2]
        SRC_MTS = [1_600_000_000_123_456_789, 0, 1, 1_000_000_000, 2 ** 32 * 10 ** 9, 999_999_999]     # the source's time may be anything, the epoch included
        src_mt_of = lambda i: SRC_MTS[i % len(SRC_MTS)]
        old_mt = 1_000_000_000_000_000_000
        by_limit = {}
        for i, (n, chunks, lim, pre) in enumerate(cases):
            data = l3.content(i, n)
            l3.make_tree(os.path.join(d, 'src'), [(f'f{i}', 'F', data, src_mt_of(i))])
            by_limit.setdefault(lim, []).append(i)
        results = {}
        for lim, idxs in by_limit.items():
            droot = os.path.join(d, f'dst{lim}'); os.makedirs(droot)
            lines = []
            for i in idxs:
                n, chunks, _, pre = cases[i]
                if pre is not None:
                    l3.make_tree(droot, [(f'f{i}', 'F', b'\xee' * min(pre, lim), old_mt)])
                cmds, off = [['SR', C.X(droot)]], 0
                srcfile = os.path.join(d, 'src', f'f{i}').encode().hex()
                src_mt = src_mt_of(i)
                for ln, more in chunks:
                    cmds.append(['CUF', C.X(f'f{i}'), f'f{srcfile}:{off}:{ln}', '-' if more else str(src_mt), str(more)]); off += ln
                    if more and i % 2 == 1:
                        cmds.append(['MK'])     # the boss interleaves progress markers between the parts of a big file
                lines.append(l3.l3_line(cmds, 30000))
            def limit():
                signal.signal(signal.SIGXFSZ, signal.SIG_IGN)
                resource.setrlimit(resource.RLIMIT_FSIZE, (lim, lim))
            p = subprocess.run([C.HARNESS_BIN, '--verif'], input='\n'.join(lines) + '\n', capture_output=True, text=True, preexec_fn=limit, env=C.ENV, timeout=600)
            answers = [l[3:] for l in p.stdout.split('\n') if l.startswith('@@ ')]
            snap = l3.snapshot(droot)
            for i, a in zip(idxs, answers + ['HARNESS-DIED'] * (len(idxs) - len(answers))):
                results[i] = (a, snap.get(f'f{i}'.encode()))
        mlines = []
        for i, (n, chunks, lim, pre) in enumerate(cases):
            faults, off, hit = [], 0, False
            for ln, more in chunks:
                if not hit and off + ln > lim:
                    faults.append('w%d' % (lim - off)); hit = True
                else:
                    faults.append('n')
                off += ln
            mlines.append('recv %s %d %s %s' % ('-' if pre is None else str(min(pre, lim)), len(chunks), ' '.join(f'{ln} {more}' for ln, more in chunks), ' '.join(faults)))
        model = C.run_model(mlines)
        import hashlib
        for i, ((n, chunks, lim, pre), m_ans) in enumerate(zip(cases, model)):
            ans, ent = results.get(i, ('missing', None))
            data = l3.content(i, n); src_mt = src_mt_of(i)
            if ent is None:
                got = 'absent'
            else:
                mt = 'src' if ent[3] == src_mt else ('old' if ent[3] == old_mt else 'fresh')
                got = f'len={ent[1]} mt={mt} complete={int(ent[2] == hashlib.sha1(data).hexdigest())}'
            run.case(('efbig', n, lim, pre), True, sample=dict(layer='L3', length=n, chunks=chunks, rlimit_fsize=lim, previous_dest_len=pre, impl=got, responses=ans[:200]))
            run.count('efbig:' + got.split(' ')[1] if ' ' in got else 'efbig:absent'); run.cov['traces_validated_against_impl'] += 1
            if ent is not None and ent[3] == src_mt and ent[2] != hashlib.sha1(data).hexdigest():
                run.violation(dict(kind='oracle-failed-on-implementation', oracle='a destination file that carries the source mtime holds the source bytes', layer='L3',
                                   length=n, chunks=chunks, rlimit_fsize=lim, previous_dest_len=pre, impl=got, model=m_ans, responses=ans[:500],
                                   replay_hint='write of the chunk crossing the limit fails with EFBIG while the later chunks are already queued'))
                break
            if got != m_ans:
                run.violation(dict(kind='correspondence-broken', correspondence='L3/file-receive', length=n, chunks=chunks, rlimit_fsize=lim, previous_dest_len=pre, impl=got, model=m_ans, responses=ans[:500]), no_input=True)
                break
        run.cov['disagreements_checked'] += len(cases)
    finally:
        shutil.rmtree(d, ignore_errors=True)
    # ---- L4 crash points
    sb = l4.Sandbox()
    try:
        def build(name):
            base = os.path.join(sb.dir, name); os.makedirs(base)
            src, dst = os.path.join(base, 'src'), os.path.join(base, 'dst')
            l3.make_tree(src, [('', 'D'), ('big', 'F', l3.content(7, 12388), 2 * 10**18 + 5), ('small', 'F', b'small', 2 * 10**18 + 6), ('d', 'D'), ('d/x', 'F', l3.content(8, 4097), 2 * 10**18 + 7),
                               ('l', 'L', 'small'), ('empty', 'F', b'', 2 * 10**18 + 8), ('same', 'F', b'same-bytes', 10**18)])
            l3.make_tree(dst, [('', 'D'), ('big', 'F', b'old big content that is longer ' * 1000, 10**18), ('small', 'D'), ('small/inside', 'F', b'i', 10**18), ('gone', 'F', b'g', 10**18),
                               ('same', 'F', b'same-bytes', 10**18), ('d', 'L', 'big')])
            return base, src, dst
        flags = ['--dest-file-newer', 'overwrite', '--dest-file-older', 'overwrite', '--dest-entry-needs-deleting', 'delete', '--dest-root-needs-deleting', 'delete']
        base, src, dst = build('count')
        plog = os.path.join(sb.dir, 'points.log')
        r = l4.run_cli([src + '/', dst + '/'] + flags, env=sb.env({'RJRSSYNC_VERIF_CRASH_AT': '0', 'RJRSSYNC_VERIF_POINT_LOG': plog}))
        points = [l.split() for l in open(plog)] if os.path.exists(plog) else []
        npoints = len(points)
        run.cov['crash_points'] = dict(total=npoints, kinds=sorted({p[1] for p in points}))
        if r['rc'] != 0 or npoints < 10:
            run.violation(dict(kind='harness-problem', what='the crash-point hook did not log the expected points', rc=r['rc'], points=npoints, stderr=r['err'][-400:]), no_input=True)
        src_snap = l3.snapshot(src)
        todo = list(range(1, npoints + 1)) if thorough or npoints <= 60 else sorted(rng.sample(range(1, npoints + 1), 60))
        from . import fsx as _fsx
        def walk_order(top):
            # the order of the walk: a whole directory (in readdir order) before descending
            out, queue = [], ['']
            while queue:
                d_ = queue.pop(0)
                for e_ in os.scandir(os.path.join(top, d_) if d_ else top):
                    rel_ = (d_ + '/' if d_ else '') + e_.name
                    out.append(rel_)
                    if e_.is_dir(follow_symlinks=False): queue.append(rel_)
            return out
        def node_toks(top, name):
            t_ = [C.X(name), 'D']; n_ = 1
            for rel_ in walk_order(top):
                fp = os.path.join(top, rel_); st_ = os.lstat(fp); n_ += 1
                import stat as _st
                if _st.S_ISLNK(st_.st_mode): t_ += [C.X(name + '/' + rel_), 'L', C.X(os.readlink(fp))]
                elif _st.S_ISDIR(st_.st_mode): t_ += [C.X(name + '/' + rel_), 'D']
                else: t_ += [C.X(name + '/' + rel_), 'F', str(st_.st_mtime_ns), C.X(open(fp, 'rb').read())]
            return [str(n_)] + t_
        def model_states(src_, dst_):
            ans = C.run_model(['syncprefixes ' + ' '.join([C.X('S')] + node_toks(src_, 'S') + [C.X('D')] + node_toks(dst_, 'D'))])[0]
            out = []
            for part in ans.split('|'):
                if not part.startswith('next='): return None
                nx, fs_ = part[5:].split(' fs=[', 1)
                ents = {}
                for e_ in fs_.rstrip(']').split(';'):
                    if '=' not in e_: continue
                    k_, v_ = e_.split('=', 1); kp = bytes.fromhex(k_)
                    if kp == b'D': continue
                    ents[kp[2:]] = v_
                out.append((nx, ents))
            return out
        def real_state(dst_, t0_):
            ents = {}
            for e_ in _fsx.snapshot_world(dst_, t0_).split(';'):
                if '=' in e_:
                    k_, v_ = e_.split('=', 1); ents[bytes.fromhex(k_)] = v_
            return ents
        def is_model_state(real, states):
            # a state of the model, or one of them with the file that comes next in the making (created, some of its bytes, a fresh time;
            # or all of its bytes and already its final time: the last sub-step done, the command not yet counted as finished)
            for k_, (nx, ents) in enumerate(states):
                if real == ents: return k_
                if nx.startswith('F:'):
                    q_ = bytes.fromhex(nx[2:]); want_ = states[k_ + 1][1].get(q_) if k_ + 1 < len(states) else None
                    got_ = real.get(q_)
                    if got_ and want_ and {x: y for x, y in real.items() if x != q_} == {x: y for x, y in ents.items() if x != q_} and got_.startswith('F:fresh:') and want_.split(':', 2)[2].startswith(got_.split(':', 2)[2]):
                        return k_
            return None
        for n in todo:
            base, src, dst = build(f'crash{n}')
            pre = l3.snapshot(dst)
            states = model_states(src, dst)
            import time as _tmm
            t0_ = _tmm.time_ns() - 2_000_000_000
            r = l4.run_cli([src + '/', dst + '/'] + flags, env=sb.env({'RJRSSYNC_VERIF_CRASH_AT': str(n)}), timeout=60)
            snap = l3.snapshot(dst)
            # tie of the crash-point theorems: the tree the crash left is one of the states the model goes through
            if states is None:
                run.violation(dict(kind='correspondence-broken', correspondence='L4/crash-states', note='the model driver did not answer the syncprefixes request'), no_input=True); break
            k_state = is_model_state(real_state(dst, t0_), states)
            run.count('crash-state:' + ('is-a-model-state' if k_state is not None else 'IS-NOT'))
            if k_state is None and not any(v[0].get('correspondence') == 'L4/crash-states' for v in run.violations):
                real_ = real_state(dst, t0_)
                near = min(range(len(states)), key=lambda k_: len(set(real_.items()) ^ set(states[k_][1].items())))
                run.violation(dict(kind='correspondence-broken', correspondence='L4/crash-states', crash_point=n, point_kind=points[n - 1][1] if n <= len(points) else '?',
                                   note='the destination tree a crash left behind is none of the states the model of the destination half goes through (C08_recovery_from_crash_* speak about those)',
                                   nearest_model_state=near, only_real=sorted(f'{a_!r}={b_[:50]}' for a_, b_ in set(real_.items()) - set(states[near][1].items()))[:5],
                                   only_model=sorted(f'{a_!r}={b_[:50]}' for a_, b_ in set(states[near][1].items()) - set(real_.items()))[:5]), no_input=True)
            bad = []
            for p, e in snap.items():
                s_ent = src_snap.get(p)
                if e[0] == 'F' and s_ent and s_ent[0] == 'F' and e[3] == s_ent[3] and e[2] != s_ent[2] and pre.get(p) != e:
                    bad.append(p.decode())
            run.case(('crash', n), True, sample=dict(layer='L4', crash_point=n, kind=points[n - 1][1] if n <= len(points) else '?', rc=r['rc']) if n % 7 == 0 else None)
            run.count('crash:' + (points[n - 1][1] if n <= len(points) else '?'))
            if r['rc'] in (0,) or r['timeout']:
                run.violation(dict(kind='harness-problem', what='the process did not abort at the crash point', crash_point=n, rc=r['rc']), no_input=True); break
            if bad:
                run.violation(dict(kind='oracle-failed-on-implementation', oracle='after a crash no destination file carries the source mtime with other bytes', layer='L4', crash_point=n,
                                   point_kind=points[n - 1][1], files=bad)); break
            r2 = l4.run_cli([src + '/', dst + '/'] + flags + ['--files-same-time', 'skip'], env=sb.env(), timeout=60)
            diffs = tree_equal_mirror(l3.snapshot(src), l3.snapshot(dst))
            if r2['rc'] != 0 or diffs:
                run.violation(dict(kind='oracle-failed-on-implementation', oracle='re-running the sync with overwriting permitted converges to the mirror', layer='L4', crash_point=n,
                                   point_kind=points[n - 1][1], rc=r2['rc'], diffs=diffs[:5], stderr=r2['err'][-500:])); break
            shutil.rmtree(base, ignore_errors=True)
    finally:
        sb.close()
    run.cov['trusted_base'] = C.GLOBAL_TRUST + ['create/write leave a wall-clock mtime that never equals a source mtime at ns resolution (assumption of the MT tags)',
                                                'a power loss that reorders data and metadata writes inside the kernel is outside the model (the doer does not fsync); process death and write failures are inside',
                                                'the recovery clause relies on C01 for "the re-run plans every incomplete file" (here: checked end to end at every crash point)']


# ------------------------------------------------------------------ C09

@prop('C09')
def check_C09(run):
    from . import l3, l4
    import shutil, subprocess
    thorough = run.tier == 'thorough'
    if not prepare(run, need_cli=True):
        return
    C.proofs_step(run, 'C09')
    from . import trials as _trials; _trials.run_trials(run, 'C09')
    _trials.run_spec_stream(run)
    rng = run.rng
    run.cov['rule'] = ('L4 under a watchdog: the CLI with a fault (destination error while source data is in flight, unwritable destination, remote doer aborted at a crash point) x queue occupancy '
                       '{below, at, above} the channel capacity (capacity override with KB..MB files; thorough: hook-free with sparse files above 100 MiB) x placement (local, fake-ssh remote); '
                       'oracle = the process ends within the time limit with a non-zero status; L2 query stress: listings where one side has finished long before the other (a spuriously ready select must not block); '
                       'selstress measures how often the real select_ready reports a receiver with nothing to receive; non-trivial = a fault was injected; distinct by configuration')
    WATCHDOG = 25
    sb = l4.Sandbox()
    try:
        def mk(name, big_bytes, nfiles=3):
            base = os.path.join(sb.dir, name); os.makedirs(base)
            src, dst = os.path.join(base, 'src'), os.path.join(base, 'dst')
            ents = [('', 'D')] + [(f'data{i}', 'F', l3.content(i, big_bytes), 2 * 10**18) for i in range(nfiles)] + [('zlast', 'F', b'z', 2 * 10**18)]
            l3.make_tree(src, ents)
            l3.make_tree(dst, [('', 'D'), ('aaa', 'D'), ('aaa/keep.txt', 'F', b'k', 10**18), ('aaa/seen.txt', 'F', b's', 10**18)])
            return base, src, dst
        configs = []
        for occ, cap, size in (('below', None, 2000), ('at', 30000, 10000 - 13), ('above', 20000, 400000)):
            for place in ('local', 'remote-dest', 'remote-both'):
                configs.append(('dest-error-ENOTEMPTY', occ, cap, size, place))
        configs += [('dest-unwritable', 'above', 20000, 400000, 'local'), ('remote-doer-abort', 'above', 20000, 400000, 'remote-dest'),
                    ('remote-doer-abort', 'below', None, 2000, 'remote-dest'), ('remote-doer-abort', 'above', 20000, 400000, 'remote-both')]
        # a destination write error in the middle of a file (EFBIG: RLIMIT_FSIZE with SIGXFSZ ignored) while the source still has more than the
        # capacity to send: with the capacity override (several repetitions: whether the source doer is caught mid-send is a matter of timing)
        # and hook-free with a sparse file of several times the real capacity
        configs += [('dest-efbig', 'above', 20000, 400000, 'local')] * 3 + [('dest-efbig', 'above', 20000, 400000, 'remote-dest')]
        configs.append(('dest-efbig', 'above-hook-free', None, 450 * 1024 * 1024, 'local'))
        if thorough:
            configs.append(('dest-error-ENOTEMPTY', 'above-hook-free', None, 150 * 1024 * 1024, 'local'))
            configs += [('dest-efbig', 'above-hook-free', None, 1024 * 1024 * 1024, 'local')] * 2
        sb.place_remote('same')
        for k, (fault, occ, cap, size, place) in enumerate(configs):
            base, src, dst = mk(f'c{k}', size if occ != 'above-hook-free' else 10, 3)
            if occ == 'above-hook-free':
                for i in range(3):
                    with open(os.path.join(src, f'data{i}'), 'wb') as f:
                        f.truncate(size)
            env = {}
            if cap is not None:
                env['RJRSSYNC_VERIF_CAPACITY'] = str(cap)
            args = [('localhost:' if place == 'remote-both' else '') + src + '/', ('localhost:' if place.startswith('remote') else '') + dst + '/']
            pre = None
            if fault == 'dest-error-ENOTEMPTY':
                args += ['--filter', '-aaa/keep.txt']
            elif fault == 'dest-unwritable':
                if not l4.nobody_can_run():
                    run.count('skipped:uid-65534-cannot-run-the-binary'); shutil.rmtree(base, ignore_errors=True); continue
                os.chmod(sb.dir, 0o755); os.chmod(base, 0o777); os.chmod(dst, 0o555)
                subprocess.run(['chmod', '-R', 'a+rX', src])
                def pre():
                    os.setgroups([]); os.setgid(65534); os.setuid(65534)
            elif fault == 'remote-doer-abort':
                env['RJRSSYNC_VERIF_CRASH_AT'] = str(rng.choice([1, 2, 3, 5]))
            elif fault == 'dest-efbig':
                import resource as _res, signal as _sig
                lim_ = 16 * 1024 * 1024 if occ == 'above-hook-free' else 9000
                def pre(lim_=lim_):
                    _sig.signal(_sig.SIGXFSZ, _sig.SIG_IGN)
                    _res.setrlimit(_res.RLIMIT_FSIZE, (lim_, lim_))
                args += ['--no-progress']
            r = l4.run_cli(args, env=sb.env(env), timeout=WATCHDOG if occ != 'above-hook-free' else 120, preexec=pre)
            subprocess.run(['pkill', '-f', sb.remote + '/rjrssync/rjrssync'], capture_output=True)
            run.case(('watchdog', fault, occ, place), True, sample=dict(layer='L4', fault=fault, occupancy=occ, capacity=cap, file_bytes=size, placement=place, rc=r['rc'], wall_s=round(r['wall'], 2), timed_out=r['timeout']))
            run.count(f'watchdog:{fault}:{occ}:{place}')
            if r['timeout'] or r['rc'] in (0, None):
                run.violation(dict(kind='oracle-failed-on-implementation', oracle='the run hands control back within bounded time with a non-zero status', layer='L4',
                                   fault=fault, occupancy=occ, capacity_override=cap, file_bytes=size, placement=place, args=args, env=env, rc=r['rc'], timed_out=r['timeout'],
                                   wall_s=round(r['wall'], 1), stderr=r['err'][-600:]))
                if len(run.violations) >= 2:
                    break
            shutil.rmtree(base, ignore_errors=True)
        # ---- the TCP link cut at a byte offset (clean end-of-file towards the receiver, or a reset), in either direction, remote source or
        # remote destination: offsets inside the 8-byte length field, between length and body, inside a small / a large body, at a frame end
        cuts = []
        offs = [0, 1, 4, 7, 8, 9, 12, 60, 200, 5000, 70001, 1500001]
        for direction in ('d2b', 'b2d'):
            for off in (offs if thorough else rng.sample(offs, 5) + [4, 12]):
                for mode in (('fin', 'rst') if thorough or off in (4, 12) else (rng.choice(['fin', 'rst']),)):
                    cuts.append((direction, off, mode, rng.choice(['remote-src', 'remote-dest'])))
        # the listing phase (the doer's first frames: its root, its entries, the end of the entries) is cut on every run, on either side: the boss
        # waits there with select_ready + try_receive, not with a blocking receive
        for off in (70, 100, 150, 200, 260):
            for place in ('remote-src', 'remote-dest'):
                cuts.append(('d2b', off, rng.choice(['fin', 'rst']), place))
        for k, (direction, off, mode, place) in enumerate(cuts):
            base, src, dst = mk(f'cut{k}', 1_600_000, 2)
            mark = os.path.join(base, 'cut-mark')
            args = [('localhost:' if place == 'remote-src' else '') + src + '/', ('localhost:' if place == 'remote-dest' else '') + dst + '/', '--dest-entry-needs-deleting', 'delete']
            r = l4.run_cli(args, env=sb.env({'FAKE_CUT': f'{direction}:{off}:{mode}', 'FAKE_CUT_MARK': mark}), timeout=WATCHDOG)
            subprocess.run(['pkill', '-f', sb.remote + '/rjrssync/rjrssync'], capture_output=True)
            was_cut = os.path.exists(mark)
            run.case(('link-cut', direction, off, mode, place), True, sample=dict(layer='L4', fault='link-cut', direction=direction, byte_offset=off, mode=mode, placement=place, cut_happened=was_cut, rc=r['rc'], wall_s=round(r['wall'], 2)) if k % 4 == 0 else None)
            run.count(f'link-cut:{direction}:{mode}:' + ('cut' if was_cut else 'not-reached'))
            if r['timeout'] or r['rc'] is None or (was_cut and r['rc'] == 0 and not os.path.exists(os.path.join(dst, 'zlast'))):
                run.violation(dict(kind='oracle-failed-on-implementation', oracle='a TCP link that ends at any byte offset (end-of-file or reset) ends the run within bounded time, with a non-zero status unless the work was done', layer='L4',
                                   fault='link-cut', direction=direction, byte_offset=off, mode=mode, placement=place, args=args, rc=r['rc'], timed_out=r['timeout'], wall_s=round(r['wall'], 1), stderr=r['err'][-600:]))
                if len(run.violations) >= 2:
                    break
            shutil.rmtree(base, ignore_errors=True)
        # ---- a folder that cannot be listed (as root: its path is longer than PATH_MAX), on the source, on the destination, as the root's only
        # content: the walk reports an error and the run ends with a status, it does not wait for a listing that never ends
        for k, where in enumerate(['src', 'dst']):
            base, src, dst = mk(f'long{k}', 2000, 2)
            os.makedirs(dst, exist_ok=True)
            if not l4.make_overlong_folder(os.path.join(src if where == 'src' else dst, 'deep')):
                run.count('unlistable-folder:host-cannot-build-it'); shutil.rmtree(base, ignore_errors=True); continue
            r = l4.run_cli([src + '/', dst + '/', '--dest-entry-needs-deleting', 'delete'], env=sb.env(), timeout=WATCHDOG)
            run.case(('unlistable-folder', where), True, sample=dict(layer='L4', fault='a folder whose path exceeds PATH_MAX', side=where, rc=r['rc'], wall_s=round(r['wall'], 2)))
            run.count(f'unlistable-folder:{where}:rc={r["rc"]}'); run.cov['traces_validated_against_impl'] += 1
            if r['timeout'] or r['rc'] is None:
                run.violation(dict(kind='oracle-failed-on-implementation', oracle='a folder that cannot be listed ends the run within bounded time', layer='L4', side=where, rc=r['rc'], timed_out=r['timeout'],
                                   wall_s=round(r['wall'], 1), stderr=r['err'][-400:], how='a chain of 24 folders with 200-character names below the root (built with relative mkdir / chdir): its path is longer than PATH_MAX'))
                subprocess.run(['pkill', '-f', C.CLI_BIN + ' ' + src], capture_output=True)
                break
            shutil.rmtree(base, ignore_errors=True)
        # ---- the announced data port cannot be reached (the handshake is through, the doer alive and waiting): the boss gives up with a status,
        # and the doer it launched does not outlive it
        for k, place in enumerate(['remote-dest', 'remote-src', 'both']):
            base, src, dst = mk(f'port{k}', 20_000, 2)
            args = [('localhost:' if place in ('remote-src', 'both') else '') + src + '/', ('localhost:' if place in ('remote-dest', 'both') else '') + dst + '/']
            r = l4.run_cli(args, env=sb.env({'FAKE_BAD_PORT': '1'}), timeout=WATCHDOG)
            import time as _t
            _t.sleep(0.5)
            left = subprocess.run(['pgrep', '-f', sb.remote + '/rjrssync/rjrssync'], capture_output=True).stdout.split()
            if left:
                _t.sleep(3); left = subprocess.run(['pgrep', '-f', sb.remote + '/rjrssync/rjrssync'], capture_output=True).stdout.split()
            subprocess.run(['pkill', '-f', sb.remote + '/rjrssync/rjrssync'], capture_output=True)
            run.case(('unreachable-port', place), True, sample=dict(layer='L4', fault='announced port unreachable', placement=place, rc=r['rc'], wall_s=round(r['wall'], 2), doers_left=len(left)))
            run.count(f'unreachable-port:{place}:rc={r["rc"]}'); run.cov['traces_validated_against_impl'] += 1
            if r['timeout'] or r['rc'] in (0, None) or left:
                run.violation(dict(kind='oracle-failed-on-implementation', oracle='when the doer\'s data port cannot be reached the run ends within bounded time with a non-zero status and leaves no doer behind', layer='L4',
                                   placement=place, args=args, rc=r['rc'], timed_out=r['timeout'], wall_s=round(r['wall'], 1), doers_left=len(left), stderr=r['err'][-500:],
                                   how='fake ssh replaces the port number in the doer\'s "Waiting for incoming network connection on port N" line by 1'))
                break
            shutil.rmtree(base, ignore_errors=True)
    finally:
        subprocess.run(['chmod', '-R', 'u+rwx', sb.dir]); sb.close()
    c14_small_capacity_syncs(run)
    # ---- spurious readiness of the real select
    ans = C.run_harness(['selstress %d' % (200000 if not thorough else 3000000)], timeout=600)[0][0]
    run.cov['select_ready_stress'] = ans
    # ---- L2 query stress: one side finishes long before the other
    scs = []
    for _ in range(300 if not thorough else 5000):
        sc = l2.Scenario()
        sc.beh = 'ooooo'
        side, other = rng.choice([('S', 'D'), ('D', 'S')])
        n = rng.randint(30, 120)
        long_ = [('E', other, f'e{i}', l2.det_file(rng.choice(l2.TIMES), 0)) for i in range(n)] + [('Z', other)]
        if rng.random() < 0.3:
            sc.dest_reply = ('R', None, 0, 47); side, other = 'D', 'S'
            long_ = [('E', 'S', f'e{i}', 'D') for i in range(n)] + [('Z', 'S')]
            sc.events = long_
        else:
            sc.events = [('Z', side)] + long_
        sc.files = [(e[2], [(b'', False)]) for e in long_ if e[0] == 'E' and e[1] == 'S' and e[3].startswith('F:')]
        scs.append(sc)
    res = l2.run_batch(scs)
    hangs = [r for r in res if r['impl_r'].get('hang') or r['impl_r'].get('res') == 'hang']
    for r in res:
        run.case(('query-stress', r['line']), True, sample=None); run.count('query-stress:' + str(r['impl_r'].get('res')))
    run.cov['traces_validated_against_impl'] += len(res)
    if hangs:
        r = hangs[0]
        run.violation(dict(kind='oracle-failed-on-implementation', oracle='the query phase ends when both listings have ended (the boss must not block on a side that has nothing more to send)', layer='L2',
                           hangs=len(hangs), of=len(res), select_ready_stress=ans, request_line=r['line'][:3000], impl=r['impl'][:500],
                           note='timing dependent: the real select reports readiness spuriously now and then; replaying the line usually passes'))
    run.cov['trusted_base'] = C.GLOBAL_TRUST + ['OS scheduling fairness, TCP time-outs and the ssh child\'s own exit are assumptions; a source file that grows forever is excluded',
                                                'real thread timing is sampled (watchdog runs); the schedule quantifier is carried by the transition-system theorems']


# ------------------------------------------------------------------ C18

ODD_NAMES = [b'plain', b'sp ace', b'new\nline', b'back\\slash', b'\xff\xfe\x80', 'é'.encode(), b'a' * 255, b'-dash', b'*glob?[x]', b'.hidden', b'tab\t', b'quote"\'', b'..x', b'C:', b'{}', b'%TEMP%', '\U0001f600'.encode()]
ODD_TIMES_NS = [-10**18, -1, 0, 1, 999_999_999, 10**18, 2**33 * 10**9, 10**11 * 10**9, -2**31 * 10**9, 253402300800 * 10**9]


def fuzz_tree(rng, root, n=None):
    import socket, stat
    os.makedirs(root, exist_ok=True)
    dirs = [os.fsencode(root)]
    made = []
    for _ in range(n if n is not None else rng.randint(0, 10)):
        d = rng.choice(dirs); name = rng.choice(ODD_NAMES)
        p = os.path.join(d, name)
        if os.path.lexists(p):
            continue
        k = rng.random()
        try:
            if k < 0.45:
                with open(p, 'wb') as f:
                    f.write(b'x' * rng.choice([0, 1, 31, 4096, 4097, 70000]))
                t = rng.choice(ODD_TIMES_NS); os.utime(p, ns=(t, t)); made.append(('file', t))
            elif k < 0.65:
                os.mkdir(p); dirs.append(p); made.append(('dir',))
                if rng.random() < 0.3:
                    t = rng.choice(ODD_TIMES_NS); os.utime(p, ns=(t, t))
            elif k < 0.85:
                os.symlink(rng.choice([b'plain', b'/abs/x', b'\xff\xfe', b'../..', b'a\\b', b'', b'.', name, b'x' * 300]) or b'empty', p); made.append(('symlink',))
            elif k < 0.9:
                os.mkfifo(p); made.append(('fifo',))
            elif k < 0.95:
                s = socket.socket(socket.AF_UNIX); s.bind(p if len(p) < 100 else os.path.join(d, b'sock')); s.close(); made.append(('socket',))
            else:
                os.mknod(p, 0o600 | stat.S_IFCHR, os.makedev(1, 3)); made.append(('chardev',))
        except OSError:
            pass
    return made


FLAGS = [['--dry-run'], ['--no-progress'], ['--stats'], ['-q'], ['-v'], ['--quiet', '--verbose'], ['--filter', '+.*'], ['--filter', '-('], ['--filter', 'nosign'], ['--filter', '-\\xff'],
         ['--dest-file-newer', 'overwrite'], ['--dest-file-newer', 'bogus'], ['--dest-file-older', 'skip'], ['--files-same-time', 'overwrite'], ['--dest-entry-needs-deleting', 'delete'],
         ['--dest-entry-needs-deleting', 'prompt'], ['--dest-root-needs-deleting', 'delete'], ['--dest-root-needs-deleting', 'skip'], ['--all-destructive-behaviour', 'proceed'],
         ['--all-destructive-behaviour', 'error'], ['--remote-port', '0'], ['--remote-port', 'abc'], ['--remote-port', '70000'], ['--deploy', 'error'], ['--bogus-flag'], ['--list-embedded-binaries'],
         ['--generate-auto-complete-script', 'bash'], ['--generate-auto-complete-script', 'nope'], ['--version'], ['--help'], ['--'], ['']]


@prop('C18')
def check_C18(run):
    from . import l3, l4
    import shutil, subprocess
    thorough = run.tier == 'thorough'
    if not prepare(run, need_cli=True):
        return
    rng = run.rng
    run.cov['rule'] = ('L4 fuzz of the CLI: trees with odd names (non-UTF-8, backslashes, newlines, 255-byte components), lengths, times (pre-1970, epoch, far future), FIFOs / sockets / devices, odd symlink texts; '
                       'argument vectors from the clap grammar plus mutations; mutated YAML spec texts; oracle: exit status in {0,2,10,11,12,18,19}, no signal, no time-out, a message whenever it fails, no "panicked at"; '
                       'plus the panic-site inventory against the committed classification; non-trivial = the run reached the sync (status 0 or 12) on a non-empty tree or was rejected by the front end; distinct by (tree shape, argv)')
    sb = l4.Sandbox()
    fails = []
    try:
        # ---- spec-file texts, in-process (the real parse_spec_file + resolve_spec under catch_unwind): thousands of mutated texts,
        # multi-byte characters everywhere (error reporting that slices the text by a character index bites only there)
        ydir = os.path.join(sb.dir, 'yaml'); os.makedirs(ydir)
        ylines, ytexts = [], []
        uni = ['é', '日本語', 'ß', '🙂', 'а', '\u2028', 'ｱ', '\ufeff']
        for i in range(2500 if not thorough else 40000):
            pth = rng.choice(['/tmp/src', '/tmp/日本語/é', 'ｱｲｳ/🙂', 'a b', "it's"])
            good = (rng.choice(['', '# коммент 日本語\n', '\ufeff']) + f'syncs:\n  - src: "{pth}/"\n    dest: {rng.choice(uni)}dst/\n    filters: [ "+.*", "-{rng.choice(uni)}" ]\n'
                    f'    dest_file_newer_behaviour: {rng.choice(["overwrite", "skip", "prompt", "error", "ünknown"])}\n  - src: {pth}\n    dest: {pth}2\n'
                    + rng.choice(['', 'deploy_behaviour: ok\n', 'src_hostname: "hôst"\n', 'dest_username: ユーザー\n']))
            t = good
            toks = ['"', "'", ':', ' :', '- ', '[', ']', '{', '}', '\n', '  ', '\t', '~', '&a ', '*a', '---\n', '...\n', '!!binary ', '? ', '|\n', '>\n', '%YAML 9.9\n', ',', '#', '\\', '\r\n', '\x00', '@', '`'] + uni
            for _ in range(rng.choice([0, 1, 1, 2, 3, 6])):
                j = rng.randrange(len(t) + 1)
                k_ = rng.random()
                if k_ < 0.6: t = t[:j] + rng.choice(toks) + t[j + rng.choice([0, 0, 1, 3]):]
                elif k_ < 0.75: t = t[:j]                                    # truncation (unterminated quote / flow)
                elif k_ < 0.85: t = t[:j] + t[rng.randrange(len(t) + 1):]
                else: t = t[:j] + ('[' * rng.choice([3, 40, 400])) + t[j:]
            fp = os.path.join(ydir, f's{i}.yaml')
            with open(fp, 'wb') as f: f.write(t.encode('utf-8', errors='surrogatepass') if rng.random() < 0.97 else t.encode('utf-16'))
            ytexts.append(t); ylines.append(f'resolve 2 {C.X("--spec")} {C.X(fp)}')
        for t, (ans, _) in zip(ytexts, C.run_harness(ylines, timeout=900)):
            core = ans.split(':')[0] + (':' + ans.split(':')[1] if ans.startswith('err:') else '')
            run.case(('yaml', t), core in ('ok', 'err:specFile'), sample=dict(layer='L1', spec_text=t[:200], outcome=ans[:60]) if len(t) % 97 == 3 else None)
            run.count('spec-text:' + core[:20]); run.cov['traces_validated_against_impl'] += 1
            if ans == 'panic' or ans.startswith('HARNESS-DIED'):
                fails.append(dict(layer='L1', why='the spec-file parser / resolver panics on this text (the CLI would end with status 101)', spec_text=t, outcome=ans[:200]))
                break
        shutil.rmtree(ydir, ignore_errors=True)
        n = 300 if not thorough else 5000
        for i in range(n):
            base = os.path.join(sb.dir, f'z{i}'); os.makedirs(base)
            src, dst = os.path.join(base, 'src'), os.path.join(base, 'dst')
            made = fuzz_tree(rng, src)
            if rng.random() < 0.7:
                made2 = fuzz_tree(rng, dst)
            else:
                made2 = []
            mode = rng.random()
            spec_text = None
            if mode < 0.6:
                args = [rng.choice([src, src + '/', src + '//', os.path.relpath(src, base)]), rng.choice([dst, dst + '/', os.path.join(dst, 'a/b/'), dst + '\\'])]
                for _ in range(rng.choice([0, 0, 1, 2, 3])):
                    args += rng.choice(FLAGS)
                if rng.random() < 0.1:
                    args = args[rng.randint(0, 1):]        # drop a positional
                if rng.random() < 0.15:
                    rng.shuffle(args)
            elif mode < 0.85:
                # (paths relative to the run's working directory, the scratch folder of this case: a mutation that lands inside a path must
                # not be able to name a place outside the scratch folder - absolute paths once left folders like '/t*amp' behind)
                good = 'syncs:\n  - src: src\n    dest: dst\n    filters: [ "+.*" ]\n    dest_file_newer_behaviour: overwrite\n  - src: src\n    dest: dst2\n'    # (and no '/' anywhere: no mutation can make an absolute path, least of all 'dest: /')
                t = good
                toks = ['syncs', 'src', ':', '-', '[', ']', '"', '\n', '  ', 'filters', '~', '&a', '*a', '---\n', '{', '}', '\xe9', 'deploy_behaviour: ok\n', '!!binary ', '? ', '\t']
                for _ in range(rng.randint(0, 3)):
                    j = rng.randrange(len(t) + 1)
                    t = t[:j] + rng.choice(toks) + t[j + rng.choice([0, 0, 3]):]
                spec_text = t
                sp = os.path.join(base, 'spec.yaml'); open(sp, 'w').write(t)
                args = ['--spec', sp] + (rng.choice(FLAGS) if rng.random() < 0.4 else [])
            else:
                args = [rng.choice(['', 'x', src, ':', 'h:', '@h:p', '\n', '-', '--spec']) for _ in range(rng.randint(0, 4))]
                for _ in range(rng.randint(0, 2)):
                    args += rng.choice(FLAGS)
            r = l4.run_cli(args, env=sb.env({'RJRSSYNC_TEST_PROMPT_RESPONSE': ''}), timeout=30, cwd=base)
            nt = (r['rc'] in (0, 12) and bool(made)) or r['rc'] in (2, 18)
            run.case(('fuzz', tuple(args), str(made), str(made2)), nt,
                     sample=dict(layer='L4', args=[a[-60:] for a in args], src_tree=[m[0] for m in made], rc=r['rc']) if i % 40 == 0 else None)
            run.count('fuzz:rc=' + str(r['rc']))
            why = None
            if r['timeout']:
                why = 'time-out'
            elif r['rc'] not in (0, 2, 10, 11, 12, 18, 19):
                why = f'exit status {r["rc"]}' + (' (signal)' if r['rc'] is not None and r['rc'] < 0 else '')
            elif 'panicked at' in r['err']:
                why = 'panic message'
            elif r['rc'] != 0 and not (r['err'].strip() or r['out'].strip()):
                why = 'failure without a message'
            if why:
                tree_desc = subprocess.run(['find', base, '-printf', '%y %TY %s %P\\n'], capture_output=True).stdout.decode(errors='backslashreplace')[:1500]
                fails.append(dict(layer='L4', why=why, args=args, rc=r['rc'], stderr=r['err'][-800:], tree=tree_desc, spec_text=spec_text, src_kinds=made, dst_kinds=made2))
                if len(fails) >= 3:
                    break
            subprocess.run(['chmod', '-R', 'u+rwx', base], capture_output=True); shutil.rmtree(base, ignore_errors=True)
        # every string-valued input position x a fixed list of hostile strings (empty, multi-byte first character, lone sign, huge, regex bombs)
        import json as _json
        HOSTILE = ['', '\u00e9.*', '\uff0bx', '\u2013x', '+\u00e9', '-', '+', '\u65e5\u672c', '\u00a0', '+' + 'a' * 5000, '+(', '-[', '+\\', '+*', '+(?P<n>', '+\\p{Greek}', '+.{99999}',
                   '+(a{1000}){1000}', '\U0001f600', '-\u00e9', ' +x', '+\n', ':', '@:', 'h:', '\\\\?\\C:']
        base = os.path.join(sb.dir, 'hostile'); src, dst = base + '/src', base + '/dst'
        l3.make_tree(src, [('', 'D'), ('f', 'F', b'x', 10**18), ('\u00e9', 'F', b'y', 10**18)])
        for hs in HOSTILE:
            sp = os.path.join(base, 'spec.yaml')
            open(sp, 'w').write(f'syncs:\n  - src: {src}/\n    dest: {dst}/\n    filters: [ {_json.dumps(hs)} ]\n')
            sp2 = os.path.join(base, 'spec2.yaml')
            open(sp2, 'w').write(f'syncs:\n  - src: {_json.dumps(hs)}\n    dest: {dst}/\n')
            for pos, args in (('filter', [src + '/', dst + '/', '--filter', hs]), ('filter2', [src + '/', dst + '/', '--filter', '+.*', '--filter', hs, '--dry-run']),
                              ('spec-filter', ['--spec', sp]), ('spec-src', ['--spec', sp2]), ('src', [hs, dst + '/']), ('dest', [src + '/', hs, '--dry-run']),
                              ('port', [src + '/', dst + '/', '--remote-port', hs]), ('behaviour', [src + '/', dst + '/', '--dest-file-newer', hs]), ('spec-path', ['--spec', hs])):
                if any('\0' in a for a in args): continue
                r = l4.run_cli(args, env=sb.env({'RJRSSYNC_TEST_PROMPT_RESPONSE': ''}), timeout=60, cwd=base)
                run.case(('hostile', pos, hs), True, sample=dict(layer='L4', position=pos, string=hs[:40], rc=r['rc']) if hs in ('', '\u00e9.*') else None)
                run.count(f'hostile:{pos}:rc={r["rc"]}')
                why = None
                if r['timeout']: why = 'time-out'
                elif r['rc'] not in (0, 2, 10, 11, 12, 18, 19): why = f'exit status {r["rc"]}' + (' (signal)' if r['rc'] is not None and r['rc'] < 0 else '')
                elif 'panicked at' in r['err']: why = 'panic message'
                elif r['rc'] != 0 and not (r['err'].strip() or r['out'].strip()): why = 'failure without a message'
                if why and len(fails) < 3:
                    fails.append(dict(layer='L4', why=why, position=pos, string=hs, args=args, rc=r['rc'], stderr=r['err'][-800:], tree='src/{f,\u00e9}'))
                shutil.rmtree(dst, ignore_errors=True)
        # every class of modification time x every way of running: files to copy, to overwrite and to delete dated before 1970, at the epoch,
        # a second / a day / ten years ahead of the clock, at the end of the file system's range - listed, described in dry-run lines, aged in
        # statistics, compared
        import time as _tm
        now_ns = _tm.time_ns()
        TIMES_ = [('pre-1970', -86400 * 10**9), ('epoch', 0), ('one-second-ahead', now_ns + 10**9), ('one-day-ahead', now_ns + 86400 * 10**9), ('ten-years-ahead', now_ns + 315360000 * 10**9),
                  ('year-2400', 13569465600 * 10**9), ('now', now_ns)]
        MODES_ = [[], ['--dry-run'], ['--dry-run', '--stats'], ['--dry-run', '--verbose'], ['--dry-run', '--quiet'], ['--stats'], ['--verbose'], ['--quiet'], ['--no-progress']]
        stop_ = False
        for tname, tns in TIMES_:
            for mode_ in (MODES_ if thorough or tname not in ('now', 'epoch') else MODES_[:4]):
                base = os.path.join(sb.dir, 'tm'); shutil.rmtree(base, ignore_errors=True)
                src, dst = base + '/src', base + '/dst'
                try:
                    l3.make_tree(src, [('', 'D'), ('new', 'F', b'n', tns), ('changed', 'F', b'src version', tns), ('same', 'F', b's', tns), ('d', 'D'), ('d/inner', 'F', b'i', tns)])
                    l3.make_tree(dst, [('', 'D'), ('changed', 'F', b'dst', 10**18), ('same', 'F', b's', tns), ('old', 'F', b'o', tns), ('oldd', 'D'), ('oldd/x', 'F', b'x', tns)])
                except (OSError, OverflowError):
                    run.count(f'time-mode:{tname}:host-cannot-express'); break
                r = l4.run_cli([src + '/', dst + '/', '--all-destructive-behaviour', 'proceed'] + mode_, env=sb.env({'RJRSSYNC_TEST_PROMPT_RESPONSE': ''}), timeout=60, cwd=base)
                run.case(('time-mode', tname, tuple(mode_)), True, sample=dict(layer='L4', file_times=tname, flags=mode_, rc=r['rc']) if not mode_ else None)
                run.count(f'time-mode:{tname}:rc={r["rc"]}')
                why = None
                if r['timeout']: why = 'time-out'
                elif r['rc'] not in (0, 2, 10, 11, 12, 18, 19): why = f'exit status {r["rc"]}' + (' (signal)' if r['rc'] is not None and r['rc'] < 0 else '')
                elif 'panicked at' in r['err']: why = 'panic message'
                elif r['rc'] != 0 and not (r['err'].strip() or r['out'].strip()) and '--quiet' not in mode_: why = 'failure without a message'
                if why:
                    fails.append(dict(layer='L4', why=why, args=['<src>/', '<dst>/', '--all-destructive-behaviour', 'proceed'] + mode_, rc=r['rc'], stderr=r['err'][-700:],
                                      tree=f'source files new / changed / same / d/inner and destination files changed / same / old / oldd/x, all dated {tname} ({tns} ns)'))
                    stop_ = True; break
            if stop_: break
        # file lengths near the top of the 64-bit range (sparse files; only where the host has a file system that can hold them: tmpfs, xfs, btrfs):
        # listing them, summing them for the statistics and the progress bar, finding them up to date, deleting them — never reading them
        huge_root = None
        for cand in ['/dev/shm', sb.dir]:
            try:
                t_ = tempfile.mkdtemp(prefix='rjv-huge-', dir=cand)
                with open(t_ + '/probe', 'wb') as f: f.truncate(2 ** 63 - 1)
                huge_root = t_; break
            except OSError:
                shutil.rmtree(t_, ignore_errors=True)
        run.count('huge-files:' + ('host-can-hold-them' if huge_root else 'host-cannot-hold-them'))
        if huge_root:
            try:
                os.remove(huge_root + '/probe')
                HUGE = [2 ** 63 - 1, 10 ** 18, 2 ** 62, 5 * 10 ** 17, 2 ** 40]
                def sparse(dir_, sizes, t=1_600_000_000):
                    os.makedirs(dir_, exist_ok=True)
                    for k_, z in enumerate(sizes):
                        with open(f'{dir_}/f{k_}', 'wb') as f: f.truncate(z)
                        os.utime(f'{dir_}/f{k_}', (t, t))
                trials = []
                for k_, sizes in enumerate([[HUGE[0]] * 3, [HUGE[0]] * 2, [HUGE[1]], [HUGE[1]] * 19, [HUGE[2]] * 4, [HUGE[3], HUGE[4]], [rng.choice(HUGE) for _ in range(rng.randint(1, 6))]]):
                    for how in ('dry-run', 'up-to-date', 'delete'):
                        for extra in ([], ['--stats'], ['--stats', '--quiet'], ['--no-progress']):
                            trials.append((k_, sizes, how, extra))
                if not thorough:
                    trials = [t_ for i_, t_ in enumerate(trials) if i_ % 3 == 0 or t_[0] < 2]
                for k_, sizes, how, extra in trials:
                    b_ = f'{huge_root}/h'; shutil.rmtree(b_, ignore_errors=True)
                    src, dst = b_ + '/src', b_ + '/dst'
                    if how == 'delete':
                        os.makedirs(src); sparse(dst, sizes)
                    else:
                        sparse(src, sizes)
                        if how == 'up-to-date': sparse(dst, sizes)
                    args = [src + '/', dst + '/'] + extra + (['--dry-run'] if how == 'dry-run' else [])
                    r = l4.run_cli(args, env=sb.env({'RJRSSYNC_TEST_PROMPT_RESPONSE': ''}), timeout=60, cwd=b_)
                    run.case(('huge', tuple(sizes), how, tuple(extra)), True, sample=dict(layer='L4', file_lengths=sizes, how=how, extra=extra, rc=r['rc']) if k_ == 0 and not extra else None)
                    run.count(f'huge-files:{how}:rc={r["rc"]}')
                    why = None
                    if r['timeout']: why = 'time-out'
                    elif r['rc'] not in (0, 2, 10, 11, 12, 18, 19): why = f'exit status {r["rc"]}' + (' (signal)' if r['rc'] is not None and r['rc'] < 0 else '')
                    elif 'panicked at' in r['err']: why = 'panic message'
                    if why:
                        fails.append(dict(layer='L4', why=why, args=['<src>/', '<dst>/'] + args[2:], rc=r['rc'], stderr=r['err'][-600:], huge_files=dict(lengths=sizes, where=how),
                                          how=f'sparse files of these lengths (truncate -s) in {"the destination, empty source" if how == "delete" else "the source" + (", the same in the destination with the same time" if how == "up-to-date" else "")}'))
                        break
            finally:
                shutil.rmtree(huge_root, ignore_errors=True)
        # the recorded witness: a file dated before 1970
        base = os.path.join(sb.dir, 'pre1970'); src, dst = base + '/src', base + '/dst'
        l3.make_tree(src, [('', 'D'), ('old-file', 'F', b'x', -10**18)])
        r = l4.run_cli([src + '/', dst + '/'], env=sb.env(), timeout=30)
        run.case(('pre-1970',), True, sample=dict(layer='L4', case='file dated 1938', rc=r['rc'], stderr=r['err'][-200:]))
        run.count('witness:pre-1970:rc=' + str(r['rc']))
        if r['rc'] not in (0, 12) or 'panicked at' in r['err']:
            fails.insert(0, dict(layer='L4', why='a file with a modification time before 1970 crashes the run', args=[src + '/', dst + '/'], rc=r['rc'], stderr=r['err'][-800:],
                                 tree='src/old-file mtime=-10^18 ns (1938)'))
    finally:
        subprocess.run(['chmod', '-R', 'u+rwx', sb.dir], capture_output=True); sb.close()

    def on_broken(failed):
        return dict(found_by='CLI fuzz / recorded witness', **fails[0]) if fails else None
    C.proofs_step(run, 'C18', on_broken)
    from . import trials as _trials; _trials.run_trials(run, 'C18')
    # the boss against scripted doers on mixed scenarios in forced arrival orders: a panic of the boss (e.g. an unwrap in the planner's maps that
    # only one arrival order reaches) is an outcome the L2 stream reports
    general_l2(run)
    if fails and not any(not v[1] for v in run.violations):
        run.violation(dict(kind='oracle-failed-on-implementation', oracle='documented exit status, a message on failure, never a panic / signal / time-out', failing_cases=len(fails), **fails[0]))
    st = run.extract_status
    if 'panic-sites' in st:
        run.cov['panic_sites_unclassified'] = st['panic-sites']
    run.cov['trusted_base'] = C.GLOBAL_TRUST + ['Lean totality says nothing about Rust panics: the proof side is the closed panic-site inventory (extracted) with a guard per group (panic_sites.json); groups classified environmental/differential are assumptions',
                                                'inputs: file-system contents expressible on this host (tmpfs/ext4 as root), argv, YAML; Windows code paths are not compiled here']


# ------------------------------------------------------------------ C17

def c17_gen_tree(rng, root, max_entries):
    """returns list of (relpath, kind) created under root; kinds: D F L(target)"""
    from . import l3
    ents = [('', 'D')]
    dirs = ['']
    names = ['a', 'b', 'skipme', 'keep', 'x.txt', 'y.tmp', 'é', 'sp ace', 'deep']
    shape = rng.choice(['wide', 'deep', 'mixed', 'empty-dirs'])
    n = rng.randint(0, max_entries)
    made = set([''])
    for i in range(n):
        d = rng.choice(dirs[-3:] if shape == 'deep' else dirs)
        name = rng.choice(names) + (str(i) if rng.random() < 0.7 else '')
        p = (d + '/' + name) if d else name
        if p in made: continue
        made.add(p)
        r = rng.random()
        if shape == 'empty-dirs' or r < (0.5 if shape == 'deep' else 0.25):
            ents.append((p, 'D')); dirs.append(p)
        elif r < 0.9:
            ents.append((p, 'F', b'x', 10**18))
        else:
            ents.append((p, 'L', rng.choice(['.', '..', '/tmp', 'nowhere', name])))
    l3.make_tree(root, ents)
    return ents


def c17_expected(ents, filters):
    """independent walk: an entry is listed iff it and every ancestor pass the filters (root exempt)"""
    import re
    def verdict(p):
        v = None
        for f in filters:
            if re.fullmatch(f[1:], p):
                v = f[0] == '+'
        if v is None:
            v = not filters or filters[0][0] == '-'
        return v
    out = {}
    kinds = {e[0]: e[1] for e in ents}
    for e in ents:
        p = e[0]
        if p == '': continue
        parts = p.split('/')
        if all(verdict('/'.join(parts[:k + 1])) for k in range(len(parts))) and all(kinds.get('/'.join(parts[:k])) == 'D' for k in range(1, len(parts))):
            out[p] = e[1]
    return out


@prop('C17')
def check_C17(run):
    from . import l3
    import shutil
    thorough = run.tier == 'thorough'
    if not prepare(run):
        return
    C.proofs_step(run, 'C17')
    from . import trials as _trials; _trials.run_trials(run, 'C17')
    rng = run.rng
    run.cov['rule'] = ('L3: the real doer\'s GetEntries (real parallel_walk_dir) on generated trees (wide, deep, empty folders, symlinks to folders / ancestors / nothing, > result-queue-bound entries) with the '
                       'worker-count override 1,2,4,16 and scheduling jitter; oracle = an independent walk: same multiset of paths and kinds, every folder before anything inside it, nothing beneath an excluded '
                       'folder or through a symlink, end marker present, finishes under the watchdog; an unreadable folder (as uid 65534) must give an error and no end marker; non-trivial = more than 3 listed entries; distinct by (tree, filters, threads)')
    d = l3.scratch()
    try:
        os.chmod(d, 0o755)
        trees = []
        ntrees = 40 if not thorough else 400
        for t in range(ntrees):
            root = os.path.join(d, f't{t}')
            ents = c17_gen_tree(rng, root, rng.choice([5, 20, 60]))
            filters = rng.choice([[], ['-skipme.*'], ['-.*/skipme.*', '-skipme.*'], ['+.*', '-.*\\.tmp'], ['-deep.*', '+deep1'], ['+keep.*|a.*|b.*|deep.*']])
            trees.append((root, ents, filters))
        # one big tree (more entries than the result queue holds)
        root = os.path.join(d, 'big'); ents = [('', 'D')] + [(f'd{i}', 'D') for i in range(30)] + [(f'd{i % 30}/f{i}', 'F', b'', 10**18) for i in range(1500 if not thorough else 50000)]
        l3.make_tree(root, ents); trees.append((root, ents, []))
        for threads in (1, 2, 4, 16):
            env = dict(C.ENV, RJRSSYNC_VERIF_WALK_THREADS=str(threads), RJRSSYNC_VERIF_JITTER=str(rng.randint(1, 10**6)))
            lines = [l3.l3_line([['SR', C.X(root)], ['GE', str(len(f))] + [C.X(x) for x in f]], 60000) for root, ents, f in trees]
            res = C.run_harness(lines, timeout=1800, env=env)
            for (root, ents, f), (ans, _) in zip(trees, res):
                resp, status = l3.parse_resp(ans) if ans.startswith('resp=') else ([], ans)
                listed = [(bytes.fromhex(cmd_args(x)[0]).decode(), cmd_args(x)[1][0]) for x in resp if x.startswith('Entry(')]
                want = c17_expected(ents, f)
                run.case(('walk', root, tuple(f), threads), len(listed) > 3, sample=dict(layer='L3', threads=threads, filters=f, entries_listed=len(listed), tree_entries=len(ents) - 1) if len(listed) > 3 and threads > 1 and len(listed) < 40 else None)
                run.count(f'walk:threads={threads}'); run.cov['traces_validated_against_impl'] += 1
                why = None
                got = sorted(listed)
                exp = sorted((p, {'D': 'D', 'F': 'F', 'L': 'L'}[k]) for p, k in want.items())
                if status or 'EndOfEntries' not in resp or resp[-1] != 'EndOfEntries':
                    why = f'no end marker / did not finish ({status or resp[-1:]})'
                elif got != exp:
                    extra = [x for x in got if x not in exp][:3]; missing = [x for x in exp if x not in got][:3]
                    why = f'listing differs from the independent walk: extra {extra} missing {missing} (listed {len(got)}, expected {len(exp)})'
                else:
                    pos = {p: i for i, (p, _) in enumerate(listed)}
                    for p in pos:
                        par = p.rsplit('/', 1)[0] if '/' in p else None
                        if par is not None and pos[par] > pos[p]:
                            why = f'{p!r} is listed before its folder {par!r}'; break
                if why:
                    run.violation(dict(kind='oracle-failed-on-implementation', oracle=why, layer='L3', threads=threads, jitter_seed=env['RJRSSYNC_VERIF_JITTER'], filters=f,
                                       tree=[list(map(str, e[:2])) for e in ents][:80], impl=ans[:1500]))
                    break
            if any(not v[1] for v in run.violations):
                break
        # the walker itself with a scripted consumer pace (slow, stalling after k entries: the bounded result queue fills while workers go on),
        # on a tree whose sub-folders are met late (after more entries than the queue holds): order, content and termination as before
        root = os.path.join(d, 'nested')
        ents = [('', 'D')] + [(f'a{i}', 'D') for i in range(12)]
        for i in range(12):
            ents += [(f'a{i}/f{j}', 'F', b'', 10**18) for j in range(150 if not thorough else 600)]
            ents += [(f'a{i}/z{j}', 'D') for j in range(4)]
            ents += [(f'a{i}/z{j}/g{k_}', 'F', b'', 10**18) for j in range(4) for k_ in range(8)]
            ents += [(f'a{i}/z{j}/y', 'D') for j in range(4)] + [(f'a{i}/z{j}/y/h', 'F', b'', 10**18) for j in range(4)]
        l3.make_tree(root, ents)
        want_paths = sorted((e[0], e[1]) for e in ents if e[0])
        for threads, delay, stall_after, stall_ms in [(1, 0, 0, 0), (4, 0, 5, 300), (8, 20, 900, 400), (16, 0, 1001, 500), (2, 50, 100, 200)] + ([(t_, dl, sa, 300) for t_ in (3, 8, 32) for dl in (0, 5, 100) for sa in (1, 500, 1500)] if thorough else []):
            env = dict(C.ENV, RJRSSYNC_VERIF_WALK_THREADS=str(threads), RJRSSYNC_VERIF_JITTER=str(rng.randint(1, 10**6)))
            ans = C.run_harness([f'walk {C.X(root)} {delay} {stall_after} {stall_ms}'], timeout=600, env=env)[0][0]
            run.case(('walk-paced', threads, delay, stall_after, stall_ms), True, sample=dict(layer='L3', threads=threads, consumer_delay_us=delay, stall_after=stall_after, stall_ms=stall_ms, answer=ans[:80]) if threads == 4 else None)
            run.count(f'walk-paced:threads={threads}'); run.cov['traces_validated_against_impl'] += 1
            why = None
            if not ans.startswith('walk=[') or not ans.endswith('end=ok'):
                why = f'the walk did not finish normally: {ans[-200:]}'
            else:
                items = [x.split(':') for x in ans[6:ans.rindex(']')].split(';') if x]
                got = [(bytes.fromhex(h[1:] if h.startswith('x') else h).decode(), k_) for h, k_ in items]
                seen = set()
                for pth, k_ in got:
                    par = pth.rsplit('/', 1)[0] if '/' in pth else None
                    if par is not None and par not in seen:
                        why = f'{pth!r} was listed (as no. {len(seen) + 1}) before its folder {par!r}'; break
                    seen.add(pth)
                if why is None and sorted(got) != want_paths:
                    why = f'listing differs from the tree: {len(got)} listed, {len(want_paths)} expected; e.g. {sorted(set(got) ^ set(want_paths))[:3]}'
            if why:
                run.violation(dict(kind='oracle-failed-on-implementation', oracle='every entry exactly once, every folder before anything inside it, whatever the pace of the consumer', layer='L3', why=why,
                                   threads=threads, consumer_delay_us=delay, stall_after=stall_after, stall_ms=stall_ms, tree='12 folders x (150 files, 4 sub-folders x (8 files, 1 sub-folder))', request_line=f'walk <root> {delay} {stall_after} {stall_ms}'))
                break
        # read error: an unreadable folder as an unprivileged user
        root = os.path.join(d, 'unreadable'); l3.make_tree(root, [('', 'D'), ('ok', 'F', b'', 10**18), ('locked', 'D'), ('locked/inner', 'F', b'', 10**18), ('zz', 'D'), ('zz/f', 'F', b'', 10**18)])
        os.chmod(os.path.join(root, 'locked'), 0)
        import subprocess
        def as_nobody():
            os.setgroups([]); os.setgid(65534); os.setuid(65534)
        for threads in (1, 4):
            try:
                p = subprocess.run([C.HARNESS_BIN, '--verif'], input=l3.l3_line([['SR', C.X(root)], ['GE', '0']], 20000) + '\n', capture_output=True, text=True, preexec_fn=as_nobody,
                                   env=dict(C.ENV, RJRSSYNC_VERIF_WALK_THREADS=str(threads)), timeout=120)
            except PermissionError:
                run.count('skipped:uid-65534-cannot-run-the-harness'); continue
            ans = next((l[3:] for l in p.stdout.split('\n') if l.startswith('@@ ')), 'no answer')
            run.case(('walk-read-error', threads), True, sample=dict(layer='L3', threads=threads, impl=ans[:300])); run.count('walk:read-error')
            if 'Error(' not in ans or 'EndOfEntries' in ans:
                run.violation(dict(kind='oracle-failed-on-implementation', oracle='a read error on a directory surfaces as an error, not as a silently shorter listing', layer='L3', threads=threads, impl=ans[:800]))
        os.chmod(os.path.join(root, 'locked'), 0o755)
    finally:
        import subprocess as _sp
        _sp.run(['chmod', '-R', 'u+rwx', d], capture_output=True); shutil.rmtree(d, ignore_errors=True)
    run.cov['trusted_base'] = C.GLOBAL_TRUST + ['real thread timing is sampled (jitter hook); the schedule quantifier is carried by C17_terminates / C17_exactly_once over the transition system + the extracted worker-loop features',
                                                'parent-before-child order is checked on the real walker only (oracle) and pinned by the extracted feature "entry sent before the job is queued"; it has no Lean theorem',
                                                'crossbeam channels are FIFO; read_dir returns every entry once']


# ------------------------------------------------------------------ C19

def c19_panic_class(ans):
    import re
    if not ans.startswith('panic'):
        return None
    msg = bytes.fromhex(ans.split('msg=')[1]).decode(errors='replace') if 'msg=' in ans else ''
    for pat, k in (('overflow', 'arithmetic-overflow'), ('divide by zero', 'divide-by-zero'), ('split index', 'split_off-out-of-range'), ('out of range for slice', 'slice-out-of-range'),
                   ('assertion failed: new_section_name', 'name-longer-than-8'), ('range start index', 'slice-out-of-range'), ('range end index', 'slice-out-of-range')):
        if pat in msg:
            return k
    return 'other:' + re.sub(r'\d+', 'N', msg)[-80:]


@prop('C19')
def check_C19(run):
    from . import exegen as G, l3
    import shutil, subprocess, struct
    thorough = run.tier == 'thorough'
    if not prepare(run, need_cli=True):
        return
    C.proofs_step(run, 'C19')
    from . import trials as _trials; _trials.run_trials(run, 'C19')
    rng = run.rng
    run.cov['rule'] = ('L1: the real add/extract functions of exe_utils (dev profile, under catch_unwind) on synthetic ELF64 / PE images with varied geometry (section counts, names-section position, header gaps 0..80, '
                       'file/section alignments 1..64 KiB, payloads 0..4 KiB; thorough: to 1 MiB) and on truncations / field corruptions of them: output bytes / error / panic = model, byte for byte; oracle: extract(add(x)) returns the payload '
                       '(PE: zero-padded to the file alignment) and every byte of the original image survives; L4: the section is added to the freshly built rjrssync binary, which must still run and list the embedded binaries; '
                       'non-trivial = a valid layout or a corruption that reaches past the header checks; distinct by request line')
    lines, meta = [], []
    for i in range(1500 if not thorough else 8000):
        kind = rng.choice(['elf', 'pe'])
        img = G.make_elf(rng) if kind == 'elf' else G.make_pe(rng)
        # plausible non-standard inputs, judged like valid ones (if the add succeeds the payload must read back and the sections survive):
        # bytes after the end of the image (padding, an appended signature / overlay)
        if rng.random() < 0.12:
            img = img + bytes(rng.getrandbits(8) if rng.random() < 0.5 else 0 for _ in range(rng.choice([1, 2, 8, 16, 64, 512])))
        corrupted = rng.random() < 0.45
        if corrupted:
            img = G.corrupt_bounded(rng, img) if kind == 'pe' else G.corrupt(rng, img)
        payload = bytes(rng.getrandbits(8) for _ in range(rng.choice([0, 1, 5, 33, 100, 1000, 4096] + ([1 << 20] if thorough and i % 500 == 0 else []))))
        name = rng.choice(['.rjembed'] * 8 + ['x', 'toolongname9'])
        lines.append(f'exe add{kind} {C.X(img)} {C.X(name)} {C.X(payload)}'); meta.append((kind, 'add', corrupted, img, name, payload))
        lines.append(f'exe ext{kind} {C.X(img)} {C.X(rng.choice([name, ".s1", ".shstrtab", ".s0"]))}'); meta.append((kind, 'ext', corrupted, img, name, payload))
    impl = [a for a, _ in C.run_harness(lines, timeout=7200)]
    model = C.run_model(lines, timeout=7200)
    known = [f for f in C.load_known()['open'] if f.get('id') == 'C19-F9']
    known_classes = set(known[0]['panic_classes']) if known else set()
    panic_seen, second, bad = {}, [], None
    for l, (kind, op, corrupted, img, name, payload), i_ans, m_ans in zip(lines, meta, impl, model):
        i_core = i_ans.split(' msg=')[0]
        nt = not corrupted or i_core != 'err'
        run.case(('exe', l), nt, sample=dict(layer='L1', op=op + kind, corrupted=corrupted, image_bytes=len(img), payload_bytes=len(payload), impl=i_core[:60]) if nt and len(run.cov['samples']) < 5 else None)
        run.count(f'exe:{op}{kind}:' + i_core.split(':')[0]); run.cov['traces_validated_against_impl'] += 1
        if i_core != m_ans and bad is None:
            bad = dict(request_line=l[:3000], impl=i_ans[:300], model=m_ans[:300])
        pc = c19_panic_class(i_ans)
        if pc:
            panic_seen.setdefault((op + kind, pc), l)
        if op == 'add' and i_core.startswith('ok:') and not corrupted:
            second.append((kind, img, name, payload, bytes.fromhex(i_core[4:])))
    run.cov['disagreements_checked'] += len(lines)
    # the hypothesis of C19_elf_roundtrip / C19_elf_preserved (the decidable layout predicate ValidElf) evaluated by the model driver on
    # every ELF image of this run, corrupted or not: where it holds, the theorem promises that the add succeeds and the payload reads back -
    # that conclusion is then checked on what the IMPLEMENTATION answered (so the theorem's hypothesis is tied to the generator's images,
    # and its conclusion to the real functions, not only to the model)
    elf_adds = [(l, m_, i_ans) for l, m_, i_ans in zip(lines, meta, impl) if m_[0] == 'elf' and m_[1] == 'add']
    vl = [f'exe validelf {C.X(m_[3])} {C.X(m_[4])}' for _, m_, _ in elf_adds]
    vans = C.run_model(vl, timeout=3600)
    for (l, m_, i_ans), va in zip(elf_adds, vans):
        kind, op, corrupted, img, name, payload = m_
        run.count(f'elf:ValidElf={va}:' + ('corrupted' if corrupted else 'generated'))
        if va not in ('valid', 'not-valid') and bad is None:
            bad = dict(request_line=('exe validelf ' + l[:2000]), impl='-', model=va[:300])
        if va == 'valid':
            i_core = i_ans.split(' msg=')[0]
            if not i_core.startswith('ok:'):
                run.violation(dict(kind='oracle-failed-on-implementation', oracle='C19_elf_roundtrip on the implementation: an image that meets ValidElf is accepted by add_section_to_elf', layer='L1',
                                   image=img.hex()[:4000], name=name, payload=payload.hex()[:400], impl=i_ans[:300])); break
            if corrupted:
                second.append((kind, img, name, payload, bytes.fromhex(i_core[4:])))     # (judged like a valid image: the payload must read back)
    # the same for PE: the hypothesis of C19_pe_roundtrip (ValidPe) evaluated on every PE image of this run
    pe_adds = [(l, m_, i_ans) for l, m_, i_ans in zip(lines, meta, impl) if m_[0] == 'pe' and m_[1] == 'add']
    vl = [f'exe validpe {C.X(m_[3])} {C.X(m_[4])} {C.X(m_[5])}' for _, m_, _ in pe_adds]
    vans = C.run_model(vl, timeout=3600)
    for (l, m_, i_ans), va in zip(pe_adds, vans):
        kind, op, corrupted, img, name, payload = m_
        run.count(f'pe:ValidPe={va}:' + ('corrupted' if corrupted else 'generated'))
        if va not in ('valid', 'not-valid') and bad is None:
            bad = dict(request_line=('exe validpe ' + l[:2000]), impl='-', model=va[:300])
        if va == 'valid':
            i_core = i_ans.split(' msg=')[0]
            if not i_core.startswith('ok:'):
                run.violation(dict(kind='oracle-failed-on-implementation', oracle='C19_pe_roundtrip on the implementation: an image that meets ValidPe is accepted by add_section_to_pe', layer='L1',
                                   image=img.hex()[:4000], name=name, payload=payload.hex()[:400], impl=i_ans[:300])); break
            if corrupted:
                second.append((kind, img, name, payload, bytes.fromhex(i_core[4:])))
    # round trip + preservation oracle on the implementation
    l2_ = [f'exe ext{kind} {C.X(out)} {C.X(name)}' for kind, img, name, payload, out in second]
    back = [a for a, _ in C.run_harness(l2_, timeout=1800)]
    mback = C.run_model(l2_, timeout=1800)
    f10 = []
    f12 = []
    for (kind, img, name, payload, out), a, m, l in zip(second, back, mback, l2_):
        run.count(f'roundtrip:{kind}'); run.cov['traces_validated_against_impl'] += 1
        if a.split(' msg=')[0] != m and bad is None:
            bad = dict(request_line=l[:3000], impl=a[:300], model=m[:300])
        got = bytes.fromhex(a[4:]) if a.startswith('ok:x') else None
        ok = got is not None and got[:len(payload)] == payload and not any(got[len(payload):]) and (kind == 'pe' or got == payload)
        if kind == 'elf':
            # bytes before the end of the names section are unchanged
            strndx = struct.unpack_from('<H', img, 0x3E)[0]; shoff = struct.unpack_from('<Q', img, 0x28)[0]
            no, ns = struct.unpack_from('<QQ', img, shoff + strndx * 64 + 0x18)
            ok = ok and out[0x40:no + ns] == img[0x40:no + ns] and out[:0x28] == img[:0x28]
        why = None
        if kind == 'elf' and ok:
            # independent structural parse: one section more; every original section's contents are found, unchanged, where the output's
            # header for it points (the names section: its old contents followed by the new name)
            try:
                def esecs(b):
                    shoff = struct.unpack_from('<Q', b, 0x28)[0]; es, n, sx = struct.unpack_from('<HHH', b, 0x3A)
                    return n, sx, [struct.unpack_from('<QQ', b, shoff + es * i + 0x18) for i in range(n)]
                n_i, sx_i, s_i = esecs(img); n_o, sx_o, s_o = esecs(out)
                if n_o != n_i + 1: why = f'section count {n_i} -> {n_o}'
                if sx_o != sx_i: why = why or f'names section index {sx_i} -> {sx_o}'
                nm = name.encode() if isinstance(name, str) else name
                shoff_i = struct.unpack_from('<Q', img, 0x28)[0]
                for k_, ((oi, zi), (oo, zo)) in enumerate(zip(s_i, s_o)):
                    if oi + zi > shoff_i:
                        continue       # (a corrupted header: the 'section' is not a stretch of the file in front of the table; the preservation clause does not speak about it)
                    want_ = img[oi:oi + zi] + ((nm + b'\0') if k_ == sx_i else b'')
                    at_i = s_i[sx_i][0] + s_i[sx_i][1] if sx_i < len(s_i) else 0
                    if out[oo:oo + zo] != want_ and k_ != sx_i and zi > 0 and ((k_ > sx_i and oi < at_i) or (k_ < sx_i and oi >= at_i)) and any(f.get('id') == 'C19-F12' for f in C.load_known()['open']):
                        # known finding C19-F12: file order and table order disagree around the names section (offsets are moved by index)
                        f12.append(f'section {k_} (index {"above" if k_ > sx_i else "below"} the names section {sx_i}, file offset {oi} {"before" if oi < at_i else "at/after"} the insertion point {at_i}): header says {oo}')
                        continue
                    if out[oo:oo + zo] != want_:
                        why = why or f'section {k_}: contents altered (at {oi}+{zi} in the input, the output header says {oo}+{zo}: {out[oo:oo + zo].hex()[:40]} instead of {want_.hex()[:40]})'
                if why is None and n_o == n_i + 1 and out[s_o[-1][0]: s_o[-1][0] + s_o[-1][1]] != payload:
                    why = 'the added section does not hold the payload'
                ok = ok and why is None
            except struct.error:
                pass
        if kind == 'pe' and ok:
            # independent structural parse: every original section's raw data is found, unchanged, where the output's header for
            # that section points; names, virtual layout and raw sizes of the original sections are unchanged; one section was added
            try:
                def secs(b):
                    pe = struct.unpack_from('<I', b, 0x3C)[0]
                    n = struct.unpack_from('<H', b, pe + 6)[0]; opt = struct.unpack_from('<H', b, pe + 20)[0]
                    t = pe + 24 + opt
                    return pe, n, [(b[t + 40 * i: t + 40 * i + 8],) + struct.unpack_from('<IIII', b, t + 40 * i + 8) for i in range(n)] + [t + 40 * n]
                pe_i, n_i, s_i = secs(img); pe_o, n_o, s_o = secs(out)
                end_i = s_i.pop(); s_o.pop()
                if any(x[3] > 0 and x[4] < end_i for x in s_i):
                    raise struct.error('raw data overlaps the headers: not a layout the preservation clause speaks about')
                if n_o != n_i + 1: why = f'section count {n_i} -> {n_o}'
                for k_, (a_, b_) in enumerate(zip(s_i, s_o)):
                    if a_[:4] != b_[:4]: why = why or f'header of section {k_} changed: {a_} -> {b_}'
                    di, do = img[a_[4]: a_[4] + a_[3]], out[b_[4]: b_[4] + b_[3]]
                    if a_[4] + a_[3] <= len(img) and di != do: why = why or f'section {k_}: contents altered (raw data at {a_[4]}+{a_[3]} in the input, at {b_[4]} in the output)'
                if out[:pe_i + 6] != img[:pe_i + 6]: why = why or 'bytes before the section count changed'
                # known finding C19-F10: no room for the 40-byte header is made when gap + one FileAlignment < 40
                falign = struct.unpack_from('<I', img, pe_i + 24 + 36)[0]
                gap_i = min([x[4] for x in s_i if x[3] > 0] or [end_i + 40]) - end_i
                if why and gap_i < 40 and gap_i + falign < 40 and any(f.get('id') == 'C19-F10' for f in C.load_known()['open']):
                    f10.append((gap_i, falign, why)); why = None
                ok = ok and why is None
            except struct.error as e:
                pass
        if not ok:
            run.violation(dict(kind='oracle-failed-on-implementation', oracle='extract(add(image, payload)) returns the payload (PE: zero padded) and the original bytes survive', layer='L1', why=why,
                               image_kind=kind, image=img.hex()[:2000], payload=payload.hex()[:400], extracted=a[:400])); break
    if f12:
        run.known.append(f'C19-F12: add_section_to_elf moves section offsets by table index, not by file position: {f12[0]} ({len(f12)} layouts this run)')
    if f10:
        g_, fa_, w_ = f10[0]
        run.known.append(f'C19-F10: add_section_to_pe overwrites the start of the first section when the header gap ({g_} bytes) plus one FileAlignment ({fa_}) is below the 40 bytes a section header needs ({len(f10)} layouts this run; e.g. {w_})')
    if bad:
        run.violation(dict(kind='correspondence-broken', correspondence='L1/exe_utils byte-exact', note='outputs, errors and panics must agree', **bad), no_input=True)
    # panics on malformed input: the recorded finding, by (function, class)
    new = {k: v for k, v in panic_seen.items() if f'{k[0]}:{k[1]}' not in known_classes}
    for (fn, pc), l in sorted(panic_seen.items()):
        if f'{fn}:{pc}' in known_classes:
            pass
    if panic_seen and not new:
        run.known.append('C19-F9: exe_utils panics instead of returning an error on malformed executables / an empty payload: ' + ', '.join(sorted(f'{a}:{b}' for a, b in panic_seen)))
    for (fn, pc), l in sorted(new.items())[:2]:
        run.violation(dict(kind='oracle-failed-on-implementation', oracle='a malformed executable is rejected with an error rather than a crash (panic class not among the recorded ones)', layer='L1',
                           function=fn, panic_class=pc, request_line=l[:3000]))
    # an executable linked by this machine's own toolchain meets the layout predicate of the ELF theorems (their hypothesis is not only
    # satisfiable by my generator's images), the real add function accepts it, and the result still runs and holds the payload
    d = l3.scratch()
    try:
        open(os.path.join(d, 't.c'), 'w').write('#include <stdio.h>\nint main(){puts("hi");return 0;}\n')
        cc = subprocess.run(['clang', os.path.join(d, 't.c'), '-o', os.path.join(d, 't_elf')], capture_output=True, text=True)
        if cc.returncode == 0:
            tb = open(os.path.join(d, 't_elf'), 'rb').read()
            va = C.run_model([f'exe validelf {C.X(tb)} {C.X(".rjembed")}'], timeout=600)[0]
            open(os.path.join(d, 'pl'), 'wb').write(b'payload-\x00-bytes' * 3)
            ans = C.run_harness(['exefile ' + ' '.join(C.X(x) for x in (os.path.join(d, 't_elf'), os.path.join(d, 't_aug'), os.path.join(d, 'pl'), '.rjembed'))])[0][0]
            ran = None
            if ans.startswith('ok:'):
                os.chmod(os.path.join(d, 't_aug'), 0o755)
                ran = subprocess.run([os.path.join(d, 't_aug')], capture_output=True, text=True)
                back = C.run_harness([f'exe extelf {C.X(open(os.path.join(d, "t_aug"), "rb").read())} {C.X(".rjembed")}'])[0][0]
            run.case(('toolchain-elf',), True, sample=dict(layer='L1', toolchain_elf_bytes=len(tb), ValidElf=va, add=ans[:20])); run.count('toolchain-elf:ValidElf=' + va)
            if va != 'valid' or not ans.startswith('ok:') or ran.returncode != 0 or ran.stdout != 'hi\n' or back.split(' msg=')[0] != 'ok:x' + (b'payload-\x00-bytes' * 3).hex():
                run.violation(dict(kind='oracle-failed-on-implementation', oracle='an executable linked by clang meets ValidElf, is accepted by add_section_to_elf, still runs, and the payload reads back', layer='L1',
                                   ValidElf=va, add=ans[:200], ran=(ran.returncode, ran.stdout[:100]) if ran else None))
        else:
            run.count('toolchain-elf:clang-unavailable')
        if thorough:
            st = os.path.join(d, 'rj_stripped')
            if subprocess.run(['llvm-strip', '-o', st, C.CLI_BIN], capture_output=True).returncode == 0:
                va = C.run_model([f'exe validelf {C.X(open(st, "rb").read())} {C.X(".rjembed")}'], timeout=1800)[0]
                run.case(('stripped-rjrssync',), True); run.count('stripped-rjrssync:ValidElf=' + va)
                if va != 'valid':
                    run.violation(dict(kind='tie-broken', tie='the (stripped) rjrssync binary built from this tree meets ValidElf', model=va), no_input=True)
    finally:
        shutil.rmtree(d, ignore_errors=True)
    # L4: the real binary
    d = l3.scratch()
    try:
        triple = b'x86_64-unknown-linux-gnu'; data = b'not really a binary'
        payload = b'\x00' + struct.pack('<Q', 1) + struct.pack('<Q', len(triple)) + triple + struct.pack('<Q', len(data)) + data
        open(os.path.join(d, 'payload'), 'wb').write(payload)
        out = os.path.join(d, 'augmented')
        ans = C.run_harness(['exefile ' + ' '.join(C.X(x) for x in (C.CLI_BIN, out, os.path.join(d, 'payload'), '.rjembed'))])[0][0]
        run.case(('real-binary',), True, sample=dict(layer='L4', add_to_real_binary=ans)); run.count('real-binary')
        if not ans.startswith('ok:'):
            run.violation(dict(kind='oracle-failed-on-implementation', oracle='the section can be added to the freshly built binary', layer='L4', impl=ans))
        else:
            os.chmod(out, 0o755)
            v1 = subprocess.run([C.CLI_BIN, '--version'], capture_output=True, text=True, env=C.ENV)
            v2 = subprocess.run([out, '--version'], capture_output=True, text=True, env=C.ENV)
            le = subprocess.run([out, '--list-embedded-binaries'], capture_output=True, text=True, env=C.ENV)
            sd = os.path.join(d, 'sync'); l3.make_tree(sd + '/src', [('', 'D'), ('f', 'F', b'hello', 10**18)])
            sy = subprocess.run([out, sd + '/src/', sd + '/dst/'], capture_output=True, text=True, env=C.ENV)
            if v1.stdout != v2.stdout or v2.returncode != 0 or le.returncode != 0 or 'x86_64-unknown-linux-gnu' not in le.stdout or sy.returncode != 0 or not os.path.exists(sd + '/dst/f'):
                run.violation(dict(kind='oracle-failed-on-implementation', oracle='the augmented binary behaves like the original and reports the embedded binaries', layer='L4',
                                   version=(v1.stdout, v2.stdout, v2.returncode), list_embedded=(le.returncode, le.stdout[-300:], le.stderr[-300:]), sync_rc=sy.returncode))
    finally:
        shutil.rmtree(d, ignore_errors=True)
    # L4: the deployment chain across platforms.  The freshly built binary is given an embedded-binaries table whose "aarch64" lite binary
    # is really this x86_64 build; a fake uname makes the remote claim aarch64, so the boss must upgrade the embedded lite binary into a big
    # one (add_section_to_elf with the table) and deploy that.  The deployed copy must start, pass the handshake, sync, report the same
    # embedded binaries as its parent, and be able to deploy in turn (self-propagating).
    from . import l4
    d = l3.scratch(); sb = l4.Sandbox()
    try:
        lite = bytearray(open(C.CLI_BIN, 'rb').read()); lite[0xF] = 7; lite = bytes(lite)      # (a padding byte of e_ident marks the 'aarch64' binary: it runs all the same, and is told apart from the boss's own build)
        ent = lambda t, data: struct.pack('<Q', len(t)) + t + struct.pack('<Q', len(data)) + data
        table = b'\x00' + struct.pack('<Q', 2) + ent(b'aarch64-unknown-linux-musl', lite) + ent(b'x86_64-pc-windows-msvc', b'MZ-not-a-real-binary')
        open(os.path.join(d, 'table'), 'wb').write(table)
        parent = os.path.join(d, 'parent')
        ans = C.run_harness(['exefile ' + ' '.join(C.X(x) for x in (C.CLI_BIN, parent, os.path.join(d, 'table'), '.rjembed'))])[0][0]
        if ans.startswith('ok:'):
            os.chmod(parent, 0o755)
            l3.make_tree(sb.dir + '/src', [('', 'D'), ('f', 'F', b'hello', 10**18), ('sub', 'D'), ('sub/g', 'F', b'x' * 5000, 10**18)])
            lp = subprocess.run([parent, '--list-embedded-binaries'], capture_output=True, text=True, env=C.ENV)
            hops, problem = [], None
            boss_bin = parent
            for hop, host in enumerate(['localhost', '127.0.0.1']):
                shutil.rmtree(sb.dir + '/dst', ignore_errors=True)
                env = sb.env({'FAKE_UNAME': 'aarch64', 'FAKE_PER_HOST': '1'})
                r = subprocess.run([boss_bin, sb.dir + '/src/', host + ':' + sb.dir + '/dst/', '--deploy', 'ok'], capture_output=True, text=True, env=env, timeout=180)
                child = sb.remote + '-' + host + '/rjrssync/rjrssync'
                lc = subprocess.run([child, '--list-embedded-binaries'], capture_output=True, text=True, env=C.ENV) if os.path.exists(child) else None
                hops.append(dict(hop=hop, host=host, rc=r.returncode, deployed=os.path.exists(child), synced=os.path.exists(sb.dir + '/dst/sub/g'), same_list=bool(lc) and lc.stdout == lp.stdout))
                if r.returncode != 0 or not os.path.exists(sb.dir + '/dst/sub/g'):
                    problem = f'hop {hop}: the sync through the deployed binary failed (status {r.returncode}): {r.stderr[-300:]}'; break
                if lc is None or lc.returncode != 0 or lc.stdout != lp.stdout:
                    problem = f'hop {hop}: the deployed binary does not report the same embedded binaries as its parent: parent {lp.stdout[-300:]!r}, child {(lc.stdout if lc else "")[-300:]!r}'; break
                boss_bin = child
            # two remotes of different platforms in ONE run (source and destination both remote, both needing a deployment): each must be given
            # the binary it is given when it is deployed to on its own
            import glob as _glob9, hashlib as _hl9
            def deployed_hashes():
                return {os.path.basename(os.path.dirname(os.path.dirname(f_))).split('-', 1)[1]: _hl9.sha1(open(f_, 'rb').read()).hexdigest() for f_ in _glob9.glob(sb.remote + '-*/rjrssync/rjrssync')}
            def wipe():
                for d_ in _glob9.glob(sb.remote + '-*'): shutil.rmtree(d_, ignore_errors=True)
                shutil.rmtree(sb.dir + '/dst', ignore_errors=True)
            if not problem:
                envm = sb.env({'FAKE_UNAME_MAP': '127.0.0.1=aarch64', 'FAKE_PER_HOST': '1'})
                single = {}
                for host in ('localhost', '127.0.0.1'):
                    wipe()
                    subprocess.run([parent, sb.dir + '/src/', host + ':' + sb.dir + '/dst/', '--deploy', 'ok'], capture_output=True, text=True, env=envm, timeout=180)
                    single.update(deployed_hashes())
                for a_, b_ in (('localhost', '127.0.0.1'), ('127.0.0.1', 'localhost')):
                    wipe()
                    r2 = subprocess.run([parent, a_ + ':' + sb.dir + '/src/', b_ + ':' + sb.dir + '/dst/', '--deploy', 'ok'], capture_output=True, text=True, env=envm, timeout=240)
                    both = deployed_hashes()
                    run.case(('deploy-two-platforms', a_, b_), True, sample=dict(layer='L4', what='two remotes of different platforms in one run', source_host=a_, dest_host=b_, rc=r2.returncode, same_as_single={h_: both.get(h_) == single.get(h_) for h_ in single}))
                    run.count(f'deploy-two-platforms:rc={r2.returncode}'); run.cov['traces_validated_against_impl'] += 1
                    marks = {}
                    for f_ in _glob9.glob(sb.remote + '-*/rjrssync/rjrssync'):
                        marks[os.path.basename(os.path.dirname(os.path.dirname(f_))).split('-', 1)[1]] = open(f_, 'rb').read(16)[0xF]
                    if marks.get('127.0.0.1') != 7 or marks.get('localhost') != 0:
                        own_a, own_n = marks.get('127.0.0.1') == 7, marks.get('localhost') == 0
                        problem = ('two remotes in one run (source %s, destination %s): the host claiming aarch64 was given %s binary, the native host %s (mark bytes %s)'
                                   % (a_, b_, 'its own' if own_a else "ANOTHER platform's", 'its own' if own_n else "ANOTHER platform's", marks))
                        break
                    if r2.returncode != 0 or len(single) != 2 or any(both.get(h_) != single[h_] for h_ in single):
                        problem = (f'two remotes in one run ({a_} native, 127.0.0.1 claiming aarch64; source {a_}, destination {b_}): status {r2.returncode}; the binary placed on each host '
                                   f'{"equals" if all(both.get(h_) == single.get(h_) for h_ in single) else "DIFFERS from"} the one placed there by a run of its own: {dict((h_, both.get(h_) == single.get(h_)) for h_ in single)}; {r2.stderr[-200:]}')
                        break
            # a native remote whose host name mentions another architecture (uname -a prints the host name too): it is given the boss's own build
            if not problem:
                wipe()
                line = 'Linux aarch64-build-01 5.10.0-21-arm64-compat #1 SMP Debian 5.10 x86_64 GNU/Linux'
                r3 = subprocess.run([parent, sb.dir + '/src/', 'localhost:' + sb.dir + '/dst/', '--deploy', 'ok'], capture_output=True, text=True, env=sb.env({'FAKE_UNAME_LINE': line, 'FAKE_PER_HOST': '1'}), timeout=180)
                f3 = sb.remote + '-localhost/rjrssync/rjrssync'
                mark3 = open(f3, 'rb').read(16)[0xF] if os.path.exists(f3) else None
                run.case(('deploy-misleading-host-name',), True, sample=dict(layer='L4', what='a native remote whose host name mentions another architecture', uname=line, rc=r3.returncode, mark=mark3)); run.count('deploy-misleading-host-name')
                if r3.returncode != 0 or mark3 != 0 or not os.path.exists(sb.dir + '/dst/sub/g'):
                    problem = f'a native x86_64 remote whose uname line is {line!r}: status {r3.returncode}, the deployed binary is {"missing" if mark3 is None else ("the boss own build" if mark3 == 0 else "ANOTHER platform binary")}; {r3.stderr[-300:]}'
            run.case(('deploy-chain',), True, sample=dict(layer='L4', what='cross-platform deployment chain (embedded lite binary upgraded and deployed, twice)', hops=hops)); run.count('deploy-chain:hops', len(hops))
            if problem:
                run.violation(dict(kind='oracle-failed-on-implementation', oracle='the binary that deployment places on a remote starts, passes the handshake, syncs, reports the same embedded binaries as its parent and can deploy in turn', layer='L4',
                                   problem=problem, hops=hops, parent_list=lp.stdout[-400:]))
        else:
            run.violation(dict(kind='oracle-failed-on-implementation', oracle='the embedded-binaries table can be added to the freshly built binary', layer='L4', impl=ans))
    finally:
        shutil.rmtree(d, ignore_errors=True); sb.close()
    run.cov['panic_classes_seen'] = sorted(f'{a}:{b}' for a, b in panic_seen)
    run.cov['trusted_base'] = C.GLOBAL_TRUST + ['dev-profile integer semantics (overflow checks on) is what the harness and the suite run; the release profile differs only where an overflow occurs',
                                                'ELF64: round trip and preservation are theorems for every image meeting the decidable predicate ValidElf (evaluated on the generated images, on a clang-linked executable and (thorough) on the stripped rjrssync binary); PE: round trip and preservation are theorems for every image meeting ValidPe (evaluated on the generated images); images outside the two layout predicates are covered by the byte-exact correspondence + structural oracle only; Windows loading of the PE result cannot be exercised here (no PE can run)',
                                                'deployment of the augmented binary through fake scp + handshake is covered by C15\'s launch matrix']


# ------------------------------------------------------------------ C01 / C04 / C12 (shared L4 machinery in mirror.py)

def oracle_mirror_plan(r):
    """independent plan-level mirror oracle on the *implementation's* destination trace: apply it to the scripted
    destination listing; the result must mirror the scripted source listing (folder roots, run ended ok)"""
    ir, sc = r['impl_r'], r['sc']
    d = ir.get('dest', [])
    if ir.get('res') != 'ok' or sc.dry or 'Marker(Done)' not in d:
        return None
    sa = sides_asked(sc)
    if not sa[0]:
        return None
    src = {p: v for p, v in effective_src_listing(sc).items() if p != ''}
    before = {p: v for p, v in effective_dest_listing(sc).items() if p != ''}
    cur = dict(before)
    scripts = dict(sc.files)
    diff = sc.dest_reply[2] if sc.dest_reply[0] == 'R' else 0
    openf = None
    for c in d:
        n = cmd_name(c)
        if n in ('SetRoot', 'GetEntries', 'Marker', 'CreateRootAncestors', 'Shutdown'):
            continue
        a = cmd_args(c); p = cmd_path(c)
        if p == '':
            continue
        par = p.rsplit('/', 1)[0] if '/' in p else ''
        if n.startswith('Delete'):
            if p not in cur:
                return f'{n} of {p!r}, which the destination does not hold'
            if {'DeleteFile': 'F', 'DeleteFolder': 'D', 'DeleteSymlink': 'L'}[n] != cur[p][0]:
                return f'{n} of {p!r}, which is {cur[p]}'
            if n == 'DeleteFolder' and any(q.startswith(p + '/') for q in cur):
                return f'folder {p!r} deleted while it still has entries'
            del cur[p]
        else:
            if par != '' and cur.get(par) != 'D':
                return f'{n} of {p!r} while its parent is {cur.get(par)}'
            if n == 'CreateFolder':
                if p in cur: return f'CreateFolder over existing {cur[p]} at {p!r}'
                cur[p] = 'D'
            elif n == 'CreateSymlink':
                if p in cur: return f'CreateSymlink over existing {cur[p]} at {p!r}'
                cur[p] = f'L:{a[1]}:{a[2]}'
            elif n == 'CreateOrUpdateFile':
                data = bytes.fromhex(a[1])
                if openf and openf[0] == p:
                    openf[1] += data
                else:
                    if p in cur and not cur[p].startswith('F:'): return f'file written over {cur[p]} at {p!r}'
                    openf = [p, data]
                if a[2] != '-':
                    want = b''.join(ch for ch, _ in scripts.get(p, []))
                    if openf[1] != want[:len(openf[1])] or len(openf[1]) != int(src.get(p, 'F:0:-1').split(':')[2]):
                        return f'bytes written to {p!r} are not the source\'s bytes'
                    cur[p] = f'F:{a[2]}:{len(openf[1])}'
                    openf = None
    if openf:
        return f'file {openf[0]!r} left without its time stamp'
    for p, s in src.items():
        c_ = cur.get(p)
        if c_ == s:
            continue
        if c_ is not None and s.startswith('F:') and c_.startswith('F:') and c_ == before.get(p) and c_.split(':')[1] == s.split(':')[1] and sc.beh[2] == 's':
            continue          # same time: deemed up to date
        if c_ is not None and s.startswith('L:') and c_.startswith('L:') and c_ == before.get(p) and c_.split(':')[2] == s.split(':')[2] and not diff:
            continue          # same text; kind differs, destination does not distinguish
        return f'after the sync the destination holds {c_} at {p!r}, the source {s}'
    extra = [p for p in cur if p not in src]
    if extra:
        return f'additional entries {extra[:3]}'
    return None


def _mirror_setup(run, need_harness=False):
    from . import l4
    if not prepare(run, need_cli=True):
        return None
    sb = l4.Sandbox(); sb.place_remote('same')
    return sb


@prop('C01')
def check_C01(run):
    from . import l3, l4, mirror as M
    import shutil, subprocess
    thorough = run.tier == 'thorough'
    sb = _mirror_setup(run)
    if sb is None:
        return
    rng = run.rng
    run.cov['rule'] = ('L2: the real sync() against scripted doers, no-skip behaviours; request = (roots, listings in a forced order, file scripts); destination trace = model trace; independent oracle: the '
                       'implementation\'s trace applied to the scripted destination mirrors the scripted source. L4: the CLI on generated tree pairs (sizes on chunk boundaries, ns / epoch / far-future times, '
                       'kind swaps at depth and on the root, links of every form, missing destination ancestors, filters, trailing-slash spellings) in the 4 placements (fake ssh: real --doer, TCP, AES-GCM) '
                       'and spec files with several syncs; oracle: independent snapshot comparison incl. filter-excluded entries untouched; forbidden slash combinations: both sides untouched; '
                       'non-trivial = exit 0 with at least one change made; distinct by case')
    try:
        doer_model_stream(run)
        from .props2 import sync_model_stream
        sync_model_stream(run, 40 if not thorough else 600)
        general_l2(run)
        # ---- L2
        scs = corpus_l2('C01')
        for _ in range(250 if not thorough else 4000):
            s = l2.gen_scenario(rng, rng.choice(['folder', 'folder', 'mixed']), faults=False)
            s.beh, s.answers, s.dry, s.err_at_cmd = rng.choice(['oosoo', 'ooooo']), '', False, None
            scs.append(s)
        l2_stream(run, scs, [('mirror-plan', oracle_mirror_plan)], 'mirror',
                  nontrivial=lambda r: r['impl_r'].get('res') == 'ok' and len(trace_actions(r['impl_r'].get('dest', []))) >= 2)
        # ---- L4
        fails = []
        n = 70 if not thorough else 900
        for i in range(n):
            c = M.gen_case(rng, sb, i)
            before = M.snap_all(c)
            r = M.run_case(sb, c)
            after = M.snap_all(c)
            changed = before['whole_dst'] != after['whole_dst']
            run.case(('l4', i, c.placement, tuple(c.args[2:4])), r['rc'] == 0 and changed,
                     sample=dict(layer='L4', **M.describe(c), rc=r['rc'], entries=len(before['src'])) if i % 12 == 0 else None)
            run.count(f'l4:{c.placement}:rc={r["rc"]}'); run.count(f'l4:src={c.src_kind},dest={c.dst_kind}{"/" if c.dst_slash else ""}'); run.count('l4:filters=' + str(len(c.filters)))
            run.cov['traces_validated_against_impl'] += 1
            if r['rc'] == 0:
                diffs = M.mirror_diffs(before['src'], before['dst'], after['dst'], c.filters)
                # nothing but the effective destination may change below the destination's parent
                eff_rel = os.path.relpath(c.effective, os.path.join(c.base, 'dd')).encode()
                for p in set(before['whole_dst']) | set(after['whole_dst']):
                    inside = p == b'' or p == eff_rel or p.startswith(eff_rel + b'/') or eff_rel.startswith(p + b'/')
                    if not inside and before['whole_dst'].get(p) != after['whole_dst'].get(p):
                        diffs.append(f'{p!r} outside the effective destination changed')
                if diffs and len(fails) < 3:
                    fails.append(dict(layer='L4', **M.describe(c), rc=r['rc'], differences=diffs[:8], src_tree=M.tree_listing(c.src_path), dest_tree_after=M.tree_listing(os.path.join(c.base, 'dd')),
                                      stderr=r['err'][-600:]))
            elif r['timeout'] or r['rc'] not in (12,):
                if len(fails) < 3:
                    fails.append(dict(layer='L4', **M.describe(c), rc=r['rc'], differences=['the run did not end with status 0 or 12'], stderr=r['err'][-800:]))
            shutil.rmtree(c.base, ignore_errors=True)
        # ---- forbidden combinations: rejected with both sides untouched
        base = os.path.join(sb.dir, 'forbidden'); os.makedirs(base); M.make_decoys(base)
        l3.make_tree(base + '/sf', [('', 'F', b'file', 10 ** 18)]); l3.make_tree(base + '/sl', [('', 'L', 'nowhere')]); l3.make_tree(base + '/sd', [('', 'D'), ('x', 'F', b'x', 10 ** 18)])
        l3.make_tree(base + '/df', [('', 'F', b'dest', 5)]); l3.make_tree(base + '/dl', [('', 'L', 'outside_file')]); l3.make_tree(base + '/dd', [('', 'D'), ('y', 'F', b'y', 7)])
        combos = [('missing', 'dd'), ('missing/', 'dd/'), ('missing', 'nothing'), ('sf/', 'dd'), ('sf/', 'dd/'), ('sf/', 'nothing'), ('sl/', 'dd/'), ('sf', 'df/'), ('sd', 'df/'), ('sd/', 'df/'), ('sl', 'df/'), ('sd/', 'dl/')]
        for s_, d_ in combos:
            for pl in (('', ''), ('localhost:', ''), ('', 'localhost:')) if thorough or s_ in ('sf/', 'missing') else (('', ''),):
                b0 = l3.snapshot(base)
                r = l4.run_cli([pl[0] + base + '/' + s_, pl[1] + base + '/' + d_] + M.FLAGS_NO_SKIP, env=sb.env({'RJRSSYNC_TEST_PROMPT_RESPONSE': ''}), timeout=60, cwd=base)
                b1 = l3.snapshot(base)
                run.case(('forbidden', s_, d_, pl), True, sample=dict(layer='L4', src=s_, dest=d_, placement=pl, rc=r['rc']) if pl == ('', '') else None)
                run.count(f'forbidden:rc={r["rc"]}')
                if s_ == 'sd/' and d_ == 'dl/':
                    continue      # (the starred column: a trailing slash on a link to a *file* is an OS-level error; either way nothing may change — checked below)
                if (r['rc'] == 0 or b0 != b1) and len(fails) < 3:
                    fails.append(dict(layer='L4', src=s_, dest=d_, placement=pl, rc=r['rc'], differences=['a forbidden trailing-slash combination was accepted' if r['rc'] == 0 else 'a rejected combination changed a side'],
                                      changed=[repr(p) for p in set(b0) | set(b1) if b0.get(p) != b1.get(p)][:6], stderr=r['err'][-400:]))
        # ---- a spec file with several syncs
        for j in range(4 if not thorough else 40):
            cs = [M.gen_case(rng, sb, 10_000 + j * 10 + k, root_leaf_prob=0.1) for k in range(rng.randint(2, 3))]
            sp = os.path.join(sb.dir, f'spec{j}.yaml')
            y = 'syncs:\n'
            for c in cs:
                import json as _json
                y += f'  - src: {_json.dumps(c.src_path + ("/" if c.src_slash else ""))}\n    dest: {_json.dumps(c.dst_path + ("/" if c.dst_slash else ""))}\n'
                if c.filters: y += '    filters: [ ' + ', '.join(_json.dumps(f) for f in c.filters) + ' ]\n'
                y += '    dest_file_newer_behaviour: overwrite\n    dest_file_older_behaviour: overwrite\n    dest_entry_needs_deleting_behaviour: delete\n    dest_root_needs_deleting_behaviour: delete\n'
            open(sp, 'w').write(y)
            befores = [M.snap_all(c) for c in cs]
            r = l4.run_cli(['--spec', sp, '--no-progress'], env=sb.env({'RJRSSYNC_TEST_PROMPT_RESPONSE': ''}), timeout=120, cwd=sb.dir)
            run.case(('spec', j), r['rc'] == 0, sample=dict(layer='L4', syncs=len(cs), rc=r['rc'])); run.count(f'spec:rc={r["rc"]}')
            if r['rc'] == 0:
                for c, b in zip(cs, befores):
                    a = M.snap_all(c)
                    diffs = M.mirror_diffs(b['src'], b['dst'], a['dst'], c.filters)
                    if diffs and len(fails) < 3:
                        fails.append(dict(layer='L4', spec=y.replace(sb.dir, '<base>'), **M.describe(c), rc=0, differences=diffs[:8]))
            for c in cs: shutil.rmtree(c.base, ignore_errors=True)
    finally:
        subprocess.run(['chmod', '-R', 'u+rwx', sb.dir], capture_output=True); sb.close()

    def on_broken(failed):
        return dict(found_by='L4 tree-pair stream with the independent mirror comparison', **fails[0]) if fails else None
    C.proofs_step(run, 'C01', on_broken)
    from . import trials as _trials; _trials.run_trials(run, 'C01')
    if fails and not any(not v[1] for v in run.violations):
        run.violation(dict(kind='oracle-failed-on-implementation', oracle='exit 0 without skips => the effective destination mirrors the source; excluded entries untouched; forbidden combinations change nothing',
                           failing_cases=len(fails), **fails[0]))
    run.cov['trusted_base'] = C.GLOBAL_TRUST + ['the mirror theorem C01_mirror_fs is about the file-system model (FS.lean) and the plan executor syncDest: tied to the code by the L3 doer-model stream (every call, with its error cases) and by the L4 sync-model stream (whole syncs: final tree of the CLI = final file system of syncDest, node for node); POSIX semantics beyond what these streams exercise is an assumption',
                                                'the composition boss model (string paths, chunked files, arrival orders) -> syncDest (component paths, one-part files, listing orders) is by bridge theorems (C01_plan_bridge, C01_exec_bridge, C01_exec_bridge_file, C13_closed_form, C11_dest_bytes), not one end-to-end theorem; filters are a visibility predicate in C01_mirror_filtered (both listings hold exactly the visible entries; a hidden entry beneath a folder that must go is excluded by hypothesis hsafe: that run fails, C07); the tie of vis to the compiled regex filters is C06/C17, not part of that theorem',
                                                'remote placements run against a fake ssh/scp on this host (real --doer process, real TCP and AES-GCM); Windows doers are not runnable here',
                                                'the independent filter evaluation uses Python re.fullmatch on patterns whose syntax coincides with the regex crate']
