"""L3 correspondence of the doer / file-system model (lean/RjModel/Model/{FS,Doer}.lean) with the real doer:
a generated world (a scratch directory holding the doer's root, decoys and links of every form) and a command
sequence are given to the model and — up to the first command the model does not cover — to the real
`doer_thread_running_on_boss` on a real copy of that world; responses and the final world are compared."""
import os, re, shutil, stat, time
from . import common as C, l3
from .common import X
from . import regexgen as G

MT = [0, 1, 999_999_999, 1_000_000_000, 9_223_372_036_854_775_808, 10_000_000_000_000_000_123, 1_600_000_000_123_456_789, 2 ** 33 * 10 ** 9 + 5, 4_000_000_000_987_654_321]
FILE_SIZES = [0, 1, 5, 31, 32, 33, 100, 4095, 4096, 4097, 4128, 8192, 12288, 12289, 12388]
NAMES = ['a', 'b', 'c', 'd.txt', 'é', 'sp ace', 'L', 'M', 'k', 'new\nline']


def link_texts(base):
    rel = ['a', './a', 'a//b', 'a/', 'nowhere', '.', '..', 'L', 'M', 'a\\b', '../b', 'a/./b/', './/x///y', 'b/../a', '../R/a', '../outside', '../outside/sub/', '../outside_file',
           'k', './k/', '../R', 'c/..', '../outside/loop', 'new\nline', 'tab\there', 'esc\x1b[0m', ' a', 'a ', 'qu"o\'te', 'a/\r/b']
    ab = [base + '/outside', base + '/outside/', base + '/outside_file', base + '/outside/sub/y', base + '//outside/./sub', '/nonexistent-rjv/x', base + '/R/a', base + '/nowhere']
    raw = [b'\xff\xfe', b'a/\xe9', b'/nonexistent-rjv/\xff', b'caf\xe9/x']
    return [t.encode() for t in rel + ab] + raw


class World:
    """nodes: list of (inworld path str, kind, ...) parent first.  kinds: ('D',) ('F', bytes, mtime|None) ('L', bytes) ('S',)"""
    def __init__(self, base):
        self.base = base
        self.nodes = []

    def add(self, *n):
        self.nodes.append(n)

    def paths(self, kind=None):
        return [n[0] for n in self.nodes if kind is None or n[1] == kind]

    def materialise(self):
        for n in self.nodes:
            p = os.path.join(self.base, n[0]).encode()
            if n[1] == 'D': os.makedirs(p, exist_ok=True)
            elif n[1] == 'F':
                with open(p, 'wb') as f: f.write(n[2])
                os.utime(p, ns=(n[3], n[3]))
            elif n[1] == 'L': os.symlink(n[2], p)
            elif n[1] == 'S': os.mkfifo(p)

    def tokens(self):
        t = [str(len(self.nodes))]
        for n in self.nodes:
            t.append(X(n[0]))
            if n[1] == 'D': t.append('D')
            elif n[1] == 'S': t.append('S')
            elif n[1] == 'F': t += ['F', str(n[3]), X(n[2])]
            elif n[1] == 'L': t += ['L', X(n[2])]
        return t


def gen_world(rng, base, root='R', special_ok=True):
    w = World(base)
    w.add('outside', 'D'); w.add('outside/x', 'F', b'decoy-x', 1_500_000_000_000_000_000); w.add('outside/sub', 'D')
    w.add('outside/sub/y', 'F', b'decoy-y', 1_500_000_000_000_000_000); w.add('outside/loop', 'L', b'.'); w.add('outside_file', 'F', b'decoy-file', 1_450_000_000_000_000_000)
    parts = root.split('/')
    r = rng.random()
    anc_present = len(parts) == 1 or r < 0.8
    if anc_present:
        for i in range(1, len(parts)):
            w.add('/'.join(parts[:i]), 'D')
    if not anc_present:
        return w
    r = rng.random()
    if r < 0.08:
        return w                                        # root absent
    if r < 0.14:
        w.add(root, 'F', l3.content(rng.random(), rng.choice(FILE_SIZES)), rng.choice(MT)); return w
    if r < 0.2:
        w.add(root, 'L', rng.choice([t for t in link_texts(base) if '/' in root or not t.startswith(b'..')])); return w
    w.add(root, 'D')
    dirs, made = [root], set()
    for _ in range(rng.randint(0, 12)):
        d = rng.choice(dirs)
        name = rng.choice(NAMES)
        p = d + '/' + name
        if p in made: continue
        made.add(p)
        k = rng.random()
        if k < 0.3:
            w.add(p, 'D'); dirs.append(p)
        elif k < 0.55:
            w.add(p, 'L', rng.choice(link_texts(base)))
        elif k < 0.58 and special_ok:
            w.add(p, 'S')
        else:
            mt = rng.choice(MT) if rng.random() < 0.97 else -5_000_000_000
            w.add(p, 'F', l3.content(rng.random(), rng.choice(FILE_SIZES)), mt)
    return w


def rel_of(root, p):
    return '' if p == root else p[len(root) + 1:]


def gen_target_tok(rng, base):
    t = rng.choice(link_texts(base))
    try:
        s = t.decode()
    except UnicodeDecodeError:
        return 'X' + t.hex()
    if rng.random() < 0.5 and not s.startswith('/') and '\\' not in s:
        # as a source doer would report it: normalised
        parts = [x for i, x in enumerate(s.split('/')) if x != '' and not (x == '.' and i > 0)]
        return 'N' + '/'.join(parts).encode().hex()
    return rng.choice(['N', 'X']) + t.hex()


def gen_cmds(rng, w, root, base):
    """(model tokens, harness tokens) of a command sequence: SetRoot first (mostly), then a mix of well-formed
    boss-like traffic and arbitrary commands on existing / missing / conflicting paths"""
    cmds = []      # list of (model toks, harness toks)
    def both(*t): cmds.append((list(t), list(t)))
    slash = '/' if rng.random() < 0.15 else ''
    if rng.random() < 0.97:
        cmds.append((['SR', X(root + slash)], ['SR', X(base + '/' + root + slash)]))
    under = [n for n in w.nodes if n[0] == root or n[0].startswith(root + '/')]
    rels = [rel_of(root, n[0]) for n in under]
    folders = [rel_of(root, n[0]) for n in under if n[1] == 'D'] or ['']
    def some_path():
        r = rng.random()
        if r < 0.45 and rels:
            return rng.choice(rels)
        d = rng.choice(folders) if r < 0.9 or not rels else rng.choice(rels)
        return (d + '/' if d else '') + rng.choice(NAMES + ['new1', 'new2'])
    filters = []
    if rng.random() < 0.3:
        words = sorted({x for p in rels for x in p.split('/') if x and '\n' not in x} | {'a'})
        filters = [(rng.choice('+-'), G.gen_re(rng, rng.randint(0, 2), words)) for _ in range(rng.randint(1, 2))]
    ftext = [s + G.render(a, 0, rng) for s, a in filters]
    n = rng.randint(1, 10)
    for _ in range(n):
        r = rng.random()
        if r < 0.12:
            cmds.append((['GE'], ['GE', str(len(ftext))] + [X(f) for f in ftext]))
        elif r < 0.16: both('CRA')
        elif r < 0.26: both('GFC', X(some_path()))
        elif r < 0.5:
            p = some_path()
            size = rng.choice([0, 1, 10, 100, 5000])
            k = rng.choice([1, 1, 2, 3])
            data = l3.content(rng.random(), size)
            same = [n for n in under if n[1] == 'F' and n[0] != root]
            if same and rng.random() < 0.2:
                # the bytes the destination already holds, under a new time (what a "touched" source file amounts to)
                n_ = rng.choice(same); p, data, size = rel_of(root, n_[0]), n_[2], len(n_[2])
            cuts = sorted(rng.randint(0, size) for _ in range(k - 1))
            pieces = [data[a:b] for a, b in zip([0] + cuts, cuts + [size])]
            for i, piece in enumerate(pieces):
                last = i == len(pieces) - 1
                more = (not last) if rng.random() < 0.93 else last
                mt = '-' if (more and rng.random() < 0.95) else str(rng.choice(MT))
                both('CUF', X(p), X(piece), mt, '1' if more else '0')
                if rng.random() < 0.12: both('MK')
                if rng.random() < 0.06: both('CUF', X(some_path()), X(b'zz'), str(rng.choice(MT)), '0')
        elif r < 0.53:
            # a transfer whose first part cannot be created, the obstacle going away before the later parts arrive (they are already on their
            # way in a real run): a missing folder that is then created, a folder in the way that is then removed
            d = rng.choice(folders)
            nm = rng.choice(['late1', 'late2'])
            mt = str(rng.choice([m_ for m_ in MT if 0 < m_ < 2 ** 33 * 10 ** 9]))
            parts = [l3.content(rng.random(), rng.choice([1, 100, 4096])) for _ in range(rng.choice([2, 3]))]
            if rng.random() < 0.5:
                p = (d + '/' if d else '') + nm + '/f'
                both('CUF', X(p), X(parts[0]), '-', '1')
                both('CF', X((d + '/' if d else '') + nm))
            else:
                p = (d + '/' if d else '') + nm
                both('CF', X(p))
                both('CUF', X(p), X(parts[0]), '-', '1')
                both('DD', X(p))
            for i, part in enumerate(parts[1:]):
                last = i == len(parts) - 2
                if rng.random() < 0.2: both('MK')
                both('CUF', X(p), X(part), mt if last else '-', '0' if last else '1')
        elif r < 0.6: both('CF', X(some_path()))
        elif r < 0.72: both('CS', X(some_path()), rng.choice('FDU'), gen_target_tok(rng, base))
        elif r < 0.82: both('DF', X(some_path()))
        elif r < 0.92: both('DD', X(some_path()))
        else: both('DS', X(some_path()), rng.choice('FDU'))
    return cmds, filters, ftext


def snapshot_world(base, t0_ns, t1_ns=None):
    t1_ns = t1_ns or time.time_ns() + 2_000_000_000
    out = {}
    def rec(p, rel):
        st = os.lstat(p)
        if stat.S_ISLNK(st.st_mode): out[rel] = 'L:' + os.readlink(p).hex()
        elif stat.S_ISDIR(st.st_mode):
            if rel: out[rel] = 'D'
            for n in sorted(os.listdir(p)):
                rec(os.path.join(p, n), (rel + b'/' + n) if rel else n)
        elif stat.S_ISREG(st.st_mode):
            mt = 'fresh' if t0_ns <= st.st_mtime_ns <= t1_ns else str(st.st_mtime_ns)
            with open(p, 'rb') as f: out[rel] = f'F:{mt}:{f.read().hex()}'
        else: out[rel] = 'S'
    rec(os.fsencode(base), b'')
    return ';'.join(sorted(k.hex() + '=' + v for k, v in out.items()))


def canon_impl(resp, t0_ns):
    """the harness's response list in the model's canonical form"""
    out, run_entries = [], []
    def flush(err=None):
        nonlocal run_entries
        if run_entries or err:
            pass
    items = []
    for r in resp:
        def fix(m):
            return 'F:-1:' if t0_ns <= int(m.group(1)) <= time.time_ns() + 2_000_000_000 else m.group(0)
        r = re.sub(r'F:(\d+):', fix, r)
        m = re.match(r'FileContent\((\d+),([0-9a-f]{8}),([01])\)', r)
        if m:
            r = f'FileContent({m.group(1)},{m.group(3)})'
        items.append(r)
    # sort runs of Entry(...)
    res, cur = [], []
    for r in items:
        if r.startswith('Entry('):
            cur.append(r)
        else:
            res += sorted(cur); cur = []
            res.append(r)
    res += sorted(cur)
    return res


def match_streams(model_items, impl_items):
    """model items may contain EntriesErr(classes|entries): the implementation then shows a subset of those entries
    followed by one Error of one of these classes"""
    i = 0
    for m in model_items:
        mm = re.match(r'EntriesErr\(([^|]*)\|(.*)\)$', m)
        if mm:
            classes = set(mm.group(1).split(','))
            allowed = set(mm.group(2).split('&')) if mm.group(2) else set()
            while i < len(impl_items) and impl_items[i].startswith('Entry('):
                if impl_items[i] not in allowed:
                    return f'listing before the error holds {impl_items[i]}, which the model does not list'
                i += 1
            if i >= len(impl_items) or not re.match(r'Error\((\w+)\)', impl_items[i]) or re.match(r'Error\((\w+)\)', impl_items[i]).group(1) not in classes:
                return f'model: listing ends with an error of {sorted(classes)}; implementation: {impl_items[i] if i < len(impl_items) else "nothing"}'
            i += 1
            continue
        if i >= len(impl_items) or impl_items[i] != m:
            return f'response {i}: model {m}, implementation {impl_items[i] if i < len(impl_items) else "nothing"}'
        i += 1
    if i != len(impl_items):
        return f'implementation sent more: {impl_items[i]}'
    return None


def run_cases(rng, n, scratch, label='fsx'):
    """returns list of dicts(case, model, impl, problem)"""
    cases = []
    for i in range(n):
        base = os.path.join(scratch, f'w{i}')
        root = rng.choice(['R', 'R', 'R', 'deep/er/R'])
        w = gen_world(rng, base, root)
        cmds, filters, ftext = gen_cmds(rng, w, root, base)
        mt = ['doer', X(base)] + w.tokens() + [str(len(filters))]
        for s, a in filters:
            mt += [s] + G.tokens(a)
        mt += [str(len(cmds))]
        for m, _ in cmds:
            mt += m
        cases.append(dict(i=i, base=base, world=w, cmds=cmds, mline=' '.join(mt), root=root, filters=ftext))
    model = C.run_model([c['mline'] for c in cases])
    hlines, t0s = [], []
    for c, m in zip(cases, model):
        c['model'] = m
        mm = re.match(r'resp=\[(.*)\] fs=\[(.*)\] done=(\d+) stop=(\S+)$', m, re.S)
        if not mm:
            c['problem'] = 'model answer not understood: ' + m[:200]; hlines.append(None); continue
        c['m_resp'] = [x for x in mm.group(1).split(';') if x]
        c['m_fs'], c['done'], c['stop'] = mm.group(2), int(mm.group(3)), mm.group(4)
        os.makedirs(c['base'])
        c['world'].materialise()
        pre = [h for _, h in c['cmds'][:c['done']]]
        hlines.append(l3.l3_line(pre, 20000))
    t0 = time.time_ns() - 2_000_000_000
    todo = [(c, h) for c, h in zip(cases, hlines) if h is not None]
    ans = C.run_harness([h for _, h in todo], timeout=600)
    for (c, h), (a, _) in zip(todo, ans):
        c['impl'] = a
        try:
            resp, status = l3.parse_resp(a)
        except ValueError:
            c['problem'] = 'harness: ' + a[:300]; continue
        if status:
            c['problem'] = f'doer status {status!r}: {a[:300]}'; continue
        impl_items = canon_impl(resp, t0)
        c['i_resp'] = impl_items
        snap = snapshot_world(c['base'], t0)
        c['i_fs'] = snap          # (also when the responses differ from the model's: the model-independent oracles judge the world that was left)
        pr = match_streams(c['m_resp'], impl_items)
        if pr:
            c['problem'] = pr; continue
        if snap != c['m_fs']:
            ms, is_ = set(c['m_fs'].split(';')), set(snap.split(';'))
            c['problem'] = f'final world differs: only model {sorted(ms - is_)[:3]}, only implementation {sorted(is_ - ms)[:3]}'
    for c in cases:
        shutil.rmtree(c['base'], ignore_errors=True)
    return cases


def oracle_received_bytes(c):
    """model-independent (C11/C08): a file received completely — its parts sent one after the other with nothing but progress
    markers in between, none answered with an error — and not touched afterwards holds exactly the concatenation of its parts
    and carries the time sent with its last part.  Judged on the world the real doer left behind."""
    if c.get('problem', '') and not c.get('i_fs'):
        return None
    if any(r.startswith('Error(') and not r.startswith(tuple('Error(' + k for k in ('DeleteFile', 'DeleteFolder', 'DeleteSymlink', 'CreateFolder', 'CreateSymlink', 'Ancestors', 'Walk', 'Metadata', 'UnknownType', 'ReadLink', 'SymlinkKind', 'RootRead', 'Read)'))) for r in c.get('i_resp', [])):
        return None          # a part was refused (or a part arrived for another file than the one in progress): what then holds is C07/C08's business
    if not c['cmds'] or c['cmds'][0][0][0] != 'SR' or 'i_fs' not in c:
        return None
    root = bytes.fromhex(c['cmds'][0][0][1][1:]).decode(errors='surrogateescape').rstrip('/')
    snap = dict(e.split('=', 1) for e in c['i_fs'].split(';') if '=' in e)
    cur, acc, clean, expect = None, b'', False, {}
    for m, _ in c['cmds'][1:c['done']]:
        if m[0] == 'MK':
            continue
        if m[0] == 'SR':
            return None
        if m[0] != 'CUF':
            # any other command: the file in progress (it stays in progress: only its last part closes it) is no longer judged,
            # and a path the command names is no longer expected
            clean = False
            for t in m[1:2]:
                if t.startswith('x'):
                    q = bytes.fromhex(t[1:])
                    for k in [k for k in expect if k == q or k.startswith(q + b'/') or q.startswith(k + b'/')]:
                        expect.pop(k)
            continue
        q, data, mt, more = bytes.fromhex(m[1][1:]), bytes.fromhex(m[2][1:]), m[3], m[4] == '1'
        for k in [k for k in expect if k == q or k.startswith(q + b'/') or q.startswith(k + b'/')]:
            expect.pop(k)
        if cur == q:
            acc += data                           # (clean or not: it continues the file in progress)
        elif cur is not None:
            cur, acc, clean = q, data, False      # a part for another file while one is in progress: not what a boss sends
        else:
            cur, acc, clean = q, data, True
        if not more:
            if clean and q != b'':
                expect[q] = (acc, mt)
            cur, clean = None, False
    for q, (acc, mt) in expect.items():
        key = os.path.normpath(root + '/' + q.decode(errors='surrogateescape')).encode(errors='surrogateescape').hex()
        v = snap.get(key)
        if v is None or not v.startswith('F:'):
            continue
        _, got_mt, got = v.split(':', 2)
        if got == acc.hex() and mt != '-' and 0 <= int(mt) <= 2 ** 33 * 10 ** 9 and got_mt != mt:
            return f'file {q!r} was sent completely with the modification time {mt} on its last part, but carries {got_mt}'
        if got != acc.hex():
            return f'file {q!r} was sent completely ({len(acc)} bytes, progress markers between its parts at most) but holds {len(got) // 2} bytes: {got[:60]} instead of {acc.hex()[:60]}'
    return None


def oracle_no_stamped_garbage(c):
    """model-independent (C08): a destination file that carries the time sent with the last part of a transfer holds the bytes of the *whole*
    transfer - all its parts since the first, also those that were refused.  (A file that held that very time before is not judged.)"""
    if 'i_fs' not in c or not c['cmds'] or c['cmds'][0][0][0] != 'SR':
        return None
    if any(r.startswith('Error(Continued') for r in c.get('i_resp', [])):
        return None          # the generated sequence sent a part for another file than the one in progress: not a transfer a boss makes
    root = bytes.fromhex(c['cmds'][0][0][1][1:]).decode(errors='surrogateescape').rstrip('/')
    snap = dict(e.split('=', 1) for e in c['i_fs'].split(';') if '=' in e)
    before = {n[0]: n for n in c['world'].nodes}
    seq, claim = {}, {}
    for m, _ in c['cmds'][1:c['done']]:
        if m[0] == 'SR':
            return None
        if m[0] != 'CUF':
            continue
        q, data, mt, more = bytes.fromhex(m[1][1:]), bytes.fromhex(m[2][1:]), m[3], m[4] == '1'
        claim.pop(q, None)
        seq[q] = seq.get(q, b'') + data
        if not more:
            if mt != '-' and q != b'':
                claim[q] = (mt, seq[q])
            seq.pop(q, None)
    for q, (mt, allb) in claim.items():
        rel = os.path.normpath(root + '/' + q.decode(errors='surrogateescape'))
        v = snap.get(rel.encode(errors='surrogateescape').hex())
        if v is None or not v.startswith('F:'):
            continue
        _, got_mt, got = v.split(':', 2)
        old = before.get(rel)
        if old is not None and old[1] == 'F' and str(old[3]) == mt:
            continue
        if got_mt == mt and 0 <= int(mt) <= 2 ** 33 * 10 ** 9 and got != allb.hex():
            return (f'file {q!r} carries the time {mt} that was sent with the last part of a transfer of {len(allb)} bytes, but holds {len(got) // 2} bytes '
                    f'({got[:40]}... instead of {allb.hex()[:40]}...): a later run takes it for up to date')
    return None


def oracle_effect_or_error(c):
    """model-independent (C07): a CreateFolder / CreateSymlink / DeleteFile / DeleteFolder / DeleteSymlink whose effect is not there in the end
    (and whose path no later command touches) was answered with an error: per kind, at least as many error responses as such commands"""
    if 'i_fs' not in c or not c['cmds'] or c['cmds'][0][0][0] != 'SR':
        return None
    cmds = c['cmds'][1:c['done']]
    if any(m[0] == 'SR' for m, _ in cmds):
        return None
    root = bytes.fromhex(c['cmds'][0][0][1][1:]).decode(errors='surrogateescape').rstrip('/')
    snap = dict(e.split('=', 1) for e in c['i_fs'].split(';') if '=' in e)
    def key(rel):
        return rel.encode(errors='surrogateescape').hex()
    def related(a, b):
        return a == b or a.startswith(b + b'/') or b.startswith(a + b'/')
    paths = [bytes.fromhex(m[1][1:]) if len(m) > 1 and m[1].startswith('x') else None for m, _ in cmds]
    need, examples = {}, {}
    for i, (m, _) in enumerate(cmds):
        if m[0] not in ('CF', 'CS', 'DF', 'DD', 'DS') or not paths[i]:
            continue
        q = paths[i]
        if any(pj is not None and related(q, pj) for pj in paths[i + 1:]) or any(mj[0] == 'CRA' for mj, _ in cmds[i + 1:]):
            continue
        rel = os.path.normpath(root + '/' + q.decode(errors='surrogateescape'))
        comps = rel.split('/')
        anc = [snap.get(key('/'.join(comps[:k]))) for k in range(1, len(comps))]
        if any(a is not None and a != 'D' for a in anc):
            continue              # reached through something that is not a real folder in the end: not judged here
        final = snap.get(key(rel)) if all(a == 'D' for a in anc) else None
        effect = {'CF': final == 'D', 'CS': final is not None and final.startswith('L:'), 'DF': final is None, 'DD': final is None, 'DS': final is None}[m[0]]
        if not effect:
            grp = 'links' if m[0] in ('CS', 'DS') else m[0]
            need[grp] = need.get(grp, 0) + 1
            examples.setdefault(grp, (' '.join(m), final))
    resp = c.get('i_resp', [])
    have = {'CF': sum(r.startswith('Error(CreateFolder') for r in resp), 'DF': sum(r.startswith('Error(DeleteFile') for r in resp), 'DD': sum(r.startswith('Error(DeleteFolder') for r in resp),
            'links': sum(r.startswith(('Error(CreateSymlink', 'Error(DeleteSymlink', 'Error(SymlinkKind')) for r in resp)}
    for grp, n in need.items():
        if have[grp] < n:
            cmd, final = examples[grp]
            return (f'{n} command(s) of kind {grp} left no effect (e.g. "{cmd}": the path holds {final if final is None else final[:40]} in the end and nothing touched it afterwards) '
                    f'but only {have[grp]} error response(s) of that kind came back: a failure was not reported')
    return None


def describe(c):
    return dict(root=c['root'], world=[(n[0], n[1]) + tuple((x.hex() if isinstance(x, bytes) and len(x) <= 40 else (f'<{len(x)} bytes>' if isinstance(x, bytes) else x)) for x in n[2:]) for n in c['world'].nodes],
                commands=[' '.join(m) for m, _ in c['cmds']], filters=c['filters'], model=c.get('model', '')[:1500], impl=c.get('impl', '')[:1500], problem=c.get('problem'))
