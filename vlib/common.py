"""Shared machinery of the check driver: builds (Lean, harness, CLI), proof-obligation accounting,
axiom audit, model/harness batch execution, evidence and replay files, VIOLATION protocol."""
import fcntl, hashlib, json, os, random, re, shutil, subprocess, sys, tempfile, time

V = os.path.dirname(os.path.dirname(os.path.abspath(__file__)))
REPO = os.environ.get('VERIF_REPO', '/repo')
LEAN = os.path.join(V, 'lean')
CACHE = os.path.join(V, '.cache')
HARNESS_BIN = os.path.join(CACHE, 'harness', 'debug', 'rjverif_harness')
CLI_BIN = os.path.join(CACHE, 'cli', 'debug', 'rjrssync')
DRIVER_BIN = os.path.join(LEAN, '.lake', 'build', 'bin', 'rjdriver')
ALLOWED_AXIOMS = {'propext', 'Classical.choice', 'Quot.sound'}
ENV = dict(os.environ, CARGO_NET_OFFLINE='true', RUST_BACKTRACE='0')
for k in ('RUST_LOG', 'CLICOLOR_FORCE', 'RJRSSYNC_TEST_PROMPT_RESPONSE'):
    ENV.pop(k, None)

os.makedirs(CACHE, exist_ok=True)


def log(*a):
    print(*a, file=sys.stderr, flush=True)


class Lock:
    """Serialises builds so that several checks may be started at once."""
    def __init__(self, name='build'):
        self.path = os.path.join(CACHE, name + '.lock')
    def __enter__(self):
        self.f = open(self.path, 'w')
        fcntl.flock(self.f, fcntl.LOCK_EX)
        return self
    def __exit__(self, *a):
        fcntl.flock(self.f, fcntl.LOCK_UN)
        self.f.close()


def sh(cmd, cwd=None, env=None, input=None, timeout=None, check=False):
    p = subprocess.run(cmd, cwd=cwd, env=env or ENV, input=input, capture_output=True, text=True, timeout=timeout)
    if check and p.returncode != 0:
        raise RuntimeError(f"command failed: {cmd}\n{p.stdout}\n{p.stderr}")
    return p


# ------------------------------------------------------------------ builds

def run_extractors():
    """Tie A: regenerate RjModel/Generated/*.lean from /repo's working tree.  Returns a dict with
    per-extractor status; an extractor that no longer recognises a shape reports it there."""
    p = sh([sys.executable, os.path.join(V, 'extract', 'extract.py')])
    try:
        status = json.loads(p.stdout.strip().splitlines()[-1]) if p.stdout.strip() else {}
    except Exception:
        status = {}
    if p.returncode != 0:
        status['_fatal'] = (p.stdout + p.stderr)[-2000:]
    return status


def lake_build(targets):
    p = sh(['lake', 'build'] + list(targets), cwd=LEAN)
    return p.returncode == 0, p.stdout + p.stderr


def build_harness():
    sh([sys.executable, os.path.join(V, 'tools', 'gen_harness.py')], check=True)
    p = sh(['cargo', 'build', '--offline', '--target-dir', os.path.join(CACHE, 'harness')], cwd=os.path.join(V, 'harness'))
    if p.returncode != 0 and os.path.exists(HARNESS_BIN):
        os.unlink(HARNESS_BIN)          # never answer from a binary built from another tree
    return p.returncode == 0, p.stdout + p.stderr


def build_cli():
    """The CLI binary a user would run, from /repo's own manifest, hooks enabled."""
    env = dict(ENV, RUSTFLAGS='--cfg rjrssync_verif')
    p = sh(['cargo', 'build', '--offline', '--bin', 'rjrssync', '--target-dir', os.path.join(CACHE, 'cli')], cwd=REPO, env=env)
    return p.returncode == 0, p.stdout + p.stderr


# ------------------------------------------------------------------ proof obligations

def strip_lean_comments(src):
    out, i, depth = [], 0, 0
    while i < len(src):
        if src.startswith('/-', i):
            depth += 1; i += 2; continue
        if depth and src.startswith('-/', i):
            depth -= 1; i += 2; continue
        if depth:
            i += 1; continue
        if src.startswith('--', i):
            j = src.find('\n', i)
            i = len(src) if j < 0 else j
            continue
        out.append(src[i]); i += 1
    return ''.join(out)


FORBIDDEN = re.compile(r'\bsorry\b|\badmit\b|^\s*axiom\s|native_decide|bv_decide|implemented_by|\bunsafe\s|maxHeartbeats\s+0|@\[extern', re.M)


def forbidden_tokens():
    hits = []
    for root, _, files in os.walk(os.path.join(LEAN, 'RjModel')):
        for f in files:
            if f.endswith('.lean'):
                src = strip_lean_comments(open(os.path.join(root, f)).read())
                for m in FORBIDDEN.finditer(src):
                    hits.append(f"{f}: {m.group(0).strip()}")
    return hits


def theorems_in(module_file):
    src = strip_lean_comments(open(module_file).read())
    ns = re.findall(r'^namespace\s+(\S+)', src, re.M)
    prefix = (ns[0] + '.') if ns else ''
    return [prefix + n for n in re.findall(r'^theorem\s+([A-Za-z0-9_.\']+)', src, re.M)]


def check_proofs(prop):
    """Builds RjModel.Props.<prop>, audits axioms of every theorem in it.
    Returns dict(obligations, discharged, failed:[(name, reason)], theorems:[...], output)."""
    mod = f'RjModel.Props.{prop}'
    path = os.path.join(LEAN, 'RjModel', 'Props', f'{prop}.lean')
    thms = theorems_in(path)
    ok, out = lake_build([mod, 'rjdriver'])
    res = dict(obligations=len(thms), discharged=0, failed=[], theorems=thms, output=out[-6000:])
    if not ok:
        # which theorems fail?  every error line names a file:line; map to the enclosing theorem
        errs = re.findall(r'error: ([^\n]*?\.lean):(\d+):(\d+): ([^\n]*)', out)
        names = set()
        for f, ln, _, msg in errs:
            names.add(f"{os.path.basename(f)}:{ln}: {msg[:200]}")
        res['failed'] = [(n, 'does not check') for n in sorted(names)] or [('lake build', out[-1500:])]
        return res
    # axiom audit
    audit = f'import {mod}\n' + ''.join(f'#print axioms {t}\n' for t in thms)
    fd, tmp = tempfile.mkstemp(suffix='.lean', dir=CACHE); os.write(fd, audit.encode()); os.close(fd)
    p = sh(['lake', 'env', 'lean', tmp], cwd=LEAN)
    os.unlink(tmp)
    text = p.stdout + p.stderr
    blocks = re.findall(r"'([^']+)' (depends on axioms: \[([^\]]*)\]|does not depend on any axioms)", text)
    seen = {}
    for name, _, axs in blocks:
        seen[name] = [a.strip() for a in axs.replace('\n', ' ').split(',') if a.strip()]
    for t in thms:
        if t not in seen:
            res['failed'].append((t, 'no axiom report: ' + text[-300:]))
        elif set(seen[t]) - ALLOWED_AXIOMS:
            res['failed'].append((t, 'axioms ' + ','.join(sorted(set(seen[t]) - ALLOWED_AXIOMS))))
        else:
            res['discharged'] += 1
    res['axioms'] = seen
    bad = forbidden_tokens()
    if bad:
        res['failed'].append(('forbidden-token', '; '.join(bad[:10])))
    return res


# ------------------------------------------------------------------ running model and harness

def run_model(lines, timeout=600):
    p = subprocess.run([DRIVER_BIN], input='\n'.join(lines) + '\n', capture_output=True, text=True, timeout=timeout)
    out = p.stdout.split('\n')
    if out and out[-1] == '':
        out.pop()
    if len(out) != len(lines):
        raise RuntimeError(f'model driver answered {len(out)} lines for {len(lines)} requests; stderr={p.stderr[-500:]}')
    return out


def run_harness(lines, timeout=900, env=None, stdin_data=None):
    """Returns list of (answer, extra_lines_printed_before_it).  A harness process that dies or hangs on a
    request (abort, allocation failure, watchdog) is restarted for the remaining requests."""
    if not os.path.exists(HARNESS_BIN):
        return [('HARNESS-UNAVAILABLE', [])] * len(lines)
    res = []
    todo = list(lines)
    restarts = 0
    while todo:
        p = subprocess.run([HARNESS_BIN, '--verif'], input='\n'.join(todo) + '\n', capture_output=True, text=True,
                           timeout=timeout, env=env or ENV, errors='replace')
        got, extra = [], []
        for l in p.stdout.split('\n'):
            if l.startswith('@@ '):
                got.append((l[3:], extra)); extra = []
            elif l:
                extra.append(l)
        res += got
        if len(got) >= len(todo):
            break
        # the request after the last answered one killed the harness (unless the last answer itself says HANG)
        if not (got and got[-1][0].endswith(' HANG') and p.returncode == 3):
            res.append((f'HARNESS-DIED rc={p.returncode} stderr={p.stderr[-300:]!r}', extra))
            todo = todo[len(got) + 1:]
        else:
            todo = todo[len(got):]
        restarts += 1
        if restarts > 20:
            res += [('HARNESS-DIED (too many restarts)', [])] * len(todo)
            break
    return res[:len(lines)] + [('HARNESS-DIED', [])] * max(0, len(lines) - len(res))


def X(s):
    """protocol string token"""
    if isinstance(s, str):
        s = s.encode()
    return 'x' + s.hex()


def unX(t):
    return bytes.fromhex(t[1:])


# ------------------------------------------------------------------ evidence / violations

class Run:
    def __init__(self, prop, tier, seed):
        self.prop, self.tier, self.seed = prop, tier, seed
        self.t0 = time.time()
        self.rng = random.Random(seed * 1000003 + int(hashlib.sha1(prop.encode()).hexdigest()[:6], 16))
        self.violations = []      # (replay_path, note)
        self.known = []           # KNOWN-FINDING lines
        self.cov = dict(evaluations=0, distinct_nontrivial=0, rule='', samples=[], obligations=0, discharged=0,
                        checker_cmd='', trusted_base=[], traces_validated_against_impl=0, disagreements_checked=0,
                        distribution={})
        self.assumptions = []
        self._distinct = set()

    def count(self, key, n=1):
        d = self.cov['distribution']
        d[key] = d.get(key, 0) + n

    def case(self, sig, nontrivial, sample=None):
        self.cov['evaluations'] += 1
        if nontrivial:
            h = hashlib.sha1(repr(sig).encode()).hexdigest()
            if h not in self._distinct:
                self._distinct.add(h)
                self.cov['distinct_nontrivial'] += 1
        if sample is not None and len(self.cov['samples']) < 6:
            self.cov['samples'].append(sample)

    def replay_path(self, obj):
        os.makedirs(os.path.join(V, 'replays'), exist_ok=True)
        body = json.dumps(obj, indent=1, sort_keys=True, default=str)
        h = hashlib.sha1(body.encode()).hexdigest()[:10]
        path = os.path.join(V, 'replays', f'{self.prop}-{h}.json')
        open(path, 'w').write(body)
        return path

    def violation(self, obj, no_input=False):
        if not no_input and 'HARNESS-UNAVAILABLE' in json.dumps(obj, default=str):
            # the in-process harness does not build against this tree: this is not an input on which the implementation fails
            obj = dict(obj, kind='tie-not-evaluable', was=obj.get('kind')); no_input = True
        obj = dict(obj, property=self.prop, seed=self.seed, tier=self.tier)
        path = self.replay_path(obj)
        self.violations.append((path, no_input))
        return path

    def finish(self, level='proof'):
        kf = load_known()
        wall = time.time() - self.t0
        ev = dict(property_id=self.prop, tier=self.tier, seed=self.seed, level=level, coverage=self.cov,
                  assumptions=self.assumptions, wall_s=round(wall, 2), violations=len(self.violations))
        os.makedirs(os.path.join(V, 'evidence'), exist_ok=True)
        with open(os.path.join(V, 'evidence', f'{self.prop}.json'), 'w') as f:
            json.dump(ev, f, indent=1, sort_keys=True, default=str)
        for line in self.known:
            print(f'KNOWN-FINDING: property={self.prop} {line}')
        # violations with a concrete failing input come first; when there is one, the
        # "no-failing-input-found" reports (broken obligation / correspondence) are subsumed by it
        with_input = [v for v in self.violations if not v[1]]
        shown = with_input[:3] if with_input else self.violations[:3]
        for path, no_input in shown:
            print(f'VIOLATION property={self.prop} replay={path}' + (' no-failing-input-found' if no_input else ''))
        sys.stdout.flush()
        return 1 if self.violations else 0


def load_known():
    p = os.path.join(V, 'known_findings.json')
    if os.path.exists(p):
        return json.load(open(p))
    return {'open': [], 'fixed': []}


def proofs_step(run, prop, on_broken=None):
    """Standard step 2 of a check: proof obligations + audit.  `on_broken(failed)` is the search for a
    concrete failing input; it returns a replay object or None."""
    res = check_proofs(prop)
    run.cov['obligations'] += res['obligations']
    run.cov['discharged'] += res['discharged']
    run.cov['checker_cmd'] = f'lake build RjModel.Props.{prop} && lake env lean <#print axioms of every theorem>'
    run.cov['theorems'] = res['theorems']
    if res['failed']:
        found = on_broken(res['failed']) if on_broken else None
        if found:
            run.violation(dict(kind='proof-obligation-broken-with-input', failed=res['failed'], **found))
        else:
            run.violation(dict(kind='proof-obligation-broken', failed=res['failed'], lean_output=res['output'][-3000:],
                               note='no concrete failing input was found by the search'), no_input=True)
    return res


GLOBAL_TRUST = [
    "Lean 4.33.0 kernel; axioms limited to propext, Classical.choice, Quot.sound (audited per theorem on every run); no native_decide/bv_decide/sorry",
    "the hand-written Lean model is tied to /repo by differential execution (this run's correspondence counts) and by constants/skeletons extracted from the source text on every run",
    "check driver (Python), extractors and Rust harness glue are trusted to report faithfully; the harness compiles /repo/src/*.rs from the working tree in-process",
]
