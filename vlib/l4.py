"""L4: the CLI binary built from /repo, end to end; local and fake-remote placement."""
import os, shutil, stat, subprocess, tempfile, time
from . import common as C

FAKE_SSH = r'''#!/bin/bash
# fake ssh: runs the remote command locally (as a login shell would: bash), with /var/tmp redirected
# into the scratch "remote" directory; logs every invocation.
host="$1"; shift
cmd="$1"
# (with FAKE_PER_HOST every host name has its own remote file system)
if [ -n "$FAKE_PER_HOST" ]; then FAKE_REMOTE_ROOT="$FAKE_REMOTE_ROOT-$host"; mkdir -p "$FAKE_REMOTE_ROOT"; fi
cmd="${cmd//\/var\/tmp/$FAKE_REMOTE_ROOT}"
# (with FAKE_UNAME_MAP="host=arch ..." each host claims its own architecture)
if [ -n "$FAKE_UNAME_MAP" ]; then unset FAKE_UNAME; for kv in $FAKE_UNAME_MAP; do if [ "${kv%%=*}" = "$host" ]; then export FAKE_UNAME="${kv#*=}"; fi; done; fi
printf 'ssh\t%s\t%s\n' "$host" "$(printf '%s' "$1" | tr '\n' ' ')" >> "$FAKE_LOG"
if [ -n "$FAKE_RELAY_ORDER$FAKE_CUT$FAKE_KEY_LOG$FAKE_PAUSE$FAKE_BAD_PORT$FAKE_RECORD" ] && [[ "$cmd" == *--doer* ]]; then exec python3 "$(dirname "$0")/relay.py" "$cmd"; fi
exec /bin/bash -c "$cmd"
'''
RELAY = r'''#!/usr/bin/env python3
# relay <cmd>: runs the command (a doer) and forwards its stdout / stderr, holding the four handshake lines back so that they
# leave in the order given by $FAKE_RELAY_ORDER, e.g. "So,n,Se,Co,Ce" (S/C = started/completed line, o/e = stdout/stderr,
# n = an unrelated noise line on stderr, N = one on stdout); afterwards everything is passed through.
import os, subprocess, sys, threading, time, queue, socket, struct, re
order = (os.environ.get('FAKE_RELAY_ORDER') or 'So,Se,Co,Ce').split(',')
# $FAKE_CUT = "<d2b|b2d>:<offset>:<fin|rst>": the TCP link boss<->doer runs through a proxy that, after exactly <offset> bytes in that
# direction, ends the connection: fin = clean end-of-file towards the receiver (the other direction stays open), rst = abrupt reset
CUT = os.environ.get('FAKE_CUT')
# $FAKE_RECORD = "<prefix>": the TCP link runs through a proxy that passes everything on and appends what it saw to <prefix>.<pid>.b2d / .d2b
REC = os.environ.get('FAKE_RECORD')
proxy_port = None
def start_proxy(real_port):
    direction, offset, mode = (CUT or 'none:0:fin').split(':'); offset = int(offset)
    ls = socket.socket(); ls.bind(('127.0.0.1', 0)); ls.listen(1)
    def serve():
        a, _ = ls.accept()                          # the boss
        b = socket.create_connection(('127.0.0.1', real_port))   # the doer
        def cut(dst_sock):
            open(os.environ.get('FAKE_CUT_MARK', '/dev/null'), 'w').write('cut')
            if mode == 'fin':
                try: dst_sock.shutdown(socket.SHUT_WR)
                except OSError: pass
            else:
                for s_ in (a, b):
                    try: s_.setsockopt(socket.SOL_SOCKET, socket.SO_LINGER, struct.pack('ii', 1, 0)); s_.close()
                    except OSError: pass
        def pump(src_sock, dst_sock, counted, tag='x'):
            n = 0
            if counted and offset == 0: cut(dst_sock); return
            while True:
                try: data = src_sock.recv(65536)
                except OSError: break
                if REC and data:
                    with open('%s.%d.%s' % (REC, os.getpid(), tag), 'ab') as rf: rf.write(data)
                if not data:
                    try: dst_sock.shutdown(socket.SHUT_WR)
                    except OSError: pass
                    break
                if counted and n + len(data) >= offset:
                    try: dst_sock.sendall(data[:offset - n])
                    except OSError: pass
                    cut(dst_sock)
                    if mode == 'fin':
                        while True:                  # swallow the rest of this direction
                            try:
                                if not src_sock.recv(65536): break
                            except OSError: break
                    break
                try: dst_sock.sendall(data)
                except OSError: break
                n += len(data)
        threading.Thread(target=pump, args=(a, b, direction == 'b2d', 'b2d'), daemon=True).start()
        threading.Thread(target=pump, args=(b, a, direction == 'd2b', 'd2b'), daemon=True).start()
    threading.Thread(target=serve, daemon=True).start()
    return ls.getsockname()[1]
KEYLOG = os.environ.get('FAKE_KEY_LOG')
p = subprocess.Popen(['/bin/bash', '-c', sys.argv[1]], stdout=subprocess.PIPE, stderr=subprocess.PIPE, stdin=subprocess.PIPE if KEYLOG else None, start_new_session=bool(os.environ.get('FAKE_PAUSE')))
if KEYLOG:
    # what the boss writes to this doer's stdin: the first line is the session key; it is recorded and passed on
    def feed():
        first = True
        try:
            for line in iter(sys.stdin.buffer.readline, b''):
                if first:
                    with open(KEYLOG, 'ab') as f: f.write(line)
                    first = False
                    # $FAKE_LATE_NOISE = "<marker file>:<text>": once per marker (the first launch), after the key has arrived, the "ssh" prints
                    # this line on stderr - e.g. a shell complaint that only shows up late
                    ln = os.environ.get('FAKE_LATE_NOISE')
                    if ln:
                        mark, text = ln.split(':', 1)
                        if not os.path.exists(mark):
                            open(mark, 'w').write('x')
                            time.sleep(0.2)
                            sys.stderr.buffer.write(text.encode() + b'\n'); sys.stderr.buffer.flush()
                p.stdin.write(line); p.stdin.flush()
        except OSError:
            pass
        try: p.stdin.close()
        except OSError: pass
    threading.Thread(target=feed, daemon=True).start()
qs = {'o': queue.Queue(), 'e': queue.Queue()}
def reader(stream, k):
    for line in iter(stream.readline, b''):
        qs[k].put(line)
    qs[k].put(None)
threading.Thread(target=reader, args=(p.stdout, 'o'), daemon=True).start()
threading.Thread(target=reader, args=(p.stderr, 'e'), daemon=True).start()
outs = {'o': sys.stdout.buffer, 'e': sys.stderr.buffer}
def emit(k, line):
    outs[k].write(line); outs[k].flush(); time.sleep(0.06)
pending = {'o': [], 'e': []}
def next_line(k, want):
    # the next line of stream k that is a handshake line of the wanted kind (other lines pass through at once)
    while True:
        line = qs[k].get()
        if line is None:
            return None
        is_s = line.startswith(b'rjrssync doer v'); is_c = line.startswith(b'Waiting for incoming network connection on port ')
        if (want == 'S' and is_s) or (want == 'C' and is_c):
            return line
        emit(k, line)
# $FAKE_PAUSE = "<seconds>": the remote side freezes (SIGSTOP to the doer's process group: an unresponsive machine, a disk that spins up,
# a user who is slow to answer on the other side) just before its "waiting for connection" line is passed on - the doer sits in accept, the
# kernel completes the boss's connect, the boss's first command stays unanswered - and goes on after that many seconds (SIGCONT)
frozen = [False]
def freeze_once():
    if not os.environ.get('FAKE_PAUSE') or frozen[0]: return
    frozen[0] = True
    import signal
    try: os.killpg(p.pid, signal.SIGSTOP)
    except OSError: return
    open(os.environ.get('FAKE_PAUSE_MARK', '/dev/null'), 'w').write('stopped')
    def thaw():
        time.sleep(float(os.environ['FAKE_PAUSE']))
        try: os.killpg(p.pid, signal.SIGCONT)
        except OSError: pass
    threading.Thread(target=thaw, daemon=True).start()
for item in order:
    if item == 'n': emit('e', b"Warning: Permanently added 'localhost' (ED25519) to the list of known hosts.\n"); continue
    if item == 'N': emit('o', b'Last login: Sat Sep 26 12:00:00 2026 from 127.0.0.1\n'); continue
    line = next_line(item[1], item[0])
    if line is None: break
    if item[0] == 'C': freeze_once()
    if item[0] == 'C' and os.environ.get('FAKE_BAD_PORT'):
        # $FAKE_BAD_PORT: the port the doer announces cannot be reached from the boss (a firewall, a wrong --remote-port, an ssh alias that
        # leads elsewhere): the announced number is replaced by one nobody listens on; the doer itself goes on waiting
        line = re.sub(rb'(on port )\d+', rb'\g<1>1', line)
    if (CUT or REC) and item[0] == 'C':
        m = re.match(rb'(Waiting for incoming network connection on port )(\d+)', line)
        if m:
            if proxy_port is None: proxy_port = start_proxy(int(m.group(2)))
            line = m.group(1) + str(proxy_port).encode() + b'\n'
    emit(item[1], line)
def pump(k):
    while True:
        line = qs[k].get()
        if line is None: break
        outs[k].write(line); outs[k].flush()
t1 = threading.Thread(target=pump, args=('o',)); t2 = threading.Thread(target=pump, args=('e',)); t1.start(); t2.start()
rc = p.wait(); t1.join(); t2.join()
sys.exit(rc)
'''
FAKE_SCP = r'''#!/bin/bash
# fake scp -r <src> <host:/var/tmp>
printf 'scp\t%s\n' "$*" >> "$FAKE_LOG"
src="$2"
if [ -n "$FAKE_PER_HOST" ]; then h="${3%%:*}"; FAKE_REMOTE_ROOT="$FAKE_REMOTE_ROOT-$h"; fi
mkdir -p "$FAKE_REMOTE_ROOT"
# with FAKE_SCP_NOOP the upload "succeeds" without changing what ssh launches (a chroot'ed sftp, another machine behind the alias)
if [ -n "$FAKE_SCP_NOOP" ]; then exit 0; fi
exec cp -r "$src" "$FAKE_REMOTE_ROOT/"
'''


FAKE_UNAME = r'''#!/bin/bash
# fake uname for the "remote" side: with $FAKE_UNAME the remote claims to be another architecture
if [ -n "$FAKE_UNAME_LINE" ]; then echo "$FAKE_UNAME_LINE"; elif [ -n "$FAKE_UNAME" ]; then echo "Linux fakehost 5.10.0 #1 SMP $FAKE_UNAME GNU/Linux"; else exec /bin/uname "$@"; fi
'''


class Sandbox:
    """scratch directory with fake ssh/scp on PATH and a fake remote root"""
    def __init__(self):
        self.dir = tempfile.mkdtemp(prefix='rjv-l4-')
        self.bin = os.path.join(self.dir, 'bin'); os.makedirs(self.bin)
        self.remote = os.path.join(self.dir, 'remote'); os.makedirs(self.remote)
        self.log = os.path.join(self.dir, 'fake.log'); open(self.log, 'w').close()
        for name, body in (('ssh', FAKE_SSH), ('scp', FAKE_SCP), ('relay.py', RELAY), ('uname', FAKE_UNAME)):
            p = os.path.join(self.bin, name)
            open(p, 'w').write(body); os.chmod(p, 0o755)

    def env(self, extra=None):
        e = dict(C.ENV, PATH=self.bin + ':' + C.ENV.get('PATH', ''), FAKE_REMOTE_ROOT=self.remote, FAKE_LOG=self.log, TMPDIR=self.dir)
        if extra:
            e.update(extra)
        return e

    def fake_log(self):
        return [l.rstrip('\n').split('\t') for l in open(self.log)]

    def real_version(self):
        out = subprocess.run([C.CLI_BIN, '--doer'], stdin=subprocess.DEVNULL, capture_output=True, timeout=20).stdout.decode()
        line = out.splitlines()[0]
        assert line.startswith('rjrssync doer v'), line
        return line[len('rjrssync doer v'):]

    def place_remote(self, kind, version='0.0.1-other'):
        d = os.path.join(self.remote, 'rjrssync'); shutil.rmtree(d, ignore_errors=True)
        if kind == 'absent':
            return
        os.makedirs(d)
        p = os.path.join(d, 'rjrssync')
        if kind == 'same':
            shutil.copy(C.CLI_BIN, p)
        elif kind == 'other':
            assert "'" not in version
            open(p, 'w').write("#!/bin/bash\nprintf '%%s\\n' 'rjrssync doer v%s'\nprintf '%%s\\n' 'rjrssync doer v%s' >&2\n"
                               'cat > "%s/stdin-of-other-version.txt"\n' % (version, version, self.dir))
        elif kind == 'broken':
            open(p, 'w').write('#!/bin/bash\necho "segfault or whatever" >&2\nexit 3\n')
        os.chmod(p, 0o755)

    def close(self):
        shutil.rmtree(self.dir, ignore_errors=True)


def run_cli(args, env=None, timeout=60, cwd=None, preexec=None, stdin=subprocess.DEVNULL):
    t0 = time.time()
    try:
        p = subprocess.run([C.CLI_BIN] + args, env=env or C.ENV, capture_output=True, timeout=timeout, cwd=cwd, preexec_fn=preexec, stdin=stdin)
        return dict(rc=p.returncode, out=p.stdout.decode(errors='replace'), err=p.stderr.decode(errors='replace'), wall=time.time() - t0, timeout=False)
    except subprocess.TimeoutExpired as e:
        return dict(rc=None, out=(e.stdout or b'').decode(errors='replace'), err=(e.stderr or b'').decode(errors='replace'), wall=time.time() - t0, timeout=True)


_NOBODY = None


def nobody_can_run():
    """can uid 65534 execute the CLI binary (it cannot when /verif lives under a directory it may not traverse)?"""
    global _NOBODY
    if _NOBODY is None:
        def pre():
            os.setgroups([]); os.setgid(65534); os.setuid(65534)
        try:
            p = subprocess.run([C.CLI_BIN, '--version'], capture_output=True, timeout=30, preexec_fn=pre)
            _NOBODY = p.returncode == 0
        except Exception:
            _NOBODY = False
    return _NOBODY


FORCE_KEY_C = r"""
#define _GNU_SOURCE
#include <dlfcn.h>
#include <stdarg.h>
#include <stdlib.h>
#include <string.h>
#include <sys/syscall.h>
#include <sys/types.h>
#include <unistd.h>
/* LD_PRELOAD shim: 16-byte requests for OS randomness are answered with the bytes given as 32 hex digits in FORCE_KEY_HEX
   (the boss draws its 128-bit session key this way); everything else goes to the real implementation */
static int hexval(char c) { return c <= '9' ? c - '0' : (c | 32) - 'a' + 10; }
static int forced(void* buf, size_t len) {
    const char* hex = getenv("FORCE_KEY_HEX");
    if (!hex || !buf || len != 16 || strlen(hex) != 32) return 0;
    for (int i = 0; i < 16; ++i) ((unsigned char*)buf)[i] = (unsigned char)(hexval(hex[2*i]) * 16 + hexval(hex[2*i+1]));
    return 1;
}
long syscall(long n, ...) {
    static long (*real)(long, ...) = 0;
    if (!real) real = (long (*)(long, ...))dlsym(RTLD_NEXT, "syscall");
    long a[6]; va_list ap; va_start(ap, n);
    for (int i = 0; i < 6; ++i) a[i] = va_arg(ap, long);
    va_end(ap);
    if (n == SYS_getrandom && forced((void*)a[0], (size_t)a[1])) return 16;
    return real(n, a[0], a[1], a[2], a[3], a[4], a[5]);
}
ssize_t getrandom(void* buf, size_t len, unsigned int flags) {
    static ssize_t (*real)(void*, size_t, unsigned int) = 0;
    if (forced(buf, len)) return 16;
    if (!real) real = (ssize_t (*)(void*, size_t, unsigned int))dlsym(RTLD_NEXT, "getrandom");
    return real(buf, len, flags);
}
"""


def build_force_key_shim(dirname):
    """compiles the LD_PRELOAD shim; returns its path or None (no C compiler)"""
    src = os.path.join(dirname, 'forcekey.c'); so = os.path.join(dirname, 'forcekey.so')
    open(src, 'w').write(FORCE_KEY_C)
    for cc in ('cc', 'gcc', 'clang'):
        try:
            p = subprocess.run([cc, '-shared', '-fPIC', '-O1', '-o', so, src, '-ldl'], capture_output=True, timeout=120)
            if p.returncode == 0 and os.path.exists(so):
                return so
        except (OSError, subprocess.SubprocessError):
            continue
    return None


def make_overlong_folder(top, levels=24, width=200):
    """a folder chain below `top` whose full path is longer than PATH_MAX (made with relative mkdir/chdir); a file at the bottom.
    Returns True if the host let us build it."""
    cwd = os.getcwd()
    try:
        os.makedirs(top, exist_ok=True); os.chdir(top)
        for i in range(levels):
            n = ('d%02d' % i) + 'x' * (width - 3)
            os.mkdir(n); os.chdir(n)
        open('bottom', 'w').write('b')
        return True
    except OSError:
        return False
    finally:
        os.chdir(cwd)
