"""L4: the CLI binary built from /repo, end to end; local and fake-remote placement."""
import os, shutil, stat, subprocess, tempfile, time
from . import common as C

FAKE_SSH = r'''#!/bin/bash
# fake ssh: runs the remote command locally (as a login shell would: bash), with /var/tmp redirected
# into the scratch "remote" directory; logs every invocation.
host="$1"; shift
cmd="$1"
cmd="${cmd//\/var\/tmp/$FAKE_REMOTE_ROOT}"
printf 'ssh\t%s\t%s\n' "$host" "$(printf '%s' "$1" | tr '\n' ' ')" >> "$FAKE_LOG"
exec /bin/bash -c "$cmd"
'''
FAKE_SCP = r'''#!/bin/bash
# fake scp -r <src> <host:/var/tmp>
printf 'scp\t%s\n' "$*" >> "$FAKE_LOG"
src="$2"
mkdir -p "$FAKE_REMOTE_ROOT"
exec cp -r "$src" "$FAKE_REMOTE_ROOT/"
'''


class Sandbox:
    """scratch directory with fake ssh/scp on PATH and a fake remote root"""
    def __init__(self):
        self.dir = tempfile.mkdtemp(prefix='rjv-l4-')
        self.bin = os.path.join(self.dir, 'bin'); os.makedirs(self.bin)
        self.remote = os.path.join(self.dir, 'remote'); os.makedirs(self.remote)
        self.log = os.path.join(self.dir, 'fake.log'); open(self.log, 'w').close()
        for name, body in (('ssh', FAKE_SSH), ('scp', FAKE_SCP)):
            p = os.path.join(self.bin, name)
            open(p, 'w').write(body); os.chmod(p, 0o755)

    def env(self, extra=None):
        e = dict(C.ENV, PATH=self.bin + ':' + C.ENV.get('PATH', ''), FAKE_REMOTE_ROOT=self.remote, FAKE_LOG=self.log, TMPDIR=self.dir)
        if extra:
            e.update(extra)
        return e

    def fake_log(self):
        return [l.rstrip('\n').split('\t') for l in open(self.log)]

    def real_version(self):
        out = subprocess.run([C.CLI_BIN, '--doer'], stdin=subprocess.DEVNULL, capture_output=True, timeout=20).stdout.decode()
        line = out.splitlines()[0]
        assert line.startswith('rjrssync doer v'), line
        return line[len('rjrssync doer v'):]

    def place_remote(self, kind, version='0.0.1-other'):
        d = os.path.join(self.remote, 'rjrssync'); shutil.rmtree(d, ignore_errors=True)
        if kind == 'absent':
            return
        os.makedirs(d)
        p = os.path.join(d, 'rjrssync')
        if kind == 'same':
            shutil.copy(C.CLI_BIN, p)
        elif kind == 'other':
            assert "'" not in version
            open(p, 'w').write("#!/bin/bash\nprintf '%%s\\n' 'rjrssync doer v%s'\nprintf '%%s\\n' 'rjrssync doer v%s' >&2\n"
                               'cat > "%s/stdin-of-other-version.txt"\n' % (version, version, self.dir))
        elif kind == 'broken':
            open(p, 'w').write('#!/bin/bash\necho "segfault or whatever" >&2\nexit 3\n')
        os.chmod(p, 0o755)

    def close(self):
        shutil.rmtree(self.dir, ignore_errors=True)


def run_cli(args, env=None, timeout=60, cwd=None, preexec=None, stdin=subprocess.DEVNULL):
    t0 = time.time()
    try:
        p = subprocess.run([C.CLI_BIN] + args, env=env or C.ENV, capture_output=True, timeout=timeout, cwd=cwd, preexec_fn=preexec, stdin=stdin)
        return dict(rc=p.returncode, out=p.stdout.decode(errors='replace'), err=p.stderr.decode(errors='replace'), wall=time.time() - t0, timeout=False)
    except subprocess.TimeoutExpired as e:
        return dict(rc=None, out=(e.stdout or b'').decode(errors='replace'), err=(e.stderr or b'').decode(errors='replace'), wall=time.time() - t0, timeout=True)
