"""Regex ASTs over the modelled subset: generation, rendering to pattern text (for the real `regex`
crate) and to prefix tokens (for the Lean model)."""
META = set('\\.+*?()|[]{}^$#&-~')
ALPHA = ['a', 'b', 'c', 'd', 'x', '.', '/', '_', 'A', 'B', 'é', ' ', '1', '-']


def esc(ch):
    return '\\' + ch if ch in META else ch


def lit(s):
    r = ('c', s[0])
    for ch in s[1:]:
        r = ('&', r, ('c', ch))
    return r


def gen_re(rng, depth, words):
    r = rng.random()
    if depth <= 0 or r < 0.3:
        k = rng.random()
        if k < 0.55 and words:
            w = rng.choice(words)
            # a prefix / suffix / substring / the word itself
            i = rng.randrange(len(w)); j = rng.randrange(i, len(w)) + 1
            return lit(rng.choice([w, w[:j], w[i:], w[i:j]]) or w)
        if k < 0.7:
            return ('.',)
        if k < 0.85:
            n = rng.randint(1, 3); rs = []
            for _ in range(n):
                a = rng.choice(ALPHA); b = rng.choice(ALPHA)
                lo, hi = min(a, b), max(a, b)
                rs.append((lo, hi) if rng.random() < 0.4 else (a, a))
            return ('[', rng.random() < 0.3, rs)
        if k < 0.9:
            return ('^',) if rng.random() < 0.5 else ('$',)
        if k < 0.95:
            return ('e',)
        return ('c', rng.choice(ALPHA))
    if r < 0.36:
        # explicit anchors at both ends of a top-level alternation: `^a|b$`, `^a$|b|^c$` (a pattern that "looks anchored" and is not)
        x, y = gen_re(rng, depth - 1, words), gen_re(rng, depth - 1, words)
        mid = [gen_re(rng, 0, words)] if rng.random() < 0.4 else []
        alts = [('&', ('^',), x)] + mid + [('&', y, ('$',))]
        out = alts[0]
        for a_ in alts[1:]:
            out = ('|', out, a_)
        return out
    if r < 0.5:
        return ('&', gen_re(rng, depth - 1, words), gen_re(rng, depth - 1, words))
    if r < 0.68:
        return ('|', gen_re(rng, depth - 1, words), gen_re(rng, depth - 1, words))
    if r < 0.78:
        return ('*', gen_re(rng, depth - 1, words))
    if r < 0.84:
        return ('+', gen_re(rng, depth - 1, words))
    if r < 0.9:
        return ('?', gen_re(rng, depth - 1, words))
    if r < 0.95:
        n = rng.randint(0, 2); m = n + rng.randint(0, 2)
        return ('rep', gen_re(rng, depth - 1, words), n, m)
    return ('i', gen_re(rng, depth - 1, words))


def level(a):
    return {'|': 0, '&': 1, '*': 2, '+': 2, '?': 2, 'rep': 2}.get(a[0], 3)


def render(a, ctx=0, rng=None):
    """pattern text; ctx = minimal level allowed without parentheses"""
    k = a[0]
    if k == 'c': s = esc(a[1])
    elif k == '.': s = '.'
    elif k == '[':
        ce = lambda ch: '\\' + ch if ch in '\\]^[-&~' else ch
        s = '[' + ('^' if a[1] else '') + ''.join(ce(lo) if lo == hi else ce(lo) + '-' + ce(hi) for lo, hi in a[2]) + ']'
    elif k == '^': s = '^'
    elif k == '$': s = '$'
    elif k == 'e': s = '(?:)'
    elif k == 'i': s = '(?i:' + render(a[1], 0, rng) + ')'
    elif k == '&': s = render(a[1], 1, rng) + render(a[2], 1, rng)
    elif k == '|': s = render(a[1], 0, rng) + '|' + render(a[2], 0, rng)
    elif k in '*+?': s = render(a[1], 3, rng) + k
    elif k == 'rep': s = render(a[1], 3, rng) + '{%d,%d}' % (a[2], a[3])
    else: raise ValueError(k)
    if level(a) < ctx:
        s = ('(' if rng and rng.random() < 0.3 else '(?:') + s + ')'
    # a quantifier applied directly to a quantified atom needs a group ("a**" is legal but "a+{1,2}" reads badly)
    if ctx == 3 and k in ('*', '+', '?', 'rep', '^', '$', 'e') and not s.endswith(')'):
        s = '(?:' + s + ')'
    return s


def tokens(a):
    k = a[0]
    if k == 'c': return ['c', str(ord(a[1]))]
    if k in ('.', '^', '$', 'e'): return [k]
    if k == '[':
        t = ['[', str(int(a[1])), str(len(a[2]))]
        for lo, hi in a[2]: t += [str(ord(lo)), str(ord(hi))]
        return t
    if k in ('&', '|'): return [k] + tokens(a[1]) + tokens(a[2])
    if k in ('*', '+', '?', 'i'): return [k] + tokens(a[1])
    if k == 'rep':
        parts = [a[1]] * a[2] + [('?', a[1])] * (a[3] - a[2])
        if not parts: return ['e']
        r = parts[0]
        for p in parts[1:]: r = ('&', r, p)
        return tokens(r)
    raise ValueError(k)


def has(a, kinds):
    return a[0] in kinds or any(has(x, kinds) for x in a[1:] if isinstance(x, tuple))


OUT_OF_SUBSET = ['\\bbuild\\b', 'a.*?b', '(?x) a b c ', '\\p{L}+', '\\d+', '\\w*\\.txt', '[[:alpha:]]+', 'a{2}?', '(?s).', '(?m)^a$', '(?U)a+', 'é+', '\\x61', '\\u{e9}',
                 '(?i)build|dist', 'a|', '|a', '(a|b)|c', '(?:a|b)c|d', '[^/]*\\.txt', '(?P<n>a)b', '\\Aa', 'a\\z', '(?-u:a)', 'a&&b', '[a&&b]', '.*', '', 'a||b']
