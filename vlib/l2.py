"""L2 correspondence: scenarios for the real `boss_sync::sync()` against scripted doers, and the same
scenarios through the Lean model `Rj.run`.  Used by C01 C02 C03 C05 C07 C13 (+C04, C12 boss side)."""
import re
from .common import X, run_model, run_harness

NAMES = ['a', 'b', 'ab', 'a.b', 'd', 'dd', 'x y', '\u00e9', 'A', 'build', 'builder', 'dist', '.config', '1', '-x', '2023', '~t']
TIMES = [0, 1, 999_999_999, 1_000_000_000, 9_223_372_036_854_775_807, 9_223_372_036_854_775_808, 10_000_000_000_000_000_123, (2**63 - 1) * 10**9 + 999_999_999, 5_000_000_000, 5_000_000_001, 4_999_999_999, 2**33 * 10**9, 13_569_465_600 * 10**9]
TARGETS = [('N', 'a'), ('N', 'a/b'), ('N', '../x'), ('X', '/abs/t'), ('N', ''), ('X', 'C:\\w'), ('N', 'd/..//e'), ('X', 'a\\b')]
KINDS = ['F', 'D', 'U']


def det_file(m, sz): return f'F:{m}:{sz}'
def det_link(k, t): return f'L:{k}:{t[0]}{t[1].encode().hex()}'


def gen_details(rng, allow_folder=True):
    r = rng.random()
    if r < 0.55:
        return det_file(rng.choice(TIMES), rng.choice([0, 1, 3, 7, 8, 20]))
    if r < 0.8 and allow_folder:
        return 'D'
    return det_link(rng.choice(KINDS), rng.choice(TARGETS))


def gen_tree(rng, depth=0, max_entries=12):
    """list of (path, details) in a parent-before-child order with random sibling order"""
    out = []
    def rec(prefix, d):
        names = rng.sample(NAMES, rng.randint(0, 3 if d else 4))
        for n in names:
            if len(out) >= max_entries:
                return
            p = prefix + n
            det = gen_details(rng, allow_folder=d < 3)
            out.append((p, det))
            if det == 'D' and rng.random() < 0.8:
                rec(p + '/', d + 1)
    rec('', depth)
    return out


def mutate_tree(rng, src):
    """destination listing derived from the source so that conflicts are frequent"""
    dest, dropped = [], []
    for p, det in src:
        if any(p.startswith(q + '/') for q in dropped):
            continue
        r = rng.random()
        if r < 0.35:
            dest.append((p, det))                       # identical
        elif r < 0.55 and det.startswith('F:'):
            _, m, sz = det.split(':')
            dest.append((p, det_file(rng.choice(TIMES), rng.choice([int(sz), 0, 5]))))   # retimed
        elif r < 0.7:
            nd = gen_details(rng)                       # any kind (kind swap likely)
            dest.append((p, nd))
            if det == 'D' and nd != 'D':
                dropped.append(p)
        elif r < 0.8 and det.startswith('L:'):
            _, k, t = det.split(':')
            dest.append((p, f'L:{rng.choice(KINDS)}:{t}'))   # same target, other kind
        else:
            dropped.append(p)                            # missing on dest
    # extras on dest
    folders = [''] + [p + '/' for p, d in dest if d == 'D']
    for _ in range(rng.randint(0, 3)):
        pre = rng.choice(folders)
        p = pre + rng.choice(NAMES) + rng.choice(['', '2'])
        if all(p != q for q, _ in dest):
            det = gen_details(rng)
            dest.append((p, det))
            if det == 'D':
                folders.append(p + '/')
    # re-linearise: random valid order (parent before child)
    return linearise(rng, dest)


def linearise(rng, entries):
    byp = dict(entries)
    remaining = list(byp)
    out = []
    placed = set([''])
    while remaining:
        ready = [p for p in remaining if (p.rsplit('/', 1)[0] if '/' in p else '') in placed]
        if not ready:      # orphan (parent missing): keep it anyway, malformed listings are legal inputs for the boss
            ready = remaining[:]
        p = rng.choice(ready)
        remaining.remove(p); placed.add(p); out.append((p, byp[p]))
    return out


def split_chunks(rng, size):
    data = bytes((i * 37 + 11) % 251 for i in range(size))
    cuts = sorted(rng.sample(range(1, size), min(rng.randint(0, 2), max(0, size - 1)))) if size > 1 else []
    parts, prev = [], 0
    for c in cuts + [size]:
        parts.append(data[prev:c]); prev = c
    return [(p, i < len(parts) - 1) for i, p in enumerate(parts)]


def gen_file_script(rng, size, faulty):
    ch = split_chunks(rng, size)
    if faulty:
        r = rng.random()
        if r < 0.3:   # grew
            ch = ch[:-1] + [(ch[-1][0] + b'\x99\x98', False)]
        elif r < 0.5 and size > 0:  # shrank
            ch = ch[:-1] + [(ch[-1][0][:-1], False)]
        elif r < 0.7:  # grew by a whole extra chunk
            ch = ch[:-1] + [(ch[-1][0], True), (b'\x01', False)]
        else:  # stream ends without a last chunk -> Error response follows
            ch = [(d, True) for d, _ in ch]
        # (an empty extra last chunk after the data is outside what a doer can send: the boss's
        #  progress accounting debug-asserts on it; see Progress model / C18)
    return ch


class Scenario:
    def __init__(self):
        self.src_root = 'S'; self.dest_root = 'D'; self.dry = False; self.beh = 'ooooo'; self.filters = []
        self.src_reply = ('R', 'D', 0, 47); self.dest_reply = ('R', 'D', 0, 47); self.dest_reply2 = ('O',)
        self.events = []     # ('E', side, path, det) | ('Z', side) | ('U', side)
        self.answers = ''
        self.files = []      # (path, [(bytes, more)])
        self.err_at_poll = None
        self.err_at_cmd = None

    def clone(self):
        import copy
        return copy.deepcopy(self)

    @staticmethod
    def reply_tokens(r):
        if r[0] == 'O':
            return ['O']
        return ['R', r[1] if r[1] else '-', str(int(r[2])), str(r[3])]

    def line(self, concrete=''):
        t = ['l2', X(self.src_root), X(self.dest_root), str(int(self.dry)), self.beh, str(len(self.filters))]
        t += [X(f) for f in self.filters]
        t += self.reply_tokens(self.src_reply) + self.reply_tokens(self.dest_reply) + self.reply_tokens(self.dest_reply2)
        t.append(str(len(self.events)))
        for e in self.events:
            if e[0] == 'E':
                t += ['E', e[1], X(e[2]), e[3]]
            else:
                t += [e[0], e[1]]
        t.append(self.answers or '-')
        t.append(str(len(self.files)))
        for p, chunks in self.files:
            t += [X(p), str(len(chunks))]
            for d, more in chunks:
                t += [X(d), str(int(more))]
        t.append('-' if self.err_at_poll is None else str(self.err_at_poll))
        t.append('-' if self.err_at_cmd is None else str(self.err_at_cmd))
        t.append(X(concrete))
        return ' '.join(t)

    @staticmethod
    def from_dict(d):
        sc = Scenario()
        sc.src_root, sc.dest_root, sc.dry, sc.beh, sc.filters = d['src_root'], d['dest_root'], d['dry'], d['beh'], list(d['filters'])
        sc.src_reply, sc.dest_reply, sc.dest_reply2 = tuple(d['src_reply']), tuple(d['dest_reply']), tuple(d['dest_reply2'])
        sc.events = [tuple(e) for e in d['events']]
        sc.answers = d['answers']
        sc.files = [(p, [(bytes.fromhex(h), m) for h, m in c]) for p, c in d['files']]
        sc.err_at_cmd = d.get('err_at_cmd')
        return sc

    def describe(self):
        return dict(src_root=self.src_root, dest_root=self.dest_root, dry=self.dry, beh=self.beh, filters=self.filters,
                    src_reply=self.src_reply, dest_reply=self.dest_reply, dest_reply2=self.dest_reply2,
                    events=[list(e) for e in self.events], answers=self.answers,
                    files=[(p, [(d.hex(), m) for d, m in c]) for p, c in self.files],
                    err_at_cmd=self.err_at_cmd)


def interleave(rng, a, b):
    out, i, j = [], 0, 0
    bias = rng.choice([0.5, 0.5, 0.1, 0.9])
    while i < len(a) or j < len(b):
        if j >= len(b) or (i < len(a) and rng.random() < bias):
            out.append(a[i]); i += 1
        else:
            out.append(b[j]); j += 1
    return out


def gen_scenario(rng, profile='mixed', faults=True):
    sc = Scenario()
    # roots
    r = rng.random()
    src_kind = 'D' if r < 0.75 else gen_details(rng, allow_folder=False)
    r = rng.random()
    dest_kind = 'D' if r < 0.6 else (None if r < 0.75 else gen_details(rng))
    sc.src_root = rng.choice(['S', 'S', 'S/', '/abs/S', 'rel/S', 'S\\', 'S/f.txt'])
    sc.dest_root = rng.choice(['D', 'D', 'D/', '/abs/D', 'D\\', 'a/b/D/'])
    if profile == 'folder':
        src_kind, dest_kind, sc.src_root, sc.dest_root = 'D', rng.choice(['D', 'D', None]), 'S', 'D'
    sep = rng.choice([47, 47, 92])
    sc.src_reply = ('R', src_kind, 0, rng.choice([47, 92])) if rng.random() > 0.03 else (('O',) if rng.random() < 0.5 else ('R', None, 0, 47))
    diff = rng.random() < 0.3
    sc.dest_reply = ('R', dest_kind, diff, sep) if rng.random() > 0.03 else ('O',)
    r = rng.random()
    k2 = None if r < 0.4 else ('D' if r < 0.5 else gen_details(rng))
    sc.dest_reply2 = ('R', k2, diff, sep) if rng.random() > 0.05 else ('O',)
    # listings
    src = gen_tree(rng) if src_kind == 'D' else []
    dest = mutate_tree(rng, src if src else gen_tree(rng, max_entries=5))
    sev = [('E', 'S', p, d) for p, d in src] + [('Z', 'S')]
    dev = [('E', 'D', p, d) for p, d in dest] + [('Z', 'D')]
    if faults and rng.random() < 0.04 and sev:
        sev.insert(rng.randrange(len(sev)), ('U', 'S'))
    if faults and rng.random() < 0.04 and dev:
        dev.insert(rng.randrange(len(dev)), ('U', 'D'))
    sc.events = interleave(rng, sev, dev)
    # behaviours / answers
    r = rng.random()
    if r < 0.35:
        sc.beh = 'ooooo'
    elif r < 0.6:
        sc.beh = ''.join(rng.choice('ppso') for _ in range(5))
    else:
        sc.beh = ''.join(rng.choice('peso') for _ in range(5))
    sc.answers = ''.join(rng.choice('sSdDdDc') for _ in range(rng.choice([0, 1, 2, 3, 5, 8])))
    sc.dry = rng.random() < 0.25
    r = rng.random()
    if r < 0.15:
        sc.filters = rng.sample(['+.*', '-a', '+a/.*', '-.*\\.b', '-build|dist'], rng.randint(1, 2))
    elif r < 0.18:
        sc.filters = [rng.choice(['a', '', '*x'])]
    # file scripts for every source file (root file has path "")
    files = [(p, d) for p, d in src if d.startswith('F:')]
    if src_kind and src_kind.startswith('F:'):
        files.append(('', src_kind))
    for p, d in files:
        size = int(d.split(':')[2])
        sc.files.append((p, gen_file_script(rng, size, faults and rng.random() < 0.06)))
    if faults and rng.random() < 0.15:
        sc.err_at_cmd = rng.randint(0, 6)
    return sc


PROMPT_PATTERNS = [
    ('R', 'needs deleting as it is incompatible with'),
    ('E', "needs deleting as it doesn't exist on the src"),
    ('E', 'needs deleting to allow the source entry to be copied'),
    ('N', ' is newer than '),
    ('O', ' is older than '),
    ('S', ' has the same modified time as '),
]


def classify_prompt(line):
    for k, pat in PROMPT_PATTERNS:
        if pat in line:
            return k
    return '?'


def concrete_answers(abstract, kinds):
    out = []
    for i, a in enumerate(abstract):
        k = kinds[i] if i < len(kinds) else 'E'
        if a == 'c':
            resp = 'Cancel sync'
        elif k == 'R':
            resp = 'Skip' if a in 'sS' else 'Delete'
        else:
            verb = 'Skip' if a in 'sS' else ('Delete' if k == 'E' else 'Overwrite')
            resp = f"{verb} ({'just this occurence' if a in 'sd' else 'all occurences'})"
        out.append(f'1:.*:{resp}')
    return ','.join(out)


FIELD = re.compile(r'(\w+)=(\[[^\]]*\]|\S+)')


def parse_result(line):
    d = {}
    for k, v in FIELD.findall(line):
        d[k] = v[1:-1].split(';') if v.startswith('[') and v != '[]' else ([] if v == '[]' else v)
    d['hang'] = line.endswith(' HANG')
    return d


MUTATING = ('CreateRootAncestors', 'CreateOrUpdateFile', 'CreateSymlink', 'CreateFolder', 'DeleteFile', 'DeleteFolder', 'DeleteSymlink')


def is_mutating(cmd):
    return cmd.startswith(MUTATING)


def run_batch(scenarios):
    """Runs scenarios through model and implementation.
    Returns list of dict(sc, model, impl, model_set, agree)."""
    # pass 1: model without faults gives the prompt kinds and the fault-free trace
    base = []
    for sc in scenarios:
        s0 = sc.clone(); s0.err_at_poll = None
        base.append(s0.line())
    m0 = run_model(base)
    lines, metas = [], []
    for sc, ans in zip(scenarios, m0):
        r0 = parse_result(ans)
        kinds = r0.get('prompts', '')
        kinds = ''.join(kinds) if isinstance(kinds, list) else kinds
        conc = concrete_answers(sc.answers, kinds)
        nmut = sum(1 for c in r0.get('dest', []) if is_mutating(c))
        faulty = sc.err_at_cmd is not None and sc.err_at_cmd < nmut
        metas.append((conc, faulty, ans))
        s1 = sc.clone()
        if not faulty:
            s1.err_at_cmd = None
        lines.append(s1.line(conc))
    impl = run_harness(lines)
    # pass 2: for faulty scenarios the model is asked for every poll index
    extra_lines, extra_idx = [], []
    for i, (sc, (conc, faulty, _)) in enumerate(zip(scenarios, metas)):
        if faulty:
            for j in ['q'] + list(range(0, 40)):
                s2 = sc.clone(); s2.err_at_poll = j
                extra_lines.append(s2.line(conc)); extra_idx.append(i)
    extra = run_model(extra_lines) if extra_lines else []
    sets = {}
    for i, a in zip(extra_idx, extra):
        sets.setdefault(i, []).append(a)
    out = []
    for i, (sc, (conc, faulty, m_ans), (i_ans, printed)) in enumerate(zip(scenarios, metas, impl)):
        kinds = ''.join(classify_prompt(l) for l in printed)
        impl_line = i_ans.replace(' HANG', '') + f' prompts=[{kinds}]' + (' HANG' if i_ans.endswith(' HANG') else '')
        if faulty:
            cands = sets.get(i, [])
            agree = impl_line in cands
            # the error cannot be seen before the command that causes it was sent
            ri = parse_result(impl_line)
            nm = sum(1 for c in ri.get('dest', []) if is_mutating(c))
            if agree and nm < sc.err_at_cmd + 1:
                agree = False
            model_line = cands[-1] if cands else m_ans
        else:
            agree = impl_line == m_ans
            model_line = m_ans
        out.append(dict(sc=sc, model=model_line, impl=impl_line, agree=agree, faulty=faulty, line=lines[i], conc=conc, printed=printed,
                        model_r=parse_result(model_line), impl_r=parse_result(impl_line)))
    return out
