"""L4 trials: small end-to-end histories of the CLI, each with a model-independent oracle that is the property's own
sentence on the real trees.  A trial is tagged with every property a change in the code it exercises can refute; a check
runs the trials tagged with its property (`run_trials(run, 'Cxx')`).  Every trial builds its own scratch tree and removes it."""
import os, shutil, subprocess, time, resource, signal
from . import common as C, l3, l4

TRIALS = []


def trial(*props):
    def deco(f):
        TRIALS.append((props, f))
        return f
    return deco


def as_nobody():
    os.setgroups([]); os.setgid(65534); os.setuid(65534)


def viol(run, oracle, **kw):
    kw = {('what_' + k if k in ('kind', 'oracle', 'layer') else k): v for k, v in kw.items()}
    run.violation(dict(kind='oracle-failed-on-implementation', oracle=oracle, layer='L4', **kw))


# ------------------------------------------------------------------ path arguments

@trial('C02', 'C16')
def one_letter_host(run, sb):
    """`h:/abs/path` with a one-letter host name is a remote path ([[user@]host:]path; only `X:\\...` is a Windows drive): the sync goes
    through ssh to that host and nothing appears below the working directory"""
    base = os.path.join(sb.dir, 'olh'); cwd = os.path.join(base, 'cwd'); os.makedirs(cwd)
    src = os.path.join(base, 'src'); dst = os.path.join(base, 'remote-dest')
    l3.make_tree(src, [('', 'D'), ('f', 'F', b'data', 10**18), ('d', 'D'), ('d/g', 'F', b'gg', 10**18)])
    for host in ('0', 'h'):
        shutil.rmtree(dst, ignore_errors=True)
        open(sb.log, 'w').close()
        r = l4.run_cli([src + '/', f'{host}:{dst}/', '--deploy', 'ok'], env=sb.env(), timeout=120, cwd=cwd)
        here = sorted(os.listdir(cwd))
        sshd = [l for l in sb.fake_log() if l and l[0] == 'ssh' and len(l) > 1 and l[1] == host]
        run.case(('trial', 'one-letter-host', host), True, sample=dict(layer='L4', trial='one-letter-host', host=host, rc=r['rc'], cwd_entries=here))
        run.count('trial:one-letter-host')
        if here:
            viol(run, 'nothing outside the destination is touched: a destination `h:/abs/path` names a path on host h, nothing is created below the working directory',
                 host=host, args=[src + '/', f'{host}:{dst}/'], rc=r['rc'], created_in_cwd=here[:5], stderr=r['err'][-400:]); return
        if not sshd:
            viol(run, 'a path argument `h:/abs/path` is [[user@]host:]path - the host is contacted through ssh', host=host, rc=r['rc'], ssh_log=sb.fake_log()[:4], stderr=r['err'][-400:]); return
    shutil.rmtree(base, ignore_errors=True)


# ------------------------------------------------------------------ consent / listing errors as an unprivileged user

@trial('C03', 'C17', 'C07', 'C01')
def unlistable_dest_subfolder(run, sb):
    """destination sub-folder that may be written and searched but not listed (mode 0300, doer as uid 65534) holding a file that is newer
    than the source's: whatever happens, that file is not overwritten under --dest-file-newer error / skip, and a run that could not list
    the folder does not end 0"""
    if not l4.nobody_can_run():
        run.count('skipped:uid-65534-cannot-run-the-binary'); return
    for beh in ('error', 'skip'):
        base = os.path.join(sb.dir, 'unl-' + beh)
        src, dst = os.path.join(base, 'src'), os.path.join(base, 'dst')
        l3.make_tree(src, [('', 'D'), ('sub', 'D'), ('sub/f', 'F', b'older source bytes', 10**18), ('top', 'F', b't', 10**18)])
        l3.make_tree(dst, [('', 'D'), ('sub', 'D'), ('sub/f', 'F', b'NEWER destination bytes', 2 * 10**18)])
        subprocess.run(['chown', '-R', '65534:65534', base]); subprocess.run(['chmod', '-R', 'a+rX', base])
        os.chmod(sb.dir, 0o755); os.chmod(os.path.join(dst, 'sub'), 0o300)
        before = l3.snapshot(dst).get(b'sub/f')
        r = l4.run_cli([src + '/', dst + '/', '--dest-file-newer', beh], env=sb.env(), timeout=60, preexec=as_nobody)
        after = l3.snapshot(dst).get(b'sub/f')
        run.case(('trial', 'unlistable-dest-subfolder', beh), True, sample=dict(layer='L4', trial='unlistable-dest-subfolder', behaviour=beh, rc=r['rc']))
        run.count('trial:unlistable-dest-subfolder')
        os.chmod(os.path.join(dst, 'sub'), 0o755)
        if after != before:
            viol(run, f'an existing destination file that is newer is overwritten only if the behaviour resolves to overwrite (it is {beh}); a folder that cannot be listed is not an empty folder',
                 behaviour=beh, rc=r['rc'], before=str(before), after=str(after), stderr=r['err'][-400:]); return
        if r['rc'] == 0:
            viol(run, 'a read error on a directory surfaces as an error (the run does not end 0 with a silently shorter listing)', behaviour=beh, rc=0, stdout=r['out'][-300:]); return
        shutil.rmtree(base, ignore_errors=True)


# ------------------------------------------------------------------ spec files with several syncs

def _write_spec(path, syncs):
    lines = ['syncs:']
    for s in syncs:
        first = True
        for k, v in s.items():
            lines.append(('  - ' if first else '    ') + f'{k}: {v}')
            first = False
    open(path, 'w').write('\n'.join(lines) + '\n')


@trial('C06', 'C16')
def spec_flipped_signs(run, sb):
    """two syncs of one spec file from the same source whose filter lists hold the same expressions with opposite signs (and a third
    with another order): each sync's destination holds exactly what its own list lets through"""
    import re
    base = os.path.join(sb.dir, 'flip'); src = os.path.join(base, 'src')
    l3.make_tree(src, [('', 'D'), ('docs', 'D'), ('docs/a.md', 'F', b'a', 10**18), ('docs/sub', 'D'), ('docs/sub/b.md', 'F', b'b', 10**18),
                       ('Makefile', 'F', b'm', 10**18), ('code', 'D'), ('code/main.c', 'F', b'c', 10**18), ('code/x.tmp', 'F', b'x', 10**18)])
    lists = [['+docs(/.*)?'], ['-docs(/.*)?'], ['-docs(/.*)?', '+docs/sub(/.*)?'], ['+docs(/.*)?', '-docs/sub(/.*)?'], ['-.*\\.tmp', '-docs'], ['+.*\\.tmp', '+code', '+docs']]
    syncs = [dict(src=src + '/', dest=os.path.join(base, f'd{i}') + '/', filters='[ ' + ', '.join("'" + f + "'" for f in fl) + ' ]') for i, fl in enumerate(lists)]
    spec = os.path.join(base, 'spec.yaml'); _write_spec(spec, syncs)
    r = l4.run_cli(['--spec', spec], env=sb.env(), timeout=120)
    all_paths = sorted(p.decode() for p in l3.snapshot(src) if p)
    def keeps(fl, p):
        state = fl[0][0] == '-'
        for f in fl:
            if re.fullmatch(f[1:], p):
                state = f[0] == '+'
        return state
    def visible(fl, p):
        parts = p.split('/')
        return all(keeps(fl, '/'.join(parts[:k + 1])) for k in range(len(parts)))
    run.case(('trial', 'spec-flipped-signs'), True, sample=dict(layer='L4', trial='spec-flipped-signs', rc=r['rc'], syncs=len(lists)))
    run.count('trial:spec-flipped-signs')
    if r['rc'] != 0:
        viol(run, 'a spec file with several syncs of one source under different filter lists succeeds', rc=r['rc'], stderr=r['err'][-500:]); return
    for i, fl in enumerate(lists):
        want = [p for p in all_paths if visible(fl, p)]
        got = sorted(p.decode() for p in l3.snapshot(os.path.join(base, f'd{i}')) if p)
        if got != want:
            viol(run, 'an entry takes part in a sync iff it survives THAT sync\'s filter list (last match wins, sign included), whatever other syncs of the same run said about the path',
                 sync_index=i, filters=fl, all_filter_lists=lists, expected=want, found=got); return
    shutil.rmtree(base, ignore_errors=True)


@trial('C07', 'C16')
def spec_earlier_sync_fails(run, sb):
    """a spec file whose first sync fails (missing source; refused overwrite) and whose last sync succeeds does not end 0"""
    for why in ('missing-source', 'consent-error'):
        base = os.path.join(sb.dir, 'esf-' + why)
        s1, d1, s2, d2 = (os.path.join(base, x) for x in ('s1', 'd1', 's2', 'd2'))
        l3.make_tree(s2, [('', 'D'), ('ok', 'F', b'ok', 10**18)])
        os.makedirs(d1, exist_ok=True)
        if why == 'consent-error':
            l3.make_tree(s1, [('', 'D'), ('f', 'F', b'old', 10**18)]); l3.make_tree(d1, [('', 'D'), ('f', 'F', b'newer', 2 * 10**18)])
        spec = os.path.join(base, 'spec.yaml')
        _write_spec(spec, [dict(src=s1 + '/', dest=d1 + '/', dest_file_newer_behaviour='error'), dict(src=s2 + '/', dest=d2 + '/')])
        r = l4.run_cli(['--spec', spec], env=sb.env(), timeout=60)
        run.case(('trial', 'spec-earlier-sync-fails', why), True, sample=dict(layer='L4', trial='spec-earlier-sync-fails', why=why, rc=r['rc']))
        run.count('trial:spec-earlier-sync-fails')
        if r['rc'] == 0 or r['timeout']:
            viol(run, 'exit status 0 only if every planned operation of every sync was carried out: a failing sync of a spec file makes the run end non-zero, also when a later sync succeeds',
                 why=why, rc=r['rc'], stderr=r['err'][-500:], second_sync_ran=os.path.exists(os.path.join(d2, 'ok'))); return
        shutil.rmtree(base, ignore_errors=True)


# ------------------------------------------------------------------ interrupted copy of a file modified just now

@trial('C08', 'C01', 'C04')
def same_second_partial(run, sb):
    """a source file modified within the current second; the copy stops inside it (EFBIG with SIGXFSZ ignored; SIGXFSZ kill): the partial
    destination file carries a time within the same second as the source's.  The re-run must repair it (times compare exactly)"""
    for mode in ('efbig', 'kill'):
        for attempt in range(4):
            base = os.path.join(sb.dir, f'ssp-{mode}-{attempt}')
            src, dst = os.path.join(base, 'src'), os.path.join(base, 'dst')
            data = l3.content(7, 3_000_000)
            os.makedirs(src)
            # wait for the start of a second so that source stamp and partial write fall into the same one
            while time.time() % 1 > 0.25:
                time.sleep(0.02)
            open(os.path.join(src, 'big'), 'wb').write(data)
            def limit():
                if mode == 'efbig':
                    signal.signal(signal.SIGXFSZ, signal.SIG_IGN)
                resource.setrlimit(resource.RLIMIT_FSIZE, (600_000, 600_000))
            r1 = l4.run_cli([src + '/', dst + '/', '--no-progress'], env=sb.env(), timeout=60, preexec=limit)
            try:
                s_ns = os.stat(os.path.join(src, 'big')).st_mtime_ns; d_st = os.stat(os.path.join(dst, 'big'))
            except FileNotFoundError:
                shutil.rmtree(base, ignore_errors=True); continue
            same_second = s_ns // 10**9 == d_st.st_mtime_ns // 10**9
            if not same_second or d_st.st_size == len(data):
                shutil.rmtree(base, ignore_errors=True); continue
            r2 = l4.run_cli([src + '/', dst + '/', '--no-progress', '--dest-file-newer', 'overwrite', '--dest-file-older', 'overwrite'], env=sb.env(), timeout=60)
            ok = open(os.path.join(dst, 'big'), 'rb').read() == data
            run.case(('trial', 'same-second-partial', mode), True, sample=dict(layer='L4', trial='same-second-partial', mode=mode, first_rc=r1['rc'], partial_bytes=d_st.st_size, rerun_rc=r2['rc'], repaired=ok))
            run.count('trial:same-second-partial')
            if not ok:
                viol(run, 'a damaged (partly written) destination file is never mistaken for an up-to-date one: re-running the sync with overwriting permitted converges to the mirror state',
                     mode=mode, source_mtime_ns=s_ns, partial_mtime_ns=d_st.st_mtime_ns, partial_bytes=d_st.st_size, source_bytes=len(data), first_rc=r1['rc'], rerun_rc=r2['rc'], rerun_stdout=r2['out'][-300:]); return
            shutil.rmtree(base, ignore_errors=True)
            break
        else:
            run.count('trial:same-second-partial:not-reached')


# ------------------------------------------------------------------ roots that are symlinks, spelled relative to the working directory

@trial('C12', 'C01', 'C02')
def relative_symlink_roots(run, sb):
    """sync roots given as relative paths that are symlinks (to a populated folder, to a file): a source root link is copied as a link,
    a destination root link is replaced, never followed - exactly as with absolute spellings"""
    for target_kind in ('folder', 'file'):
        base = os.path.join(sb.dir, 'rsr-' + target_kind); os.makedirs(base)
        real = os.path.join(base, 'real')
        if target_kind == 'folder':
            l3.make_tree(real, [('', 'D'), ('inside', 'F', b'inside', 10**18), ('deep', 'D'), ('deep/x', 'F', b'x', 10**18)])
        else:
            l3.make_tree(real, [('', 'F', b'real file', 10**18)])
        os.symlink('real', os.path.join(base, 'lnk'))
        # (a) source root = the link
        r = l4.run_cli(['lnk', 'out'], env=sb.env(), timeout=60, cwd=base)
        out = os.path.join(base, 'out')
        run.case(('trial', 'relative-symlink-roots', 'src', target_kind), True, sample=dict(layer='L4', trial='relative-symlink-roots', side='source', target=target_kind, rc=r['rc']))
        run.count('trial:relative-symlink-roots')
        if r['rc'] != 0 or not os.path.islink(out) or os.readlink(out) != 'real':
            viol(run, 'a symlink is copied as a link (its text), never followed - also when it is the sync root and spelled relative to the working directory',
                 side='source', target=target_kind, args=['lnk', 'out'], rc=r['rc'], out_is_link=os.path.islink(out), out_snapshot=str(sorted(l3.snapshot(out)))[:300], stderr=r['err'][-300:]); return
        # (b) destination root = a link to the populated target; the source is a folder
        srcd = os.path.join(base, 'srcd'); l3.make_tree(srcd, [('', 'D'), ('n', 'F', b'new', 10**18), ('inside', 'F', b'changed!', 2 * 10**18)])
        os.symlink('real', os.path.join(base, 'dlnk'))
        before = l3.snapshot(real)
        r = l4.run_cli(['srcd', 'dlnk', '--dest-root-needs-deleting', 'delete', '--dest-file-newer', 'overwrite'], env=sb.env(), timeout=60, cwd=base)
        after = l3.snapshot(real)
        dl = os.path.join(base, 'dlnk')
        run.case(('trial', 'relative-symlink-roots', 'dest', target_kind), True, sample=dict(layer='L4', trial='relative-symlink-roots', side='destination', target=target_kind, rc=r['rc']))
        if after != before:
            viol(run, 'deleting or replacing a destination symlink removes only the link: nothing is created, deleted or overwritten through it (destination root spelled relative to the working directory)',
                 side='destination', target=target_kind, rc=r['rc'], target_before=str(sorted(before.items()))[:400], target_after=str(sorted(after.items()))[:400]); return
        if r['rc'] == 0 and (os.path.islink(dl) or not os.path.isdir(dl) or not os.path.exists(os.path.join(dl, 'n'))):
            viol(run, 'exit 0: the destination root (a symlink, replaced with consent) equals the source folder', side='destination', target=target_kind, rc=0,
                 dlnk_is_link=os.path.islink(dl), snapshot=str(sorted(l3.snapshot(dl)))[:300]); return
        shutil.rmtree(base, ignore_errors=True)


def run_trials(run, prop_id):
    """runs every trial tagged with the property"""
    todo = [f for props, f in TRIALS if prop_id in props]
    if not todo:
        return
    with C.Lock():
        ok, _out = C.build_cli()
    if not ok:
        return          # (reported by the check's own preparation as tree-does-not-build)
    sb = l4.Sandbox()
    try:
        for f in todo:
            if any(not no_input for _, no_input in run.violations):
                break           # (a violation with a failing input is already on record; one without is a reason to go on looking)
            f(run, sb)
    finally:
        subprocess.run(['chmod', '-R', 'u+rwx', sb.dir], capture_output=True)
        sb.close()


# ------------------------------------------------------------------ the behaviour in force is the one that acts

@trial('C16', 'C03')
def individual_flag_beats_all_destructive(run, sb):
    """--all-destructive-behaviour proceed together with ONE individual flag set to error / skip (and spec-file values): the individual
    flag is the behaviour in force - the entry of that category is not touched (error: the run ends non-zero with nothing changed)"""
    cats = [('--dest-file-newer', 'newer', 2 * 10**18), ('--dest-file-older', 'older', 5 * 10**17), ('--files-same-time', 'same', 10**18)]
    for flag, cat, dtime in cats:
        for beh in ('error', 'skip'):
            for via in ('cli', 'spec'):
                base = os.path.join(sb.dir, f'ifl-{cat}-{beh}-{via}')
                src, dst = os.path.join(base, 'src'), os.path.join(base, 'dst')
                l3.make_tree(src, [('', 'D'), ('f', 'F', b'source bytes', 10**18), ('other', 'F', b'o', 10**18)])
                l3.make_tree(dst, [('', 'D'), ('f', 'F', b'DEST bytes!!', dtime)])
                before = l3.snapshot(dst)
                if via == 'cli':
                    args = [src + '/', dst + '/', '--all-destructive-behaviour', 'proceed', flag, beh]
                else:
                    # the spec file says overwrite / delete everywhere; the command line's individual flag must still win
                    spec = os.path.join(base, 'spec.yaml')
                    _write_spec(spec, [dict(src=src + '/', dest=dst + '/', dest_file_newer_behaviour='overwrite', dest_file_older_behaviour='overwrite',
                                            files_same_time_behaviour='overwrite', dest_entry_needs_deleting_behaviour='delete')])
                    args = ['--spec', spec, flag, beh]
                r = l4.run_cli(args, env=sb.env(), timeout=60)
                after = l3.snapshot(dst)
                run.case(('trial', 'individual-flag', cat, beh, via), True, sample=dict(layer='L4', trial='individual-flag-beats-all-destructive', category=cat, behaviour=beh, via=via, rc=r['rc']))
                run.count('trial:individual-flag')
                bad = None
                if after.get(b'f') != before.get(b'f'):
                    bad = f'the destination file (case: {cat}) was overwritten although the behaviour in force for its case is {beh}'
                elif beh == 'error' and (r['rc'] == 0 or after != before):
                    bad = f'behaviour error: the run must end non-zero having changed nothing (rc {r["rc"]})'
                elif beh == 'skip' and (r['rc'] != 0 or b'other' not in after):
                    bad = f'behaviour skip: the rest of the sync goes ahead (rc {r["rc"]})'
                if bad:
                    viol(run, 'the behaviour in force is the individual command-line flag if given (it beats --all-destructive-behaviour and the spec file), and it is what governs the sync', why=bad,
                         args=args, rc=r['rc'], before=str(sorted(before.items()))[:300], after=str(sorted(after.items()))[:300], stderr=r['err'][-300:]); return
                shutil.rmtree(base, ignore_errors=True)


# ------------------------------------------------------------------ entries that can be named but not described

@trial('C17', 'C07', 'C01')
def readable_unsearchable_folder(run, sb):
    """a source folder that may be listed but not searched (mode 0444, doer as uid 65534): its entries can be named but not stat'ed.
    They are not silently left out: the run ends non-zero (or they arrive)"""
    if not l4.nobody_can_run():
        run.count('skipped:uid-65534-cannot-run-the-binary'); return
    for side in ('src', 'dst'):
        base = os.path.join(sb.dir, 'rus-' + side)
        src, dst = os.path.join(base, 'src'), os.path.join(base, 'dst')
        l3.make_tree(src, [('', 'D'), ('listonly', 'D'), ('listonly/a.txt', 'F', b'a', 10**18), ('listonly/b.txt', 'F', b'b', 10**18), ('listonly/link', 'L', 'a.txt'), ('plain', 'F', b'p', 10**18)])
        if side == 'dst':
            l3.make_tree(dst, [('', 'D'), ('listonly', 'D'), ('listonly/a.txt', 'F', b'a', 10**18), ('listonly/stale', 'F', b's', 10**18)])
        else:
            os.makedirs(dst)
        subprocess.run(['chown', '-R', '65534:65534', base]); subprocess.run(['chmod', '-R', 'a+rX', base]); os.chmod(sb.dir, 0o755)
        os.chmod(os.path.join(src if side == 'src' else dst, 'listonly'), 0o444)
        r = l4.run_cli([src + '/', dst + '/'], env=sb.env(), timeout=60, preexec=as_nobody)
        os.chmod(os.path.join(src if side == 'src' else dst, 'listonly'), 0o755)
        d = l3.snapshot(dst)
        run.case(('trial', 'readable-unsearchable-folder', side), True, sample=dict(layer='L4', trial='readable-unsearchable-folder', side=side, rc=r['rc']))
        run.count('trial:readable-unsearchable-folder')
        missing = [p for p in (b'listonly/a.txt', b'listonly/b.txt', b'listonly/link') if p not in d]
        if r['rc'] == 0 and (missing or b'listonly/stale' in d):
            viol(run, 'the listing reports every entry or fails: an entry whose details cannot be read is an error, not a silently shorter listing (exit 0 means the destination is the mirror)',
                 side=side, rc=0, missing_on_destination=[m.decode() for m in missing], stdout=r['out'][-300:]); return
        shutil.rmtree(base, ignore_errors=True)


# ------------------------------------------------------------------ launches

@trial('C19', 'C15')
def stale_nonexecutable_remote_binary(run, sb):
    """the remote already holds a file at the deployment path that is not executable (an upload that was interrupted before its chmod, a
    hand-copied file); scp, like cp, keeps the mode of a file it overwrites.  With deployment permitted the deployed binary must start,
    pass the handshake and sync"""
    for behaviour in ('force',):       # (with 'ok' the boss may rightly give up: a file that cannot be executed is not 'not present')
        base = os.path.join(sb.dir, 'stale-' + behaviour)
        src, dst = os.path.join(base, 'src'), os.path.join(base, 'dst')
        l3.make_tree(src, [('', 'D'), ('f', 'F', b'data', 10**18)])
        d = os.path.join(sb.remote, 'rjrssync'); shutil.rmtree(d, ignore_errors=True); os.makedirs(d)
        open(os.path.join(d, 'rjrssync'), 'wb').write(b'left-over of an interrupted upload'); os.chmod(os.path.join(d, 'rjrssync'), 0o644)
        r = l4.run_cli([src + '/', 'localhost:' + dst + '/', '--deploy', behaviour], env=sb.env(), timeout=180)
        ok = r['rc'] == 0 and os.path.exists(os.path.join(dst, 'f'))
        deployed = os.path.join(d, 'rjrssync')
        mode = oct(os.stat(deployed).st_mode & 0o777) if os.path.exists(deployed) else None
        run.case(('trial', 'stale-nonexecutable-remote-binary', behaviour), True, sample=dict(layer='L4', trial='stale-nonexecutable-remote-binary', deploy=behaviour, rc=r['rc'], deployed_mode=mode))
        run.count('trial:stale-nonexecutable-remote-binary')
        if not ok:
            viol(run, 'the binary that deployment places on a remote starts and passes the version handshake (also over a left-over, non-executable file at the deployment path)',
                 deploy=behaviour, rc=r['rc'], deployed_mode=mode, stderr=r['err'][-500:]); return
        shutil.rmtree(base, ignore_errors=True); shutil.rmtree(d, ignore_errors=True)


@trial('C15', 'C10')
def remote_end_without_version_line(run, sb):
    """whatever answers on the remote prints the 'waiting for connection on port N' line on both streams but never a version line (a
    wrapper script, a foreign program, a doer that announces its version only on stderr): the boss sends it no key and opens no connection"""
    for variant in ('no-version', 'version-on-stderr-only', 'other-version-then-port'):
        base = os.path.join(sb.dir, 'nov-' + variant); os.makedirs(base)
        src = os.path.join(base, 'src'); l3.make_tree(src, [('', 'D'), ('f', 'F', b'data', 10**18)])
        mark = os.path.join(base, 'mark'); stdin_log = os.path.join(base, 'stdin')
        d = os.path.join(sb.remote, 'rjrssync'); shutil.rmtree(d, ignore_errors=True); os.makedirs(d)
        ver = sb.real_version()
        script = f'''#!/usr/bin/env python3
import socket, sys, threading, time, os
s = socket.socket(); s.bind(('127.0.0.1', 0)); s.listen(1); port = s.getsockname()[1]
variant = {variant!r}
if variant == 'version-on-stderr-only':
    print('rjrssync doer v{ver}', file=sys.stderr, flush=True)
if variant == 'other-version-then-port':
    print('rjrssync doer v{ver}-x', flush=True); print('rjrssync doer v{ver}-x', file=sys.stderr, flush=True)
print('Waiting for incoming network connection on port %d' % port, flush=True)
print('Waiting for incoming network connection on port %d' % port, file=sys.stderr, flush=True)
def rd():
    data = sys.stdin.buffer.read(64)
    if data: open({stdin_log!r}, 'wb').write(data)
threading.Thread(target=rd, daemon=True).start()
s.settimeout(6)
try:
    c, _ = s.accept(); c.settimeout(2)
    try: data = c.recv(200)
    except Exception: data = b''
    open({mark!r}, 'wb').write(b'connected:' + data)
except socket.timeout:
    pass
'''
        p = os.path.join(d, 'rjrssync'); open(p, 'w').write(script); os.chmod(p, 0o755)
        r = l4.run_cli([src + '/', 'localhost:' + os.path.join(base, 'dst') + '/', '--deploy', 'error'], env=sb.env(), timeout=60)
        time.sleep(0.3)
        connected = os.path.exists(mark); keyed = os.path.exists(stdin_log)
        run.case(('trial', 'remote-end-without-version-line', variant), True, sample=dict(layer='L4', trial='remote-end-without-version-line', variant=variant, rc=r['rc'], connected=connected, key_written=keyed))
        run.count('trial:remote-end-without-version-line')
        if connected or keyed or r['rc'] == 0:
            viol(run, 'the boss exchanges sync traffic with a remote doer only if that doer announced exactly the boss\'s own version string (on stdout); to any other it sends no key and opens no connection',
                 variant=variant, rc=r['rc'], connection_opened=connected, first_bytes=open(mark, 'rb').read()[:60].hex() if connected else None, key_written=keyed, stderr=r['err'][-400:]); return
        shutil.rmtree(base, ignore_errors=True); shutil.rmtree(d, ignore_errors=True)


# ------------------------------------------------------------------ execute_spec: model vs CLI

def run_spec_stream(run, n=None):
    """L4 tie of the model of execute_spec (Model/Run.lean, interpreting the skeleton extracted from the source): spec files with 1..4 syncs,
    any of which fails (missing source), and launches that fail (a remote side without a binary under --deploy error): exit status and the set of
    syncs that ran (the destinations that exist afterwards) must be the model's"""
    thorough = run.tier == 'thorough'
    rng = run.rng
    n = n or (14 if not thorough else 120)
    with C.Lock():
        ok, _out = C.build_cli()
    if not ok:
        return
    sb = l4.Sandbox()
    try:
        cases = [(1, 1, '01'), (1, 1, '101'), (1, 1, '110'), (1, 1, '0'), (1, 1, '1'), (0, 1, '11'), (1, 0, '11'), (0, 0, '1')]
        while len(cases) < n:
            k = rng.randint(1, 4)
            cases.append((1 if rng.random() < 0.85 else 0, 1 if rng.random() < 0.85 else 0, ''.join(rng.choice('01' if rng.random() < 0.6 else '1') for _ in range(k))))
        lines = [f'runspec {s} {d} {o}' for s, d, o in cases]
        model = C.run_model(lines)
        for ci, ((s_ok, d_ok, outs), m) in enumerate(zip(cases, model)):
            base = os.path.join(sb.dir, f'rs{ci}'); os.makedirs(base)
            syncs = []
            for i, o in enumerate(outs):
                sdir, ddir = os.path.join(base, f's{i}'), os.path.join(base, f'd{i}')
                if o == '1':
                    l3.make_tree(sdir, [('', 'D'), ('f', 'F', b'x%d' % i, 10**18)])
                syncs.append(dict(src=sdir + '/', dest=ddir + '/'))
            lines_ = []
            # a launch that fails: the side is remote, nothing is installed there, deployment is refused
            if not s_ok: lines_.append('src_hostname: localhost')
            if not d_ok: lines_.append('dest_hostname: 127.0.0.1')
            lines_.append('deploy_behaviour: error')
            lines_.append('syncs:')
            for s in syncs:
                lines_.append(f'  - src: {s["src"]}'); lines_.append(f'    dest: {s["dest"]}')
            spec = os.path.join(base, 'spec.yaml'); open(spec, 'w').write('\n'.join(lines_) + '\n')
            shutil.rmtree(os.path.join(sb.remote, 'rjrssync'), ignore_errors=True)
            r = l4.run_cli(['--spec', spec], env=sb.env(), timeout=90)
            ran = [os.path.exists(os.path.join(base, f'd{i}', 'f')) for i in range(len(outs))]
            mm = dict(kv.split('=') for kv in m.split()) if m.startswith('code=') else None
            run.case(('run-spec', s_ok, d_ok, outs), True, sample=dict(layer='L4', stream='execute_spec', src_launch_ok=bool(s_ok), dest_launch_ok=bool(d_ok), sync_outcomes=outs, rc=r['rc'], model=m) if ci < 2 else None)
            run.count(f'run-spec:rc={r["rc"]}'); run.cov['traces_validated_against_impl'] += 1; run.cov['disagreements_checked'] += 1
            if mm is None:
                run.violation(dict(kind='correspondence-broken', correspondence='L4/execute_spec', request_line=lines[ci], model=m), no_input=True); return
            want_ran = [i < int(mm['run']) and outs[i] == '1' for i in range(len(outs))]
            all_ok = s_ok and d_ok and all(o == '1' for o in outs)
            # the property's own oracle first (independent of the model): exit 0 iff everything was set up and every sync succeeded
            if (r['rc'] == 0) != bool(all_ok) or r['timeout']:
                viol(run, 'exit status 0 only if every planned operation of every sync was carried out (a failing launch or sync makes the run end non-zero, whatever comes after it)',
                     src_launch_ok=bool(s_ok), dest_launch_ok=bool(d_ok), sync_outcomes=outs, rc=r['rc'], syncs_that_ran=ran, stderr=r['err'][-400:]); return
            if str(r['rc']) != mm['code'] or ran != want_ran:
                run.violation(dict(kind='correspondence-broken', correspondence='L4/execute_spec: exit status and the syncs that ran = model', src_launch_ok=bool(s_ok), dest_launch_ok=bool(d_ok),
                                   sync_outcomes=outs, impl=dict(rc=r['rc'], ran=ran), model=dict(code=mm['code'], ran=want_ran), stderr=r['err'][-300:]), no_input=True); return
            shutil.rmtree(base, ignore_errors=True)
    finally:
        sb.close()


# ------------------------------------------------------------------ round 8

@trial('C01', 'C03', 'C17', 'C07')
def unlistable_source_subfolder(run, sb):
    """a source sub-folder the doer's user may not list (mode 0300 / 000, doer as uid 65534): the run does not end 0 with that folder
    created empty on the destination"""
    if not l4.nobody_can_run():
        run.count('skipped:uid-65534-cannot-run-the-binary'); return
    for mode in (0o300, 0o000):
        base = os.path.join(sb.dir, 'uls-%o' % mode)
        src, dst = os.path.join(base, 'src'), os.path.join(base, 'dst')
        l3.make_tree(src, [('', 'D'), ('private', 'D'), ('private/s.txt', 'F', b'secret', 10**18), ('private/inner', 'D'), ('top', 'F', b't', 10**18)])
        os.makedirs(dst)
        subprocess.run(['chown', '-R', '65534:65534', base]); subprocess.run(['chmod', '-R', 'a+rX', base]); os.chmod(sb.dir, 0o755)
        os.chmod(os.path.join(src, 'private'), mode)
        r = l4.run_cli([src + '/', dst + '/'], env=sb.env(), timeout=60, preexec=as_nobody)
        os.chmod(os.path.join(src, 'private'), 0o755)
        d = l3.snapshot(dst)
        run.case(('trial', 'unlistable-source-subfolder', mode), True, sample=dict(layer='L4', trial='unlistable-source-subfolder', mode=oct(mode), rc=r['rc']))
        run.count('trial:unlistable-source-subfolder')
        if r['rc'] == 0 and b'private/s.txt' not in d:
            viol(run, 'exit 0 means the destination is the mirror of the source: a folder that cannot be listed is an error, not an empty folder', mode=oct(mode), rc=0,
                 destination=sorted(p.decode() for p in d), stdout=r['out'][-300:]); return
        shutil.rmtree(base, ignore_errors=True)


@trial('C04', 'C18', 'C05')
def repeat_under_output_options(run, sb):
    """the identical command twice, under every output option (--stats, --verbose, --quiet, --no-progress ...): the second run ends 0,
    says there is nothing to do and changes nothing"""
    for opts in (['--stats'], ['--stats', '--no-progress'], ['--verbose'], ['--quiet'], ['--stats', '--verbose'], ['--stats', '--dry-run']):
        base = os.path.join(sb.dir, 'rep' + ''.join(o.strip('-')[:2] for o in opts))
        src, dst = os.path.join(base, 'src'), os.path.join(base, 'dst')
        l3.make_tree(src, [('', 'D'), ('a', 'F', b'aaa', 10**18), ('d', 'D'), ('d/b', 'F', b'b' * 5000, 10**18 + 5), ('l', 'L', 'a')])
        r1 = l4.run_cli([src + '/', dst + '/'] + [o for o in opts if o != '--dry-run'], env=sb.env(), timeout=60)
        before = l3.snapshot(dst)
        r2 = l4.run_cli([src + '/', dst + '/'] + opts, env=sb.env(), timeout=60)
        after = l3.snapshot(dst)
        run.case(('trial', 'repeat-under-output-options', tuple(opts)), True, sample=dict(layer='L4', trial='repeat-under-output-options', options=opts, first_rc=r1['rc'], second_rc=r2['rc']))
        run.count('trial:repeat-under-output-options')
        said = 'Nothing to do' in (r2['out'] + r2['err'])
        if r1['rc'] != 0 or r2['rc'] != 0 or before != after or (not said and '--quiet' not in opts):
            viol(run, 'repeating a successful sync straight away reports that there is nothing to do, exits 0 and leaves every destination byte and timestamp unchanged (whatever output options the command carries)',
                 options=opts, first_rc=r1['rc'], second_rc=r2['rc'], destination_changed=before != after, said_nothing_to_do=said, stderr=r2['err'][-500:]); return
        shutil.rmtree(base, ignore_errors=True)


@trial('C06', 'C07', 'C03')
def include_only_filters_stale_folder(run, sb):
    """a filter list made of includes only (everything else is excluded by default); a destination folder that is itself included and must go
    holds entries the filters hide: they are not touched (the folder's deletion fails), whatever shortcut deletes folders"""
    for fl in (['+archive', '+archive/.*\\.txt', '+keep(/.*)?'], ['+archive(/[^/]*)?', '+keep(/.*)?']):
        base = os.path.join(sb.dir, 'iof%d' % len(fl[0]))
        src, dst = os.path.join(base, 'src'), os.path.join(base, 'dst')
        l3.make_tree(src, [('', 'D'), ('keep', 'D'), ('keep/k.txt', 'F', b'k', 10**18)])
        l3.make_tree(dst, [('', 'D'), ('archive', 'D'), ('archive/old.txt', 'F', b'old', 10**18), ('archive/NOTES.md', 'F', b'notes', 10**18),
                           ('archive/raw', 'D'), ('archive/raw/dump.bin', 'F', b'dump', 10**18), ('archive/raw/deep', 'D'), ('archive/raw/deep/x.txt', 'F', b'x', 10**18)])
        import re
        def keeps(p):
            state = False
            for f in fl:
                if re.fullmatch(f[1:], p): state = f[0] == '+'
            return state
        def visible(p):
            parts = p.split('/')
            return all(keeps('/'.join(parts[:k + 1])) for k in range(len(parts)))
        before = l3.snapshot(dst)
        args = [src + '/', dst + '/'] + [x for f in fl for x in ('--filter', f)]
        r = l4.run_cli(args, env=sb.env(), timeout=60)
        after = l3.snapshot(dst)
        hidden = [p for p in before if p and not visible(p.decode())]
        touched = [p.decode() for p in hidden if after.get(p) != before.get(p)]
        run.case(('trial', 'include-only-filters-stale-folder', tuple(fl)), True, sample=dict(layer='L4', trial='include-only-filters-stale-folder', filters=fl, rc=r['rc'], hidden_entries=len(hidden)))
        run.count('trial:include-only-filters-stale-folder')
        if touched or not hidden:
            viol(run, 'entries that do not take part in the sync (here: not matched by any include filter, hence excluded) are never read, created, modified or deleted',
                 filters=fl, rc=r['rc'], hidden_entries_touched=touched, stderr=r['err'][-300:]); return
        if r['rc'] == 0:
            viol(run, 'exit status 0 only if every planned deletion was carried out (the folder that must go still holds hidden entries: its deletion fails)', filters=fl, rc=0); return
        shutil.rmtree(base, ignore_errors=True)


@trial('C07', 'C09', 'C11', 'C08')
def pseudo_files(run, sb):
    """source files whose reported length is not what reading delivers (procfs: length 0 but content; sysfs attribute: length 4096 but a few
    bytes; sysfs binary: every read() is short): the run ends within bounded time, and ends 0 only with the bytes that a plain read gives;
    a failed run leaves no file that carries the source's time with other bytes"""
    for path in ('/proc/version', '/sys/class/net/lo/mtu', '/sys/kernel/btf/vmlinux', '/proc/self/status'):
        if not os.path.exists(path):
            run.count('trial:pseudo-files:absent'); continue
        base = os.path.join(sb.dir, 'pf' + path.replace('/', '_')); os.makedirs(base)
        out = os.path.join(base, 'out')
        try:
            content = open(path, 'rb').read()
            smt = os.stat(path).st_mtime_ns
        except OSError:
            continue
        r = l4.run_cli([path, out, '--no-progress'], env=sb.env(), timeout=45)
        got = open(out, 'rb').read() if os.path.isfile(out) else None
        run.case(('trial', 'pseudo-files', path), True, sample=dict(layer='L4', trial='pseudo-files', file=path, stat_size=os.stat(path).st_size, read_size=len(content), rc=r['rc'], timed_out=r['timeout']))
        run.count('trial:pseudo-files')
        stable = path != '/proc/self/status'
        if r['timeout']:
            viol(run, 'every run hands control back within bounded time, also when a source file is shorter (or longer) than its reported length', file=path, stat_size=os.stat(path).st_size, read_size=len(content), timed_out=True); return
        if r['rc'] == 0 and stable and got != content:
            viol(run, 'exit 0 means the file was copied exactly; if the length at copy time differs from the length seen when the trees were compared the run fails',
                 file=path, stat_size=os.stat(path).st_size, read_size=len(content), copied_bytes=None if got is None else len(got), rc=0, stdout=r['out'][-200:]); return
        if r['rc'] != 0 and stable and got is not None and got != content and os.stat(out).st_mtime_ns == smt:
            viol(run, 'a failed run leaves no destination file that carries the source\'s modification time but different bytes', file=path, read_size=len(content), left_bytes=len(got), rc=r['rc']); return
        shutil.rmtree(base, ignore_errors=True)


@trial('C11', 'C08', 'C07')
def efbig_in_the_tail(run, sb):
    """the destination refuses bytes (EFBIG, SIGXFSZ ignored) inside the last part / the last few KiB of a file of several parts - where a
    buffered writer would still be holding them: exit 0 only with the whole file; no file with the source's time and other bytes"""
    for n, lim, prev in ((5000, 4096, 0), (5000, 4096, 20000), (12388, 10240, 0), (200000, 184320, 0), (200000, 199999, 300000), (70000, 69000, 0)):
        base = os.path.join(sb.dir, f'eft{n}-{lim}-{prev}')
        src, dst = os.path.join(base, 'src'), os.path.join(base, 'dst')
        data = l3.content(n, n)
        l3.make_tree(src, [('', 'D'), ('f', 'F', data, 10**18 + 7)])
        l3.make_tree(dst, [('', 'D')] + ([('f', 'F', l3.content(prev + 1, prev), 5 * 10**17)] if prev else []))
        def limit(lim=lim):
            signal.signal(signal.SIGXFSZ, signal.SIG_IGN)
            resource.setrlimit(resource.RLIMIT_FSIZE, (lim, lim))
        r = l4.run_cli([src + '/', dst + '/', '--no-progress'], env=sb.env(), timeout=60, preexec=limit)
        p = os.path.join(dst, 'f')
        got = open(p, 'rb').read() if os.path.exists(p) else None
        run.case(('trial', 'efbig-in-the-tail', n, lim, prev), True, sample=dict(layer='L4', trial='efbig-in-the-tail', length=n, rlimit_fsize=lim, previous_length=prev, rc=r['rc']) if prev == 0 and n == 5000 else None)
        run.count('trial:efbig-in-the-tail')
        if r['rc'] == 0 and got != data:
            viol(run, 'exit 0 only if the file was written completely (a write the destination refuses is an error, wherever in the file it falls)', length=n, rlimit_fsize=lim, previous_length=prev, rc=0,
                 destination_bytes=None if got is None else len(got)); return
        if got is not None and got != data and os.stat(p).st_mtime_ns == 10**18 + 7:
            viol(run, 'the destination never holds a file that carries the source\'s modification time but different bytes', length=n, rlimit_fsize=lim, previous_length=prev, rc=r['rc'], destination_bytes=len(got)); return
        shutil.rmtree(base, ignore_errors=True)


@trial('C12', 'C02')
def refused_unlink_of_link(run, sb):
    """as uid 65534: a destination symlink that must go but whose unlink is refused (sticky folder, link owned by someone else; or a folder
    that may not be written) points at a read-only file of the doer's user outside the tree: that file's mode, bytes and time stay"""
    if not l4.nobody_can_run():
        run.count('skipped:uid-65534-cannot-run-the-binary'); return
    for variant in ('sticky', 'unwritable'):
        base = os.path.join(sb.dir, 'rul-' + variant)
        src, dst, out = (os.path.join(base, x) for x in ('src', 'dst', 'outside'))
        l3.make_tree(out, [('', 'D'), ('notes.txt', 'F', b'notes', 10**18)])
        l3.make_tree(src, [('', 'D'), ('shared', 'D'), ('shared/lnk', 'F', b'now a file', 2 * 10**18)])
        l3.make_tree(dst, [('', 'D'), ('shared', 'D'), ('shared/lnk', 'L', '../../outside/notes.txt')])
        subprocess.run(['chown', '-R', '65534:65534', src, out, dst]); subprocess.run(['chmod', '-R', 'a+rX', base]); os.chmod(sb.dir, 0o755)
        os.chmod(os.path.join(out, 'notes.txt'), 0o444)
        sh = os.path.join(dst, 'shared')
        os.chown(sh, 0, 0); os.lchown(os.path.join(sh, 'lnk'), 0, 0)
        os.chmod(sh, 0o1777 if variant == 'sticky' else 0o755)
        st0 = os.stat(os.path.join(out, 'notes.txt'))
        r = l4.run_cli([src + '/', dst + '/'], env=sb.env(), timeout=60, preexec=as_nobody)
        st1 = os.stat(os.path.join(out, 'notes.txt'))
        same = (st0.st_mode, st0.st_mtime_ns, st0.st_size) == (st1.st_mode, st1.st_mtime_ns, st1.st_size) and open(os.path.join(out, 'notes.txt'), 'rb').read() == b'notes'
        run.case(('trial', 'refused-unlink-of-link', variant), True, sample=dict(layer='L4', trial='refused-unlink-of-link', variant=variant, rc=r['rc'], target_unchanged=same))
        run.count('trial:refused-unlink-of-link')
        if not same:
            viol(run, 'nothing is read, changed or deleted through a symlink: deleting or replacing a destination symlink touches only the link - also when the deletion is refused',
                 variant=variant, rc=r['rc'], mode_before=oct(st0.st_mode), mode_after=oct(st1.st_mode), stderr=r['err'][-300:]); return
        if r['rc'] == 0:
            viol(run, 'a refused deletion ends the run non-zero', variant=variant, rc=0); return
        shutil.rmtree(base, ignore_errors=True)


@trial('C17', 'C09', 'C18')
def descriptor_limit(run, sb):
    """the process may open only k file descriptors (RLIMIT_NOFILE = 3..16): every listing ends - with its entries or with an error -
    and the run hands control back within bounded time"""
    base = os.path.join(sb.dir, 'fdl')
    src, dst = os.path.join(base, 'src'), os.path.join(base, 'dst')
    l3.make_tree(src, [('', 'D')] + [(f'd{i}', 'D') for i in range(6)] + [(f'd{i}/f{j}', 'F', b'x', 10**18) for i in range(6) for j in range(3)] + [('d0/deep', 'D'), ('d0/deep/g', 'F', b'g', 10**18)])
    # (with stdin closed the loader has a free descriptor to map the libraries with; the Rust runtime then re-opens fd 0 on /dev/null, so at the
    # lowest limits every descriptor is in use for good by the time the walk starts: a persistent EMFILE, not one the walk causes itself)
    for k, close0 in ((3, True), (4, True), (5, True), (3, False), (4, False), (5, False), (6, False), (7, False), (9, False), (12, False), (16, False)):
        shutil.rmtree(dst, ignore_errors=True)
        def limit(k=k, close0=close0):
            if close0:
                os.close(0)
            resource.setrlimit(resource.RLIMIT_NOFILE, (k, k))
        r = l4.run_cli([src + '/', dst + '/', '--no-progress'], env=sb.env(), timeout=25, preexec=limit, stdin=None if close0 else subprocess.DEVNULL)
        run.case(('trial', 'descriptor-limit', k, close0), True, sample=dict(layer='L4', trial='descriptor-limit', rlimit_nofile=k, stdin_closed=close0, rc=r['rc'], timed_out=r['timeout']) if k in (3, 9) else None)
        run.count(f'trial:descriptor-limit:rc={r["rc"]}')
        if r['timeout']:
            viol(run, 'the walk always finishes (a read error on a directory - here: too many open files - surfaces as an error) and the run hands control back within bounded time', rlimit_nofile=k, stdin_closed=close0, timed_out=True, stderr=r['err'][-300:]); return
        if r['rc'] == 0 and len(l3.snapshot(dst)) != len(l3.snapshot(src)):
            viol(run, 'exit 0 means every included entry was listed and copied', rlimit_nofile=k, rc=0); return
    shutil.rmtree(base, ignore_errors=True)


@trial('C05', 'C07', 'C01')
def unreadable_source_file(run, sb):
    """as uid 65534: a source file that can be listed but not opened (owner root, mode 0600).  The dry run announces it; the real run must
    either copy it or fail - never end 0 without it (and then the dry run's counts would not be the real run's)"""
    if not l4.nobody_can_run():
        run.count('skipped:uid-65534-cannot-run-the-binary'); return
    base = os.path.join(sb.dir, 'usf')
    src, dst = os.path.join(base, 'src'), os.path.join(base, 'dst')
    l3.make_tree(src, [('', 'D'), ('a.txt', 'F', b'aaaaa', 10**18), ('private.key', 'F', b'fifteen bytes!!', 10**18), ('z.txt', 'F', b'zzzzzz', 10**18)])
    os.makedirs(dst)
    subprocess.run(['chown', '-R', '65534:65534', base]); subprocess.run(['chmod', '-R', 'a+rX', base]); os.chmod(sb.dir, 0o755)
    os.chown(os.path.join(src, 'private.key'), 0, 0); os.chmod(os.path.join(src, 'private.key'), 0o600)
    rd = l4.run_cli([src + '/', dst + '/', '--dry-run'], env=sb.env(), timeout=60, preexec=as_nobody)
    rr = l4.run_cli([src + '/', dst + '/'], env=sb.env(), timeout=60, preexec=as_nobody)
    d = l3.snapshot(dst)
    import re
    would = re.search(r'Would copy (\d+) file', rd['out'] + rd['err']); did = re.search(r'Copied (\d+) file', rr['out'] + rr['err'])
    run.case(('trial', 'unreadable-source-file'), True, sample=dict(layer='L4', trial='unreadable-source-file', dry_rc=rd['rc'], real_rc=rr['rc'], would_copy=would.group(1) if would else None, copied=did.group(1) if did else None))
    run.count('trial:unreadable-source-file')
    if rr['rc'] == 0 and b'private.key' not in d:
        viol(run, 'exit 0 only if every planned copy was carried out; and the entries and counts a dry run announces are those the real run copies', dry_run_says=would.group(0) if would else None,
             real_run_says=did.group(0) if did else None, real_rc=0, destination=sorted(p.decode() for p in d), stderr=rr['err'][-300:]); return
    shutil.rmtree(base, ignore_errors=True)


# ------------------------------------------------------------------ round 9

@trial('C03', 'C06', 'C04')
def mixed_placement_newline_names(run, sb):
    """one side remote, a filter whose match relies on `.`, a file whose name holds a line break on both sides, the destination's newer, the
    behaviour for that case error / skip: the two sides must reach the same verdict, and the destination file is not overwritten"""
    sb.place_remote('same')
    name = 'no\nte.txt'
    for placement in ('remote-dest', 'remote-src'):
        for flt in ('+.*\\.txt', '-.*\\.bak'):
            base = os.path.join(sb.dir, 'mpn-%s-%d' % (placement, len(flt)))
            src, dst = os.path.join(base, 'src'), os.path.join(base, 'dst')
            l3.make_tree(src, [('', 'D'), (name, 'F', b'older source', 10**18), ('plain.txt', 'F', b'p', 10**18)])
            l3.make_tree(dst, [('', 'D'), (name, 'F', b'NEWER destination', 2 * 10**18)])
            before = l3.snapshot(dst).get(name.encode())
            a = [('localhost:' if placement == 'remote-src' else '') + src + '/', ('localhost:' if placement == 'remote-dest' else '') + dst + '/', '--filter', flt, '--dest-file-newer', 'error', '--deploy', 'error']
            r = l4.run_cli(a, env=sb.env(), timeout=90)
            after = l3.snapshot(dst).get(name.encode())
            run.case(('trial', 'mixed-placement-newline-names', placement, flt), True, sample=dict(layer='L4', trial='mixed-placement-newline-names', placement=placement, filter=flt, rc=r['rc']))
            run.count('trial:mixed-placement-newline-names')
            if after != before:
                viol(run, 'source and destination reach the same filter verdict for the same relative path, and an existing destination file is overwritten only if the behaviour for its case resolves to overwrite (it is error)',
                     placement=placement, filter=flt, name=name, rc=r['rc'], before=str(before), after=str(after), stderr=r['err'][-300:]); return
            shutil.rmtree(base, ignore_errors=True)


@trial('C05')
def dry_run_names_control_chars(run, sb):
    """entries whose names hold control characters (tab, BEL, ESC, 0x01, DEL): the 'Would ...' lines of a dry run name exactly the entries the
    real run then deletes, copies and creates (byte for byte)"""
    import re
    base = os.path.join(sb.dir, 'dnc')
    src, dst = os.path.join(base, 'src'), os.path.join(base, 'dst')
    l3.make_tree(src, [('', 'D'), ('with\ttab.txt', 'F', b't', 10**18), ('with?tab.txt', 'F', b'q', 10**18), ('bell\x07.bin', 'F', b'b', 10**18), ('dir\x1f', 'D'), ('dir\x1f/in', 'F', b'i', 10**18), ('lnk\x01', 'L', 'x')])
    l3.make_tree(dst, [('', 'D'), ('with?tab.txt', 'F', b'q', 10**18), ('stale\x02.txt', 'F', b's', 10**18), ('old\x7fdir', 'D')])
    rd = l4.run_cli([src + '/', dst + '/', '--dry-run'], env=sb.env(), timeout=60)
    before = l3.snapshot(dst)
    rr = l4.run_cli([src + '/', dst + '/'], env=sb.env(), timeout=60)
    after = l3.snapshot(dst)
    changed = sorted(p for p in set(before) | set(after) if p and before.get(p) != after.get(p))
    text = (rd['out'] + rd['err']).encode('utf-8', 'surrogateescape') if isinstance(rd['out'], str) else rd['out']
    named = set()
    for line in text.split(b'\n'):
        if line.startswith(b'Would ') and b"'" in line:
            last = line.rsplit(b"'", 2)
            if len(last) == 3:
                p = last[1]
                if p.startswith(dst.encode() + b'/'):
                    named.add(p[len(dst) + 1:])
    run.case(('trial', 'dry-run-names-control-chars'), True, sample=dict(layer='L4', trial='dry-run-names-control-chars', dry_rc=rd['rc'], real_rc=rr['rc'], changed=len(changed), named=len(named)))
    run.count('trial:dry-run-names-control-chars')
    missing = [p for p in changed if p not in named]
    extra = [p for p in named if p not in changed]
    if rd['rc'] != 0 or rr['rc'] != 0 or missing or extra:
        viol(run, "the 'Would delete / Would copy / Would create' lines of a dry run name exactly the entries that the same command without --dry-run then deletes, copies and creates",
             dry_rc=rd['rc'], real_rc=rr['rc'], changed_but_not_named=[repr(p) for p in missing], named_but_not_changed=[repr(p) for p in extra]); return
    shutil.rmtree(base, ignore_errors=True)


@trial('C06', 'C16')
def spec_filters_with_blanks(run, sb):
    """filters in a spec file whose regular expression begins or ends with white space that belongs to it (a quoted string ending in CR /
    blank): the filter is used as written, exactly as the same sync given on the command line"""
    base = os.path.join(sb.dir, 'sfb')
    src = os.path.join(base, 'src')
    l3.make_tree(src, [('', 'D'), ('Icon', 'F', b'plain', 10**18), ('Icon\r', 'F', b'cr', 10**18), ('a.txt', 'F', b'a', 10**18), ('sub', 'D'), ('sub/Icon', 'F', b'p2', 10**18), ('sub/Icon\r', 'F', b'cr2', 10**18), ('end ', 'F', b'e', 10**18)])
    d_spec, d_cli = os.path.join(base, 'd-spec'), os.path.join(base, 'd-cli')
    spec = os.path.join(base, 'spec.yaml')
    open(spec, 'w').write('syncs:\n  - src: %s/\n    dest: %s/\n    filters: [ "-(.*/)?Icon\\r", \'-(.*/)?[^/]* \' ]\n' % (src, d_spec))
    r1 = l4.run_cli(['--spec', spec], env=sb.env(), timeout=60)
    r2 = l4.run_cli([src + '/', d_cli + '/', '--filter', '-(.*/)?Icon\r', '--filter', '-(.*/)?[^/]* '], env=sb.env(), timeout=60)
    s1, s2 = sorted(l3.snapshot(d_spec)), sorted(l3.snapshot(d_cli))
    want = sorted([b'', b'Icon', b'a.txt', b'sub', b'sub/Icon'])
    run.case(('trial', 'spec-filters-with-blanks'), True, sample=dict(layer='L4', trial='spec-filters-with-blanks', spec_rc=r1['rc'], cli_rc=r2['rc']))
    run.count('trial:spec-filters-with-blanks')
    if r1['rc'] != 0 or r2['rc'] != 0 or s1 != want or s2 != want:
        viol(run, 'a filter matches the entire path with the regular expression as written (white space included); a sync described in a spec file behaves exactly like the same sync given as SRC DEST',
             spec_rc=r1['rc'], cli_rc=r2['rc'], expected=[repr(p) for p in want], via_spec=[repr(p) for p in s1], via_command_line=[repr(p) for p in s2]); return
    shutil.rmtree(base, ignore_errors=True)


def _wrap_ssh(sb, name, body):
    """a bin directory in front of the sandbox's whose `ssh` is the given script (it may exec "$REAL_SSH" "$@")"""
    d = os.path.join(sb.dir, name); os.makedirs(d, exist_ok=True)
    p = os.path.join(d, 'ssh'); open(p, 'w').write('#!/bin/bash\nREAL_SSH=%s\n' % os.path.join(sb.bin, 'ssh') + body); os.chmod(p, 0o755)
    return d


@trial('C09', 'C15', 'C18')
def ssh_ends_before_the_handshake(run, sb):
    """ssh (or what it starts) ends before the start-up handshake completes, without one of the recognised 'not present' messages: connection
    refused, authentication failure, a doer that dies at once, a doer that prints its version and dies: the boss gives up within bounded time"""
    base = os.path.join(sb.dir, 'seh'); src = os.path.join(base, 'src')
    l3.make_tree(src, [('', 'D'), ('f', 'F', b'x', 10**18)])
    ver = sb.real_version()
    variants = {
        'refused': 'echo "ssh: connect to host $1 port 22: Connection refused" >&2; exit 255\n',
        'silent-exit': 'exit 1\n',
        'doer-dies-after-version': 'echo "rjrssync doer v%s"; echo "rjrssync doer v%s" >&2; exit 3\n' % (ver, ver),
        'garbage-then-exit': 'echo "Welcome to host"; echo "motd" >&2; sleep 0.2; exit 0\n',
        'doer-with-closed-stdin': 'exec %s --doer <&-\n' % C.CLI_BIN,
    }
    for vname, body in variants.items():
        for place in ('dest', 'src'):
            bindir = _wrap_ssh(sb, 'bin-' + vname, body)
            env = sb.env(); env['PATH'] = bindir + ':' + env['PATH']
            a = [('localhost:' if place == 'src' else '') + src + '/', ('localhost:' if place == 'dest' else '') + os.path.join(base, 'dst') + '/', '--deploy', 'error']
            r = l4.run_cli(a, env=env, timeout=30)
            run.case(('trial', 'ssh-ends-before-the-handshake', vname, place), True, sample=dict(layer='L4', trial='ssh-ends-before-the-handshake', variant=vname, remote=place, rc=r['rc'], wall_s=round(r['wall'], 2)) if place == 'dest' else None)
            run.count(f'trial:ssh-ends-before-the-handshake:rc={r["rc"]}')
            if not r['timeout'] and r['rc'] not in (0, None, 10, 11, 12):
                viol(run, 'every run ends with one of the documented exit statuses and an error message - never a panic, an abort or a signal (here: the remote end went away during the launch)',
                     variant=vname, remote=place, rc=r['rc'], stderr=r['err'][-300:]); return
            if r['timeout'] or r['rc'] in (0, None):
                viol(run, 'a doer process or its connection dying at any point - also before the handshake completes - makes rjrssync hand control back within bounded time with a non-zero status',
                     variant=vname, remote=place, rc=r['rc'], timed_out=r['timeout'], stderr=r['err'][-300:]); return
    shutil.rmtree(base, ignore_errors=True)


@trial('C15')
def unrelated_ssh_lines_with_alarming_words(run, sb):
    """unrelated ssh output before and between the handshake lines that contains alarming words ('Permission denied, please try again.',
    'Connection refused', 'No such file' inside a longer banner ...): a doer of the right version is still used"""
    sb.place_remote('same')
    base = os.path.join(sb.dir, 'usl'); src = os.path.join(base, 'src')
    l3.make_tree(src, [('', 'D'), ('f', 'F', b'x', 10**18)])
    noises = ['', 'Permission denied, please try again.', '/etc/profile.d/x.sh: line 3: /opt/y: Permission denied', 'debug1: connect to address ::1 port 22: Connection refused',
              'Warning: Permanently added host (ED25519) to the list of known hosts.', 'bind: Address already in use', 'Could not chdir to home directory /home/u: Host is down']
    for k, noise in enumerate(noises):
        for stream in ('stderr', 'stdout'):
            body = ('echo %r %s\n' % (noise, '>&2' if stream == 'stderr' else '')) + 'exec "$REAL_SSH" "$@"\n'
            bindir = _wrap_ssh(sb, 'bin-noise', body)
            env = sb.env(); env['PATH'] = bindir + ':' + env['PATH']
            dst = os.path.join(base, f'dst{k}{stream}')
            r = l4.run_cli([src + '/', 'localhost:' + dst + '/', '--deploy', 'error'], env=env, timeout=60)
            run.case(('trial', 'unrelated-ssh-lines', k, stream), True, sample=dict(layer='L4', trial='unrelated-ssh-lines-with-alarming-words', line=noise, stream=stream, rc=r['rc']) if stream == 'stderr' and k < 2 else None)
            run.count('trial:unrelated-ssh-lines')
            if r['rc'] != 0 or not os.path.exists(os.path.join(dst, 'f')):
                viol(run, 'the launch succeeds for every interleaving of the doer\'s handshake lines with unrelated ssh output lines (whatever words they contain, short of the recognised "not present" messages)',
                     unrelated_line=noise, stream=stream, rc=r['rc'], stderr=r['err'][-300:]); return
    shutil.rmtree(base, ignore_errors=True)


@trial('C16', 'C15')
def two_hosts_one_consent(run, sb):
    """deploy behaviour prompt (the default), source and destination on two different hosts that both lack a binary, the first prompt answered
    'Deploy', the second left unanswered: nothing is uploaded to the second host and the run fails (the behaviour in force is prompt, per deployment)"""
    import glob
    base = os.path.join(sb.dir, 'thc'); src = os.path.join(base, 'src')
    l3.make_tree(src, [('', 'D'), ('f', 'F', b'x', 10**18)])
    shutil.rmtree(os.path.join(sb.remote, 'rjrssync'), ignore_errors=True)
    for d_ in glob.glob(sb.remote + '-*'): shutil.rmtree(d_, ignore_errors=True)
    open(sb.log, 'w').close()
    r = l4.run_cli(['127.0.0.1:' + src + '/', 'localhost:' + os.path.join(base, 'dst') + '/'], env=sb.env({'FAKE_PER_HOST': '1', 'RJRSSYNC_TEST_PROMPT_RESPONSE': '1:.*:Deploy'}), timeout=120)
    ups = [l for l in sb.fake_log() if l[0] == 'scp']
    run.case(('trial', 'two-hosts-one-consent'), True, sample=dict(layer='L4', trial='two-hosts-one-consent', uploads=len(ups), rc=r['rc']))
    run.count('trial:two-hosts-one-consent')
    for d_ in glob.glob(sb.remote + '-*'): shutil.rmtree(d_, ignore_errors=True)
    if len(ups) != 1 or r['rc'] == 0 or r['timeout']:
        viol(run, 'with the deploy behaviour prompt in force a binary is uploaded only to a host whose own prompt was answered "Deploy"; an unanswered prompt uploads nothing and fails the run',
             uploads=[l[1] for l in ups], rc=r['rc'], stderr=r['err'][-400:]); return
    shutil.rmtree(base, ignore_errors=True)


@trial('C17', 'C09')
def very_wide_tree(run, sb):
    """a folder with more than 8192 sub-folders, and a level of 100 x 100 folders: the walk finishes and lists every entry"""
    for shape in ('wide', 'level'):
        base = os.path.join(sb.dir, 'vwt-' + shape); src = os.path.join(base, 'src'); os.makedirs(src)
        if shape == 'wide':
            for i in range(9001): os.mkdir(os.path.join(src, 'd%05d' % i))
            n = 9001
        else:
            for i in range(100):
                os.mkdir(os.path.join(src, 'p%03d' % i))
                for j in range(100): os.mkdir(os.path.join(src, 'p%03d' % i, 'q%03d' % j))
            n = 10100
        r = l4.run_cli([src + '/', os.path.join(base, 'dst') + '/', '--no-progress'], env=sb.env(), timeout=60)
        cnt = sum(len(d) for _, d, _ in os.walk(os.path.join(base, 'dst'))) if os.path.isdir(os.path.join(base, 'dst')) else 0
        run.case(('trial', 'very-wide-tree', shape), True, sample=dict(layer='L4', trial='very-wide-tree', shape=shape, folders=n, rc=r['rc'], timed_out=r['timeout'], wall_s=round(r['wall'], 1)))
        run.count('trial:very-wide-tree')
        if r['timeout'] or r['rc'] != 0 or cnt != n:
            viol(run, 'the walk lists every entry exactly once and always finishes, for every tree shape (here: %d folders on one level)' % n, shape=shape, rc=r['rc'], timed_out=r['timeout'], folders_copied=cnt); return
        shutil.rmtree(base, ignore_errors=True)


@trial('C07', 'C08')
def abandoned_update_of_existing_file(run, sb):
    """a big source file is appended to while it is copied over an older destination file (the run fails: length changed): afterwards the
    destination path is as it was, as planned, or a partly written file - it has not vanished"""
    import threading
    hits = 0
    for attempt in range(4):
        base = os.path.join(sb.dir, f'aue{attempt}')
        src, dst = os.path.join(base, 'src'), os.path.join(base, 'dst')
        os.makedirs(src); os.makedirs(dst)
        with open(os.path.join(src, 'big.bin'), 'wb') as f: f.write(b'\x5a' * (24 * 1024 * 1024))
        l3.make_tree(dst, [('', 'D'), ('big.bin', 'F', b'older content', 10**18)])
        stop = threading.Event()
        def appender():
            with open(os.path.join(src, 'big.bin'), 'ab') as f:
                while not stop.is_set():
                    f.write(b'x' * 4096); f.flush(); time.sleep(0.0005)
        th = threading.Thread(target=appender, daemon=True); th.start()
        r = l4.run_cli([src + '/', dst + '/', '--no-progress', '--dest-file-older', 'overwrite'], env=sb.env(), timeout=90)
        stop.set(); th.join(5)
        exists = os.path.lexists(os.path.join(dst, 'big.bin'))
        run.case(('trial', 'abandoned-update-of-existing-file', attempt), True, sample=dict(layer='L4', trial='abandoned-update-of-existing-file', rc=r['rc'], destination_file_exists=exists) if attempt == 0 else None)
        run.count(f'trial:abandoned-update-of-existing-file:rc={r["rc"]}')
        if r['rc'] not in (0, None) and not exists:
            viol(run, 'after a failed run every destination path is as it was, as it was planned to become, or a partly written file - nothing else has been touched (here: the existing file is gone)',
                 rc=r['rc'], stderr=r['err'][-300:]); return
        shutil.rmtree(base, ignore_errors=True)
        if r['rc'] not in (0, None):
            hits += 1
            if hits >= 2: break


@trial('C18', 'C07')
def old_root_file(run, sb):
    """the sync root itself is a regular file dated before 1970 (as source; as an existing destination; as the file a trailing-slash destination
    resolves to): a documented status and a message, not a panic"""
    old = -315619200 * 10**9          # 1960-01-01
    cases = []
    for k in range(3):
        base = os.path.join(sb.dir, f'orf{k}'); os.makedirs(base)
        s, d = os.path.join(base, 's.txt'), os.path.join(base, 'd.txt')
        if k == 0:
            l3.make_tree(s, [('', 'F', b'old', old)]); args = [s, d]
        elif k == 1:
            l3.make_tree(s, [('', 'F', b'new', 10**18)]); l3.make_tree(d, [('', 'F', b'old', old)]); args = [s, d, '--dest-file-older', 'overwrite']
        else:
            l3.make_tree(s, [('', 'F', b'new', 10**18)]); os.makedirs(os.path.join(base, 'dir')); l3.make_tree(os.path.join(base, 'dir', 's.txt'), [('', 'F', b'old', old)])
            args = [s, os.path.join(base, 'dir') + '/', '--dest-file-older', 'overwrite']
        for extra in ([], ['--dry-run']):
            r = l4.run_cli(args + extra, env=sb.env(), timeout=60)
            run.case(('trial', 'old-root-file', k, tuple(extra)), True, sample=dict(layer='L4', trial='old-root-file', case=k, rc=r['rc']) if not extra else None)
            run.count(f'trial:old-root-file:rc={r["rc"]}')
            if r['timeout'] or r['rc'] not in (0, 12) or 'panicked at' in r['err'] or (r['rc'] == 12 and 'ERROR' not in r['err']):
                viol(run, 'every input ends with a documented exit status and, when it fails, an error message - never a panic', case=['source root', 'existing destination root', 'file inside a trailing-slash destination'][k],
                     args=args + extra, rc=r['rc'], stderr=r['err'][-400:]); return
        shutil.rmtree(base, ignore_errors=True)


# ------------------------------------------------------------------ round 10

@trial('C01', 'C07', 'C17')
def special_files_in_trees(run, sb):
    """a fifo / socket inside the source tree, or only inside the destination tree: it cannot be mirrored, so the run does not end 0 as if
    the destination were the mirror (exit 0 means: same kind at every relative path, no additional entries)"""
    import socket as _socket
    for where in ('src', 'dst-only'):
        for kind in ('fifo', 'socket'):
            base = os.path.join(sb.dir, f'sft-{where}-{kind}')
            src, dst = os.path.join(base, 'src'), os.path.join(base, 'dst')
            l3.make_tree(src, [('', 'D'), ('a.txt', 'F', b'a', 10**18), ('d', 'D'), ('d/b.txt', 'F', b'b', 10**18)])
            l3.make_tree(dst, [('', 'D'), ('d', 'D')])
            p = os.path.join(src if where == 'src' else dst, 'd', 'special')
            if kind == 'fifo':
                os.mkfifo(p)
            else:
                s_ = _socket.socket(_socket.AF_UNIX); s_.bind(p); s_.close()
            r = l4.run_cli([src + '/', dst + '/'], env=sb.env(), timeout=60)
            run.case(('trial', 'special-files-in-trees', where, kind), True, sample=dict(layer='L4', trial='special-files-in-trees', where=where, kind=kind, rc=r['rc']) if kind == 'fifo' else None)
            run.count('trial:special-files-in-trees')
            d = l3.snapshot(dst)
            if r['rc'] == 0 and ((where == 'src' and d.get(b'd/special', ('x',))[0] != '?') or (where == 'dst-only' and b'd/special' in d)):
                viol(run, 'exit 0 means the destination mirrors the source on every included path (same kind, no additional entries): an entry that cannot be described or reproduced is an error, not something to leave out',
                     where=where, kind=kind, rc=0, destination=sorted(p_.decode() for p_ in d), stdout=r['out'][-200:]); return
            shutil.rmtree(base, ignore_errors=True)


@trial('C06')
def filters_with_a_trailing_slash(run, sb):
    """a filter whose expression ends in a literal `/` matches no normalised path (paths carry no trailing slash): it changes nothing, for
    folders as for files, on both sides alike"""
    for flt in (['-cache/'], ['-out/'], ['+.*', '-cache/'], ['-(.*/)?cache/']):
        base = os.path.join(sb.dir, 'fts%d' % abs(hash(tuple(flt)) % 10**6))
        src, dst = os.path.join(base, 'src'), os.path.join(base, 'dst')
        l3.make_tree(src, [('', 'D'), ('cache', 'D'), ('cache/blob.bin', 'F', b'blob', 10**18), ('out', 'D'), ('out/x', 'F', b'x', 10**18), ('keep.txt', 'F', b'k', 10**18)])
        l3.make_tree(dst, [('', 'D'), ('out', 'F', b'a file named out', 10**18), ('cache', 'D'), ('cache/old', 'F', b'o', 10**18)])
        a = [src + '/', dst + '/'] + [x for f in flt for x in ('--filter', f)]
        r = l4.run_cli(a, env=sb.env(), timeout=60)
        got = sorted(p for p in l3.snapshot(dst) if p)
        want = sorted([b'cache', b'cache/blob.bin', b'keep.txt', b'out', b'out/x'])
        run.case(('trial', 'filters-with-a-trailing-slash', tuple(flt)), True, sample=dict(layer='L4', trial='filters-with-a-trailing-slash', filters=flt, rc=r['rc']) if flt == ['-cache/'] else None)
        run.count('trial:filters-with-a-trailing-slash')
        if r['rc'] != 0 or got != want:
            viol(run, 'a filter decides only when its expression matches the ENTIRE normalised root-relative path (forward slashes, no trailing slash), the same for every kind of entry and on both sides',
                 filters=flt, rc=r['rc'], expected=[p.decode() for p in want], found=[p.decode() for p in got], stderr=r['err'][-300:]); return
        shutil.rmtree(base, ignore_errors=True)


@trial('C13', 'C17', 'C01')
def walk_order_with_several_workers(run, sb):
    """the walk with 2..8 worker threads (the override of the hooks build; several workers are what Windows uses) on a folder that holds
    populated sub-folders and many other entries, copying and deleting: every folder is created before its contents and emptied before it
    is removed - the run ends 0 in the mirror state"""
    for threads in (2, 4, 8):
        for phase in ('copy', 'delete'):
            base = os.path.join(sb.dir, f'wow-{threads}-{phase}')
            full, empty = os.path.join(base, 'full'), os.path.join(base, 'empty')
            ents = [('', 'D')] + [(f'f{i:03d}', 'F', b'x', 10**18) for i in range(150)]
            for k in range(6):
                ents += [(f's{k}', 'D')] + [(f's{k}/g{i}', 'F', b'y', 10**18) for i in range(12)] + [(f's{k}/t', 'D'), (f's{k}/t/deep', 'F', b'z', 10**18)]
            l3.make_tree(full, ents); os.makedirs(empty)
            dst = os.path.join(base, 'dst')
            if phase == 'delete':
                shutil.copytree(full, dst, symlinks=True)
            env = sb.env({'RJRSSYNC_VERIF_WALK_THREADS': str(threads), 'RJRSSYNC_VERIF_JITTER': str(threads * 7919)})
            r = l4.run_cli([(full if phase == 'copy' else empty) + '/', dst + '/', '--no-progress'], env=env, timeout=90)
            want = l3.snapshot(full if phase == 'copy' else empty); got = l3.snapshot(dst)
            run.case(('trial', 'walk-order-with-several-workers', threads, phase), True, sample=dict(layer='L4', trial='walk-order-with-several-workers', threads=threads, phase=phase, rc=r['rc']) if threads == 4 else None)
            run.count('trial:walk-order-with-several-workers')
            if r['rc'] != 0 or r['timeout'] or sorted(want) != sorted(got):
                viol(run, 'each entry is deleted before its parent folder and every folder is created before its contents, for every number of walker threads (a listing reports a folder before anything inside it)',
                     walker_threads=threads, phase=phase, rc=r['rc'], entries_expected=len(want), entries_found=len(got), stderr=r['err'][-400:]); return
            shutil.rmtree(base, ignore_errors=True)


@trial('C16', 'C15')
def all_destructive_does_not_grant_deployment(run, sb):
    """--all-destructive-behaviour concerns the five sync behaviours; the deploy behaviour stays what --deploy / the spec file / the default
    (prompt) say: with a remote that lacks the binary and no answer to the prompt nothing is uploaded, whatever --all-destructive-behaviour is"""
    base = os.path.join(sb.dir, 'adg'); src = os.path.join(base, 'src')
    l3.make_tree(src, [('', 'D'), ('f', 'F', b'x', 10**18)])
    for adb in ('proceed', 'skip', 'error', 'prompt'):
        for via in ('default', 'spec-error'):
            shutil.rmtree(os.path.join(sb.remote, 'rjrssync'), ignore_errors=True); open(sb.log, 'w').close()
            if via == 'default':
                a = [src + '/', 'localhost:' + os.path.join(base, 'dst') + '/', '--all-destructive-behaviour', adb]
            else:
                spec = os.path.join(base, 'spec.yaml')
                open(spec, 'w').write('dest_hostname: localhost\ndeploy_behaviour: error\nsyncs:\n  - src: %s/\n    dest: %s/\n' % (src, os.path.join(base, 'dst')))
                a = ['--spec', spec, '--all-destructive-behaviour', adb]
            r = l4.run_cli(a, env=sb.env(), timeout=90)
            ups = [l for l in sb.fake_log() if l[0] == 'scp']
            run.case(('trial', 'all-destructive-does-not-grant-deployment', adb, via), True, sample=dict(layer='L4', trial='all-destructive-does-not-grant-deployment', all_destructive=adb, deploy_from=via, rc=r['rc'], uploads=len(ups)) if adb == 'proceed' else None)
            run.count('trial:all-destructive-does-not-grant-deployment')
            if ups or r['rc'] == 0:
                viol(run, 'the deploy behaviour in force is the --deploy flag if given, otherwise the spec-file value, otherwise the default prompt (an unanswered prompt uploads nothing and fails the run); --all-destructive-behaviour does not touch it',
                     all_destructive=adb, deploy_from=via, args=a, rc=r['rc'], uploads=[l[1] for l in ups], stderr=r['err'][-300:]); return
    shutil.rmtree(base, ignore_errors=True)


def _in_mount_namespace(script, timeout=120):
    """runs a bash script in a private mount namespace (needs root); returns (rc, stdout) or None when that is not possible here"""
    try:
        p = subprocess.run(['unshare', '-m', 'bash', '-c', script], capture_output=True, text=True, timeout=timeout)
    except (OSError, subprocess.SubprocessError):
        return None
    return p.returncode, p.stdout + p.stderr


@trial('C17', 'C01')
def tree_across_file_systems(run, sb):
    """a source tree that spans several file systems (two freshly made tmpfs volumes mounted inside it: their directories have the same inode
    numbers): every entry is listed and copied"""
    base = os.path.join(sb.dir, 'taf'); src, dst = os.path.join(base, 'src'), os.path.join(base, 'dst')
    os.makedirs(os.path.join(src, 'vol1')); os.makedirs(os.path.join(src, 'vol2')); open(os.path.join(src, 'top'), 'w').write('t')
    script = f'''set -e
mount -t tmpfs none {src}/vol1; mount -t tmpfs none {src}/vol2
for v in vol1 vol2; do mkdir -p {src}/$v/data/deeper {src}/$v/other; echo x > {src}/$v/data/file.txt; echo y > {src}/$v/data/deeper/file.txt; echo z > {src}/$v/other/file.txt; done
set +e
{C.CLI_BIN} {src}/ {dst}/ --no-progress > {base}/out.txt 2>&1; echo "rc=$?"
echo "src=$(find {src} | wc -l) dst=$(find {dst} | wc -l)"
'''
    res = _in_mount_namespace(script)
    if res is None or 'rc=' not in res[1]:
        run.count('trial:tree-across-file-systems:mount-not-possible'); shutil.rmtree(base, ignore_errors=True); return
    import re
    m1 = re.search(r'rc=(\d+)', res[1]); m2 = re.search(r'src=(\d+) dst=(\d+)', res[1])
    rc = int(m1.group(1)); ns, nd = (int(m2.group(1)), int(m2.group(2))) if m2 else (0, -1)
    run.case(('trial', 'tree-across-file-systems'), True, sample=dict(layer='L4', trial='tree-across-file-systems', rc=rc, source_entries=ns, destination_entries=nd))
    run.count('trial:tree-across-file-systems')
    if rc == 0 and ns != nd:
        viol(run, 'listing a folder reports every entry beneath it exactly once, for every tree shape (here: a tree across three file systems whose directories share inode numbers)',
             rc=rc, source_entries=ns, destination_entries=nd); return
    shutil.rmtree(base, ignore_errors=True)


@trial('C08', 'C07', 'C11')
def destination_fills_up(run, sb):
    """the destination file system fills up in the middle of a file of several parts (a tmpfs of 1.5 MiB, a file of 2.5 MiB); then there is room
    again and the same sync runs once more with overwriting permitted: it must converge (no truncated file stamped with the source's time)"""
    base = os.path.join(sb.dir, 'dfu'); src, dst = os.path.join(base, 'src'), os.path.join(base, 'dst')
    os.makedirs(src); os.makedirs(dst)
    data = l3.content(5, 2621440)
    open(os.path.join(src, 'big.bin'), 'wb').write(data); os.utime(os.path.join(src, 'big.bin'), ns=(10**18, 10**18))
    script = f'''mount -t tmpfs -o size=1536k none {dst} || exit 9
{C.CLI_BIN} {src}/ {dst}/ --no-progress > {base}/o1.txt 2>&1; echo "rc1=$?"
echo "size1=$(stat -c %s {dst}/big.bin 2>/dev/null || echo none) mt1=$(stat -c %Y {dst}/big.bin 2>/dev/null || echo none)"
mount -o remount,size=16m {dst}
{C.CLI_BIN} {src}/ {dst}/ --no-progress --all-destructive-behaviour proceed > {base}/o2.txt 2>&1; echo "rc2=$?"
cmp -s {src}/big.bin {dst}/big.bin && echo same=1 || echo same=0
'''
    res = _in_mount_namespace(script)
    if res is None or 'rc1=' not in res[1]:
        run.count('trial:destination-fills-up:mount-not-possible'); shutil.rmtree(base, ignore_errors=True); return
    import re
    g = lambda k: (re.search(k + r'=(\S+)', res[1]) or [None, None])[1]
    run.case(('trial', 'destination-fills-up'), True, sample=dict(layer='L4', trial='destination-fills-up', first_rc=g('rc1'), partial_size=g('size1'), rerun_rc=g('rc2'), converged=g('same')))
    run.count('trial:destination-fills-up')
    if g('rc1') == '0' and g('same') != '1':
        viol(run, 'exit 0 only if the file was written completely', first_rc=0); return
    if g('same') != '1' or g('rc2') != '0':
        viol(run, 're-running the same sync with overwriting permitted always converges to the mirror state (a destination that ran out of space in the middle of a file must not keep a truncated file stamped with the source\'s time)',
             first_rc=g('rc1'), partial_size=g('size1'), partial_mtime_s=g('mt1'), source_mtime_s=10**9, rerun_rc=g('rc2'), rerun_output=open(os.path.join(base, 'o2.txt')).read()[-300:] if os.path.exists(os.path.join(base, 'o2.txt')) else ''); return
    shutil.rmtree(base, ignore_errors=True)


# ------------------------------------------------------------------ round 11
@trial('C18', 'C16')
def arguments_that_are_not_utf8(run, sb):
    """an argument vector is bytes: an argument that is not valid UTF-8 - as a path, as the value of an option, next to `--doer` - ends with
    the usage status 2 and a message, like any other argument clap cannot take; it is not a panic (finding C18-F13: `std::env::args()` in main)"""
    base = os.path.join(sb.dir, 'nu8'); os.makedirs(os.path.join(base, 's'))
    s, d = os.path.join(base, 's'), os.path.join(base, 'd')
    vectors = [[b'\xff', d], [s, os.fsencode(d) + b'\xe9'], ['--filter', b'+\xff', s, d], ['--dry-run', s, d, b'--\xfe'], ['--doer', b'\xff'],
               ['--spec', b'/nonexistent\xff.yaml'], ['--dest-file-newer', b'overwrit\xe9', s, d]]
    for k, args in enumerate(vectors):
        r = run_cli_bytes(args, sb)
        run.case(('trial', 'non-utf8-argument', k), True, sample=dict(layer='L4', trial='non-utf8-argument', case=k, rc=r['rc']))
        run.count(f'trial:non-utf8-argument:rc={r["rc"]}')
        if r['timeout'] or r['rc'] != 2 or 'panicked at' in r['err'] or not r['err'].strip():
            viol(run, 'every argument vector ends with a documented exit status (2 for usage errors) and a message - never a panic',
                 args=[a.hex() if isinstance(a, bytes) else a for a in args], rc=r['rc'], stderr=r['err'][-400:]); return
    if os.path.exists(d):
        viol(run, 'a rejected argument vector touches nothing', created=d)
    shutil.rmtree(base, ignore_errors=True)


def run_cli_bytes(args, sb):
    return l4.run_cli(list(args), env=sb.env(), timeout=30)


@trial('C05')
def dry_run_of_a_big_change(run, sb):
    """more than a thousand deletions and more than a thousand creations in one sync: the dry run names every one of them, at the default verbosity"""
    base = os.path.join(sb.dir, 'drb'); src, dst = os.path.join(base, 'src'), os.path.join(base, 'dst')
    n_new, n_old = 1130, 1070
    l3.make_tree(src, [('', 'D')] + [(f'new{i:04d}.txt', 'F', b'n', 10**18) for i in range(n_new)])
    l3.make_tree(dst, [('', 'D')] + [(f'old{i:04d}.txt', 'F', b'o', 10**18) for i in range(n_old)])
    r = l4.run_cli([src + '/', dst + '/', '--dry-run', '--no-progress'], env=sb.env(), timeout=120)
    out = r['out'] + r['err']
    missing_new = [i for i in range(n_new) if f'new{i:04d}.txt' not in out]
    missing_old = [i for i in range(n_old) if f'old{i:04d}.txt' not in out]
    run.case(('trial', 'dry-run-of-a-big-change'), True, sample=dict(layer='L4', trial='dry-run-of-a-big-change', rc=r['rc'], creations=n_new, deletions=n_old, unnamed=len(missing_new) + len(missing_old)))
    run.count('trial:dry-run-of-a-big-change')
    if r['rc'] != 0 or missing_new or missing_old:
        viol(run, 'a dry run announces every deletion and every creation the real run would make (here: 1070 deletions and 1130 creations in one sync)', rc=r['rc'],
             creations_not_named=len(missing_new), deletions_not_named=len(missing_old), first_unnamed=([f'new{i:04d}.txt' for i in missing_new[:2]] + [f'old{i:04d}.txt' for i in missing_old[:2]]), tail=out[-300:]); return
    shutil.rmtree(base, ignore_errors=True)


@trial('C17', 'C01', 'C06')
def root_name_repeats_below_the_root(run, sb):
    """the root is given as a relative path and its own name occurs again right below it (proj/proj/..., also with a filter that names the inner
    folder): the listing is relative to the root once"""
    base = os.path.join(sb.dir, 'rnr'); os.makedirs(base)
    ents = [('', 'D'), ('main.py', 'F', b'outer', 10**18), ('setup.py', 'F', b'outer-setup', 10**18), ('proj', 'D'), ('proj/main.py', 'F', b'inner', 10**18), ('proj/setup.py', 'F', b'inner-setup', 10**18),
            ('proj/proj', 'D'), ('proj/proj/deep.py', 'F', b'deep', 10**18), ('proj/build', 'D'), ('proj/build/o.bin', 'F', b'obj', 10**18), ('build', 'D'), ('build/top.bin', 'F', b'top', 10**18)]
    l3.make_tree(os.path.join(base, 'proj'), ents)
    want = l3.snapshot(os.path.join(base, 'proj'))
    for k, (spelling, filt) in enumerate([('proj', []), ('proj/', []), ('proj', ['--filter', '-proj/build']), ('./proj', []), ('proj/', ['--filter', '-proj/proj/.*'])]):
        dst = os.path.join(base, f'out{k}')
        r = l4.run_cli([spelling, dst + ('/' if spelling.endswith('/') else '')] + filt + ['--no-progress'], env=sb.env(), cwd=base, timeout=60)
        got = l3.snapshot(dst)
        exp = dict(want)
        if filt and filt[1] == '-proj/build':
            exp = {p: v for p, v in want.items() if not (p == b'proj/build' or p.startswith(b'proj/build/'))}
        if filt and filt[1] == '-proj/proj/.*':
            exp = {p: v for p, v in want.items() if not p.startswith(b'proj/proj/')}
        run.case(('trial', 'root-name-repeats', k), True, sample=dict(layer='L4', trial='root-name-repeats-below-the-root', spelling=spelling, filters=filt, rc=r['rc'], entries=len(got)))
        run.count('trial:root-name-repeats-below-the-root')
        if r['rc'] != 0 or got != exp:
            diff = sorted(p.decode() for p in set(exp) ^ set(got))[:6] or sorted(p.decode() for p in exp if got.get(p) != exp[p])[:6]
            viol(run, 'every entry below the root is listed once, by its path relative to the root, and the filters see that path (here: the root is a relative path whose name occurs again below it)',
                 root_spelling=spelling, filters=filt, cwd='<the folder that holds proj>', rc=r['rc'], differing_paths=diff, stderr=r['err'][-300:]); return
    shutil.rmtree(base, ignore_errors=True)


@trial('C18', 'C16')
def edge_values_of_numeric_options(run, sb):
    """--remote-port at the ends of its range with one and with both sides remote, and outside it: a documented status and a message, never a panic"""
    base = os.path.join(sb.dir, 'evn'); src = os.path.join(base, 'src')
    l3.make_tree(src, [('', 'D'), ('f', 'F', b'x', 10**18)])
    sb.place_remote('same')
    k = 0
    for port in ('65535', '65534', '1', '0', '65536', '-1', '99999999999999999999'):
        for placement in ('dest', 'both', 'src'):
            dst = os.path.join(base, f'd{k}'); k += 1
            a = [('localhost:' if placement in ('both', 'src') else '') + src + '/', ('localhost:' if placement in ('both', 'dest') else '') + dst + '/', '--remote-port', port, '--no-progress']
            if port.startswith('-'):
                a = a[:2] + ['--remote-port=' + port, '--no-progress']
            r = l4.run_cli(a, env=sb.env(), timeout=60)
            subprocess.run(['pkill', '-f', sb.remote + '/rjrssync/rjrssync'], capture_output=True)
            run.case(('trial', 'edge-values-of-numeric-options', port, placement), True, sample=dict(layer='L4', trial='edge-values-of-numeric-options', remote_port=port, remote=placement, rc=r['rc']) if placement == 'both' else None)
            run.count(f'trial:edge-values-of-numeric-options:rc={r["rc"]}')
            if r['timeout'] or r['rc'] not in (0, 2, 10, 11, 12) or 'panicked at' in r['err'] or (r['rc'] != 0 and not r['err'].strip()):
                viol(run, 'every argument vector ends with a documented exit status and, when it fails, an error message - never a panic', args=a, rc=r['rc'], stderr=r['err'][-400:]); return
    shutil.rmtree(base, ignore_errors=True)


@trial('C16', 'C03')
def root_is_subject_to_both_deletion_behaviours(run, sb):
    """the destination root has to make way (a file where the source is a folder, a populated folder where the source is a file): the root-deletion
    behaviour AND the entry-deletion behaviour in force - from the flag, from the spec file, from the flag over the spec file - both have to agree"""
    base = os.path.join(sb.dir, 'rsb'); os.makedirs(base)
    k = 0
    for shape in ('file-in-the-way', 'folder-in-the-way'):
        for entry in ('error', 'skip', 'delete'):
            for via in ('flags', 'spec', 'flag-over-spec'):
                b = os.path.join(base, f'c{k}'); k += 1; os.makedirs(b)
                src, dst = os.path.join(b, 'src'), os.path.join(b, 'dst')
                if shape == 'file-in-the-way':
                    l3.make_tree(src, [('', 'D'), ('a.txt', 'F', b'new', 10**18)]); l3.make_tree(dst, [('', 'F', b'precious', 10**18)])
                else:
                    l3.make_tree(src, [('', 'F', b'new', 10**18)]); l3.make_tree(dst, [('', 'D'), ('k1.txt', 'F', b'keep1', 10**18), ('sub', 'D'), ('sub/k2.txt', 'F', b'keep2', 10**18)])
                before = l3.snapshot(dst)
                spec = os.path.join(b, 'spec.yaml')
                if via == 'flags':
                    a = [src, dst, '--dest-root-needs-deleting', 'delete', '--dest-entry-needs-deleting', entry]
                elif via == 'spec':
                    _write_spec(spec, [dict(src=src, dest=dst, dest_root_needs_deleting_behaviour='delete', dest_entry_needs_deleting_behaviour=entry)]); a = ['--spec', spec]
                else:
                    other = 'delete' if entry != 'delete' else 'error'
                    _write_spec(spec, [dict(src=src, dest=dst, dest_root_needs_deleting_behaviour='delete', dest_entry_needs_deleting_behaviour=other)]); a = ['--spec', spec, '--dest-entry-needs-deleting', entry]
                r = l4.run_cli(a + ['--no-progress'], env=sb.env(), timeout=60)
                after = l3.snapshot(dst)
                run.case(('trial', 'root-both-behaviours', shape, entry, via), True, sample=dict(layer='L4', trial='root-is-subject-to-both-deletion-behaviours', shape=shape, entry_deletion=entry, given_by=via, rc=r['rc'], destination_unchanged=after == before) if via == 'flag-over-spec' else None)
                run.count(f'trial:root-both-behaviours:{entry}:rc={r["rc"]}')
                bad = None
                if entry == 'delete':
                    if r['rc'] != 0 or after != l3.snapshot(src): bad = 'with both behaviours delete the root is replaced by the source'
                elif after != before:
                    bad = f'entry deletion is {entry}: the destination keeps every byte and time stamp'
                elif entry == 'error' and r['rc'] == 0:
                    bad = 'entry deletion is error: the run exits non-zero'
                if bad:
                    viol(run, 'the destination root is deleted only if the root-deletion and the entry-deletion behaviour in force both resolve to delete; the behaviour in force is the flag, else the spec-file value', expected=bad,
                         shape=shape, entry_deletion=entry, given_by=via, args=a, rc=r['rc'], stderr=r['err'][-300:]); return
    shutil.rmtree(base, ignore_errors=True)


SPECIAL_NAMES = ['Thumbs.db', '.DS_Store', 'desktop.ini', '._clip', 'clip.part', 'clip.tmp', 'clip~', '.clip.swp', 'clip.bak', '.clip.rjrssync', 'clip.partial', 'lost+found', '.git', 'core', '.nfs0001', 'clip.crdownload', '.~lock.clip#']


@trial('C03', 'C11', 'C01', 'C06')
def names_other_tools_treat_specially(run, sb):
    """names that other tools use for housekeeping or for partial downloads (Thumbs.db, .DS_Store, X.part, X.tmp, X~ ...) are ordinary entries: a file
    X that appears in the source later does not cost its neighbour X.part, and such a file that a filter protects in a folder that is to be deleted stays"""
    base = os.path.join(sb.dir, 'nst'); src, dst = os.path.join(base, 'src'), os.path.join(base, 'dst')
    ents = [('', 'D'), ('media', 'D')] + [('media/' + n, 'F', ('neighbour ' + n).encode() * 3, 10**18 + i) for i, n in enumerate(SPECIAL_NAMES)]
    l3.make_tree(src, ents)
    r1 = l4.run_cli([src + '/', dst + '/', '--no-progress'], env=sb.env(), timeout=60)
    l3.make_tree(src, [('media/clip', 'F', l3.content(5, 30000), 2 * 10**18), ('media/lost+found.part', 'F', l3.content(6, 9000), 2 * 10**18), ('media/Thumbs', 'F', l3.content(7, 9000), 2 * 10**18)])
    r2 = l4.run_cli([src + '/', dst + '/', '--no-progress'], env=sb.env(), timeout=60)
    want, got = l3.snapshot(src), l3.snapshot(dst)
    run.case(('trial', 'special-names', 'later-arrival'), True, sample=dict(layer='L4', trial='names-other-tools-treat-specially', part='a file appears next to X.part / X.tmp / X~', rc=[r1['rc'], r2['rc']], entries=len(got)))
    run.count('trial:names-other-tools-treat-specially')
    if r1['rc'] != 0 or r2['rc'] != 0 or want != got:
        diff = sorted(p.decode() for p in set(want) ^ set(got))[:6] or sorted(p.decode() for p in want if got.get(p) != want[p])[:6]
        viol(run, 'after a run that exits 0 the destination mirrors the source: every file has its own content (here: files named like partial downloads and housekeeping files, and a file that appears next to them in a second run)',
             rc=[r1['rc'], r2['rc']], differing_paths=diff, stderr=r2['err'][-300:]); return
    # a folder that is to be deleted holds such files, which filters protect (or whose deletion the prompt refuses)
    shutil.rmtree(base, ignore_errors=True)
    l3.make_tree(src, [('', 'D'), ('a.txt', 'F', b'a', 10**18)])
    keep = ['Thumbs.db', '.DS_Store', 'desktop.ini', '._x']
    for k, mode in enumerate(('filter', 'prompt')):
        shutil.rmtree(dst, ignore_errors=True)
        l3.make_tree(dst, [('', 'D'), ('a.txt', 'F', b'a', 10**18), ('old', 'D'), ('old/x.txt', 'F', b'stale', 10**18)] + [('old/' + n, 'F', b'precious ' + n.encode(), 981173106 * 10**9) for n in keep])
        before = {p: v for p, v in l3.snapshot(dst).items() if os.path.basename(p).decode() in keep}
        if mode == 'filter':
            a = [src + '/', dst + '/', '--no-progress'] + sum((['--filter', '-(.*/)?' + n.replace('.', '\\.')] for n in keep), [])
            env = sb.env()
        else:
            a = [src + '/', dst + '/', '--no-progress', '--dest-entry-needs-deleting', 'prompt']
            env = sb.env({'RJRSSYNC_TEST_PROMPT_RESPONSE': ','.join(f'1:.*{n.replace(".", "[.]")}.*:Skip (just this occurence)' for n in keep) + ',9:.*needs deleting.*:Delete (just this occurence)'})
        r = l4.run_cli(a, env=env, timeout=60)
        after = {p: v for p, v in l3.snapshot(dst).items() if os.path.basename(p).decode() in keep}
        run.case(('trial', 'special-names', mode), True, sample=dict(layer='L4', trial='names-other-tools-treat-specially', part='kept by ' + mode + ' inside a folder that is to be deleted', rc=r['rc'], kept=len(after)))
        if after != before:
            viol(run, 'a destination entry is deleted only if the behaviour in force agrees (a skipped entry keeps its bytes and timestamp) and an entry the filters exclude is not touched - also when the folder around it is to be deleted',
                 protected_by=mode, args=a, rc=r['rc'], lost_or_changed=sorted(p.decode() for p in before if after.get(p) != before[p]), stderr=r['err'][-300:]); return
    shutil.rmtree(base, ignore_errors=True)


@trial('C02')
def source_inodes_are_not_written(run, sb):
    """the source side only reads: after a run - successful or failing, local or with a remote source - no source entry's inode change time has moved
    (a content or attribute write of any kind, even one that writes the old values back, moves it)"""
    base = os.path.join(sb.dir, 'sin'); src = os.path.join(base, 'src')
    ents = [('', 'D'), ('small', 'F', b's', 10**18), ('big', 'F', l3.content(3, 300000), 10**18 + 5), ('empty', 'F', b'', 10**18), ('sub', 'D'), ('sub/f', 'F', l3.content(4, 5000), 123456789), ('ln', 'L', 'small')]
    l3.make_tree(src, ents)
    sb.place_remote('same')
    def stamps():
        out = {}
        for dp, dn, fn in os.walk(src):
            for n in [''] + dn + fn:
                p = os.path.join(dp, n) if n else dp
                st = os.lstat(p); out[os.path.relpath(p, src)] = (st.st_ctime_ns, st.st_mtime_ns)
        return out
    time.sleep(0.02)
    for k, (place, extra) in enumerate([('local', []), ('remote-src', []), ('local', ['--dry-run']), ('local-dest-in-the-way', [])]):
        dst = os.path.join(base, f'dst{k}')
        if place == 'local-dest-in-the-way':
            l3.make_tree(dst, [('', 'D'), ('big', 'D'), ('big/x', 'F', b'x', 10**18)]); extra = ['--dest-entry-needs-deleting', 'error']
        before = stamps()
        r = l4.run_cli([('localhost:' if place == 'remote-src' else '') + src + '/', dst + '/', '--no-progress'] + extra, env=sb.env(), timeout=60)
        after = stamps()
        run.case(('trial', 'source-inodes', place, tuple(extra)), True, sample=dict(layer='L4', trial='source-inodes-are-not-written', placement=place, extra=extra, rc=r['rc']))
        run.count('trial:source-inodes-are-not-written')
        moved = sorted(p for p in before if after.get(p) != before[p]) + sorted(p for p in after if p not in before)
        if moved:
            viol(run, 'nothing under the source path is created, deleted, renamed or altered; the source-side doer only reports its root, lists entries and reads file contents (the inode change time of a source entry moved: something wrote to it)',
                 placement=place, extra=extra, rc=r['rc'], entries_written_to=moved[:6]); return
    shutil.rmtree(base, ignore_errors=True)


@trial('C15')
def slow_remote_end(run, sb):
    """a doer of the right version on a slow link: the key reaches it a good while (12 s) after it announced itself, and its answer takes as long
    again to arrive - the order of the handshake lines is the causal one, only slow: the launch succeeds (two variants run side by side)"""
    base = os.path.join(sb.dir, 'sre'); src = os.path.join(base, 'src')
    l3.make_tree(src, [('', 'D'), ('f', 'F', b'x', 10**18)])
    sb.place_remote('same')
    variants = {'key-delivered-late': '(sleep 12; exec cat) | "$REAL_SSH" "$@"\n',
                'answer-delivered-late': '"$REAL_SSH" "$@" 2> >(while IFS= read -r l; do case "$l" in *Waiting*) sleep 12;; esac; echo "$l" >&2; done)\n'}
    procs = {}
    for vname, body in variants.items():
        bindir = _wrap_ssh(sb, 'bin-' + vname, body)
        env = sb.env(); env['PATH'] = bindir + ':' + env['PATH']
        a = [src + '/', 'localhost:' + os.path.join(base, 'dst-' + vname) + '/', '--deploy', 'error', '--no-progress']
        procs[vname] = (a, time.time(), subprocess.Popen([C.CLI_BIN] + a, env=env, stdin=subprocess.DEVNULL, stdout=subprocess.PIPE, stderr=subprocess.PIPE))
    for vname, (a, t0, p) in procs.items():
        try:
            out, err = p.communicate(timeout=90); rc = p.returncode
        except subprocess.TimeoutExpired:
            p.kill(); out, err = p.communicate(); rc = None
        wall = time.time() - t0
        ok = rc == 0 and os.path.exists(os.path.join(base, 'dst-' + vname, 'f'))
        run.case(('trial', 'slow-remote-end', vname), True, sample=dict(layer='L4', trial='slow-remote-end', variant=vname, rc=rc, wall_s=round(wall, 1)))
        run.count(f'trial:slow-remote-end:rc={rc}')
        if not ok:
            for _, _, q in procs.values():
                if q.poll() is None: q.kill()
            subprocess.run(['pkill', '-f', sb.remote + '/rjrssync/rjrssync'], capture_output=True)
            viol(run, 'the launch succeeds for every causally possible interleaving of the handshake lines, however slowly they arrive; a doer that announced exactly the boss\'s version is used',
                 variant=vname, args=a, rc=rc, wall_s=round(wall, 1), stderr=err.decode(errors='replace')[-400:]); return
    subprocess.run(['pkill', '-f', sb.remote + '/rjrssync/rjrssync'], capture_output=True)
    shutil.rmtree(base, ignore_errors=True)


@trial('C04', 'C17')
def mount_point_inside_the_destination(run, sb):
    """a folder inside the destination tree is a mount point of another file system (a tmpfs) where the source has an ordinary folder with files:
    the first run writes through it, the identical second run finds everything in place"""
    base = os.path.join(sb.dir, 'mpd'); src, dst = os.path.join(base, 'src'), os.path.join(base, 'dst')
    l3.make_tree(src, [('', 'D'), ('top', 'F', b't', 10**18), ('media', 'D'), ('media/f1', 'F', b'one', 10**18), ('media/deep', 'D'), ('media/deep/f2', 'F', b'two', 10**18 + 7)])
    os.makedirs(os.path.join(dst, 'media'))
    script = f'''set -e
mount -t tmpfs none {dst}/media
set +e
{C.CLI_BIN} {src}/ {dst}/ --no-progress > {base}/out1.txt 2>&1; echo "rc1=$?"
{C.CLI_BIN} {src}/ {dst}/ --no-progress -v > {base}/out2.txt 2>&1; echo "rc2=$?"
echo "src=$(find {src} | wc -l) dst=$(find {dst} | wc -l)"
'''
    res = _in_mount_namespace(script)
    if res is None or 'rc2=' not in res[1]:
        run.count('trial:mount-point-inside-the-destination:mount-not-possible'); shutil.rmtree(base, ignore_errors=True); return
    import re
    rc1, rc2 = int(re.search(r'rc1=(\d+)', res[1]).group(1)), int(re.search(r'rc2=(\d+)', res[1]).group(1))
    out2 = open(os.path.join(base, 'out2.txt'), errors='replace').read()
    m2 = re.search(r'src=(\d+) dst=(\d+)', res[1])
    run.case(('trial', 'mount-point-inside-the-destination'), True, sample=dict(layer='L4', trial='mount-point-inside-the-destination', rc=[rc1, rc2], nothing_to_do='Nothing to do' in out2))
    run.count('trial:mount-point-inside-the-destination')
    if rc1 == 0 and (rc2 != 0 or 'Nothing to do' not in out2):
        viol(run, 'if a sync exits 0 without skips, running the identical command again reports that there is nothing to do (here: a destination folder is the mount point of another file system)',
             rc=[rc1, rc2], second_run_output=out2[-400:]); return
    if rc1 == 0 and m2 and m2.group(1) != m2.group(2):
        viol(run, 'listing a folder reports every entry beneath it exactly once, for every tree shape (here: a destination with a mount point inside)', rc=[rc1, rc2], entries=[m2.group(1), m2.group(2)]); return
    shutil.rmtree(base, ignore_errors=True)


@trial('C06', 'C16', 'C07')
def spec_syncs_with_repeated_filter_lists(run, sb):
    """consecutive syncs of a spec file with the SAME non-empty filter list (also A, B, B), where an earlier sync leaves one side unlisted (its
    destination root does not exist yet; its source root is a file): each sync behaves exactly like the same sync given alone as SRC DEST --filter ..."""
    base = os.path.join(sb.dir, 'rfl')
    A, B = ['-.*\\.log'], ['-secret', '-.*\\.tmp', '-keep(/.*)?']
    def build(root):
        os.makedirs(root)
        s1 = os.path.join(root, 's1'); l3.make_tree(s1, [('', 'D'), ('a.log', 'F', b'log', 10**18), ('a.txt', 'F', b'a', 10**18)])
        s2 = os.path.join(root, 's2'); l3.make_tree(s2, [('', 'F', b'just a file', 10**18)])
        s3 = os.path.join(root, 's3'); l3.make_tree(s3, [('', 'D'), ('secret', 'F', b's', 10**18), ('notes.tmp', 'F', b'n', 10**18), ('x.log', 'F', b'l', 10**18), ('pub.txt', 'F', b'p', 10**18)])
        d3 = os.path.join(root, 'd3'); l3.make_tree(d3, [('', 'D'), ('keep', 'D'), ('keep/precious.txt', 'F', b'precious', 10**18), ('mine.tmp', 'F', b'm', 10**18), ('stale.txt', 'F', b'st', 10**18)])
        s4 = os.path.join(root, 's4'); l3.make_tree(s4, [('', 'D'), ('secret', 'F', b's4', 10**18), ('t.tmp', 'F', b't', 10**18), ('ok.txt', 'F', b'o', 10**18)])
        return [(s1 + '/', os.path.join(root, 'd1') + '/', A), (s2, os.path.join(root, 'd2'), B), (s3 + '/', d3 + '/', B), (s4 + '/', os.path.join(root, 'd4') + '/', B)]
    in_spec = build(os.path.join(base, 'spec')); alone = build(os.path.join(base, 'alone'))
    spec = os.path.join(base, 'spec.yaml')
    _write_spec(spec, [dict(src=s, dest=d, filters='[ ' + ', '.join("'" + f + "'" for f in fl) + ' ]') for s, d, fl in in_spec])
    r = l4.run_cli(['--spec', spec, '--no-progress'], env=sb.env(), timeout=120)
    rcs = []
    for s, d, fl in alone:
        ra = l4.run_cli([s, d, '--no-progress'] + sum((['--filter', f] for f in fl), []), env=sb.env(), timeout=60); rcs.append(ra['rc'])
    run.case(('trial', 'spec-repeated-filter-lists'), True, sample=dict(layer='L4', trial='spec-syncs-with-repeated-filter-lists', rc_spec=r['rc'], rc_alone=rcs))
    run.count('trial:spec-syncs-with-repeated-filter-lists')
    if (r['rc'] == 0) != all(x == 0 for x in rcs):
        viol(run, 'a sync described in a spec file behaves exactly like the same sync given as SRC DEST', filter_lists=[fl for _, _, fl in in_spec], rc_spec=r['rc'], rc_alone=rcs, stderr=r['err'][-400:]); return
    for i, ((_, d_spec, fl), (_, d_alone, _)) in enumerate(zip(in_spec, alone)):
        a, b = l3.snapshot(d_spec.rstrip('/')), l3.snapshot(d_alone.rstrip('/'))
        if a != b:
            viol(run, 'a sync described in a spec file behaves exactly like the same sync given as SRC DEST: an entry takes part iff it survives that sync\'s filter list, on both sides alike',
                 sync_index=i, filters=fl, filter_lists=[x for _, _, x in in_spec], only_in_spec_run=sorted(p.decode() for p in set(a) - set(b)), only_in_single_run=sorted(p.decode() for p in set(b) - set(a)),
                 differing=sorted(p.decode() for p in set(a) & set(b) if a[p] != b[p])); return
    shutil.rmtree(base, ignore_errors=True)


@trial('C10')
def nonces_on_the_recorded_wire(run, sb):
    """the TCP link of a real run (remote destination / remote source; automatic port and --remote-port) goes through a recording proxy, the key is
    taken from what the boss writes to ssh: every frame of either direction authenticates under a nonce of its own - no nonce serves twice under one key"""
    import glob, socket
    base = os.path.join(sb.dir, 'now'); src = os.path.join(base, 'src')
    l3.make_tree(src, [('', 'D'), ('a', 'F', b'a' * 100, 10**18), ('b', 'F', l3.content(2, 20000), 10**18), ('sub', 'D'), ('sub/c', 'F', b'c', 10**18)])
    sb.place_remote('same')
    s_ = socket.socket(); s_.bind(('127.0.0.1', 0)); free_port = s_.getsockname()[1]; s_.close()
    for k, (place, extra) in enumerate([('dest', []), ('dest', ['--remote-port', str(free_port)]), ('src', ['--remote-port', str(free_port)])]):
        rec, klog = os.path.join(base, f'rec{k}'), os.path.join(base, f'keys{k}')
        a = [('localhost:' if place == 'src' else '') + src + '/', ('localhost:' if place == 'dest' else '') + os.path.join(base, f'dst{k}') + '/', '--deploy', 'error', '--no-progress'] + extra
        r = l4.run_cli(a, env=sb.env({'FAKE_RECORD': rec, 'FAKE_KEY_LOG': klog}), timeout=60)
        subprocess.run(['pkill', '-f', sb.remote + '/rjrssync/rjrssync'], capture_output=True)
        files = sorted(glob.glob(rec + '.*'))
        keys = [l.strip() for l in open(klog).read().split('\n') if l.strip()] if os.path.exists(klog) else []
        if r['rc'] != 0 or len(keys) != 1 or len(files) != 2:
            run.count('trial:nonces-on-the-recorded-wire:not-recorded'); continue
        ans = C.run_harness(['wirenonces ' + keys[0].zfill(32) + ' ' + ' '.join(C.X(f_) for f_ in files)])[0][0]
        per_dir = [[int(x) for x in part.split(',') if x] for part in ans.split('|')] if '|' in ans else []
        flat = [n for part in per_dir for n in part]
        if not flat:
            run.count('trial:nonces-on-the-recorded-wire:not-evaluated'); continue
        run.case(('trial', 'nonces-on-the-recorded-wire', place, tuple(extra[:1])), True, sample=dict(layer='L4', trial='nonces-on-the-recorded-wire', remote=place, remote_port=bool(extra), frames=[len(p) for p in per_dir], nonces_distinct=len(set(flat)) == len(flat)))
        run.count('trial:nonces-on-the-recorded-wire'); run.count('trial:nonces-on-the-recorded-wire:frames', len(flat))
        if -1 in flat or len(set(flat)) != len(flat):
            dup = sorted({n for n in flat if flat.count(n) > 1})
            viol(run, 'no nonce is used twice under one session key: every frame on the wire, in either direction, is sealed under a nonce of its own', remote=place, args=a,
                 nonce_of_each_frame_by_direction=dict(zip([os.path.basename(f_).rsplit('.', 1)[1] for f_ in files], [p[:12] for p in per_dir])), nonces_used_twice=dup[:6], frames_that_authenticate_under_no_expected_nonce=flat.count(-1)); return
    shutil.rmtree(base, ignore_errors=True)
