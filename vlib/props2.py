"""Checks for C12 and C04 (and the shared streams built on the doer / file-system model)."""
import json, os, re, shutil, subprocess, tempfile, time
from . import common as C
from . import l2, l3, l4, mirror as M, fsx
from . import regexgen as G
from .props import (general_l2, prop, prepare, l2_stream, corpus_l2, cmd_name, cmd_args, cmd_path, gen_mixed, oracle_no_command_through_link,
                    effective_dest_listing, effective_src_listing, sides_asked, is_mutating, parse_summary, trace_actions)


# ------------------------------------------------------------------ shared: the doer-model correspondence stream

def fsx_stream(run, n, label='doer-model'):
    """L3: generated worlds + command sequences through the doer model and the real doer (see fsx.py).  A disagreement is a
    broken correspondence; it is reported without a failing input unless one of the property oracles names one."""
    d = tempfile.mkdtemp(prefix='rjv-fsx-')
    try:
        cases = fsx.run_cases(run.rng, n, d)
    finally:
        shutil.rmtree(d, ignore_errors=True)
    bad = [c for c in cases if c.get('problem')]
    for c in cases:
        run.case((label, c['mline'][:4000]), len(c['cmds']) > 2, sample=dict(layer='L3', commands=[' '.join(m)[:80] for m, _ in c['cmds']][:8], stop=c.get('stop'), impl=c.get('impl', '')[:300]) if c['i'] % 97 == 0 else None)
        run.count(f'{label}:stop={c.get("stop")}')
        for m, _ in c['cmds'][:c.get('done', 0)]:
            run.count(f'{label}:cmd:{m[0]}')
        run.cov['traces_validated_against_impl'] += 1
    run.cov['disagreements_checked'] += len(cases)
    for c in cases:
        msg = fsx.oracle_effect_or_error(c)
        if msg:
            run.violation(dict(kind='oracle-failed-on-implementation', layer='L3', oracle='a creating / deleting command whose effect is not there was answered with an error', message=msg, **fsx.describe(c)))
            break
    for c in cases:
        msg = fsx.oracle_no_stamped_garbage(c)
        if msg:
            run.violation(dict(kind='oracle-failed-on-implementation', layer='L3', oracle='a file that carries the time sent with a transfer holds the bytes of the whole transfer', message=msg, **fsx.describe(c)))
            break
    for c in cases:
        msg = fsx.oracle_received_bytes(c)
        if msg:
            run.violation(dict(kind='oracle-failed-on-implementation', layer='L3', oracle='a completely received file holds the concatenation of its parts and the time sent with the last', message=msg, **fsx.describe(c)))
            break
    if bad:
        c = min(bad, key=lambda c: len(c['cmds']))
        run.violation(dict(kind='correspondence-broken', correspondence=f'L3/{label}', disagreeing_cases=len(bad), **fsx.describe(c),
                           note='the doer / file-system model and the real doer differ on this world and command sequence'), no_input=True)
    unprivileged_doer_stream(run)
    return cases


def unprivileged_doer_stream(run, label='unprivileged-doer'):
    """L3 as uid 65534: the real doer on a destination that is writable for it but holds files and folders of another owner (mode 666 / 777 /
    644 / 755): calls that the kernel refuses for ownership reasons (utimensat on a file one may write but does not own, open of a read-only
    file, creation in a folder one may not write) must be *answered with an error*; a command answered without one has taken full effect
    (bytes and time).  Root never sees these refusals, so the other streams cannot."""
    import subprocess
    def pre():
        os.setgroups([]); os.setgid(65534); os.setuid(65534)
    try:
        probe = subprocess.run([C.HARNESS_BIN, '--verif'], input=b'\n', capture_output=True, timeout=30, preexec_fn=pre)
    except (OSError, subprocess.SubprocessError):
        run.count(f'{label}:skipped:uid-65534-cannot-run-the-harness'); return
    if probe.returncode != 0:
        run.count(f'{label}:skipped:uid-65534-cannot-run-the-harness'); return
    d = tempfile.mkdtemp(prefix='rjv-unpriv-')
    try:
        os.chmod(d, 0o755)
        dst = os.path.join(d, 'dst'); os.makedirs(dst); os.chown(dst, 65534, 65534); os.chmod(dst, 0o777)
        T0 = 1_500_000_000
        def mk(rel, owner, mode, data=b'old contents'):
            pth = os.path.join(dst, rel)
            with open(pth, 'wb') as f: f.write(data)
            os.chown(pth, owner, owner); os.chmod(pth, mode); os.utime(pth, (T0, T0))
        mk('own', 65534, 0o644); mk('shared666', 12345, 0o666); mk('shared666b', 12345, 0o666, b'x' * 9000); mk('readonly', 12345, 0o644)
        os.makedirs(dst + '/theirs'); os.chown(dst + '/theirs', 12345, 12345); os.chmod(dst + '/theirs', 0o755)
        os.makedirs(dst + '/open777'); os.chown(dst + '/open777', 12345, 12345); os.chmod(dst + '/open777', 0o777)
        mt = 1_600_000_000_123_456_789
        new = l3.content(5, 5000)
        cases = [('own', [new]), ('shared666', [new]), ('shared666b', [new[:4096], new[4096:]]), ('readonly', [new]), ('theirs/new', [new]), ('open777/new', [new[:100], b'', new[100:]]), ('brand-new', [new])]
        lines = []
        for rel, parts in cases:
            cmds = [['SR', C.X(dst)]]
            for i, part in enumerate(parts):
                last = i == len(parts) - 1
                cmds.append(['CUF', C.X(rel), C.X(part), str(mt) if last else '-', '0' if last else '1'])
            lines.append(l3.l3_line(cmds, 20000))
        p = subprocess.run([C.HARNESS_BIN, '--verif'], input='\n'.join(lines) + '\n', capture_output=True, text=True, timeout=120, preexec_fn=pre, env=C.ENV)
        answers = [l[3:] for l in p.stdout.split('\n') if l.startswith('@@ ')]
        for (rel, parts), ans in zip(cases, answers + ['no answer'] * len(cases)):
            run.case((label, rel), True, sample=dict(layer='L3', uid=65534, path=rel, parts=len(parts), impl=ans[:200]))
            run.count(f'{label}:{"error" if "Error(" in ans else "ok"}'); run.cov['traces_validated_against_impl'] += 1
            if not ans.startswith('resp='):
                run.violation(dict(kind='oracle-failed-on-implementation', layer='L3', oracle='the doer answers', path=rel, impl=ans[:500])); break
            if 'Error(' in ans:
                continue
            pth = os.path.join(dst, rel)
            try:
                st = os.stat(pth); got = open(pth, 'rb').read()
            except OSError as e:
                st, got = None, None
            want = b''.join(parts)
            if got != want or st is None or st.st_mtime_ns != mt:
                run.violation(dict(kind='oracle-failed-on-implementation', layer='L3', oracle='a CreateOrUpdateFile sequence answered without an error has taken full effect: the bytes and the modification time sent',
                                   how='the real doer (in-process harness) running as uid 65534 in a mode-777 folder; the file belongs to uid 12345 with the mode shown',
                                   path=rel, mode=oct(os.stat(pth).st_mode & 0o777) if st else None, owner=st.st_uid if st else None, impl=ans[:400],
                                   bytes_as_sent=got == want, mtime_found=st.st_mtime_ns if st else None, mtime_sent=mt))
                break
        # creating and deleting where the folder belongs to someone else: each command on its own, answered with an error or effective
        mk('theirs/victim', 12345, 0o666); os.symlink('victim', dst + '/theirs/lnk'); os.makedirs(dst + '/theirs/sub'); mk('open777/mine', 65534, 0o644); os.makedirs(dst + '/sticky'); os.chmod(dst + '/sticky', 0o1777)
        mk('sticky/notmine', 12345, 0o666)
        cmds2 = [('DF', 'theirs/victim', lambda pth: not os.path.lexists(pth)), ('DS', 'theirs/lnk', lambda pth: not os.path.lexists(pth)), ('DD', 'theirs/sub', lambda pth: not os.path.lexists(pth)),
                 ('CF', 'theirs/newdir', lambda pth: os.path.isdir(pth)), ('CS', 'theirs/newlnk', lambda pth: os.path.islink(pth)), ('DF', 'open777/mine', lambda pth: not os.path.lexists(pth)),
                 ('DF', 'sticky/notmine', lambda pth: not os.path.lexists(pth)), ('CF', 'open777/okdir', lambda pth: os.path.isdir(pth)), ('DF', 'readonly', lambda pth: not os.path.lexists(pth))]
        lines2 = []
        for kind, rel, _ in cmds2:
            c_ = [kind, C.X(rel)] + (['F', 'N' + b'victim'.hex()] if kind == 'CS' else []) + (['F'] if kind == 'DS' else [])
            lines2.append(l3.l3_line([['SR', C.X(dst)], c_], 20000))
        p2 = subprocess.run([C.HARNESS_BIN, '--verif'], input='\n'.join(lines2) + '\n', capture_output=True, text=True, timeout=120, preexec_fn=pre, env=C.ENV)
        answers2 = [l[3:] for l in p2.stdout.split('\n') if l.startswith('@@ ')]
        for (kind, rel, effect), ans in zip(cmds2, answers2 + ['no answer'] * len(cmds2)):
            run.case((label, kind, rel), True, sample=None)
            run.count(f'{label}:{kind}:{"error" if "Error(" in ans else "ok"}'); run.cov['traces_validated_against_impl'] += 1
            if not ans.startswith('resp=') or ('Error(' not in ans and not effect(os.path.join(dst, rel))):
                run.violation(dict(kind='oracle-failed-on-implementation', layer='L3', oracle='a creating / deleting command that the kernel refuses for ownership reasons is answered with an error (answered without one, it has taken effect)',
                                   how='the real doer (in-process harness) running as uid 65534; the folder or file belongs to uid 12345', command=f'{kind} {rel}', impl=ans[:400]))
                break
    finally:
        subprocess.run(['chmod', '-R', 'u+rwx', d], capture_output=True); shutil.rmtree(d, ignore_errors=True)


# ------------------------------------------------------------------ C12

def oracle_link_recreate(r):
    """a link present on both sides (scripted listings) is re-created iff its text differs or (the destination
    differentiates and the kinds differ); evaluated on the implementation's destination trace of an ok run"""
    ir, sc = r['impl_r'], r['sc']
    if ir.get('res') != 'ok' or sc.dry or 'Marker(Done)' not in ir.get('dest', []):
        return None
    sa = sides_asked(sc)
    if not (sa[0] and sa[1]) or sc.beh[3] != 'o' or sc.beh[4] != 'o':
        return None          # (a deletion that is skipped by a behaviour choice keeps the link: C03's business)
    src, dst = effective_src_listing(sc), effective_dest_listing(sc)
    diff = bool(sc.dest_reply[2]) if sc.dest_reply[0] == 'R' else False
    d = ir.get('dest', [])
    touched = {cmd_path(c) for c in d if cmd_name(c) in ('DeleteSymlink', 'CreateSymlink')}
    deleted_folders = [cmd_path(c) for c in d if cmd_name(c) == 'DeleteFolder']
    for p, s in src.items():
        t = dst.get(p)
        if not (s.startswith('L:') and t and t.startswith('L:')):
            continue
        if any(p.startswith(f + '/') for f in deleted_folders):
            continue
        _, sk, st = s.split(':', 2); _, dk, dt = t.split(':', 2)
        want = st != dt or (diff and sk != dk)
        if want != (p in touched):
            return f'link {p!r}: source {s}, destination {t}, destination differentiates={diff}: re-created={p in touched}, expected {want}'
    return None


@prop('C12')
def check_C12(run):
    thorough = run.tier == 'thorough'
    if not prepare(run, need_cli=True):
        return
    rng = run.rng
    run.cov['rule'] = ('L3: every link text of 1..4 (thorough 5) symbols over {a, /, ., \\, e-acute, 0xff} read by the real doer (GetEntries) = model readLinkB, '
                       'then created by the real doer from the reported target and read with readlink = model writeLinkB, with the independent rule (relative normalisable text -> normal form, anything else verbatim); '
                       'L3 doer-model stream: generated worlds with links of every form (to files, populated folders inside and outside the root, themselves, cycles, nothing, absolute, non-UTF-8) '
                       'and command sequences: responses and final world = model; L2: mixed scenarios with the oracles no-command-through-a-link and re-created-iff-text-or-kind-differs '
                       '(destination differentiating or not); L4: CLI on link-heavy tree pairs with populated decoy targets in 4 placements: decoys untouched, exact link texts, symlink counts of the summary; '
                       'non-trivial = the case holds at least one link; distinct by text / request line / case')
    fails = []
    # ---- L3: link texts, exhaustively small
    d = l3.scratch()
    try:
        texts = list(M.small_texts(4 if not thorough else 5))
        texts += [t.encode() if isinstance(t, str) else t for t in M.link_targets(d)] + [b'a' * 300, ('é' * 100).encode(), b'x/' * 400 + b'y', b'../' * 50 + b'z']
        src, dst = os.path.join(d, 'src'), os.path.join(d, 'dst'); os.makedirs(src); os.makedirs(dst)
        for i, t in enumerate(texts):
            os.symlink(t, os.path.join(src, f'l{i}').encode())
        ans = C.run_harness([l3.l3_line([['SR', C.X(src)], ['GE', '0']], 60000)], timeout=600)[0][0]
        resp, status = l3.parse_resp(ans)
        got = {}
        for r_ in resp:
            m = re.match(r'Entry\(([0-9a-f]*),L:([FDU]):([NX][0-9a-f]*)\)', r_)
            if m:
                got[bytes.fromhex(m.group(1)).decode()] = (m.group(2), m.group(3))
        model = C.run_model([f'linktext {C.X(t)}' for t in texts])
        cmds = [['SR', C.X(dst)]]
        for i, t in enumerate(texts):
            g = got.get(f'l{i}')
            if g:
                cmds.append(['CS', C.X(f'l{i}'), g[0], g[1]])
        ans2 = C.run_harness([l3.l3_line(cmds, 60000)], timeout=600)[0][0]
        for i, (t, m_ans) in enumerate(zip(texts, model)):
            mm = re.match(r'read=([NX][0-9a-f]*) written=x([0-9a-f]*)$', m_ans)
            g = got.get(f'l{i}')
            try:
                w = os.readlink(os.path.join(dst, f'l{i}').encode())
            except OSError:
                w = None
            run.case(('linktext', t.hex()), True, sample=dict(layer='L3', text=t.hex(), reported=g, written=w.hex() if w is not None else None) if i % 400 == 7 else None)
            run.count('linktext:' + ('normalized' if g and g[1].startswith('N') else 'verbatim')); run.cov['traces_validated_against_impl'] += 1
            want = M.expected_link_text(t)
            if g is None or w is None or w != want:
                fails.append(dict(layer='L3', what='link text not carried as the property demands', source_text=t.hex(), reported_by_source_doer=g, written_on_destination=w.hex() if w is not None else None,
                                  expected_on_destination=want.hex(), responses=ans2[:300] if w is None else None))
            elif not mm or g[1] != mm.group(1) or w.hex() != mm.group(2):
                run.violation(dict(kind='correspondence-broken', correspondence='L3/link-text', source_text=t.hex(), reported_by_source_doer=g, written_on_destination=w.hex(), model=m_ans), no_input=True)
                break
        run.cov['disagreements_checked'] += len(texts)
    finally:
        shutil.rmtree(d, ignore_errors=True)
    # ---- L3: doer model stream
    fsx_stream(run, 250 if not thorough else 4000)
    general_l2(run)
    from .props import terminal_failed_delete
    terminal_failed_delete(run)
    # ---- L2
    scs = corpus_l2('C12') + gen_mixed(rng, 1200 if not thorough else 12000, faults=False)
    for _ in range(400 if not thorough else 4000):
        s = l2.gen_scenario(rng, 'folder', faults=False)
        s.beh, s.answers, s.dry = 'ooooo', '', False
        # many links on both sides, equal / different text, equal / different kind, destination differentiating or not
        ev = []
        for i in range(rng.randint(2, 7)):
            p = f'k{i}'
            st = rng.choice(['N61', 'N612f62', 'X2f616273', 'Xfffe', 'X615c62', 'N2e2e2f642f66', 'X2e2e2f645c66', 'X2f612f62', 'X5c615c62'])
            dt = st if rng.random() < 0.5 else rng.choice(['N61', 'N62', 'X2f616273', 'N612f62', 'X615c62', 'N2e2e2f642f66', 'X2e2e2f645c66', 'X2f612f62', 'X5c615c62', 'X612f62', 'N615c62'])
            sk, dk = rng.choice('FDU'), rng.choice('FDU')
            ev.append(('E', 'S', p, f'L:{sk}:{st}'))
            if rng.random() < 0.85: ev.append(('E', 'D', p, f'L:{dk}:{dt}'))
        rng.shuffle(ev)
        s.events = ev + [('Z', 'S'), ('Z', 'D')]
        s.src_reply = ('R', 'D', 0, 47); s.dest_reply = ('R', 'D', rng.random() < 0.5, rng.choice([47, 92])); s.files = []
        s.src_root, s.dest_root = 'S', 'D'
        scs.append(s)
    l2_stream(run, scs, [('no-command-through-link', oracle_no_command_through_link), ('link-recreate-iff', oracle_link_recreate)], 'links',
              nontrivial=lambda r: any('Symlink' in cmd_name(c) for c in r['impl_r'].get('dest', [])))
    # ---- L4
    sb = l4.Sandbox(); sb.place_remote('same')
    try:
        n = 50 if not thorough else 700
        for i in range(n):
            c = M.gen_case(rng, sb, i, link_prob=0.5, nonutf8=True, root_leaf_prob=0.25)
            before = M.snap_all(c)
            r = M.run_case(sb, c)
            after = M.snap_all(c)
            nlinks = sum(1 for v in before['src'].values() if v[0] == 'L') + sum(1 for v in before['dst'].values() if v[0] == 'L')
            run.case(('l4', i, c.placement, nlinks), nlinks > 0, sample=dict(layer='L4', **M.describe(c), rc=r['rc'], links=nlinks) if i % 10 == 0 else None)
            run.count(f'l4:{c.placement}:rc={r["rc"]}'); run.count('l4:links', nlinks); run.cov['traces_validated_against_impl'] += 1
            diffs = []
            if before['outside'] != after['outside'] or before['outside_file'] != after['outside_file']:
                diffs.append('a link target outside the two roots was changed: ' + str([p for p in set(before['outside']) | set(after['outside']) if before['outside'].get(p) != after['outside'].get(p)][:4]))
            if before['src'] != after['src']:
                diffs.append('the source changed')
            if r['rc'] == 0:
                diffs += M.mirror_diffs(before['src'], before['dst'], after['dst'], c.filters, links_exact=False)
                for p, s_ in before['src'].items():
                    if s_[0] == 'L' and M.visible(c.filters, p):
                        a, b4 = after['dst'].get(p), before['dst'].get(p)
                        if b4 and b4[0] == 'L' and M.norm_link(b4[1]) == M.norm_link(s_[1]):
                            if a != b4:        # text unchanged (up to redundant separators): the destination link is left as it is
                                diffs.append(f'{p!r}: destination link {b4} names the same target as the source link {s_[1]!r} but was replaced by {a}')
                        elif not a or a[0] != 'L' or a[1] != M.expected_link_text(s_[1]):
                            diffs.append(f'{p!r}: source link text {s_[1]!r}, destination {a}, expected text {M.expected_link_text(s_[1])!r}')
                # summary counts of symlinks against an independent count
                vis_ok = all(M.visible(c.filters, p) is not None for p in list(before['src']) + list(before['dst']))
                summ = parse_summary([l.encode().hex() for l in (r['out'] + '\n' + r['err']).splitlines()])
                if vis_ok:
                    same = lambda p: (before['dst'].get(p, ('',))[0] == 'L' and before['src'].get(p, ('',))[0] == 'L'
                                      and before['dst'][p][1] == M.expected_link_text(before['src'][p][1]) and M.norm_link(before['dst'][p][1]) == before['dst'][p][1])
                    same_txt = lambda p: (before['dst'].get(p, ('',))[0] == 'L' and before['src'].get(p, ('',))[0] == 'L'
                                          and M.norm_link(before['dst'][p][1]) == M.norm_link(before['src'][p][1]))
                    want_cp = sum(1 for p, s_ in before['src'].items() if s_[0] == 'L' and M.visible(c.filters, p) and not same_txt(p))
                    want_del = sum(1 for p, s_ in before['dst'].items() if s_[0] == 'L' and M.visible(c.filters, p) and not same_txt(p))
                    if (summ['links_cp'], summ['links_del']) != (want_cp, want_del):
                        diffs.append(f'summary says {summ["links_cp"]} symlink(s) copied / {summ["links_del"]} deleted; by the rule "re-created iff the text changed": {want_cp} / {want_del}')
            elif r['timeout'] or r['rc'] != 12:
                diffs.append(f'exit status {r["rc"]}')
            if diffs and len(fails) < 4:
                fails.append(dict(layer='L4', **M.describe(c), rc=r['rc'], differences=diffs[:8], src_tree=M.tree_listing(c.src_path), dest_tree_after=M.tree_listing(os.path.join(c.base, 'dd')), stderr=r['err'][-500:]))
            shutil.rmtree(c.base, ignore_errors=True)
    finally:
        subprocess.run(['chmod', '-R', 'u+rwx', sb.dir], capture_output=True); sb.close()

    def on_broken(failed):
        return dict(found_by='link-text round trip on the real doer / L4 link stream', **fails[0]) if fails else None
    C.proofs_step(run, 'C12', on_broken)
    from . import trials as _trials; _trials.run_trials(run, 'C12')
    if fails and not any(not v[1] for v in run.violations):
        run.violation(dict(kind='oracle-failed-on-implementation', oracle='links are leaves: targets untouched; text carried as the rule says; re-created iff the text changed', failing_cases=len(fails), **fails[0]))
    run.cov['trusted_base'] = C.GLOBAL_TRUST + ['PARTIAL: "nothing is reached through a link" is the model\'s escape outcome: validated (L2 oracle on the implementation\'s traces, L3 doer-model stream, L4 decoy snapshots), not proved for whole runs',
                                                'the #[cfg(windows)] doer code (file/folder link kinds, backslash separator) cannot be compiled or run here; the boss-side kind logic is exercised with scripted doers claiming to differentiate',
                                                'POSIX symlink/readlink/unlink semantics of the host']
    run.assumptions = ['unix doers on both sides for the executed layers']


# ------------------------------------------------------------------ C04

def oracle_second_run_nothing(r):
    ir = r['impl_r']
    if not r['sc'].__dict__.get('second_run'):
        return None
    if ir.get('res') in ('err:SrcSlash', 'err:DestSlash', 'err:BadFilter', 'err:SrcMissing'):
        return None          # the command is rejected as such: there was no successful first run either
    if ir.get('res') != 'ok':
        return f'the second run ended with {ir.get("res")}'
    bad = [c for c in ir.get('dest', []) if is_mutating(c)]
    if bad:
        return f'the second run sent {bad[0]}'
    if any(cmd_name(c) == 'GetFileContent' for c in ir.get('src', [])):
        return 'the second run read file contents from the source'
    log = [bytes.fromhex(h).decode(errors='replace') for h in ir.get('log', [])]
    if 'Nothing to do!' not in log:
        return f'the second run did not report "Nothing to do!": {log[-2:]}'
    return None


@prop('C04')
def check_C04(run):
    thorough = run.tier == 'thorough'
    if not prepare(run, need_cli=True):
        return
    rng = run.rng
    run.cov['rule'] = ('L3: the real doer writes files with extreme / nanosecond times and links of every text form, and lists them back: listed = written (time exactly; link target = the one it was created from); '
                       'L3 doer-model stream; L2: "second run" scenarios — the destination lists exactly what the source lists (link kinds re-probed at random, destination not differentiating) — oracle: no mutating command, '
                       'no file read, "Nothing to do!"; L4: the CLI twice on generated tree pairs (ns / epoch / far-future times, every link form incl. non-UTF-8, 4 placements, path spellings): second run exit 0, '
                       '"Nothing to do!", deep snapshot (bytes, mtimes of files, folders and links, inode numbers) identical; non-trivial = the first run changed something; distinct by case')
    fails = []
    # ---- L3 write-then-list
    d = l3.scratch()
    try:
        times = [0, 1, 999_999_999, 1_000_000_000, 1_000_000_001, 2 ** 31 * 10 ** 9 - 1, 2 ** 31 * 10 ** 9, 2 ** 32 * 10 ** 9 + 123_456_789, 2 ** 33 * 10 ** 9 + 5,
                 13_569_465_600_000_000_000 - 1, 1_600_000_000_123_456_789, 4_102_444_800_000_000_001, 9_000_000_000_000_000_000, 15_032_385_534_999_999_999] + \
                [rng.randrange(0, 2 ** 62) for _ in range(20 if not thorough else 400)]
        cmds = [['SR', C.X(d)]]
        for i, t in enumerate(times):
            cmds.append(['CUF', C.X(f'f{i}'), C.X(b'x' * (i % 3)), str(t), '0'])
        cmds.append(['GE', '0'])
        ans = C.run_harness([l3.l3_line(cmds, 60000)], timeout=600)[0][0]
        resp, status = l3.parse_resp(ans)
        listed = {}
        for r_ in resp:
            m = re.match(r'Entry\(([0-9a-f]*),F:(-?\d+):(\d+)\)', r_)
            if m: listed[bytes.fromhex(m.group(1)).decode()] = int(m.group(2))
        for i, t in enumerate(times):
            run.case(('time', t), True, sample=dict(layer='L3', written_ns=t, listed_ns=listed.get(f'f{i}')) if i < 3 else None)
            run.count('time-roundtrip'); run.cov['traces_validated_against_impl'] += 1
            try:
                on_disk = os.lstat(os.path.join(d, f'f{i}')).st_mtime_ns
            except OSError:
                on_disk = None
            if listed.get(f'f{i}') != t or on_disk != t:
                fails.append(dict(layer='L3', what='a modification time written by the doer is not the time it lists / the file system holds', written_ns=t, listed_ns=listed.get(f'f{i}'), st_mtime_ns=on_disk, responses=ans[:300]))
                break
    finally:
        shutil.rmtree(d, ignore_errors=True)
    # link texts: create from a target, list back: same target
    d = l3.scratch()
    try:
        texts = list(M.small_texts(3 if not thorough else 4)) + [t.encode() if isinstance(t, str) else t for t in M.link_targets(d)]
        model = C.run_model([f'linktext {C.X(t)}' for t in texts])
        cmds = [['SR', C.X(d)]]
        tg = []
        for i, m_ans in enumerate(model):
            mm = re.match(r'read=([NX][0-9a-f]*) written=x([0-9a-f]*)$', m_ans)
            tg.append(mm.group(1) if mm else None)
            if mm: cmds.append(['CS', C.X(f'l{i}'), 'U', mm.group(1)])
        cmds.append(['GE', '0'])
        ans = C.run_harness([l3.l3_line(cmds, 60000)], timeout=600)[0][0]
        resp, status = l3.parse_resp(ans)
        listed = {}
        for r_ in resp:
            m = re.match(r'Entry\(([0-9a-f]*),L:([FDU]):([NX][0-9a-f]*)\)', r_)
            if m: listed[bytes.fromhex(m.group(1)).decode()] = m.group(3)
        for i, t in enumerate(texts):
            run.case(('link-roundtrip', t.hex()), True, sample=None); run.count('link-roundtrip'); run.cov['traces_validated_against_impl'] += 1
            if tg[i] and listed.get(f'l{i}') != tg[i]:
                fails.append(dict(layer='L3', what='a link created from a target is listed back with another target (it would be re-created on every run)', source_text=t.hex(), created_from=tg[i], listed_back=listed.get(f'l{i}')))
                break
    finally:
        shutil.rmtree(d, ignore_errors=True)
    # ---- L3 doer-model stream
    fsx_stream(run, 150 if not thorough else 3000)
    general_l2(run)
    # ---- L2 second-run scenarios
    scs = []
    for _ in range(500 if not thorough else 5000):
        s = l2.gen_scenario(rng, rng.choice(['folder', 'folder', 'mixed']), faults=False)
        s.beh, s.answers, s.dry, s.err_at_cmd = rng.choice(['ooooo', 'oosoo', 'pospp']), '', False, None
        if s.beh[2] != 's':
            s.beh = s.beh[:2] + 's' + s.beh[3:]
        # the destination is what a first run made of it: the source's entries, link kinds probed afresh
        def back(dtl):
            if dtl and dtl.startswith('L:'):
                _, k, t = dtl.split(':', 2)
                return f'L:{rng.choice("FDU")}:{t}'
            return dtl
        if s.src_reply[0] != 'R' or not s.src_reply[1]:
            continue
        sk = s.src_reply[1]
        slash = s.dest_root.endswith('/') or s.dest_root.endswith('\\')
        if sk != 'D' and slash:
            s.dest_reply = ('R', 'D', False, 47); s.dest_reply2 = ('R', back(sk), False, 47)
        else:
            if sk != 'D' and slash: continue
            s.dest_reply = ('R', back(sk), False, 47)
            if sk != 'D' and (s.dest_root.endswith('/') or s.dest_root.endswith('\\')):
                continue
        sev = [e for e in s.events if e[0] == 'E' and e[1] == 'S']
        dev = [('E', 'D', e[2], back(e[3])) for e in sev]
        s.events = l2.interleave(rng, sev + [('Z', 'S')], dev + [('Z', 'D')])
        s.second_run = True
        scs.append(s)
    l2_stream(run, scs, [('second-run-does-nothing', oracle_second_run_nothing)], 'second-run', nontrivial=lambda r: len(r['sc'].events) > 4)
    # ---- L4 double runs
    sb = l4.Sandbox(); sb.place_remote('same')
    try:
        n = 45 if not thorough else 600
        for i in range(n):
            c = M.gen_case(rng, sb, i, link_prob=0.3, nonutf8=True)
            before = M.snap_all(c)
            r1 = M.run_case(sb, c)
            run.count(f'l4:{c.placement}:first-rc={r1["rc"]}'); run.cov['traces_validated_against_impl'] += 1
            changed = before['whole_dst'] != l3.snapshot(os.path.join(c.base, 'dd'))
            run.case(('l4', i, c.placement), r1['rc'] == 0 and changed, sample=dict(layer='L4', **M.describe(c), first_rc=r1['rc']) if i % 9 == 0 else None)
            if r1['rc'] == 0:
                s1 = M.snap_deep(os.path.join(c.base, 'dd')); src1 = M.snap_deep(c.src_path)
                r2 = M.run_case(sb, c)
                s2 = M.snap_deep(os.path.join(c.base, 'dd')); src2 = M.snap_deep(c.src_path)
                diffs = []
                if r2['rc'] != 0: diffs.append(f'second run exit status {r2["rc"]}')
                if 'Nothing to do!' not in r2['out'] + r2['err']: diffs.append('second run does not report "Nothing to do!": ' + (r2['out'] + r2['err'])[-300:])
                for p in set(s1) | set(s2):
                    if s1.get(p) != s2.get(p): diffs.append(f'{p!r}: after the first run {s1.get(p)}, after the second {s2.get(p)}')
                if src1 != src2: diffs.append('the source changed')
                if diffs and len(fails) < 4:
                    fails.append(dict(layer='L4', **M.describe(c), differences=diffs[:6], src_tree=M.tree_listing(c.src_path), first_run_output=r1['out'][-300:]))
            elif r1['timeout'] or r1['rc'] != 12:
                if len(fails) < 4: fails.append(dict(layer='L4', **M.describe(c), differences=[f'first run exit status {r1["rc"]}'], stderr=r1['err'][-500:]))
            shutil.rmtree(c.base, ignore_errors=True)
    finally:
        subprocess.run(['chmod', '-R', 'u+rwx', sb.dir], capture_output=True); sb.close()

    def on_broken(failed):
        return dict(found_by='write-then-list round trips on the real doer / two consecutive CLI runs', **fails[0]) if fails else None
    C.proofs_step(run, 'C04', on_broken)
    from . import trials as _trials; _trials.run_trials(run, 'C04')
    if fails and not any(not v[1] for v in run.violations):
        run.violation(dict(kind='oracle-failed-on-implementation', oracle='a second identical run reports nothing to do and changes no byte, time stamp or inode', failing_cases=len(fails), **fails[0]))
    run.cov['trusted_base'] = C.GLOBAL_TRUST + ['the host file system keeps nanosecond mtimes (a coarser destination file system is outside the model and would make equal files look different)',
                                                'destinations that distinguish file from folder symlinks (Windows) are exercised only at L2 with scripted doers',
                                                'the composition "first run ends in the mirror state" is C01 (PARTIAL there: doer effects validated); here: plan-level theorem + read-back round trips + end-to-end double runs']
    run.assumptions = ['--files-same-time is skip (the default): with overwrite every run re-copies equal files by configuration (theorem C04_same_time_overwrite_recopies)']


# ------------------------------------------------------------------ shared: the whole destination half of a sync, model vs CLI

def sync_model_stream(run, n, label='sync-model'):
    """L4 tie of `syncDest` (the model the theorem C01_mirror_fs is about): generated (source tree, destination tree) pairs, the CLI run
    folder-to-folder without skips, final destination tree = the model's final file system, node for node (kinds, bytes, mtimes, link texts)."""
    from .common import X
    rng = run.rng
    sb = l4.Sandbox(); sb.place_remote('same')
    bad = []
    try:
        cases = []
        for i in range(n):
            base = os.path.join(sb.dir, f'sm{i}'); os.makedirs(base + '/w')
            M.make_decoys(base)
            src_ents = M.gen_entries(rng, base, rng.choice([3, 8, 16]), link_prob=0.25, nonutf8=True)
            dst_ents = M.mutate(rng, base, src_ents) if rng.random() < 0.85 else []
            l3.make_tree(base + '/S', [('', 'D')] + src_ents)
            l3.make_tree(base + '/w/D', [('', 'D')] + dst_ents)
            def tok(e):
                if e[1] == 'D': return ['D']
                if e[1] == 'F': return ['F', str(e[3]), X(e[2])]
                return ['L', X(e[2])]
            nodes = [('D', 'D')] + [('D/' + e[0],) + tuple(e[1:]) for e in dst_ents]
            snodes = [('S', 'D')] + [('S/' + e[0],) + tuple(e[1:]) for e in src_ents]
            t = ['synctrees', X('S'), str(len(snodes))]           # the objects of C01_mirror_two_trees: two trees, the model lists them itself
            for e in snodes:
                t += [X(e[0])] + tok(e)
            t += [X('D'), str(len(nodes))]
            for e in nodes:
                t += [X(e[0])] + tok(e)
            # filters (4 cases in 10): generated regex ASTs over the names that occur; the model gets the AST, the CLI the rendered text
            filters = []
            if rng.random() < 0.4:
                words = sorted({x for e in src_ents + dst_ents for x in e[0].split('/') if x and '\n' not in x and x.isascii()} | {'a'})
                filters = [(rng.choice('+-'), G.gen_re(rng, rng.randint(0, 2), words)) for _ in range(rng.randint(1, 2))]
            ftext = [s_ + G.render(a_, 0, rng) for s_, a_ in filters]
            t += [str(len(filters))]
            for s_, a_ in filters:
                t += [s_] + G.tokens(a_)
            placement = rng.choice(['', '', 'localhost:'])
            cases.append(dict(i=i, base=base, line=' '.join(t), src=src_ents, dst=dst_ents, placement=placement, ftext=ftext))
        model = C.run_model([c['line'] for c in cases])
        for c, m in zip(cases, model):
            fargs = [x for f_ in c['ftext'] for x in ('--filter', f_)]
            # (what is printed must not decide what is done: the output is turned up or down at random)
            oflags, oenv = rng.choice([([], {}), ([], {}), (['--quiet'], {}), (['--verbose'], {}), (['--stats'], {}), (['--quiet', '--stats'], {}), ([], {'RUST_LOG': 'error'}), ([], {'RUST_LOG': 'trace'})])
            fargs = fargs + oflags
            r = l4.run_cli([c['base'] + '/S/', c['placement'] + c['base'] + '/w/D/'] + M.FLAGS_NO_SKIP + fargs, env=sb.env(dict({'RJRSSYNC_TEST_PROMPT_RESPONSE': ''}, **oenv)), timeout=120, cwd=c['base'])
            snap = fsx.snapshot_world(c['base'] + '/w', 10 ** 30, 10 ** 30 + 1) if r['rc'] == 0 else None
            nt = r['rc'] == 0 and len(c['src']) + len(c['dst']) > 0
            run.case((label, c['line'][:3000]), nt, sample=dict(layer='L4', source_entries=len(c['src']), dest_entries=len(c['dst']), filters=c['ftext'], rc=r['rc'], model=m[:80]) if c['i'] % 15 == 0 else None)
            run.count(f'{label}:{"filters" if c["ftext"] else "no-filters"}:rc={r["rc"]}:model={m.split(" ")[0]}'); run.cov['traces_validated_against_impl'] += 1
            want = f'ok fs=[{snap}]' if snap is not None else None
            # model `err` = a call fails (with filters: a folder that must go still holds something the walk did not reach): the CLI reports an error
            agree = (m == want) if r['rc'] == 0 else (m == 'err' and r['rc'] == 12 and bool(c['ftext']))
            if not agree:
                ms = set(m[7:-1].split(';')) if m.startswith('ok fs=[') else set(); is_ = set(snap.split(';')) if snap else set()
                bad.append(dict(layer='L4', args=['<base>/S/', c['placement'] + '<base>/w/D/'] + M.FLAGS_NO_SKIP + fargs, rc=r['rc'], model_outcome=m.split(' ')[0],
                                only_model=sorted(ms - is_)[:4], only_implementation=sorted(is_ - ms)[:4], src_tree=M.tree_listing(c['base'] + '/S'), dest_tree_after=M.tree_listing(c['base'] + '/w/D'), stderr=r['err'][-300:]))
            shutil.rmtree(c['base'], ignore_errors=True)
        run.cov['disagreements_checked'] += len(cases)
    finally:
        subprocess.run(['chmod', '-R', 'u+rwx', sb.dir], capture_output=True); sb.close()
    if bad:
        run.violation(dict(kind='correspondence-broken', correspondence=f'L4/{label}', disagreeing_cases=len(bad), **bad[0],
                           note='the model of the destination half of a sync (syncDest, the subject of C01_mirror_fs) and the CLI end in different destination trees'), no_input=True)
    return bad


# ------------------------------------------------------------------ CLI-only fallback (the in-process harness does not build)

def l4_mirror_fallback(run):
    """generated tree pairs through the CLI in the 4 placements with the independent mirror comparison, and the sync-model stream"""
    from .props import FALLBACKS  # noqa
    rng = run.rng
    ok, out = C.build_cli()
    if not ok:
        run.violation(dict(kind='cli-does-not-build', output_tail=out[-1500:]), no_input=True)
        return
    sb = l4.Sandbox(); sb.place_remote('same')
    try:
        for i in range(40):
            c = M.gen_case(rng, sb, i)
            before = M.snap_all(c)
            r = M.run_case(sb, c)
            after = M.snap_all(c)
            run.count(f'fallback-l4:{c.placement}:rc={r["rc"]}'); run.cov['traces_validated_against_impl'] += 1
            run.case(('fallback-l4', i), r['rc'] == 0, sample=None)
            diffs = M.mirror_diffs(before['src'], before['dst'], after['dst'], c.filters) if r['rc'] == 0 else ([] if r['rc'] == 12 and not r['timeout'] else [f'exit status {r["rc"]}'])
            if before['src'] != after['src']: diffs.append('the source changed')
            if before['outside'] != after['outside']: diffs.append('something outside the two roots changed')
            if diffs:
                run.violation(dict(kind='oracle-failed-on-implementation', oracle='exit 0 => mirror; source and outside untouched (CLI-only fallback search)', layer='L4', **M.describe(c), rc=r['rc'], differences=diffs[:6], stderr=r['err'][-400:]))
                break
            shutil.rmtree(c.base, ignore_errors=True)
    finally:
        subprocess.run(['chmod', '-R', 'u+rwx', sb.dir], capture_output=True); sb.close()
    sync_model_stream(run, 20)


def l4_filter_stream(run, n):
    """C06 at L4: generated tree pairs synced through the CLI with a filter list (always non-empty here), 4 placements: what the
    filters include is mirrored, what they exclude is byte-identical before and after on both sides (independent evaluation of the rule)"""
    rng = run.rng
    sb = l4.Sandbox(); sb.place_remote('same')
    fails = []
    try:
        for i in range(n):
            c = M.gen_case(rng, sb, i, root_leaf_prob=0.0)
            c.filters = rng.choice([f for f in M.FILTER_SETS if f] + [['-.*keep.*'], ['+.*', '-.*/.*'], ['-L1', '-L2', '+L1'], ['-(a|b)'], ['+[a-c]', '+[a-c]/.*'], ['-a|b/c']])
            c.args = [a for a in c.args if True]
            # rebuild the argument vector with the chosen filters
            pos = c.args[:2]
            c.args = pos + [x for f in c.filters for x in ('--filter', f)] + M.FLAGS_NO_SKIP
            before = M.snap_all(c)
            r = M.run_case(sb, c)
            after = M.snap_all(c)
            run.case(('l4-filters', i, tuple(c.filters)), r['rc'] == 0, sample=dict(layer='L4', **M.describe(c), rc=r['rc']) if i % 10 == 0 else None)
            run.count(f'l4-filters:{c.placement}:rc={r["rc"]}'); run.cov['traces_validated_against_impl'] += 1
            diffs = []
            if before['src'] != after['src']: diffs.append('the source changed')
            if r['rc'] == 0:
                diffs += M.mirror_diffs(before['src'], before['dst'], after['dst'], c.filters)
            elif r['rc'] == 12 and not r['timeout']:
                # a failed run (e.g. a hidden entry beneath a folder that must go): excluded entries are still untouched
                for p_, b_ in before['dst'].items():
                    if M.visible(c.filters, p_) is False and after['dst'].get(p_) != b_ and not any(M.visible(c.filters, p_[:k]) is False for k in range(len(p_)) if p_[k:k + 1] == b'/'):
                        diffs.append(f'{p_!r}: filter-excluded destination entry changed although the run failed')
            else:
                diffs.append(f'exit status {r["rc"]}')
            if diffs and len(fails) < 3:
                fails.append(dict(layer='L4', **M.describe(c), rc=r['rc'], differences=diffs[:6], src_tree=M.tree_listing(c.src_path), dest_tree_after=M.tree_listing(os.path.join(c.base, 'dd')), stderr=r['err'][-300:]))
            shutil.rmtree(c.base, ignore_errors=True)
    finally:
        subprocess.run(['chmod', '-R', 'u+rwx', sb.dir], capture_output=True); sb.close()
    return fails


def _register_fallbacks():
    from .props import FALLBACKS
    FALLBACKS.setdefault('*', []).append(l4_mirror_fallback)


_register_fallbacks()
