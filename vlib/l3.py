"""L3: the real doer on a real scratch directory (harness plays the boss); tree builder, snapshot."""
import hashlib, os, shutil, stat, tempfile, zlib
from .common import X, run_harness


def scratch(prefix='rjv-'):
    return tempfile.mkdtemp(prefix=prefix)


def content(seed, n):
    return hashlib.shake_128(str(seed).encode()).digest(n) if n else b''


def make_tree(root, entries):
    """entries: list of (relpath, kind, ...) in parent-first order; relpath '' = the root itself.
    kinds: ('D',) ('F', bytes, mtime_ns) ('L', target)  — paths/targets may be bytes"""
    for e in entries:
        rel, kind = e[0], e[1]
        p = os.path.join(os.fsencode(root), os.fsencode(rel)) if rel not in ('', b'') else os.fsencode(root)
        if kind == 'D':
            os.makedirs(p, exist_ok=True)
        elif kind == 'F':
            with open(p, 'wb') as f:
                f.write(e[2])
            os.utime(p, ns=(e[3], e[3]))
        elif kind == 'L':
            os.symlink(os.fsencode(e[2]), p)


def snapshot(root):
    """relpath(bytes) -> ('F', size, sha1, mtime_ns) | ('D',) | ('L', target bytes) | ('?', mode); never follows links"""
    out = {}
    rootb = os.fsencode(root)
    def rec(p, rel):
        try:
            st = os.lstat(p)
        except FileNotFoundError:
            return
        if stat.S_ISLNK(st.st_mode):
            out[rel] = ('L', os.readlink(p))
        elif stat.S_ISDIR(st.st_mode):
            out[rel] = ('D',)
            try:
                names = sorted(os.listdir(p))
            except PermissionError:
                names = []
            for n in names:
                rec(os.path.join(p, n), (rel + b'/' + n) if rel else n)
        elif stat.S_ISREG(st.st_mode):
            try:
                with open(p, 'rb') as f:
                    h = hashlib.sha1(f.read()).hexdigest()
            except PermissionError:
                h = 'unreadable'
            out[rel] = ('F', st.st_size, h, st.st_mtime_ns)
        else:
            out[rel] = ('?', stat.S_IFMT(st.st_mode))
    rec(rootb, b'')
    return out


def l3_line(cmds, timeout_ms=20000):
    toks = ['l3', str(timeout_ms), str(len(cmds))]
    for c in cmds:
        toks += c
    return ' '.join(toks)


def parse_resp(ans):
    body = ans[ans.index('[') + 1: ans.rindex(']')]
    status = ans[ans.rindex(']') + 1:].strip()
    return ([r for r in body.split(';') if r], status)


def crc(b):
    return '%08x' % (zlib.crc32(b) & 0xffffffff)
