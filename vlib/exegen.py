"""Synthetic ELF64 / PE images for the exe_utils correspondence: valid layouts with varied geometry,
and corruptions / truncations of them."""
import struct


def make_elf(rng, nsec=None, names_last=None, entsize=64):
    """minimal ELF64 LE: header (64) | section data | names section | (maybe more sections) | section table at the end"""
    nsec = nsec if nsec is not None else rng.randint(1, 5)
    strndx = rng.randrange(nsec)
    names = [b''] + [('.s%d' % i).encode() for i in range(1, nsec)]
    names[strndx] = b'.shstrtab'
    strtab = b'\0'
    name_off = []
    for n in names:
        name_off.append(len(strtab) if n else 0); strtab += (n + b'\0') if n else b''
    body = b''
    secs = []
    for i in range(nsec):
        data = strtab if i == strndx else bytes(rng.getrandbits(8) for _ in range(rng.randint(0, 24)))
        off = 64 + len(body)
        secs.append((name_off[i], off, len(data)))
        body += data
    shoff = 64 + len(body)
    hdr = bytearray(64)
    hdr[0:4] = b'\x7fELF'; hdr[4] = 2; hdr[5] = 1; hdr[6] = 1
    struct.pack_into('<Q', hdr, 0x28, shoff); struct.pack_into('<H', hdr, 0x3A, entsize)
    struct.pack_into('<H', hdr, 0x3C, nsec); struct.pack_into('<H', hdr, 0x3E, strndx)
    table = b''
    for no, off, sz in secs:
        e = bytearray(entsize)
        struct.pack_into('<I', e, 0, no); struct.pack_into('<Q', e, 0x18, off); struct.pack_into('<Q', e, 0x20, sz)
        table += bytes(e)
    return bytes(hdr) + body + table


def make_pe(rng, nsec=None, gap=None, file_align=None, sec_align=None):
    nsec = nsec if nsec is not None else rng.randint(1, 4)
    file_align = file_align or rng.choice([1, 2, 16, 64, 512])
    sec_align = sec_align or rng.choice([1, 16, 4096, 65536])
    sig_off = rng.choice([0x40, 0x80, 0x44])
    opt_size = rng.choice([64, 96, 240])
    fh = sig_off + 4
    opt = fh + 20
    hdrs = opt + opt_size
    end_hdrs = hdrs + nsec * 40
    gap = gap if gap is not None else rng.choice([0, 8, 39, 40, 41, 80])
    data_start = end_hdrs + gap
    # round the data start up to the file alignment so that the layout is a legal one
    data_start = (data_start + file_align - 1) // file_align * file_align
    img = bytearray(data_start)
    struct.pack_into('<I', img, 0x3c, sig_off)
    img[sig_off:sig_off + 4] = b'PE\0\0'
    struct.pack_into('<H', img, fh + 2, nsec); struct.pack_into('<H', img, fh + 16, opt_size)
    struct.pack_into('<I', img, opt + 32, sec_align); struct.pack_into('<I', img, opt + 36, file_align)
    va = sec_align
    body = b''
    for i in range(nsec):
        size = rng.randint(1, 40)
        raw = (size + file_align - 1) // file_align * file_align
        h = hdrs + i * 40
        img[h:h + 8] = ('.s%d' % i).encode().ljust(8, b'\0')
        struct.pack_into('<I', img, h + 8, size); struct.pack_into('<I', img, h + 12, va)
        struct.pack_into('<I', img, h + 16, raw); struct.pack_into('<I', img, h + 20, data_start + len(body))
        body += bytes(rng.getrandbits(8) for _ in range(size)) + b'\0' * (raw - size)
        va = (va + size + sec_align - 1) // sec_align * sec_align
    return bytes(img) + body


def corrupt(rng, b):
    b = bytearray(b)
    r = rng.random()
    if r < 0.3 and len(b) > 1:
        return bytes(b[:rng.randrange(len(b))])                      # truncation
    if r < 0.8 and b:
        # overwrite a header field with an extreme / random value
        off = rng.choice([0x28, 0x3A, 0x3C, 0x3E, 0x3c, 0x18, 0x20, 4, 5, 6] + [rng.randrange(len(b)) for _ in range(6)])
        size = rng.choice([1, 2, 4, 8])
        val = rng.choice([0, 1, 0xff, 0xffff, 0xffffffff, 2**64 - 1, 2**63, len(b), len(b) + 1, len(b) - 1, rng.getrandbits(16)]) % (1 << (8 * size))
        if off + size <= len(b):
            b[off:off + size] = val.to_bytes(size, 'little')
        return bytes(b)
    for _ in range(rng.randint(1, 4)):
        if b: b[rng.randrange(len(b))] = rng.getrandbits(8)
    return bytes(b)


def pe_file_alignment(b):
    """FileAlignment as exe_utils would read it from the image (None when the header checks would already refuse it)"""
    import struct
    try:
        pe = struct.unpack_from('<I', b, 0x3c)[0]
        return struct.unpack_from('<I', b, pe + 4 + 20 + 36)[0]
    except struct.error:
        return None


def corrupt_bounded(rng, b, limit=1 << 22):
    """corrupt(), but never an image whose declared FileAlignment makes the real code (and the model) allocate gigabytes of
    padding: such a case adds no arithmetic the smaller ones do not have, and a 4 GiB answer line kills the run"""
    for _ in range(6):
        c = corrupt(rng, b)
        fa = pe_file_alignment(c)
        if fa is None or fa <= limit:
            return c
    return b
