"""Shared L4 machinery of C01 / C04 / C12: generated (source, destination) tree pairs with decoys,
the CLI in the four placements, and independent oracles on file-system snapshots."""
import os, re, shutil, subprocess
from . import common as C, l3, l4

SIZES = [0, 1, 7, 4095, 4096, 4097, 12288, 12289, 50000]
MTIMES = [0, 1, 999_999_999, 1_000_000_000, 9_223_372_036_854_775_807, 9_223_372_036_854_775_808, 10_000_000_000_000_000_123, 14_999_999_999_999_999_999, 1_600_000_000_123_456_789, 1_700_000_000_000_000_001, 2 ** 33 * 10 ** 9 + 5, 4_000_000_000_987_654_321]
NAMES = ['a', 'b', 'c', 'd.txt', 'e', 'é', 'sp ace', 'L1', 'L2', 'keep.tmp', 'new\nline.txt', 'x\ny']
FILTER_SETS = [[], [], [], ['-.*\\.txt'], ['-.*\\.txt'], ['-.*y'], ['-b'], ['+a(/.*)?', '+c(/.*)?'], ['-.*/c'], ['+.*', '-.*\\.tmp'], ['-é', '-sp ace'], ['-a/.*'], ['-a', '+a/b']]


def file_bytes(rng, n=None):
    """random bytes mostly; also degenerate contents (all zero, zero tail, 0xff)"""
    n = rng.choice(SIZES) if n is None else n
    r = rng.random()
    if r < 0.75: return l3.content(rng.random(), n)
    if r < 0.87: return bytes(n)
    if r < 0.95: return l3.content(rng.random(), n // 3) + bytes(n - n // 3)
    return b'\xff' * n


def link_targets(base, decoys=True):
    t = ['a', './a', 'a//b', 'a/', 'nowhere', '.', '..', 'L1', 'a\\b', '../b', 'a/./b/', '/abs/nowhere', '/', './/x///y', '../../..', 'b/../a']
    # texts with control characters, blanks, quotes, a multi-byte character, a very long component: whatever renders a path for people must not reach the wire
    t += ['new\nline', 'tab\there', 'esc\x1b[0m', ' lead', 'trail ', 'qu"ote\'s', 'caf\u00e9/\u65e5\u672c', 'x' * 200, 'a/\r/b', '\x7f']
    if decoys:
        t += [base + '/outside', base + '/outside/', base + '/outside_file', '../outside', '../../outside/sub', '../outside_file', base + '/outside/loop']
    return t


def norm_link(t):
    """independent statement of 'identical up to redundant separators in relative targets' (bytes in, bytes out):
    an absolute target, one holding a backslash, or one that is not UTF-8 is carried verbatim"""
    if t.startswith(b'/') or b'\\' in t:
        return t
    try:
        t.decode()
    except UnicodeDecodeError:
        return t
    parts = t.split(b'/')
    out = []
    for i, p in enumerate(parts):
        if p == b'' or (p == b'.' and i > 0):
            continue
        out.append(p)
    return b'/'.join(out)


def gen_entries(rng, base, max_entries, link_prob=0.2, decoys=True, nonutf8=False):
    """parent-first list of (rel, kind, ...) below a folder root"""
    ents, dirs, made = [], [''], set()
    n = rng.randint(0, max_entries)
    for _ in range(n):
        d = rng.choice(dirs)
        if d.count('/') >= 2 and rng.random() < 0.7:
            d = ''
        name = rng.choice(NAMES)
        p = (d + '/' + name) if d else name
        if p in made:
            continue
        made.add(p)
        r = rng.random()
        if r < 0.3:
            ents.append((p, 'D')); dirs.append(p)
        elif r < 0.3 + link_prob:
            tg = rng.choice(link_targets(base, decoys))
            if nonutf8 and rng.random() < 0.15:
                tg = rng.choice([b'\xff\xfe', b'a/\xe9', b'caf\xe9/x'])
            ents.append((p, 'L', tg))
        else:
            ents.append((p, 'F', file_bytes(rng), rng.choice(MTIMES)))
    return ents


def mutate(rng, base, src_ents, decoys=True):
    """a destination derived from the source: equal entries, retimed / resized files, kind swaps at any depth, missing and extra entries"""
    out, dropped = [], []
    for e in src_ents:
        p = e[0]
        if any(p.startswith(d + '/') for d in dropped):
            continue
        r = rng.random()
        if e[1] == 'L' and r < 0.3:
            # a destination link whose text is *nearly* the source's: other slash kind (must be re-created), redundant separators
            # (same target: must be left alone), a dot component, other case
            t = e[2] if isinstance(e[2], bytes) else e[2].encode()
            near = [t.replace(b'/', b'\\'), t.replace(b'\\', b'/'), t.replace(b'/', b'//'), t + b'/', b'./' + t, t.replace(b'/', b'/./'), t.swapcase(), t.rstrip(b'/')]
            near = [x for x in near if x and x != t and b'\x00' not in x]
            out.append((p, 'L', rng.choice(near) if near else t))
        elif r < 0.35:
            out.append(e)                                     # same (files: same mtime => up to date)
        elif r < 0.5:
            dropped.append(p)                                 # missing on the destination
        elif r < 0.7 and e[1] == 'F':
            k = rng.random()
            if k < 0.4: out.append((p, 'F', file_bytes(rng), e[3] + rng.choice([-1, 1, 10 ** 9, -10 ** 9]) if e[3] > 10 ** 9 else e[3] + 1))
            else: out.append((p, 'F', file_bytes(rng), e[3]))       # same time, other bytes: deemed up to date
        else:
            # kind swap
            dropped.append(p)
            k = rng.choice([x for x in 'DFL' if x != e[1]])
            if k == 'D':
                out.append((p, 'D'))
                for q in gen_entries(rng, base, 3, decoys=decoys):
                    out.append((p + '/' + q[0],) + q[1:])
            elif k == 'F':
                out.append((p, 'F', file_bytes(rng), rng.choice(MTIMES)))
            else:
                out.append((p, 'L', rng.choice(link_targets(base, decoys))))
    have = {e[0] for e in out}
    for q in gen_entries(rng, base, 4, decoys=decoys):
        par = q[0].rsplit('/', 1)[0] if '/' in q[0] else ''
        if q[0] not in have and (par == '' or any(e[0] == par and e[1] == 'D' for e in out)):
            out.append(q); have.add(q[0])
    # parent-first order
    out.sort(key=lambda e: (e[0].count('/'), e[0]))
    ok, dirs = [], {''}
    for e in out:
        par = e[0].rsplit('/', 1)[0] if '/' in e[0] else ''
        if par in dirs:
            ok.append(e)
            if e[1] == 'D': dirs.add(e[0])
    return ok


def make_decoys(base):
    """populated targets outside either root; a link must never be followed into them"""
    l3.make_tree(base + '/outside', [('', 'D'), ('x', 'F', b'decoy-x', 1_500_000_000_000_000_000), ('sub', 'D'), ('sub/y', 'F', b'decoy-y', 1_500_000_000_000_000_000),
                                     ('a', 'F', b'decoy-a', 1_400_000_000_000_000_000), ('loop', 'L', '.'), ('b', 'D'), ('b/z', 'F', b'z', 1_300_000_000_000_000_000)])
    with open(base + '/outside_file', 'wb') as f:
        f.write(b'decoy-file')
    os.utime(base + '/outside_file', ns=(1_450_000_000_000_000_000, 1_450_000_000_000_000_000))


def filter_verdict(filters, path):
    if not filters:
        return True
    res = filters[0][0] == '-'
    for f in filters:
        if re.fullmatch(f[1:], path):
            res = f[0] == '+'
    return res


def visible(filters, relb):
    if relb == b'':
        return True
    try:
        rel = relb.decode()
    except UnicodeDecodeError:
        return None
    parts = rel.split('/')
    return all(filter_verdict(filters, '/'.join(parts[:i + 1])) for i in range(len(parts)))


def mirror_diffs(src, before, after, filters, links_exact=False):
    """independent mirror oracle.  src / before / after: snapshots (rel bytes -> tuple) of the source object, of the
    effective destination before and after.  Returns a list of human-readable differences."""
    diffs = []
    vis = lambda p: visible(filters, p)
    for p, s in src.items():
        if not vis(p):
            continue
        a = after.get(p)
        b = before.get(p)
        if a is None:
            diffs.append(f'{p!r}: missing on the destination (source has {s[0]})'); continue
        if s[0] == 'D':
            if a != ('D',): diffs.append(f'{p!r}: source folder, destination {a[0]}')
        elif s[0] == 'F':
            if a == s: continue
            if b is not None and b[0] == 'F' and b[3] == s[3] and a == b: continue      # same time: deemed up to date, left alone
            diffs.append(f'{p!r}: source file {s[1:]}, destination {a}')
        elif s[0] == 'L':
            if a[0] != 'L' or (a[1] != s[1] if links_exact else norm_link(a[1]) != norm_link(s[1])):
                diffs.append(f'{p!r}: source link {s[1]!r}, destination {a}')
        else:
            diffs.append(f'{p!r}: unexpected source kind {s}')
    for p, a in after.items():
        if p in src and vis(p):
            continue
        if vis(p) is True and p not in src:
            diffs.append(f'{p!r}: additional entry {a[0]} on the destination'); continue
        if before.get(p) != a:
            diffs.append(f'{p!r}: filter-excluded destination entry changed from {before.get(p)} to {a}')
    for p, b in before.items():
        if not vis(p) and p not in after:
            diffs.append(f'{p!r}: filter-excluded destination entry {b[0]} disappeared')
    return diffs


FLAGS_NO_SKIP = ['--dest-file-newer', 'overwrite', '--dest-file-older', 'overwrite', '--dest-entry-needs-deleting', 'delete', '--dest-root-needs-deleting', 'delete', '--no-progress']


class Case:
    """one generated sync: layout under `base`: S (source object), D (destination object or absent), outside*, and what was run"""
    pass


def gen_case(rng, sb, idx, root_leaf_prob=0.2, link_prob=0.2, filters_ok=True, nonutf8=False, max_entries=14):
    c = Case()
    c.base = os.path.join(sb.dir, f'm{idx}'); os.makedirs(c.base)
    make_decoys(c.base)
    c.placement = rng.choice(['local-local', 'local-remote', 'remote-local', 'remote-remote'])
    c.filters = rng.choice(FILTER_SETS) if filters_ok else []
    sname, dname = rng.choice(['S', 'src dir', 'sé']), rng.choice(['D', 'dst', 'deep/er/D'])
    c.src_path = os.path.join(c.base, sname)
    c.dst_path = os.path.join(c.base, 'dd', dname)
    os.makedirs(os.path.dirname(c.dst_path)) if rng.random() < 0.7 else None     # else: missing destination ancestors
    r = rng.random()
    if r < root_leaf_prob:
        # a file or symlink as the source root
        c.src_kind = rng.choice(['F', 'L'])
        if c.src_kind == 'F':
            l3.make_tree(c.src_path, [('', 'F', file_bytes(rng), rng.choice(MTIMES))])
        else:
            l3.make_tree(c.src_path, [('', 'L', rng.choice(link_targets(c.base)))])
        c.src_ents = []
        c.filters = []
    else:
        c.src_kind = 'D'
        c.src_ents = gen_entries(rng, c.base, max_entries, link_prob=link_prob, nonutf8=nonutf8)
        l3.make_tree(c.src_path, [('', 'D')] + c.src_ents)
    # destination object
    r = rng.random()
    c.dst_slash = rng.random() < 0.5
    if r < 0.2:
        c.dst_kind = None
    elif r < 0.8 or c.src_kind != 'D':
        c.dst_kind = 'D'
        os.makedirs(os.path.dirname(c.dst_path), exist_ok=True)
        ents = mutate(rng, c.base, c.src_ents) if c.src_kind == 'D' else gen_entries(rng, c.base, 4)
        if c.src_kind != 'D' and rng.random() < 0.6:
            # something already sits where a leaf source lands inside a trailing-slash destination
            ents = [e for e in ents if e[0] != sname and not e[0].startswith(sname + '/')]
            ents.append(rng.choice([(sname, 'F', b'old', 5), (sname, 'L', 'nowhere'), (sname, 'D')]))
            ents.sort(key=lambda e: (e[0].count('/'), e[0]))
        l3.make_tree(c.dst_path, [('', 'D')] + ents)
    else:
        c.dst_kind = rng.choice(['F', 'L'])
        os.makedirs(os.path.dirname(c.dst_path), exist_ok=True)
        l3.make_tree(c.dst_path, [('', 'F', b'root-file', 77)] if c.dst_kind == 'F' else [('', 'L', rng.choice([c.base + '/outside', 'nowhere', c.base + '/outside_file']))])
        if c.dst_kind == 'L':
            c.dst_slash = False           # (a trailing slash on a symlink to a folder names the folder behind it: outside the property's domain of un-nested paths)
    c.src_slash = (c.src_kind == 'D' and rng.random() < 0.5)
    # the documented table: where the source object lands
    if c.src_kind != 'D' and c.dst_slash:
        c.effective = os.path.join(c.dst_path, os.path.basename(c.src_path))
    else:
        c.effective = c.dst_path
    sp = c.src_path + ('/' if c.src_slash else '')
    dp = c.dst_path + ('/' if c.dst_slash else '')
    c.args = [('localhost:' if c.placement.startswith('remote') else '') + sp, ('localhost:' if c.placement.endswith('remote') else '') + dp]
    for f in c.filters:
        c.args += ['--filter', f]
    c.args += FLAGS_NO_SKIP
    return c


def snap_all(c):
    return dict(src=l3.snapshot(c.src_path), dst=l3.snapshot(c.effective), whole_dst=l3.snapshot(os.path.join(c.base, 'dd')),
                outside=l3.snapshot(c.base + '/outside'), outside_file=l3.snapshot(c.base + '/outside_file'))


def run_case(sb, c, extra_env=None):
    return l4.run_cli(c.args, env=sb.env(dict({'RJRSSYNC_TEST_PROMPT_RESPONSE': ''}, **(extra_env or {}))), timeout=120, cwd=c.base)


def describe(c):
    return dict(placement=c.placement, args=[a.replace(c.base, '<base>') for a in c.args], src_kind=c.src_kind, dst_kind=c.dst_kind,
                effective_dest=c.effective.replace(c.base, '<base>'), filters=c.filters)


def tree_listing(path, limit=60):
    out = subprocess.run(['find', path, '-printf', '%y %s %T@ %P -> %l\\n'], capture_output=True).stdout.decode(errors='backslashreplace').splitlines()
    return sorted(out)[:limit]


def snap_deep(root):
    """like l3.snapshot but with everything a re-run could disturb: mtimes of folders and links, inode numbers"""
    import hashlib, stat as _st
    out = {}
    def rec(p, rel):
        try:
            st = os.lstat(p)
        except FileNotFoundError:
            return
        if _st.S_ISLNK(st.st_mode):
            out[rel] = ('L', os.readlink(p), st.st_mtime_ns, st.st_ino)
        elif _st.S_ISDIR(st.st_mode):
            out[rel] = ('D', st.st_mtime_ns, st.st_ino)
            for n in sorted(os.listdir(p)):
                rec(os.path.join(p, n), (rel + b'/' + n) if rel else n)
        elif _st.S_ISREG(st.st_mode):
            with open(p, 'rb') as f:
                h = hashlib.sha1(f.read()).hexdigest()
            out[rel] = ('F', st.st_size, h, st.st_mtime_ns, st.st_ino)
        else:
            out[rel] = ('?', st.st_mode)
    rec(os.fsencode(root), b'')
    return out


def expected_link_text(t):
    """what the destination link must hold, exactly (unix to unix): the normal form of a relative, normalisable text; any other text verbatim"""
    return norm_link(t)


def small_texts(maxlen):
    """every byte string of 1..maxlen symbols over {a, /, ., \\, é, 0xff} (no NUL, not empty)"""
    import itertools
    syms = [b'a', b'/', b'.', b'\\', 'é'.encode(), b'\xff']
    for n in range(1, maxlen + 1):
        for c in itertools.product(syms, repeat=n):
            yield b''.join(c)
    # plus every such text of up to 2 symbols with one control / blank / quote character in front, inside or behind
    for x in [b'\n', b'\t', b'\x1b', b' ', b'"', b'\r', b'\x7f', b'\x01']:
        yield x
        for n in (1, 2):
            for c in itertools.product(syms[:3], repeat=n):
                t = b''.join(c)
                yield x + t; yield t + x
                if n == 2: yield c[0] + x + c[1]
