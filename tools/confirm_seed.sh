#!/bin/bash
# confirm_seed.sh <seed-dir under /verif/seeded> : confirms in a fresh scratch worktree that the change
# compiles, the pinned suite still passes (132 pass, the 12 sandbox failures unchanged), the
# demonstration fails with the change and passes without it.  Writes confirm.log into the seed dir.
set -u
SEED=$(readlink -f "$1"); NAME=$(basename "$SEED")
WT=/tmp/confirm-$NAME
export CARGO_NET_OFFLINE=true RUST_BACKTRACE=0
LOG=$SEED/confirm.log; : > $LOG
git -C /repo worktree remove --force $WT >/dev/null 2>&1
git -C /repo worktree add -q $WT HEAD || exit 2
cd $WT
mkdir -p SEED; cp -r $SEED/* SEED/ 2>/dev/null
echo "== unchanged tree" >> $LOG
cargo build --offline >> /dev/null 2>&1
for f in SEED/*.rs.test; do [ -e "$f" ] && cp "$f" tests/; done
(timeout 600 bash SEED/demo.sh > /tmp/confirm-$NAME-demo0.log 2>&1; echo "demo without change: rc=$?" >> $LOG)
git apply SEED/patch.diff || { echo "patch does not apply" >> $LOG; exit 3; }
echo "== with the change" >> $LOG
cargo build --offline >> /dev/null 2>&1 || echo "BUILD FAILED" >> $LOG
(timeout 600 bash SEED/demo.sh > /tmp/confirm-$NAME-demo1.log 2>&1; echo "demo with change: rc=$?" >> $LOG)
cat > /tmp/expected-failed.txt <<EOT
test filter_tests::remote::test_filter_normalized_paths
test remote_tests::needs_deploy_error
test remote_tests::needs_deploy_ok
test remote_tests::needs_deploy_prompt_cancel
test remote_tests::needs_deploy_prompt_deploy
test remote_tests::remote_port
test remote_tests::test_cross_platform
test remote_tests::test_remote_launch_linux
test remote_tests::test_remote_launch_windows
test symlink_tests::remote::test_symlink_target_slashes
test symlink_tests::remote::test_unknown_symlink_unix_to_windows
test sync_tests::read_only_dest_file
EOT
# (the suite has a known flake: prompt tests match their regex against a random temp directory name; so up to 3 attempts)
for attempt in 1 2 3; do
cargo test --offline --no-fail-fast 2>&1 | grep -E "^test result|FAILED" | sort | uniq > /tmp/confirm-$NAME-tests.log
grep -E "^test [A-Za-z0-9_:]+ \.\.\. FAILED" /tmp/confirm-$NAME-tests.log | sed 's/ \.\.\. FAILED//' | sort > /tmp/confirm-$NAME-failed.txt
if diff -q /tmp/confirm-$NAME-failed.txt /tmp/expected-failed.txt >/dev/null; then break; fi
echo "suite attempt $attempt differs: $(diff /tmp/confirm-$NAME-failed.txt /tmp/expected-failed.txt | tr '\n' ' ')" >> $LOG
done
grep "^test result" /tmp/confirm-$NAME-tests.log >> $LOG
if diff -q /tmp/confirm-$NAME-failed.txt /tmp/expected-failed.txt >/dev/null; then echo "suite: same 12 failures as baseline, everything else passes" >> $LOG; else echo "SUITE DIFFERS:" >> $LOG; diff /tmp/confirm-$NAME-failed.txt /tmp/expected-failed.txt >> $LOG; fi
cd /; git -C /repo worktree remove --force $WT
cat $LOG
