#!/bin/bash
# try_seed.sh <patch> <check-id> [tier] : apply a seeded patch to /repo, run the check, undo the patch
set -u
patch="$1"; id="$2"; tier="${3:-quick}"
cd /verif
git -C /repo status --porcelain | grep -q . && { echo "/repo not clean"; exit 2; }
git -C /repo apply "$patch" || exit 2
if [ "$tier" = thorough ]; then ./check "$id" --thorough > /tmp/try-$id.out 2>&1; else ./check "$id" > /tmp/try-$id.out 2>&1; fi
rc=$?
git -C /repo checkout -- .
echo "rc=$rc"; tail -4 /tmp/try-$id.out
