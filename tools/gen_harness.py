#!/usr/bin/env python3
"""Regenerates /verif/harness/{Cargo.toml,Cargo.lock,src/main.rs} from /repo so that the harness
binary compiles the repository's *current* source files in-process (#[path] mounts)."""
import re, sys, os, shutil
REPO = os.environ.get('VERIF_REPO', '/repo')
H = os.path.join(os.path.dirname(os.path.abspath(__file__)), '..', 'harness')
H = os.path.normpath(H)

def write_if_changed(path, content):
    if os.path.exists(path) and open(path).read() == content:
        return
    open(path, 'w').write(content)

toml = open(f'{REPO}/Cargo.toml').read()
# keep [build-dependencies], [dependencies], [features]; drop package targets/profiles/dev-deps
sections = re.split(r'(?m)^(?=\[)', toml)
keep = []
for s in sections:
    head = s.split('\n', 1)[0].strip()
    if head in ('[build-dependencies]', '[dependencies]', '[features]'):
        keep.append(s.rstrip() + '\n')
out = '''[package]
name = "rjverif_harness"
version = "%s"
edition = "2021"
autotests = false

%s
[[bin]]
name = "rjverif_harness"
path = "src/main.rs"

[profile.dev]
debug = 0

[workspace]
''' % (re.search(r'(?m)^version\s*=\s*"([^"]+)"', toml).group(1), '\n'.join(keep))
write_if_changed(f'{H}/Cargo.toml', out)
shutil.copyfile(f'{REPO}/Cargo.lock', f'{H}/Cargo.lock.repo')
# Cargo.lock: the repo's lock file with the package renamed
lock = open(f'{REPO}/Cargo.lock').read().replace('name = "rjrssync"', 'name = "rjverif_harness"')
write_if_changed(f'{H}/Cargo.lock', lock)
os.remove(f'{H}/Cargo.lock.repo')

main = open(f'{REPO}/src/main.rs', newline='').read().replace('\r\n', '\n')
def mount(m):
    name = m.group(1)
    p = f'{REPO}/src/{name}.rs'
    if not os.path.exists(p):
        p = f'{REPO}/src/{name}/mod.rs'
    return f'#[path = "{p}"] mod {name};'
main2 = re.sub(r'(?m)^mod (\w+);', mount, main)
if 'fn main() -> ExitCode {' not in main2:
    sys.exit('gen_harness: main.rs shape not recognised')
main2 = main2.replace('fn main() -> ExitCode {', 'mod hx;\n\nfn main() -> ExitCode {\n    if let Some(code) = hx::dispatch() { return code; }', 1)
main2 = '#![allow(dead_code, unused_imports, unexpected_cfgs)]\n' + main2
write_if_changed(f'{H}/src/main.rs', main2)
write_if_changed(f'{H}/build.rs', '''fn main() {
    println!("cargo:rustc-env=TARGET={}", std::env::var("TARGET").unwrap());
    println!("cargo:rustc-cfg=rjrssync_verif");
    println!("cargo:rustc-check-cfg=cfg(rjrssync_verif)");
}
''')
os.makedirs(f'{H}/.cargo', exist_ok=True)
write_if_changed(f'{H}/.cargo/config.toml', '[net]\noffline = true\n')
