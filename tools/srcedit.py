#!/usr/bin/env python3
"""Newline-preserving exact-string replacement for /repo sources (doer.rs is CRLF).
usage: srcedit.py FILE  (reads pairs from a python file given as 2nd arg: EDITS=[(old,new),...])"""
import sys, runpy
path, editfile = sys.argv[1], sys.argv[2]
raw = open(path, newline='').read()
crlf = '\r\n' in raw
s = raw.replace('\r\n', '\n')
for old, new in runpy.run_path(editfile)['EDITS']:
    if s.count(old) != 1:
        sys.exit(f"pattern occurs {s.count(old)} times: {old[:60]!r}")
    s = s.replace(old, new)
if crlf:
    s = s.replace('\n', '\r\n')
open(path, 'w', newline='').write(s)
