#!/bin/bash
# runs every claimed check (quick tier) and prints a summary
cd "$(dirname "$0")/.."
for p in $(python3 -c "import json; print(' '.join(c['property_id'] for c in json.load(open('MANIFEST.json'))['checks']))"); do
  s=$(date +%s); out=$(./check $p --tier ${1:-quick} 2>&1); rc=$?; e=$(date +%s)
  echo "$p rc=$rc $((e-s))s $(echo "$out" | grep -E 'VIOLATION|KNOWN-FINDING|Traceback' | head -3)"
done
