#!/usr/bin/env python3
"""save_seed.py <worktree> <name> <check-output-file> <caught_by> [missed_first]: keep a seeded change under /verif/seeded/<name>"""
import json, os, shutil, subprocess, sys
wt, name, outf, caught = sys.argv[1:5]
missed = sys.argv[5] if len(sys.argv) > 5 else None
d = f'/verif/seeded/{name}'
shutil.rmtree(d, ignore_errors=True)
shutil.copytree(wt + '/SEED', d, ignore=shutil.ignore_patterns('target', '*.log', 'scratch*'))
m = json.load(open(d + '/meta.json'))
m['caught_by'] = caught
if missed: m['missed_at_first'] = missed
m['check_output_with_change'] = [l for l in open(outf).read().splitlines() if l.strip()][-4:]
m['confirmed_by_me'] = [f'tools/confirm_seed.sh seeded/{name} (see confirm.log)', f'tools/try_seed.sh seeded/{name}/patch.diff {name.split("-")[0]}']
json.dump(m, open(d + '/meta.json', 'w'), indent=1)
print('saved', d, os.listdir(d))
