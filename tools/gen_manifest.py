#!/usr/bin/env python3
"""Writes /verif/MANIFEST.json from the table below (kept valid at all times)."""
import json, os, subprocess
V = os.path.dirname(os.path.dirname(os.path.abspath(__file__)))
ALL = [f'C{i:02d}' for i in range(1, 20)]

CLAIMED = {
 'C02': dict(
   text="Lean 4: one structural theorem about the boss model (run_ok: every command a run sends, classified per side and per dry-run flag, for every scenario - any replies incl. errors and unexpected variants, any arrival order, any behaviours/answers, any moment a destination error becomes visible) gives: the source doer is only ever sent SetRoot / GetEntries / GetFileContent (C02_src_trace), never a mutating command; CreateRootAncestors goes to the destination only and never in a dry run. The same is discharged on the source text: every send_command site on the source handle (extracted on every run) sends one of the three read-only variants. Tie: exact trace equality model vs the real sync() on 2500 mixed scripted scenarios + whitelist oracle on the implementation's source trace; L4: the CLI on real trees whose destination holds symlinks into populated decoy directories, snapshot of source + decoys before/after. Known finding C02-F7a (writes through a kept destination symlink after a skipped incompatible deletion) is reproduced on every run and reported as KNOWN-FINDING.",
   note="Trusted: Lean kernel; the boss model's tie is differential; the doer-side half (paths are root.join(relative); read-only commands change nothing) is exercised by L3/L4 snapshots here and in C12/C01, not proved; domain: source/destination not nested, no outside hard links.",
   technique="Lean 4 proof (structural case analysis of the boss model + loop invariants) + site extraction + L2 trace correspondence + L4 decoy snapshots", design="§3 C02"),
 'C03': dict(
   text="Lean 4: a run that ends because a behaviour resolved to error or a prompt was cancelled / could not be shown has sent the destination nothing that deletes or overwrites (C03_error_untouched, for every scenario, via run_before); the execution phase shows no prompt and changes no remembered answer (decisions precede the first change); per category: skip takes the entry off the list silently, delete/overwrite proceeds silently, error and cancel stop the pass at the first applicable entry; an 'all occurrences' answer changes only its own category's behaviour; the root gate (skip => Ok with nothing sent, error/cancel => error, no 'all' items). Tie: exact trace + prompt sequence equality against the real sync() over behaviour assignments from the 4^5 product (all 1024 in thorough) x answer scripts x tree pairs incl. root conflicts; independent oracles: consent error => no destructive command; no delete/overwrite under an error/skip behaviour.",
   note="Trusted: Lean kernel; dialoguer and an attended terminal are not exercised (answers come through the test-answer hook; the exhausted script is the unattended terminal); the L2 tie is differential.",
   technique="Lean 4 proof (structural case analysis + induction over the action lists) + L2 trace/prompt correspondence", design="§3 C03"),
 'C05': dict(
   text="Lean 4: with dry_run the source is sent only SetRoot/GetEntries (no GetFileContent) and the destination no mutating command, for every scenario (corollary of run_ok); on the source text every mutating destination site and the GetFileContent site sit inside an `if !ctx.dry_run` block (extracted on every run, all 8 kinds present); prediction: the dry run prints one 'Would delete' line per planned deletion in the order of the real run's delete commands with equal statistics, and counts every successfully copied entry exactly as the real run does (files once per file). Tie: paired runs of the real sync() with and without dry_run on 800 scenarios: 'Would ...' lines and summary counts = the real run's commands; L4: CLI dry runs on real trees (missing ancestors included) leave the snapshot unchanged.",
   note="Trusted: Lean kernel; the whole-run prediction statement is carried by the paired L2 runs (theorems are per loop / per entry); differential tie.",
   technique="Lean 4 proof (corollary of the trace theorem, loop inductions) + site-guard extraction + paired L2 runs + L4 snapshots", design="§3 C05"),
 'C06': dict(
   text="Lean 4 theorems over a regex AST with an executable position-set matcher: for every regex and every string an unanchored search for ^(?:p)$ succeeds iff p matches the whole string (C06_anchoring is stated for the wrap *extracted from compile_filters on this run*, so it stops checking if the wrap changes); apply_filters = root exempt, last matching filter decides, default = opposite of the first sign. Tie: the real compile_filters + apply_filters vs the model on grammar-generated (filter list, path) pairs, plus an independent whole-path oracle (\\A(?:p)\\z through the regex crate) that also judges out-of-subset syntax. 'Hidden entries are never read' and 'same verdict on both sides' are carried by the walker/boss models (C17, C02).",
   note="Trusted: Lean kernel; the regex crate's semantics (also the oracle's engine); the AST-level model of text concatenation precedence (validated by the differential stream); extraction of the wrap strings.",
   technique="Lean 4 proof (matcher lemmas, fold lemma) over extracted wrap + L1 differential with independent oracle", design="§3 C06"),
 'C07': dict(
   text="Lean 4: for every scenario and every poll index at which a destination Error response first becomes visible (incl. 'after the last poll' = the final blocking wait) the run does not end ok unless it sent nothing that could fail (C07_failure_reported, via run_before); the execution phase with a visible error never ends ok; a failing/unexpected/absent source reply fails the copy of that file (with C11: success => terminated stream totalling the listed size); deletion counters = delete commands sent; 'Nothing to do!' exactly when all six counters are zero. Tie: the real sync() with an error reply injected at every mutating command index of 60 plans (model asked for every poll index; oracle: never ok), summary numbers = commands sent, relay oracle; L4 real faults (ENOTEMPTY via a hidden entry, EACCES on a source folder and on the destination as uid 65534): status 12 + error message.",
   note="Trusted: Lean kernel; 'every I/O error the OS can produce' is bounded by the kinds provoked; that the doer turns each failure into an Error response is validated (L3/L4), not proved; the clause 'after a failed run every path is as it was / as planned / partly written without the source mtime' is C08's.",
   technique="Lean 4 proof (structural case analysis over outcomes, loop inductions) + L2 fault enumeration + L4 real faults", design="§3 C07"),
 'C10': dict(
   text="Lean 4 theorems with the AEAD as a parameter with laws (correctness, ciphertext integrity, nonce binding; a toy instance shows satisfiability): for every sent history, key and adversarial delivery sequence whose openable frames were made by the two honest ends, the receiving application is handed a prefix of what the other end sent (exactly once, in order); nothing is delivered after the first bad frame; a peer without the key gets nothing delivered; nonces determine (direction, index). C10_nonce_config pins the nonce step (the increment must be *stored*) and the four parities to what is extracted from the source on this run. Tie: two real AsyncEncryptedComms ends over loopback TCP with the harness as the network applying generated and systematic manipulation scripts (delivered indices = model = independent prefix oracle; key-stream reuse detected from the wire), and a real --doer process contacted with wrong-key frames / raw bytes (tree unchanged, process exits).",
   note="Trusted: Lean kernel; AES-128-GCM as an ideal AEAD (computational assumption, not provable here); OsRng; TCP in-order delivery; extraction of nonce step/parities.",
   technique="Lean 4 proof (induction over the delivered sequence, AEAD laws as structure fields) over extracted nonce discipline + real-link MITM correspondence", design="§3 C10"),
 'C11': dict(
   text="Lean 4 theorems: the look-ahead chunk reader emits, for every file length and every short-read schedule, chunks whose concatenation is the file, exactly the last one flagged 'no more', none empty, all within the maximum; the boss's chunk relay succeeds iff the stream is terminated and totals the listed size (any growth/shrink => error) and forwards exactly the consumed chunks with the time stamp on the last; the largest chunk fits the frame buffers (constants extracted from the source on every run). Tie: real GetFileContent / CreateOrUpdateFile on real files of every boundary length (chunk sequence = model, CRC per chunk, bytes+mtime read back) and the real sync() relaying scripted growing/shrinking sources.",
   note="Trusted: Lean kernel; host read(2)/write(2) (regular files give full reads: short-read schedules are covered by the theorem only); extraction of the four chunk constants and the buffer size; differential tie bounded by the lengths listed in the evidence.",
   technique="Lean 4 proof (functional induction over the reader, induction over the chunk stream) + L3/L2 correspondence", design="§3 C11"),
 'C14': dict(
   text="Lean 4 theorems: bincode decode(encode m) = m consuming exactly m's bytes, for every Command and Response variant and payloads of any length (compositional round-trip lemmas), lifted to streams (exactly once, in order, intact); the memory-bound channel as a two-thread transition system: in every reachable state, for every capacity (0 and below one message included), message sequence and schedule, counter = accounted size in flight and delivered ++ in flight ++ unsent = the sequence handed to send (FIFO, exactly once); a sender waits only if the bytes counted before its message exceed the capacity; a waiting sender is never stuck; with nothing queued any size is admitted; drained => counter 0. C14_channel_matches pins the protocol features extracted from memory_bound_channel.rs on this run (count-before-block, compare old with >, wait loop subtracts own size, release on recv and try_recv). Tie: real bincode bytes/serialized_size/decode of 3000+ generated messages incl. 4 MiB+1 payloads = model bytes; the real channel between two threads over 600 (capacity, sizes) cases: admitted sends with an idle receiver = model = independent oracle, order/intactness, counter 0 after draining; honest runs of the real TCP link.",
   note="Trusted: Lean kernel; crossbeam unbounded channel is a FIFO; Relaxed atomics on one location; bincode/serde derive (validated byte-for-byte on the generated messages); real thread timing is sampled - the schedule quantifier is carried by the theorem + feature extraction; Response::ProfilingData not modelled.",
   technique="Lean 4 proof (round-trip lemmas; inductive invariant of a transition system over all schedules) + feature extraction + L1/real-channel correspondence", design="§3 C14"),
 'C15': dict(
   text="Lean 4 theorems: the key text round trip holds for all 2^128 keys (per-digit lemma lifted by induction over the 16 bytes, leading zero bytes included); in the handshake-loop machine, over *any* message sequence of the two reader threads, a step writes the key only on stdout's started-line carrying exactly the local version, any other version ends the loop with nothing written, success implies the key was handed over; the launch/deploy/relaunch decision uploads only with consent (ok/force/prompt answered Deploy), 'error' or a cancelled prompt uploads nothing and fails, exactly one relaunch after a deploy (exhaustive case analysis). Tie: the two real key-text expressions on 2000+ keys incl. every count of leading zero bytes; the CLI against fake ssh/scp with a real --doer process over {absent, same, other version, broken} x {prompt(Deploy/cancel), error, ok, force}, one or both doers remote: launches, uploads, exit status = model; a wrong-version doer's stdin stays empty.",
   note="Trusted: Lean kernel; OsRng freshness; the fake ssh/scp (bash) stand in for real ssh; the reader-thread message abstraction is hand-modelled (tied by the L4 matrix); interleavings of handshake lines with noise are covered by the theorem over arbitrary message sequences, sampled only through the real process's own timing.",
   technique="Lean 4 proof (induction over bytes / over message sequences, exhaustive case analysis) + L1 and fake-ssh L4 correspondence", design="§3 C15"),
 'C16': dict(
   text="Lean 4: the five all-destructive blocks, flag overrides and defaults of resolve_spec are extracted from the source text into Generated.fieldRules on every run; C16_precedence is proved by kernel evaluation over the whole finite product (5 fields x {absent,4}^3) against the documented rule and defaults; filters replace; deploy flag > spec > default; spec file == SRC DEST; malformed spec values (non-dictionary root, unknown/non-string keys, wrong types, bad enum values, missing/empty src/dest) are rejected by the model of parse_spec_file over an abstract YAML value. Tie: real clap + yaml-rust + resolve_spec on the exhaustive per-field product, random joint assignments with several syncs, mutated spec texts and path-argument strings, exact equality of the effective spec; independent documented-precedence oracle.",
   note="Trusted: Lean kernel; yaml-rust (text -> value) and clap (argv -> options) as they are; the Defaults extractor (fails closed: an unrecognised block becomes a rule no theorem accepts).",
   technique="Lean 4 proof by exhaustive kernel evaluation over extracted rules + structural lemmas; L1 exhaustive/differential tie", design="§3 C16"),
 'C13': dict(
   text="Lean 4 theorems over the planner model (closed form as inductive invariant of the arrival handlers => same to_delete/to_copy for every interleaving and sibling order; iteration order = reversed dest arrival / source arrival, no key twice), unbounded in tree size and schedule; model tied to boss_sync.rs by exact trace equality of the real sync() vs the model on exhaustively enumerated interleavings of small tree pairs and sampled larger ones (scripted doers, one message in flight).",
   note="Trusted: Lean kernel (+propext, Classical.choice, Quot.sound); correspondence is differential (what the tie has seen is in the evidence); parent-before-child listing order is C17's guarantee; crossbeam select.",
   technique="Lean 4 proof (inductive invariant + permutation lemma) + L2 trace correspondence", design="§3 C13"),
}

def main():
    checks = []
    for pid in ALL:
        if pid not in CLAIMED:
            continue
        c = CLAIMED[pid]
        checks.append(dict(
            property_id=pid,
            quick_cmd=f'./check {pid} --tier quick',
            thorough_cmd=f'./check {pid} --tier thorough',
            evidence_file=f'/verif/evidence/{pid}.json',
            replay_cmd_template='./check replay {path}',
            engine='lean-proof+correspondence',
            level_claimed=dict(category='proof', text=c['text'], design_ref=c['design']),
            level_note=c['note'],
            technique=c['technique']))
    hooks = subprocess.run(['git', '-C', '/repo', 'log', '--format=%H %s'], capture_output=True, text=True).stdout.splitlines()
    hook_commits = [l.split()[0] for l in hooks if ' verif hook:' in l]
    m = dict(
        version=1,
        setup_cmd='./setup.sh',
        hooks=dict(guard='rjrssync_verif', enable='RUSTFLAGS="--cfg rjrssync_verif" (CLI build); the harness crate emits cargo:rustc-cfg=rjrssync_verif from its build.rs',
                   baseline_off_cmd='cd /repo && cargo test --workspace --no-fail-fast --offline',
                   source_commits=hook_commits, add_only=True),
        engines=[dict(name='lean-proof+correspondence', path='/verif/lean + /verif/harness + /verif/check',
                      serves_properties=sorted(CLAIMED), kind_free_text='Lean 4 theorems about a hand-written executable model; model tied to the code by extraction of constants/skeletons from the source and by differential execution against the real code (in-process harness and CLI)')],
        checks=checks,
        notes='See DESIGN.md. Every check regenerates lean/RjModel/Generated from /repo, rebuilds the Lean obligations, the harness and (where used) the CLI from /repo\'s working tree.',
        not_applicable=[dict(property_id=p, reason='not claimed yet: the check for this property is still being built (see DESIGN.md §7 order of work); the technique applies') for p in ALL if p not in CLAIMED])
    json.dump(m, open(os.path.join(V, 'MANIFEST.json'), 'w'), indent=1)

if __name__ == '__main__':
    main()
