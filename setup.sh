#!/bin/bash
# MANIFEST.setup_cmd: builds the framework from files on disk only (offline).
set -e
cd "$(dirname "$0")"
export CARGO_NET_OFFLINE=true
python3 extract/extract.py > /dev/null
(cd lean && lake build 2>&1 | tail -3)
python3 tools/gen_harness.py
(cd harness && cargo build --offline --target-dir ../.cache/harness 2>&1 | tail -1)
V=$(pwd); (cd ${VERIF_REPO:-/repo} && RUSTFLAGS="--cfg rjrssync_verif" cargo build --offline --bin rjrssync --target-dir $V/.cache/cli 2>&1 | tail -1)
echo setup-done
