/-! Model of `exe_utils.rs` on byte lists, with Rust's failure modes made explicit.

Integer semantics is that of the **dev profile** (overflow checks on: `+ - *` panic on overflow,
`/ 0` panics, `as` truncates), `usize` = 64 bit.  Every indexing / `split_off` / `splice` /
`copy_from_slice` outside the vector panics; `read_field` / `write_field` / `read_string` are
bounds-checked and give an error.  Result: `ok v | err | panic`. -/
namespace Rj.Exe

abbrev Bytes := List UInt8

inductive R (α : Type)
  | ok (a : α)
  | err
  | panic
  deriving Repr, DecidableEq

def R.bind {α β : Type} (r : R α) (f : α → R β) : R β :=
  match r with
  | .ok a => f a
  | .err => .err
  | .panic => .panic

instance : Monad R where
  pure := .ok
  bind := R.bind

def U64 : Nat := 2 ^ 64
def U32 : Nat := 2 ^ 32
def U16 : Nat := 2 ^ 16

def add (w : Nat) (a b : Nat) : R Nat := if a + b < w then .ok (a + b) else .panic
def sub (a b : Nat) : R Nat := if b ≤ a then .ok (a - b) else .panic
def mul (w : Nat) (a b : Nat) : R Nat := if a * b < w then .ok (a * b) else .panic
def div (a b : Nat) : R Nat := if b = 0 then .panic else .ok (a / b)

/-- `align(x, m) = ((x - 1) / m + 1) * m` in width `w` -/
def align (w : Nat) (x m : Nat) : R Nat := do
  let a ← sub x 1
  let b ← div a m
  let c ← add w b 1
  mul w c m

def leVal : Bytes → Nat
  | [] => 0
  | b :: bs => b.toNat + 256 * leVal bs

def leBytes : Nat → Nat → Bytes
  | 0, _ => []
  | n + 1, v => UInt8.ofNat (v % 256) :: leBytes n (v / 256)

/-- `read_field::<T>(bytes, offset)`: `bytes.get(offset..offset+size)` -/
def readField (b : Bytes) (off size : Nat) : R Nat := do
  let e ← add U64 off size
  if e ≤ b.length then .ok (leVal ((b.drop off).take size)) else .err

/-- `write_field::<T>(bytes, offset, val)` (`val` already truncated to the field by the caller) -/
def writeField (b : Bytes) (off size val : Nat) : R Bytes := do
  let e ← add U64 off size
  if e ≤ b.length then .ok (b.take off ++ leBytes size val ++ b.drop (off + size)) else .err

/-- `read_string(bytes, offset, max_size)` -/
def readStringLoop (b : Bytes) (off max : Nat) : Nat → Nat → R Nat
  | 0, size => .ok size
  | fuel + 1, size => do
    let i ← add U64 off size
    match b[i]? with
    | none => .err
    | some c =>
      if c = 0 then .ok size
      else if size + 1 ≥ max then .ok (size + 1)
      else readStringLoop b off max fuel (size + 1)

def readString (b : Bytes) (off max : Nat) : R Bytes := do
  let size ← readStringLoop b off max (max + 1) 0
  -- `&bytes[offset..offset+size]` (in range: every index was read)
  .ok ((b.drop off).take size)

/-- `v.split_off(at)` → (kept, split) -/
def splitOff (b : Bytes) (at_ : Nat) : R (Bytes × Bytes) :=
  if at_ ≤ b.length then .ok (b.take at_, b.drop at_) else .panic

/-- `v.splice(a..a, ins)` -/
def spliceAt (b : Bytes) (a : Nat) (ins : Bytes) : R Bytes :=
  if a ≤ b.length then .ok (b.take a ++ ins ++ b.drop a) else .panic

def zeros (n : Nat) : Bytes := List.replicate n 0

/-! ### ELF -/

def validateElf (b : Bytes) : R Unit := do
  let magic ← readField b 0 4
  if magic ≠ 0x464C457F then .err else
  let bits ← readField b 4 1
  if bits ≠ 2 then .err else
  let endian ← readField b 5 1
  if endian ≠ 1 then .err else
  let ver ← readField b 6 1
  if ver ≠ 1 then .err else .ok ()

def extractElfLoop (b : Bytes) (name : Bytes) (shoff entsize namesOff : Nat) : Nat → Nat → R (Option Bytes)
  | 0, _ => .ok none
  | n + 1, idx => do
    let hdr ← add U64 shoff (idx * entsize)       -- (u16 * u16 cannot overflow)
    let nameOff ← readField b hdr 4
    let so ← add U64 namesOff nameOff
    let nm ← readString b so 32
    if nm = name then do
      let dOff ← add U64 hdr 0x18
      let off ← readField b dOff 8
      let sOff ← add U64 hdr 0x20
      let size ← readField b sOff 8
      let (_, x) ← splitOff b off
      .ok (some (x.take size))
    else extractElfLoop b name shoff entsize namesOff n (idx + 1)

/-- `extract_section_from_elf`; `ok none` = `SectionNotFound` -/
def extractElf (b : Bytes) (name : Bytes) : R (Option Bytes) := do
  validateElf b
  let shoff ← readField b 0x28 8
  let entsize ← readField b 0x3A 2
  let num ← readField b 0x3C 2
  let strndx ← readField b 0x3E 2
  let a ← add U64 shoff (strndx * entsize)
  let a2 ← add U64 a 0x18
  let namesOff ← readField b a2 8
  extractElfLoop b name shoff entsize namesOff num 0

/-- the loop that moves the file offsets of the sections whose data lies at or behind the insertion point `at_` (the end of
the names section), whatever their index; the names section itself (`skip`) is not looked at -/
def shiftOffsets (table : Bytes) (entsize inserted at_ skip : Nat) : Nat → Nat → R Bytes
  | 0, _ => .ok table
  | n + 1, idx =>
    if idx = skip then shiftOffsets table entsize inserted at_ skip n (idx + 1) else do
    let oo ← add U64 (idx * entsize) 0x18
    let orig ← readField table oo 8
    let t ← (if at_ ≤ orig then do
        let nw ← add U64 orig inserted
        writeField table oo 8 nw
      else .ok table)
    shiftOffsets t entsize inserted at_ skip n (idx + 1)

/-- `add_section_to_elf` -/
def addElf (b : Bytes) (name : Bytes) (payload : Bytes) : R Bytes := do
  validateElf b
  let shoff ← readField b 0x28 8
  let entsize ← readField b 0x3A 2
  let num ← readField b 0x3C 2
  let strndx ← readField b 0x3E 2
  let endT ← add U64 shoff (num * entsize)
  if b.length ≠ endT then .err else
  let (elf, table) ← splitOff b shoff
  let o1 ← add U64 (strndx * entsize) 0x18
  let namesOff ← readField table o1 8
  let o2 ← add U64 (strndx * entsize) 0x20
  let namesSize ← readField table o2 8
  let newBytes := name ++ [0]
  let inserted := newBytes.length
  let at_ ← add U64 namesOff namesSize
  let elf ← spliceAt elf at_ newBytes
  let namesNew ← add U64 namesSize inserted
  let table ← writeField table o2 8 namesNew
  let table ← shiftOffsets table entsize inserted at_ strndx num 0
  let newOff := elf.length
  let elf := elf ++ payload
  let hdr := zeros entsize
  let hdr ← writeField hdr 0 4 (namesSize % U32)
  let hdr ← writeField hdr 4 4 0x80000000
  let hdr ← writeField hdr 0x18 8 newOff
  let hdr ← writeField hdr 0x20 8 payload.length
  let table := table ++ hdr
  let newShoff := elf.length
  let elf := elf ++ table
  let elf ← writeField elf 0x28 8 newShoff
  writeField elf 0x3C 2 ((num + 1) % U16)

/-! ### PE -/

def validatePe (b : Bytes) : R Nat := do
  let sigOff ← readField b 0x3c 4
  let sig ← readField b sigOff 4
  if sig ≠ 0x00004550 then .err else add U64 sigOff 4

def extractPeLoop (b : Bytes) (name : Bytes) (hdrs : Nat) : Nat → Nat → R (Option Bytes)
  | 0, _ => .ok none
  | n + 1, idx => do
    let h ← add U64 hdrs (idx * 40)
    let nm ← readString b h 8
    if nm = name then do
      let o1 ← add U64 h 16
      let size ← readField b o1 4
      let o2 ← add U64 h 20
      let ptr ← readField b o2 4
      let (_, x) ← splitOff b ptr
      .ok (some (x.take size))
    else extractPeLoop b name hdrs n (idx + 1)

def extractPe (b : Bytes) (name : Bytes) : R (Option Bytes) := do
  let fh ← validatePe b
  let o ← add U64 fh 2
  let num ← readField b o 2
  let o ← add U64 fh 16
  let optSize ← readField b o 2
  let opt ← add U64 fh 20
  let hdrs ← add U64 opt optSize
  extractPeLoop b name hdrs num 0

def bumpPointers (b : Bytes) (hdrs fileAlign : Nat) : Nat → Nat → R Bytes
  | 0, _ => .ok b
  | n + 1, idx => do
    let h ← add U64 hdrs (idx * 40)
    let po ← add U64 h 20
    let orig ← readField b po 4
    let nw ← add U32 orig fileAlign
    let b ← writeField b po 4 nw
    bumpPointers b hdrs fileAlign n (idx + 1)

/-- `add_section_to_pe` (`name.len() ≤ 8` is asserted: longer names panic) -/
def addPe (b : Bytes) (name : Bytes) (payload : Bytes) : R Bytes := do
  let fh ← validatePe b
  let numOff ← add U64 fh 2
  let num ← readField b numOff 2
  let newNum ← add U16 num 1
  let b ← writeField b numOff 2 newNum
  let o ← add U64 fh 16
  let optSize ← readField b o 2
  let opt ← add U64 fh 20
  let o ← add U64 opt 32
  let secAlign ← readField b o 4
  let o ← add U64 opt 36
  let fileAlign ← readField b o 4
  let hdrs ← add U64 opt optSize
  let endHdrs ← add U64 hdrs (num * 40)
  let al ← align U64 endHdrs fileAlign
  let gap ← sub al endHdrs
  let b ← (if gap < 40 then do
      -- as many whole file alignments as it takes to make room for the 40-byte header (`align(40 - gap, file_alignment)`)
      let need ← sub 40 gap
      let bump ← align U64 need fileAlign
      let b ← spliceAt b endHdrs (zeros bump)
      bumpPointers b hdrs (bump % U32) num 0
    else .ok b)
  if name.length > 8 then .panic else
  let hdr := name ++ zeros (40 - name.length)
  let hdr ← writeField hdr 8 4 1
  let nm1 ← sub num 1
  let t ← mul U64 nm1 40
  let t ← add U64 hdrs t
  let vaOff ← add U64 t 12
  let prevVa ← readField b vaOff 4
  let vsOff ← add U64 t 8
  let prevVs ← readField b vsOff 4
  let s ← add U32 prevVa prevVs
  let newVa ← align U32 s secAlign
  let hdr ← writeField hdr 12 4 newVa
  let rawSize ← align U32 (payload.length % U32) fileAlign
  let hdr ← writeField hdr 16 4 rawSize
  let hdr ← writeField hdr 36 4 0x40
  let newHdrOff ← add U64 hdrs (num * 40)
  let e ← add U64 newHdrOff 40
  if e > b.length then .panic else
  let b := b.take newHdrOff ++ hdr ++ b.drop e
  let newSecOff ← align U64 b.length fileAlign
  let b := b ++ zeros (newSecOff - b.length)
  let data := if payload.length ≤ rawSize then payload ++ zeros (rawSize - payload.length) else payload.take rawSize
  let b := b ++ data
  let o ← add U64 newHdrOff 20
  let b ← writeField b o 4 (newSecOff % U32)
  let soi ← add U64 opt 56
  let img ← add U32 newVa 1
  let img ← align U32 img secAlign
  let b ← writeField b soi 4 img
  let soh ← add U64 opt 60
  let nh ← add U64 endHdrs 40
  let nh ← align U64 nh fileAlign
  writeField b soh 4 (nh % U32)

end Rj.Exe
