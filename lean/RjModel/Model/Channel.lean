/-! Model of `memory_bound_channel.rs` as a transition system of its one sender and one receiver:
atomic statements `fetchAdd` (count *before* blocking), `spinPass` (leave the wait loop),
`innerSend` (push to the inner FIFO), `recv` (pop) and `fetchSub` (release).  Message = its
accounted size.  `ChanFeatures` is the feature record the extractor fills from the source text. -/
namespace Rj

/-- which protocol features the source text shows (extracted on every run) -/
structure ChanFeatures where
  countBeforeBlock : Bool     -- fetch_add precedes the admission test
  admitComparesOld : Bool     -- the admission test looks at the value *before* the add ...
  admitStrict : Bool          -- ... with `>`
  spinSubtractsOwn : Bool     -- the wait loop compares `load - own size` ...
  spinStrict : Bool           -- ... with `>`
  sendAfterWait : Bool        -- the inner send comes after the wait
  recvReleases : Bool         -- `recv` does fetch_sub of the message's size
  tryRecvReleases : Bool      -- `try_recv` does too
  waitChecksReceiverGone : Bool -- the wait loop ends when the receiving end has been dropped
  deriving DecidableEq, Repr

/-- the protocol the theorems are proved for -/
def ChanFeatures.ref : ChanFeatures := ⟨true, true, true, true, true, true, true, true, true⟩

namespace Chan

inductive SPC | idle | waiting (m : Nat) | ready (m : Nat) deriving DecidableEq, Repr
inductive RPC | idle | got (m : Nat) deriving DecidableEq, Repr

structure St where
  toSend : List Nat
  spc : SPC
  q : List Nat
  rpc : RPC
  counter : Nat
  delivered : List Nat
  deriving Repr

def SPC.sz : SPC → Nat | .idle => 0 | .waiting m => m | .ready m => m
def SPC.lst : SPC → List Nat | .idle => [] | .waiting m => [m] | .ready m => [m]
def RPC.sz : RPC → Nat | .idle => 0 | .got m => m
def RPC.lst : RPC → List Nat | .idle => [] | .got m => [m]

inductive Act | fetchAdd | spinPass | innerSend | recv | fetchSub deriving DecidableEq, Repr

/-- one atomic step of memory_bound_channel (cap = capacity); none = not enabled -/
def step (cap : Nat) (s : St) : Act → Option St
  | .fetchAdd => match s.spc, s.toSend with
    | .idle, m :: rest =>
      let old := s.counter
      some { s with toSend := rest, counter := s.counter + m,
                    spc := if old > cap then .waiting m else .ready m }
    | _, _ => none
  | .spinPass => match s.spc with
    | .waiting m => if s.counter - m > cap then none else some { s with spc := .ready m }
    | _ => none
  | .innerSend => match s.spc with
    | .ready m => some { s with q := s.q ++ [m], spc := .idle }
    | _ => none
  | .recv => match s.rpc, s.q with
    | .idle, m :: q' => some { s with q := q', rpc := .got m }
    | _, _ => none
  | .fetchSub => match s.rpc with
    | .got m => some { s with counter := s.counter - m, delivered := s.delivered ++ [m], rpc := .idle }
    | _ => none


/-- all messages ever handed to `send`, in order, are conserved; the counter is what is in flight -/
def Inv (all : List Nat) (s : St) : Prop :=
  s.counter = s.q.sum + s.spc.sz + s.rpc.sz ∧
  s.delivered ++ s.rpc.lst ++ s.q ++ s.spc.lst ++ s.toSend = all

def St.init (msgs : List Nat) : St := ⟨msgs, .idle, [], .idle, 0, []⟩

/-- a schedule: any sequence of statements; disabled ones are skipped (the thread was not there) -/
def runSched (cap : Nat) : St → List Act → St
  | s, [] => s
  | s, a :: as => match step cap s a with
    | some s' => runSched cap s' as
    | none => runSched cap s as

end Chan
end Rj
