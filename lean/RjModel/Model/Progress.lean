/-! Model of the progress accounting of `boss_progress.rs` (`ProgressValues`, `for_copy`,
`for_copy_partial`, `for_delete`): what the boss adds to `sent` per entry and per chunk, and what it
computed as `total` from the plan.  The `debug_assert`s of `get_progress_marker` (`sent ≤ total`) and
`all_work_sent` (`total == sent`) are statements about these sums. -/
namespace Rj

structure PV where
  work : Nat
  delete : Nat
  copy : Nat
  copyBytes : Nat
  deriving DecidableEq, Repr

instance : Add PV := ⟨fun a b => ⟨a.work + b.work, a.delete + b.delete, a.copy + b.copy, a.copyBytes + b.copyBytes⟩⟩
instance : Inhabited PV := ⟨⟨0, 0, 0, 0⟩⟩

/-- `for_copy` of a file of `size` bytes (`minSz` = `MIN_FILE_SIZE`) -/
def forCopyFile (minSz size : Nat) : PV := ⟨max size minSz, 0, 1, size⟩
/-- `for_copy` of a folder or a symlink -/
def forCopyOther (minSz : Nat) : PV := ⟨minSz, 0, 1, 0⟩
/-- `for_delete` -/
def forDelete (delWork : Nat) : PV := ⟨delWork, 1, 0, 0⟩

/-- `for_copy_partial(chunk_start, chunk_size, file_size)` -/
def forCopyPartial (minSz start len size : Nat) : PV :=
  if start + len < size then ⟨if size > minSz then len else 0, 0, 0, len⟩
  else ⟨if size > minSz then len else minSz, 0, 1, len⟩

/-- what the chunk loop of `copy_file` adds to `sent` for the chunks of one file, starting at offset `start` -/
def sumPartial (minSz size : Nat) : Nat → List Nat → PV
  | _, [] => ⟨0, 0, 0, 0⟩
  | start, l :: ls => forCopyPartial minSz start l size + sumPartial minSz size (start + l) ls

/-- `u64::saturating_add` (`cap` = `u64::MAX`): how the byte sums `work` and `copy_bytes` of `add_assign` and the byte
totals of the statistics are accumulated -/
def satAdd (cap a b : Nat) : Nat := min (a + b) cap

end Rj
