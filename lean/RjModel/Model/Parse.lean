import RjModel.Model.Boss
/-! Token-stream parser for the line protocol (requests come from the check driver; the same lines
go to the Rust harness, which has its own parser — the format is the contract).
Strings are `x<hex of UTF-8>`; numbers decimal; lists are length-prefixed. -/
namespace Rj

abbrev P := StateT (List String) Option

def P.tok : P String := fun
  | [] => none
  | t :: ts => some (t, ts)

def P.fail {α} : P α := fun _ => none

def P.ofOpt {α} : Option α → P α
  | some a => pure a
  | none => P.fail

def P.nat : P Nat := do P.ofOpt (← P.tok).toNat?
def P.int : P Int := do P.ofOpt (← P.tok).toInt?
def P.bool : P Bool := do
  match (← P.tok) with
  | "0" => pure false
  | "1" => pure true
  | _ => P.fail

def unx (t : String) : Option String :=
  match t.toList with
  | 'x' :: r => stringOfHex (String.ofList r)
  | _ => none

def unxBytes (t : String) : Option (List UInt8) :=
  match t.toList with
  | 'x' :: r => bytesOfHex (String.ofList r)
  | _ => none

def P.str : P String := do P.ofOpt (unx (← P.tok))
def P.bytes : P (List UInt8) := do P.ofOpt (unxBytes (← P.tok))

def P.rep {α} (p : P α) : Nat → P (List α)
  | 0 => pure []
  | n + 1 => do
    let a ← p
    let r ← P.rep p n
    pure (a :: r)

def P.list {α} (p : P α) : P (List α) := do
  let n ← P.nat
  P.rep p n

def P.optNat : P (Option Nat) := do
  let t ← P.tok
  if t = "-" then pure none else (some <$> P.ofOpt t.toNat?)

def Beh.parse : Char → Option Beh
  | 'p' => some .prompt | 'e' => some .error | 's' => some .skip | 'o' => some .proceed | _ => none

def P.behaviours : P Behaviours := do
  match (← P.tok).toList with
  | [a, b, c, d, e] =>
    let a ← P.ofOpt (Beh.parse a); let b ← P.ofOpt (Beh.parse b); let c ← P.ofOpt (Beh.parse c)
    let d ← P.ofOpt (Beh.parse d); let e ← P.ofOpt (Beh.parse e)
    pure ⟨a, b, c, d, e⟩
  | _ => P.fail

def Answer.parse : Char → Option Answer
  | 's' => some .skipOnce | 'S' => some .skipAll | 'd' => some .doOnce | 'D' => some .doAll
  | 'c' => some .cancel | _ => none

def P.answers : P (List Answer) := do
  let t ← P.tok
  if t = "-" then pure [] else P.ofOpt (t.toList.mapM Answer.parse)

def P.details : P Details := do P.ofOpt (Details.parse (← P.tok))

def P.optDetails : P (Option Details) := do
  let t ← P.tok
  if t = "-" then pure none else some <$> P.ofOpt (Details.parse t)

def P.side : P Side := do
  match (← P.tok) with
  | "S" => pure .src
  | "D" => pure .dest
  | _ => P.fail

def P.rootReply : P RootReply := do
  match (← P.tok) with
  | "O" => pure .other
  | "R" =>
    let d ← P.optDetails
    let diff ← P.bool
    let sep ← P.nat
    pure (.details d diff (Char.ofNat sep))
  | _ => P.fail

def P.lev : P LEv := do
  match (← P.tok) with
  | "E" =>
    let s ← P.side; let p ← P.str; let d ← P.details
    pure (.entry s p d)
  | "Z" => LEv.endOf <$> P.side
  | "U" => LEv.other <$> P.side
  | _ => P.fail

def P.fileScript : P (String × FileScript) := do
  let p ← P.str
  let cs ← P.list (do let d ← P.bytes; let m ← P.bool; pure (d, m))
  pure (p, cs)

def P.scenario : P Scenario := do
  let srcRoot ← P.str
  let destRoot ← P.str
  let dry ← P.bool
  let beh ← P.behaviours
  let filters ← P.list P.str
  let r1 ← P.rootReply
  let r2 ← P.rootReply
  let r3 ← P.rootReply
  let evs ← P.list P.lev
  let ans ← P.answers
  let files ← P.list P.fileScript
  let errTok ← P.tok           -- `-` | poll index | `q` (seen during the query loop)
  let errAt : Option Nat := if errTok = "-" || errTok = "q" then none else errTok.toNat?
  if errTok ≠ "-" && errTok ≠ "q" && errAt.isNone then P.fail
  let errAtCmd ← P.optNat       -- the mutating destination command that is answered with an error
  let _concrete ← P.tok         -- harness only: the concrete prompt-answer strings
  pure { srcRoot, destRoot, dryRun := dry, beh, filters, srcReply := r1, destReply := r2,
         destReply2 := r3, events := evs, answers := ans, files, errAtPoll := errAt,
         errInQuery := errTok = "q", errCmd := errAtCmd }

def P.run {α} (p : P α) (toks : List String) : Option α :=
  match p toks with
  | some (a, []) => some a
  | _ => none

/-! rendering of a run result -/

def ErrKind.render : ErrKind → String
  | .badFilter => "BadFilter" | .srcMissing => "SrcMissing" | .srcSlash => "SrcSlash"
  | .destSlash => "DestSlash" | .unexpected => "Unexpected" | .rootErr => "RootErr"
  | .entryErr => "EntryErr" | .newerErr => "NewerErr" | .olderErr => "OlderErr"
  | .sameErr => "SameErr" | .sizeChanged => "SizeChanged" | .doer => "Doer" | .lost => "Lost"

def Outcome.render : Outcome → String
  | .ok => "ok" | .err k => "err:" ++ k.render | .panic => "panic"

def PromptKind.render : PromptKind → String
  | .root => "R" | .entry => "E" | .newer => "N" | .older => "O" | .same => "S"

/-- `nAnswers`: only prompts answered from the script are echoed by the real code (an unattended
terminal cancels silently), so only those are rendered. -/
def RunResult.render (r : RunResult) (nAnswers : Nat) : String :=
  s!"res={r.outcome.render} src=[{joinWith ";" (r.srcTrace.map Cmd.render)}] dest=[{joinWith ";" (r.destTrace.map Cmd.render)}] log=[{joinWith ";" (r.log.map hexOfString)}] prompts=[{joinWith "" ((r.prompts.take nAnswers).map PromptKind.render)}]"

end Rj
