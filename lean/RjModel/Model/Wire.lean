/-! Model of the wire form of `Command` / `Response` (`boss_doer_interface.rs`, bincode 1.3 default
configuration: little-endian fixed-width integers, `u32` variant indices, `u64` length prefixes,
`Option` as a tag byte, `SystemTime`/`Duration` as `u64` seconds + `u32` nanoseconds, `bool` as one
byte).  Strings are carried as their UTF-8 bytes (validity of UTF-8 is serde's check on decode);
`Response::ProfilingData` (profiling builds only) is not modelled. -/
namespace Rj.Wire

abbrev B := List UInt8

def leBytes : Nat → Nat → B
  | 0, _ => []
  | n + 1, v => UInt8.ofNat (v % 256) :: leBytes n (v / 256)

def leVal : B → Nat
  | [] => 0
  | b :: bs => b.toNat + 256 * leVal bs

def take? (n : Nat) (b : B) : Option (B × B) := if n ≤ b.length then some (b.take n, b.drop n) else none

def dNat (n : Nat) (b : B) : Option (Nat × B) := (take? n b).map fun (x, r) => (leVal x, r)

def eBytes (d : B) : B := leBytes 8 d.length ++ d
def dBytes (b : B) : Option (B × B) := (dNat 8 b).bind fun (n, r) => take? n r

def eBool (x : Bool) : B := [if x then 1 else 0]
def dBool : B → Option (Bool × B)
  | 0 :: r => some (false, r)
  | 1 :: r => some (true, r)
  | _ => none

inductive WKind | file | folder | unknown
  deriving DecidableEq, Repr
inductive WTarget | norm (s : B) | notNorm (s : B)
  deriving DecidableEq, Repr
inductive WDetails
  | file (secs nanos size : Nat)
  | folder
  | symlink (k : WKind) (t : WTarget)
  deriving DecidableEq, Repr
inductive WPhase | deleting (n : Nat) | copying (n bytes : Nat) | done
  deriving DecidableEq, Repr
structure WMarker where
  work : Nat
  phase : WPhase
  deriving DecidableEq, Repr

inductive WCmd
  | setRoot (root : B)
  | getEntries (patterns : List B) (kinds : List Bool)
  | createRootAncestors
  | getFileContent (p : B)
  | createOrUpdateFile (p data : B) (mtime : Option (Nat × Nat)) (more : Bool)
  | createSymlink (p : B) (k : WKind) (t : WTarget)
  | createFolder (p : B)
  | deleteFile (p : B)
  | deleteFolder (p : B)
  | deleteSymlink (p : B) (k : WKind)
  | profilingTimeSync
  | marker (m : WMarker)
  | shutdown
  deriving DecidableEq, Repr

inductive WResp
  | rootDetails (d : Option WDetails) (diff : Bool) (sep : Nat)
  | entry (p : B) (d : WDetails)
  | endOfEntries
  | fileContent (data : B) (more : Bool)
  | profilingTimeSync (secs nanos : Nat)
  | marker (m : WMarker)
  | error (msg : B)
  deriving DecidableEq, Repr

/-! encoders -/

def eKind : WKind → B
  | .file => leBytes 4 0 | .folder => leBytes 4 1 | .unknown => leBytes 4 2
def eTarget : WTarget → B
  | .norm s => leBytes 4 0 ++ eBytes s
  | .notNorm s => leBytes 4 1 ++ eBytes s
def eDetails : WDetails → B
  | .file secs nanos size => leBytes 4 0 ++ leBytes 8 secs ++ leBytes 4 nanos ++ leBytes 8 size
  | .folder => leBytes 4 1
  | .symlink k t => leBytes 4 2 ++ eKind k ++ eTarget t
def ePhase : WPhase → B
  | .deleting n => leBytes 4 0 ++ leBytes 4 n
  | .copying n b => leBytes 4 1 ++ leBytes 4 n ++ leBytes 8 b
  | .done => leBytes 4 2
def eMarker (m : WMarker) : B := leBytes 8 m.work ++ ePhase m.phase
def eStrs : List B → B
  | [] => []
  | s :: r => eBytes s ++ eStrs r
def eKinds : List Bool → B
  | [] => []
  | k :: r => leBytes 4 (if k then 0 else 1) ++ eKinds r
def eOptTime : Option (Nat × Nat) → B
  | none => [0]
  | some (s, n) => [1] ++ leBytes 8 s ++ leBytes 4 n
def eOptDetails : Option WDetails → B
  | none => [0]
  | some d => [1] ++ eDetails d

def eCmd : WCmd → B
  | .setRoot r => leBytes 4 0 ++ eBytes r
  | .getEntries ps ks => leBytes 4 1 ++ leBytes 8 ps.length ++ eStrs ps ++ leBytes 8 ks.length ++ eKinds ks
  | .createRootAncestors => leBytes 4 2
  | .getFileContent p => leBytes 4 3 ++ eBytes p
  | .createOrUpdateFile p d t more => leBytes 4 4 ++ eBytes p ++ eBytes d ++ eOptTime t ++ eBool more
  | .createSymlink p k t => leBytes 4 5 ++ eBytes p ++ eKind k ++ eTarget t
  | .createFolder p => leBytes 4 6 ++ eBytes p
  | .deleteFile p => leBytes 4 7 ++ eBytes p
  | .deleteFolder p => leBytes 4 8 ++ eBytes p
  | .deleteSymlink p k => leBytes 4 9 ++ eBytes p ++ eKind k
  | .profilingTimeSync => leBytes 4 10
  | .marker m => leBytes 4 11 ++ eMarker m
  | .shutdown => leBytes 4 12

def eResp : WResp → B
  | .rootDetails d diff sep => leBytes 4 0 ++ eOptDetails d ++ eBool diff ++ [UInt8.ofNat sep]
  | .entry p d => leBytes 4 1 ++ eBytes p ++ eDetails d
  | .endOfEntries => leBytes 4 2
  | .fileContent d more => leBytes 4 3 ++ eBytes d ++ eBool more
  | .profilingTimeSync s n => leBytes 4 4 ++ leBytes 8 s ++ leBytes 4 n
  | .marker m => leBytes 4 6 ++ eMarker m
  | .error msg => leBytes 4 7 ++ eBytes msg

/-! decoders -/

def dKind (b : B) : Option (WKind × B) :=
  (dNat 4 b).bind fun (t, r) => match t with
    | 0 => some (.file, r) | 1 => some (.folder, r) | 2 => some (.unknown, r) | _ => none
def dTarget (b : B) : Option (WTarget × B) :=
  (dNat 4 b).bind fun (t, r) => match t with
    | 0 => (dBytes r).map fun (s, r) => (.norm s, r)
    | 1 => (dBytes r).map fun (s, r) => (.notNorm s, r)
    | _ => none
def dDetails (b : B) : Option (WDetails × B) :=
  (dNat 4 b).bind fun (t, r) => match t with
    | 0 => (dNat 8 r).bind fun (s, r) => (dNat 4 r).bind fun (n, r) => (dNat 8 r).map fun (z, r) => (.file s n z, r)
    | 1 => some (.folder, r)
    | 2 => (dKind r).bind fun (k, r) => (dTarget r).map fun (t, r) => (.symlink k t, r)
    | _ => none
def dPhase (b : B) : Option (WPhase × B) :=
  (dNat 4 b).bind fun (t, r) => match t with
    | 0 => (dNat 4 r).map fun (n, r) => (.deleting n, r)
    | 1 => (dNat 4 r).bind fun (n, r) => (dNat 8 r).map fun (z, r) => (.copying n z, r)
    | 2 => some (.done, r)
    | _ => none
def dMarker (b : B) : Option (WMarker × B) :=
  (dNat 8 b).bind fun (w, r) => (dPhase r).map fun (p, r) => (⟨w, p⟩, r)
def dStrs : Nat → B → Option (List B × B)
  | 0, b => some ([], b)
  | n + 1, b => (dBytes b).bind fun (s, r) => (dStrs n r).map fun (l, r) => (s :: l, r)
def dKinds : Nat → B → Option (List Bool × B)
  | 0, b => some ([], b)
  | n + 1, b => (dNat 4 b).bind fun (t, r) => match t with
    | 0 => (dKinds n r).map fun (l, r) => (true :: l, r)
    | 1 => (dKinds n r).map fun (l, r) => (false :: l, r)
    | _ => none
def dOptTime : B → Option (Option (Nat × Nat) × B)
  | 0 :: r => some (none, r)
  | 1 :: r => (dNat 8 r).bind fun (s, r) => (dNat 4 r).map fun (n, r) => (some (s, n), r)
  | _ => none
def dOptDetails : B → Option (Option WDetails × B)
  | 0 :: r => some (none, r)
  | 1 :: r => (dDetails r).map fun (d, r) => (some d, r)
  | _ => none

def dCmd (b : B) : Option (WCmd × B) :=
  (dNat 4 b).bind fun (t, r) => match t with
    | 0 => (dBytes r).map fun (s, r) => (.setRoot s, r)
    | 1 => (dNat 8 r).bind fun (n, r) => (dStrs n r).bind fun (ps, r) =>
           (dNat 8 r).bind fun (m, r) => (dKinds m r).map fun (ks, r) => (.getEntries ps ks, r)
    | 2 => some (.createRootAncestors, r)
    | 3 => (dBytes r).map fun (s, r) => (.getFileContent s, r)
    | 4 => (dBytes r).bind fun (p, r) => (dBytes r).bind fun (d, r) => (dOptTime r).bind fun (t, r) =>
           (dBool r).map fun (m, r) => (.createOrUpdateFile p d t m, r)
    | 5 => (dBytes r).bind fun (p, r) => (dKind r).bind fun (k, r) => (dTarget r).map fun (t, r) => (.createSymlink p k t, r)
    | 6 => (dBytes r).map fun (s, r) => (.createFolder s, r)
    | 7 => (dBytes r).map fun (s, r) => (.deleteFile s, r)
    | 8 => (dBytes r).map fun (s, r) => (.deleteFolder s, r)
    | 9 => (dBytes r).bind fun (p, r) => (dKind r).map fun (k, r) => (.deleteSymlink p k, r)
    | 10 => some (.profilingTimeSync, r)
    | 11 => (dMarker r).map fun (m, r) => (.marker m, r)
    | 12 => some (.shutdown, r)
    | _ => none

def dResp (b : B) : Option (WResp × B) :=
  (dNat 4 b).bind fun (t, r) => match t with
    | 0 => (dOptDetails r).bind fun (d, r) => (dBool r).bind fun (diff, r) => match r with
           | c :: r => some (.rootDetails d diff c.toNat, r)
           | [] => none
    | 1 => (dBytes r).bind fun (p, r) => (dDetails r).map fun (d, r) => (.entry p d, r)
    | 2 => some (.endOfEntries, r)
    | 3 => (dBytes r).bind fun (d, r) => (dBool r).map fun (m, r) => (.fileContent d m, r)
    | 4 => (dNat 8 r).bind fun (s, r) => (dNat 4 r).map fun (n, r) => (.profilingTimeSync s n, r)
    | 6 => (dMarker r).map fun (m, r) => (.marker m, r)
    | 7 => (dBytes r).map fun (s, r) => (.error s, r)
    | _ => none

/-! well-formedness: every number fits its field (what the Rust types guarantee) -/

def u32 (n : Nat) : Prop := n < 256 ^ 4
def u64 (n : Nat) : Prop := n < 256 ^ 8
def wfB (b : B) : Prop := u64 b.length

def wfTarget : WTarget → Prop
  | .norm s | .notNorm s => wfB s
def wfDetails : WDetails → Prop
  | .file s n z => u64 s ∧ u32 n ∧ u64 z
  | .folder => True
  | .symlink _ t => wfTarget t
def wfPhase : WPhase → Prop
  | .deleting n => u32 n
  | .copying n b => u32 n ∧ u64 b
  | .done => True
def wfMarker (m : WMarker) : Prop := u64 m.work ∧ wfPhase m.phase
def wfCmd : WCmd → Prop
  | .setRoot r => wfB r
  | .getEntries ps ks => u64 ps.length ∧ u64 ks.length ∧ ∀ p ∈ ps, wfB p
  | .getFileContent p | .createFolder p | .deleteFile p | .deleteFolder p | .deleteSymlink p _ => wfB p
  | .createOrUpdateFile p d t _ => wfB p ∧ wfB d ∧ (∀ s n, t = some (s, n) → u64 s ∧ u32 n)
  | .createSymlink p _ t => wfB p ∧ wfTarget t
  | .marker m => wfMarker m
  | _ => True
def wfResp : WResp → Prop
  | .rootDetails d _ sep => sep < 256 ∧ (∀ x, d = some x → wfDetails x)
  | .entry p d => wfB p ∧ wfDetails d
  | .fileContent d _ => wfB d
  | .profilingTimeSync s n => u64 s ∧ u32 n
  | .marker m => wfMarker m
  | .error msg => wfB msg
  | .endOfEntries => True

end Rj.Wire
