import RjModel.Model.Doer
import RjModel.Model.Sync
import RjModel.Model.ParseSettings
/-! Line protocol of the doer / file-system model (`doer` requests of the driver). -/
namespace Rj

def P.mtime : P MTime := do
  let t ← P.tok
  if t = "fresh" then pure .fresh else (MTime.at <$> P.ofOpt t.toInt?)

/-- `D` | `S` | `F <mtime> <bytes>` | `L <text bytes>` -/
def P.node : P Node := do
  match (← P.tok) with
  | "D" => pure .folder
  | "S" => pure .special
  | "F" => do let m ← P.mtime; let b ← P.bytes; pure (.file b m)
  | "L" => Node.symlink <$> P.bytes
  | _ => P.fail

def pathComps (s : String) : FPath := (splitSlash s.toList).filter (· ≠ [])

def P.fsNodes : P FS := do
  let l ← P.list (do let p ← P.str; let n ← P.node; pure (pathComps p, n))
  pure ⟨l⟩

def P.symKind : P SymKind := do P.ofOpt (SymKind.parse (← P.tok))
def P.target : P Target := do P.ofOpt (Target.parse (← P.tok))

/-- the same command tokens the Rust harness parses (`l3`), except that `GE` carries no filters here
(the request gives them once, as ASTs) and file data is always inline hex -/
def P.dcmd : P Cmd := do
  match (← P.tok) with
  | "SR" => Cmd.setRoot <$> P.str
  | "GE" => pure (.getEntries [])
  | "CRA" => pure .createRootAncestors
  | "GFC" => Cmd.getFileContent <$> P.str
  | "CUF" => do
    let p ← P.str; let d ← P.bytes
    let m ← P.tok
    let mt ← if m = "-" then pure none else (some <$> P.ofOpt m.toInt?)
    let more ← P.bool
    pure (.createOrUpdateFile p d mt more)
  | "CS" => do let p ← P.str; let k ← P.symKind; let t ← P.target; pure (.createSymlink p k t)
  | "CF" => Cmd.createFolder <$> P.str
  | "DF" => Cmd.deleteFile <$> P.str
  | "DD" => Cmd.deleteFolder <$> P.str
  | "DS" => do let p ← P.str; let k ← P.symKind; pure (.deleteSymlink p k)
  | "MK" => pure (.marker .copying)
  | _ => P.fail

/-- insertion sort on strings (canonical order of listings) -/
def insertStr (s : String) : List String → List String
  | [] => [s]
  | t :: ts => if s ≤ t then s :: t :: ts else t :: insertStr s ts
def sortStrs (l : List String) : List String := l.foldr insertStr []

def renderEntry (e : String × Details) : String := s!"Entry({hexOfString e.1},{e.2.render})"

def Resp.render : Resp → String
  | .rootDetails none => "RootDetails(-,0,47)"
  | .rootDetails (some d) => s!"RootDetails({d.render},0,47)"
  | .entries l [] => joinWith ";" (sortStrs (l.map renderEntry) ++ ["EndOfEntries"])
  | .entries l errs => s!"EntriesErr({joinWith "," (errs.map ErrClass.render)}|{joinWith "&" (sortStrs (l.map renderEntry))})"
  | .content cs => joinWith ";" (cs.map fun c => s!"FileContent({c.1},{if c.2 then 1 else 0})")
  | .error c => s!"Error({c.render})"
  | .marker => "Marker"

def MTime.render : MTime → String
  | .at t => toString t
  | .fresh => "fresh"

def Node.render : Node → String
  | .file b m => s!"F:{m.render}:{hexOfBytes b}"
  | .folder => "D"
  | .symlink t => s!"L:{hexOfBytes t}"
  | .special => "S"

def FS.render (fs : FS) : String :=
  joinWith ";" (sortStrs (fs.nodes.map fun e => hexOfString (String.ofList (joinSlash e.1)) ++ "=" ++ e.2.render))

/-- `doer <abs> <nodes> <filters as ASTs> <cmds>` -/
def runDoerRequest (k : ChunkCfg) (wrapPre wrapPost : String) (toks : List String) : String :=
  match P.run (do
      let abs ← P.str
      let fs ← P.fsNodes
      let filters ← P.list P.filterAst
      let cmds ← P.list P.dcmd
      pure (abs, fs, filters, cmds)) toks with
  | none => "bad-op"
  | some (abs, fs, filters, cmds) =>
    match filters.mapM (fun (f : Bool × Re) => (wrapOf wrapPre wrapPost f.2).map (fun w => (f.1, w))) with
    | none => "bad-wrap"
    | some wfs =>
      let keepOf : List FilterSpec → String → Bool := fun _ p => applyFilters wfs p.toList.toArray
      let st0 : DoerSt := { fs := fs, abs := pathComps abs }
      let r := execCmds k keepOf st0 cmds
      let flat := r.2.1.flatten.map Resp.render
      s!"resp=[{joinWith ";" (flat.filter (· ≠ ""))}] fs=[{r.1.fs.render}] done={r.2.1.length} stop={r.2.2.getD "-"}"

end Rj

namespace Rj

/-- `D` | `F <mtime> <bytes>` | `L <text bytes>` (the target is what a doer reads from that text) -/
def P.sentry : P SEntry := do
  match (← P.tok) with
  | "D" => pure .folder
  | "F" => do let m ← P.int; let b ← P.bytes; pure (.file b m)
  | "L" => (fun t => SEntry.link (readLinkB t)) <$> P.bytes
  | _ => P.fail

def insertByLen {α : Type} (x : FPath × α) : List (FPath × α) → List (FPath × α)
  | [] => [x]
  | y :: ys => if x.1.length ≤ y.1.length then x :: y :: ys else y :: insertByLen x ys

/-- the destination listing below `r`, parents first -/
def listBelow (fs : FS) (r : FPath) : List (FPath × Node) :=
  (fs.nodes.filterMap fun e =>
    if r <+: e.1 ∧ e.1 ≠ r then some (e.1.drop r.length, e.2) else none).foldr insertByLen []

/-- `syncdest <root> <nodes> <source entries, parents first>`: the destination half of a sync on the model -/
def runSyncDestRequest (toks : List String) : String :=
  match P.run (do
      let root ← P.str
      let fs ← P.fsNodes
      let ls ← P.list (do let p ← P.str; let e ← P.sentry; pure (pathComps p, e))
      pure (root, fs, ls)) toks with
  | none => "bad-op"
  | some (root, fs, ls) =>
    let r := pathComps root
    let src : FPath → Option SEntry := fun p => ls.lookup p
    -- the destination listing is the model's own (`listNodes`, the object of C17_listing_exact_fs / C01_mirror_fs_own_listing)
    match syncDest fs r src ls ((listNodes fs (fs.nodes.length + 1) r).map fun e => (e.1.drop r.length, e.2)) with
    | .ok fs' => s!"ok fs=[{fs'.render}]"
    | .err => "err"
    | .escape => "escape"

/-- `synctrees <source root> <source nodes> <dest root> <dest nodes> <filters as ASTs>`: the objects of
`C01_mirror_two_trees` (no filters) and of `C01_mirror_two_trees_filtered` (filters: the verdict of `apply_filters` on the
root-relative path, the same on both sides) -/
def runSyncTreesRequest (wrapPre wrapPost : String) (toks : List String) : String :=
  match P.run (do
      let rs ← P.str; let S ← P.fsNodes
      let rd ← P.str; let D ← P.fsNodes
      let filters ← P.list P.filterAst
      pure (rs, S, rd, D, filters)) toks with
  | none => "bad-op"
  | some (rs, S, rd, D, filters) =>
    match filters.mapM (fun (f : Bool × Re) => (wrapOf wrapPre wrapPost f.2).map (fun w => (f.1, w))) with
    | none => "bad-wrap"
    | some wfs =>
      let rs := pathComps rs; let rd := pathComps rd
      let fS := S.nodes.length + 1; let fD := D.nodes.length + 1
      let r :=
        if wfs.isEmpty then
          syncDest D rd (srcOfFS S rs) (lsOfFS S rs fS) ((listNodes D fD rd).map fun e => (e.1.drop rd.length, e.2))
        else
          let keep : FPath → Bool := fun p => applyFilters wfs (joinSlash p).toArray
          syncDest D rd (srcOfFS S rs) (lsOfFSF keep S rs fS) ((listNodesF keep rd D fD rd).map fun e => (e.1.drop rd.length, e.2))
      match r with
      | .ok fs' => s!"ok fs=[{fs'.render}]"
      | .err => "err"
      | .escape => "escape"

/-- the states after every prefix of a list of operations (the state before the first included; stops at a failing one) -/
def prefixStates {α : Type} (op : FS → α → OpR FS) : FS → List α → List FS
  | fs, [] => [fs]
  | fs, x :: xs => fs :: (match op fs x with
      | .ok fs' => prefixStates op fs' xs
      | _ => [])

/-- `syncprefixes <source root> <source nodes> <dest root> <dest nodes>`: every state the destination goes through (entry
granularity) — the objects of `C08_recovery_from_crash_in_delete_phase` / `_in_copy_phase` — each with the operation that
comes next (`D:`/`F:`/`C:` + path below the root, or `-`) -/
def runSyncPrefixesRequest (toks : List String) : String :=
  match P.run (do
      let rs ← P.str; let S ← P.fsNodes
      let rd ← P.str; let D ← P.fsNodes
      pure (rs, S, rd, D)) toks with
  | none => "bad-op"
  | some (rs, S, rd, D) =>
    let rs := pathComps rs; let rd := pathComps rd
    let src := srcOfFS S rs
    -- listings in the order of the walk: a whole directory before descending (by depth, in the order the nodes are given)
    let ls := (listBelow S rs).filterMap fun e => (sentryOf e.2).map fun x => (e.1, x)
    let ld := listBelow D rd
    let dels := planDel src ld
    let cpys := planCpy (fun p => D.get (rd ++ p)) ls
    let s1 := prefixStates (fun f x => delOp f rd x) D dels
    let mid := s1.getLast?.getD D
    let s2 := (prefixStates (fun f x => cpyOp f rd x) mid cpys).drop 1
    let nexts : List String :=
      dels.map (fun x => "D:" ++ hexOfString (String.ofList (joinSlash x.1))) ++
      cpys.map (fun x => (match x.2 with | .file .. => "F:" | _ => "C:") ++ hexOfString (String.ofList (joinSlash x.1))) ++ ["-"]
    let states := s1 ++ s2
    joinWith "|" ((states.zip nexts).map fun (st, nx) => s!"next={nx} fs=[{st.render}]")

end Rj
