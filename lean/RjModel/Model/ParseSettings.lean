import RjModel.Model.Parse
import RjModel.Model.Settings
import RjModel.Model.Regex
/-! Line-protocol side of the settings model (driver only). -/
namespace Rj

def P.optStr : P (Option String) := do
  let t ← P.tok
  if t = "-" then pure none else some <$> P.ofOpt (unx t)

def P.optBeh : P (Option Beh) := do
  match (← P.tok).toList with
  | ['-'] => pure none
  | [c] => some <$> P.ofOpt (Beh.parse c)
  | _ => P.fail

def P.optDeploy : P (Option DeployBeh) := do
  match (← P.tok) with
  | "-" => pure none
  | "p" => pure (some .prompt) | "e" => pure (some .error) | "k" => pure (some .ok) | "f" => pure (some .force)
  | _ => P.fail

def P.yscalar : P YScalar := do
  match (← P.tok) with
  | "S" => YScalar.str <$> P.str
  | "O" => YScalar.other <$> P.tok
  | _ => P.fail

def P.yval2 : P YVal2 := do
  match (← P.tok) with
  | "S" => (fun s => YVal2.scalar (.str s)) <$> P.str
  | "O" => YVal2.otherV <$> P.tok
  | "A" => YVal2.arr <$> P.list P.yscalar
  | _ => P.fail

def P.yitem : P YItem := do
  match (← P.tok) with
  | "H" => YItem.hash <$> P.list (do let k ← P.yscalar; let v ← P.yval2; pure (k, v))
  | "O" => YItem.otherI <$> P.tok
  | _ => P.fail

def P.yval : P YVal := do
  match (← P.tok) with
  | "S" => (fun s => YVal.scalar (.str s)) <$> P.str
  | "O" => YVal.otherV <$> P.tok
  | "A" => YVal.arr <$> P.list P.yitem
  | _ => P.fail

def P.ydoc : P YDoc := do
  match (← P.tok) with
  | "YE" => pure .parseError
  | "YN" => pure .noDocument
  | "YX" => pure .notHash
  | "YH" => YDoc.hash <$> P.list (do let k ← P.yscalar; let v ← P.yval; pure (k, v))
  | _ => P.fail

def P.cli : P (Cli × Bool) := do
  let src ← P.optStr; let dest ← P.optStr; let spec ← P.bool
  let filters ← P.list P.str
  let deploy ← P.optDeploy
  let newer ← P.optBeh; let older ← P.optBeh; let same ← P.optBeh
  let entry ← P.optBeh; let root ← P.optBeh; let all ← P.optBeh
  let dry ← P.bool
  pure (⟨src, dest, spec, filters, deploy, newer, older, same, entry, root, all⟩, dry)

/-- regex AST in prefix notation -/
def P.re : Nat → P Re
  | 0 => P.fail
  | fuel + 1 => do
    match (← P.tok) with
    | "e" => pure .eps
    | "c" => (fun n => Re.chr (Char.ofNat n)) <$> P.nat
    | "." => pure .any
    | "[" =>
      let neg ← P.bool
      let rs ← P.list (do let lo ← P.nat; let hi ← P.nat; pure (Char.ofNat lo, Char.ofNat hi))
      pure (.cls neg rs)
    | "&" => do let a ← P.re fuel; let b ← P.re fuel; pure (.cat a b)
    | "|" => do let a ← P.re fuel; let b ← P.re fuel; pure (.alt a b)
    | "*" => Re.star <$> P.re fuel
    | "+" => Re.plus <$> P.re fuel
    | "?" => Re.opt <$> P.re fuel
    | "^" => pure .bol
    | "$" => pure .eol
    | "i" => Re.icase <$> P.re fuel
    | _ => P.fail

def P.filterAst : P (Bool × Re) := do
  let sign ← P.tok
  let r ← P.re 1000
  match sign with
  | "+" => pure (true, r)
  | "-" => pure (false, r)
  | _ => P.fail

def behName (proceed : String) : Beh → String
  | .prompt => "Prompt" | .error => "Error" | .skip => "Skip" | .proceed => proceed

def deployName : DeployBeh → String
  | .prompt => "Prompt" | .error => "Error" | .ok => "Ok" | .force => "Force"

def SyncSpecM.render (s : SyncSpecM) : String :=
  s!"Sync(x{hexOfString s.src},x{hexOfString s.dest},[{joinWith "," (s.filters.map fun f => "x" ++ hexOfString f)}],{behName "Overwrite" s.newer},{behName "Overwrite" s.older},{behName "Overwrite" s.same},{behName "Delete" s.entry},{behName "Delete" s.root})"

def SpecM.render (s : SpecM) (dry : Bool) : String :=
  s!"Spec(x{hexOfString s.srcHost},x{hexOfString s.srcUser},x{hexOfString s.destHost},x{hexOfString s.destUser},{deployName s.deploy},dry={dry},[{joinWith ";" (s.syncs.map SyncSpecM.render)}])"

def renderResolve (r : Except ResolveErr SpecM) (dry : Bool) : String :=
  match r with
  | .ok s => "ok:" ++ s.render dry
  | .error .clap => "err:clap"
  | .error .specFile => "err:specFile"

def renderPathDesc : Option PathDesc → String
  | some d => s!"ok:x{hexOfString d.user},x{hexOfString d.host},x{hexOfString d.path}"
  | none => "err"

end Rj
