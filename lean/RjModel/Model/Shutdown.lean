import RjModel.Model.Boss
/-! Two small transition systems for termination (C09).

`Shut`: a doer that still wants to send `pending` responses through a memory-bound channel holding
`queued` of them (admission: counted-before ≤ capacity), and the boss in `Comms::shutdown`.  Repaired
boss: keeps discarding responses until the doer thread has finished; before the repair it only joined.
The doer sees `Shutdown` (and exits) only once it has sent everything.

Query loop: `srcLeft`/`destLeft` messages still to come; `select` may report a side spuriously.
Repaired: non-blocking receive; before: blocking receive on whatever side `select` named. -/
namespace Rj

/-- what the source text shows (extracted on every run) -/
structure ShutFeatures where
  localDrainsBeforeJoin : Bool     -- Local: receive/discard until `thread.is_finished()`, then join
  remoteDrainsUntilFinal : Bool    -- Remote: loop over `receiver.recv()` until the final message
  queryNonBlockingRecv : Bool      -- query loop: `try_receive_response` after `select_ready`
  deriving DecidableEq, Repr

def ShutFeatures.ref : ShutFeatures := ⟨true, true, true⟩

namespace Shut

structure SState where
  pending : Nat
  queued : Nat
  doerExited : Bool
  deriving DecidableEq, Repr

inductive SAct | doerSend | doerExit | bossDrain
  deriving DecidableEq, Repr

def sstep (repaired : Bool) (cap : Nat) (s : SState) : SAct → Option SState
  | .doerSend => if s.doerExited = false ∧ s.pending > 0 ∧ s.queued ≤ cap then some { s with pending := s.pending - 1, queued := s.queued + 1 } else none
  | .doerExit => if s.doerExited = false ∧ s.pending = 0 then some { s with doerExited := true } else none
  | .bossDrain => if repaired ∧ s.queued > 0 then some { s with queued := s.queued - 1 } else none

def smeasure (s : SState) : Nat := 2 * s.pending + s.queued + (if s.doerExited then 0 else 1)

structure QS where
  srcLeft : Nat
  destLeft : Nat
  blocked : Bool          -- the boss sits in a blocking receive that can never return
  deriving DecidableEq, Repr

inductive QAct | recv (side : Side) | spurious (side : Side)
  deriving DecidableEq, Repr

def qstep (repaired : Bool) (s : QS) : QAct → Option QS
  | .recv .src => if !s.blocked ∧ s.srcLeft > 0 then some { s with srcLeft := s.srcLeft - 1 } else none
  | .recv .dest => if !s.blocked ∧ s.destLeft > 0 then some { s with destLeft := s.destLeft - 1 } else none
  | .spurious side =>
    if s.blocked then none
    else if repaired then some s
    else
      -- blocking receive on the named side: returns only if that side still sends something
      match side with
      | .src => if s.srcLeft > 0 then some { s with srcLeft := s.srcLeft - 1 } else some { s with blocked := true }
      | .dest => if s.destLeft > 0 then some { s with destLeft := s.destLeft - 1 } else some { s with blocked := true }

end Shut
end Rj
