/-! Model of how the doer receives one file (`doer.rs`, `Command::CreateOrUpdateFile`) as
micro-steps, with a fault oracle and crash points:

  take handle → (create + truncate | reuse) → write → keep or drop handle → set mtime.

Time stamps are tags: `src` = the source's modification time (set explicitly on the last chunk),
`fresh k` = a wall-clock stamp left by create/write (assumption: never equal to the source's time),
`old` = whatever the pre-existing file carried. -/
namespace Rj

inductive MT | src | fresh (k : Nat) | old
  deriving DecidableEq, Repr

structure FileSt where
  bytes : List UInt8
  mt : MT
  deriving DecidableEq, Repr

/-- state of one destination path and of the doer's transfer bookkeeping for it -/
structure RS where
  file : Option FileSt      -- `none` = absent
  handle : Bool             -- `in_progress_file_receive = Some((p, _))`
  failed : Bool             -- `failed_file_receive = Some(p)` (the repair)
  clock : Nat
  deriving DecidableEq, Repr

structure Chunk where
  data : List UInt8
  more : Bool
  deriving DecidableEq, Repr

/-- what goes wrong while executing one chunk -/
inductive Fault
  | none
  | create                  -- `File::create` fails (only when there is no open handle)
  | write (n : Nat)         -- `write_all` fails after `n` bytes reached the file
  | setTime                 -- `set_file_mtime` fails (last chunk only)
  deriving DecidableEq, Repr

/-- The states the file system passes through while one chunk is executed, in order (a crash can
stop after any of them); the last one is the state the next command sees.
`repaired = false` is the code before the repair (no `failed` bookkeeping). -/
def chunkStates (repaired : Bool) (s : RS) (c : Chunk) (f : Fault) : List RS :=
  if repaired && s.failed then
    -- a left-over part of a failed transfer is rejected; the last part ends the bookkeeping
    [{ s with failed := c.more }]
  else
    let failMark := repaired && c.more
    -- take the handle / create
    let opened : Option RS :=
      if s.handle then some { s with handle := false }
      else if f = .create then none
      else some { s with file := some ⟨[], .fresh s.clock⟩, clock := s.clock + 1 }
    match opened with
    | none => [{ s with failed := failMark }]
    | some s1 =>
      let cur := (s1.file.map (·.bytes)).getD []
      match f with
      | .write n =>
        let s2 := { s1 with file := some ⟨cur ++ c.data.take n, .fresh s1.clock⟩, clock := s1.clock + 1 }
        [s1, { s2 with failed := failMark }]
      | _ =>
        let s2 : RS := { s1 with file := some ⟨cur ++ c.data, .fresh s1.clock⟩, clock := s1.clock + 1 }
        let s3 := { s2 with handle := c.more }
        if c.more then [s1, s2, s3]
        else if f = .setTime then [s1, s2, s3]
        else [s1, s2, s3, { s3 with file := s3.file.map fun x => { x with mt := .src } }]

def lastState (s : RS) (l : List RS) : RS := l.getLast?.getD s

/-- all states reachable while a sequence of chunks (each with its fault) is executed -/
def transferStates (repaired : Bool) : RS → List (Chunk × Fault) → List RS
  | _, [] => []
  | s, (c, f) :: rest =>
    let st := chunkStates repaired s c f
    st ++ transferStates repaired (lastState s st) rest

/-- the chunks of a well-formed transfer: all but the last say "more" -/
def wellFormed : List Chunk → Bool
  | [] => false
  | [c] => !c.more
  | c :: rest => c.more && wellFormed rest

def fullBytes (cs : List Chunk) : List UInt8 := (cs.map (·.data)).flatten

end Rj
