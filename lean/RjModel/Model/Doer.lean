import RjModel.Model.FS
import RjModel.Model.Chunks
/-! Model of the doer's command executor (`doer.rs`: `exec_command`, `handle_set_root`,
`handle_get_entries` as a sequential listing, `handle_get_file_contents`, `handle_create_symlink`,
`entry_details_from_metadata`) over the file-system model of `FS.lean`, for a unix doer. -/
namespace Rj

/-- the classes of `Response::Error` the doer can send (by the message's leading words) -/
inductive ErrClass
  | open_ | read | write | continued | failedEarlier | setTime | ancestors | createFolder | createSymlink
  | deleteFile | deleteFolder | deleteSymlink | rootRead | walk | unknownType | pre1970
  deriving DecidableEq, Repr, Inhabited

def ErrClass.render : ErrClass → String
  | .open_ => "Open" | .read => "Read" | .write => "Write" | .continued => "Continued"
  | .failedEarlier => "FailedEarlier" | .setTime => "SetTime" | .ancestors => "Ancestors"
  | .createFolder => "CreateFolder" | .createSymlink => "CreateSymlink" | .deleteFile => "DeleteFile"
  | .deleteFolder => "DeleteFolder" | .deleteSymlink => "DeleteSymlink" | .rootRead => "RootRead"
  | .walk => "Walk" | .unknownType => "UnknownType" | .pre1970 => "Pre1970"

inductive Resp
  | rootDetails (d : Option Details)
  | entries (l : List (String × Details)) (errs : List ErrClass)   -- the listing; `errs` ≠ [] : it ends with one of these errors instead of the end marker
  | content (chunks : List (Nat × Bool))
  | error (c : ErrClass)
  | marker
  deriving Repr

structure DoerSt where
  fs : FS
  abs : List Comp := []                 -- absolute path of the world root (for absolute link targets)
  root : Option (FPath × Bool) := none  -- `DoerContext::root` (path, spelled with a trailing slash)
  inProg : Option String := none        -- `in_progress_file_receive` (the path; the handle is the file at that path)
  failed : Option String := none        -- `failed_file_receive`
  deriving Repr

/-- outcome of executing one command -/
inductive XR
  | ok (st : DoerSt) (out : List Resp)
  | escape                                -- the kernel would follow a link inside the tree: outside the model
  | panic                                 -- the doer thread would panic (`context.unwrap()` before any `SetRoot`)
  | badPath                               -- not a normalised root-relative path: outside the model
  deriving Repr

/-- the components of a normalised root-relative path -/
def relComps (p : String) : Option (List Comp) :=
  if p.toList = [] then some []
  else
    let cs := splitSlash p.toList
    if cs.all (fun c => c ≠ [] ∧ c ≠ ['.'] ∧ c ≠ ['.', '.']) then some cs else none

/-- what the doer is told as its root: a path inside the world, `/`-separated -/
def parseRoot (r : String) : FPath × Bool :=
  let cs := splitSlash r.toList
  (cs.filter (· ≠ []), cs.getLast? = some [] ∧ r.toList ≠ [])

def relString (root full : FPath) : String := String.ofList (joinSlash (full.drop root.length))

/-- `entry_details_from_metadata` -/
def detailsOf (fs : FS) (abs : List Comp) (full : FPath) : Node → Except ErrClass Details
  | .file b (.at t) => if t < 0 then .error .pre1970 else .ok (.file t b.length)
  | .file b .fresh => .ok (.file (-1) b.length)
  | .folder => .ok .folder
  | .symlink text => .ok (.symlink (fs.statKind abs full) (readLinkB text))
  | .special => .error .unknownType

/-- one entry of a directory being listed; `sub` lists a sub-folder.  An excluded entry is neither
reported nor descended; only a real folder is descended: a symlink is a leaf whatever it points at. -/
def listStep (fs : FS) (abs : List Comp) (keep : String → Bool) (root : FPath)
    (sub : FPath → List (String × Details) × List ErrClass)
    (acc : List (String × Details) × List ErrClass) (e : FPath × Node) : List (String × Details) × List ErrClass :=
  let name := e.1.getLast?.getD []
  if name.contains '\\' then (acc.1, acc.2 ++ [.walk])
  else
    let rel := relString root e.1
    if !keep rel then acc
    else match detailsOf fs abs e.1 e.2 with
      | .error c => (acc.1, acc.2 ++ [c])
      | .ok d =>
        match e.2 with
        | .folder =>
          let s := sub e.1
          (acc.1 ++ (rel, d) :: s.1, acc.2 ++ s.2)
        | _ => (acc.1 ++ [(rel, d)], acc.2)

/-- the listing of `dir` and everything beneath it that `keep` lets through, parents first -/
def listDir (fs : FS) (abs : List Comp) (keep : String → Bool) (root : FPath) :
    Nat → FPath → List (String × Details) × List ErrClass
  | 0, _ => ([], [])
  | fuel + 1, dir => (fs.childrenOf dir).foldl (listStep fs abs keep root (listDir fs abs keep root fuel)) ([], [])

def fullOf (st : DoerSt) (p : String) : Option FPath :=
  match st.root, relComps p with
  | some (r, _), some cs => some (r ++ cs)
  | _, _ => none

/-- reply with an error if the call failed -/
def reply (st : DoerSt) (r : OpR FS) (c : ErrClass) : XR :=
  match r with
  | .ok fs => .ok { st with fs := fs } []
  | .err => .ok st [.error c]
  | .escape => .escape

def execSetRoot (st : DoerSt) (r : String) : XR :=
  let (path, slash) := parseRoot r
  let st := { st with root := some (path, slash), inProg := none, failed := none }
  match st.fs.ancestors path with
  | .link => .escape
  | .noent => .ok st [.rootDetails none]
  | .notdir => .ok st [.error .rootRead]
  | .ok =>
    match st.fs.get path with
    | none => .ok st [.rootDetails none]
    | some n =>
      if slash then
        match n with
        | .folder => .ok st [.rootDetails (some .folder)]
        | .symlink _ => .escape
        | _ => .ok st [.error .rootRead]
      else
        match detailsOf st.fs st.abs path n with
        | .ok d => .ok st [.rootDetails (some d)]
        | .error c => .ok st [.error c]

def execGetFileContent (k : ChunkCfg) (st : DoerSt) (full : FPath) : XR :=
  match st.fs.ancestors full with
  | .link => .escape
  | .noent | .notdir => .ok st [.error .open_]
  | .ok =>
    match st.fs.get full with
    | none => .ok st [.error .open_]
    | some (.file b _) => .ok st [.content (readFileLens k b.length [])]
    | some .folder => .ok st [.error .read]
    | some _ => .escape

def execCreateOrUpdate (st : DoerSt) (p : String) (full : FPath) (data : List UInt8) (mtime : Option Int) (more : Bool) : XR :=
  if st.failed = some p then
    .ok { st with failed := if more then st.failed else none } [.error .failedEarlier]
  else
    let failMark := if more then some p else none
    let opened : Option (OpR FS) :=       -- `none`: an unexpected continuation
      match st.inProg with
      | some q => if q = p then some (.ok st.fs) else none
      | none => some (st.fs.createTrunc full)
    let st := { st with inProg := none }
    match opened with
    | none => .ok { st with failed := failMark } [.error .continued]
    | some .escape => .escape
    | some .err => .ok { st with failed := failMark } [.error .write]
    | some (.ok fs1) =>
      match fs1.append full data with
      | .escape => .escape
      | .err => .ok { st with fs := fs1, failed := failMark } [.error .write]
      | .ok fs2 =>
        let st := { st with fs := fs2, inProg := if more then some p else none }
        match mtime with
        | none => .ok st []
        | some t => reply st (fs2.setMtime full t) .setTime

def Cmd.isFolderOp : Cmd → Bool
  | .createFolder _ | .deleteFolder _ => true
  | _ => false

/-- `exec_command`; `keep` = the verdict of the filters that a `GetEntries` carries -/
def execCmd (k : ChunkCfg) (keepOf : List FilterSpec → String → Bool) (st : DoerSt) : Cmd → XR
  | .setRoot r => execSetRoot st r
  | .marker _ => .ok st [.marker]
  | .shutdown => .ok st []
  | c =>
    match st.root with
    | none => .panic
    | some (root, _) =>
      match c with
      | .getEntries fs =>
        (match st.fs.ancestors root, st.fs.get root with
          | .link, _ => .escape
          | .ok, some .folder =>
            let r := listDir st.fs st.abs (keepOf fs) root (st.fs.nodes.length + 1) root
            .ok st [.entries r.1 r.2]
          | .ok, some (.symlink _) => .escape
          | _, _ => .ok st [.entries [] [.walk]])
      | .createRootAncestors => reply st (st.fs.mkdirAll [] root.dropLast) .ancestors
      | c =>
        match c.path? with
        | none => .ok st []
        | some p =>
          match fullOf st p with
          | none => .badPath
          | some full =>
            -- the root spelled with a trailing slash, operated on itself ("R/"): the kernel insists on a folder
            if (st.root.map (·.2)).getD false && p == "" && st.fs.ancestors full == .ok && !c.isFolderOp then
              match st.fs.get full, c with
              | some (.symlink _), _ => .escape
              | some .folder, .getFileContent _ => .ok st [.error .read]
              | _, .getFileContent _ => .ok st [.error .open_]
              | _, .createOrUpdateFile _ _ _ more =>
                if st.failed = some p then .ok { st with failed := if more then st.failed else none } [.error .failedEarlier]
                else match st.inProg with
                  | some q => if q = p then .escape else .ok { st with inProg := none, failed := if more then some p else none } [.error .continued]
                  | none => .ok { st with failed := if more then some p else none } [.error .write]
              | _, .createSymlink .. => .ok st [.error .createSymlink]
              | _, .deleteFile _ => .ok st [.error .deleteFile]
              | _, .deleteSymlink .. => .ok st [.error .deleteSymlink]
              | _, _ => .ok st []
            else
            match c with
            | .getFileContent _ => execGetFileContent k st full
            | .createOrUpdateFile _ data mtime more => execCreateOrUpdate st p full data mtime more
            | .createFolder _ => reply st (st.fs.mkdir full) .createFolder
            | .createSymlink _ _ t => reply st (st.fs.mksymlink full (writeLinkB '/' t)) .createSymlink
            | .deleteFile _ => reply st (st.fs.unlink full) .deleteFile
            | .deleteFolder _ => reply st (st.fs.rmdir full) .deleteFolder
            | .deleteSymlink _ _ => reply st (st.fs.unlink full) .deleteSymlink
            | _ => .ok st []

/-- a command sequence; stops at the first command the model does not cover -/
def execCmds (k : ChunkCfg) (keepOf : List FilterSpec → String → Bool) : DoerSt → List Cmd → DoerSt × List (List Resp) × Option String
  | st, [] => (st, [], none)
  | st, c :: rest =>
    match execCmd k keepOf st c with
    | .ok st' out =>
      let r := execCmds k keepOf st' rest
      (r.1, out :: r.2.1, r.2.2)
    | .escape => (st, [], some "escape")
    | .panic => (st, [], some "panic")
    | .badPath => (st, [], some "bad-path")

end Rj
