/-! Model of the look-ahead chunk reader `handle_get_file_contents` (`doer.rs:657-712`).

`sched` is the sequence of sizes the OS chooses to return from `read` (short reads; a regular file
gives full reads = the empty schedule); `prev` is the data held back until it is known whether more
follows.  Emits `(data, more_to_follow)`. -/
namespace Rj

structure ChunkCfg where
  first : Nat      -- initial chunk size
  growth : Nat     -- growth factor
  maxc : Nat       -- maximum chunk size
  small : Nat      -- look-ahead buffer after a short read
  deriving DecidableEq, Repr

def reader {α : Type} (k : ChunkCfg) (file : List α) (sched : List Nat) (chunk nextLen : Nat) (prev : List α) :
    List (List α × Bool) :=
  if _h : file = [] then [(prev, false)]
  else
    let want := match sched with | [] => nextLen | s :: _ => min s nextLen
    let n := max 1 (min want file.length)
    let data := file.take n
    let rest := file.drop n
    let out := if prev = [] then [] else [(prev, true)]
    let next := if n < nextLen then (chunk, k.small) else (min (chunk * k.growth) k.maxc, min (chunk * k.growth) k.maxc)
    out ++ reader k rest sched.tail next.1 next.2 data
termination_by file.length
decreasing_by
  have : file.length ≠ 0 := by intro e; exact _h (List.length_eq_zero_iff.mp e)
  simp only [List.length_drop]; omega

/-- what `GetFileContent` sends for a file -/
def readFile {α : Type} (k : ChunkCfg) (file : List α) (sched : List Nat) : List (List α × Bool) :=
  reader k file sched k.first k.first []

/-- The same on lengths only (what the driver evaluates for multi-megabyte files). -/
def readerLens (k : ChunkCfg) (len : Nat) (sched : List Nat) (chunk nextLen : Nat) (prev : Nat) :
    List (Nat × Bool) :=
  if _h : len = 0 then [(prev, false)]
  else
    let want := match sched with | [] => nextLen | s :: _ => min s nextLen
    let n := max 1 (min want len)
    let out := if prev = 0 then [] else [(prev, true)]
    let next := if n < nextLen then (chunk, k.small) else (min (chunk * k.growth) k.maxc, min (chunk * k.growth) k.maxc)
    out ++ readerLens k (len - n) sched.tail next.1 next.2 n
termination_by len
decreasing_by omega

def readFileLens (k : ChunkCfg) (len : Nat) (sched : List Nat) : List (Nat × Bool) :=
  readerLens k len sched k.first k.first 0

end Rj
