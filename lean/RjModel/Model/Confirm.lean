import RjModel.Model.Planner
/-! Model of the consent logic: the five behaviours, prompt resolution (`boss_frontend.rs:908-968`),
the root-deletion gate (`boss_sync.rs:400-425`) and `confirm_actions` (`boss_sync.rs:672-833`).

The four-valued behaviour enums of the code (`DestFileUpdateBehaviour`, `DestEntryNeedsDeleting…`,
`DestRootNeedsDeleting…`) are one type here; `proceed` stands for overwrite / delete. -/
namespace Rj

inductive Beh | prompt | error | skip | proceed
  deriving DecidableEq, Repr, Inhabited

structure Behaviours where
  newer : Beh
  older : Beh
  same : Beh
  entry : Beh
  root : Beh
  deriving DecidableEq, Repr

/-- A prompt answer.  An unattended terminal and an exhausted answer script behave as `cancel`. -/
inductive Answer | skipOnce | skipAll | doOnce | doAll | cancel
  deriving DecidableEq, Repr, Inhabited

inductive PromptKind | root | entry | newer | older | same
  deriving DecidableEq, Repr, Inhabited

inductive ErrKind
  | badFilter | srcMissing | srcSlash | destSlash | unexpected
  | rootErr | entryErr | newerErr | olderErr | sameErr
  | sizeChanged | doer | lost
  deriving DecidableEq, Repr, Inhabited

/-- Prompt state threaded through the run. -/
structure Conf where
  beh : Behaviours
  answers : List Answer
  /-- prompts shown so far, in order -/
  prompts : List PromptKind

/-- Resolve one behaviour occurrence.  Returns (resolved behaviour — never `prompt`,
behaviour to remember, remaining answers, whether a prompt was shown).
`always = false` models prompts without "all occurences" items (the root prompt). -/
def resolve (b : Beh) (answers : List Answer) (always : Bool) : Beh × Beh × List Answer × Bool :=
  match b with
  | .prompt =>
    match answers with
    | [] => (.error, b, [], true)
    | a :: rest =>
      match a with
      | .skipOnce => (.skip, b, rest, true)
      | .skipAll => (.skip, if always then .skip else b, rest, true)
      | .doOnce => (.proceed, b, rest, true)
      | .doAll => (.proceed, if always then .proceed else b, rest, true)
      | .cancel => (.error, b, rest, true)
  | x => (x, b, answers, false)

theorem resolve_ne_prompt (b : Beh) (a : List Answer) (al : Bool) : (resolve b a al).1 ≠ .prompt := by
  unfold resolve
  cases b <;> simp
  cases a with
  | nil => simp
  | cons x xs => cases x <;> simp

/-- The root-deletion gate: `some true` = go on (it will be deleted), `some false` = skip the whole
sync with `Ok`, `none` = error. -/
def rootGate (c : Conf) : Option Bool × Conf :=
  let (r, _, ans, shown) := resolve c.beh.root c.answers false
  let c' := { c with answers := ans, prompts := if shown then c.prompts ++ [.root] else c.prompts }
  match r with
  | .proceed => (some true, c')
  | .skip => (some false, c')
  | _ => (none, c')

/-- Confirmation pass over the deletions.  Returns the error (if any), the new prompt state and the
paths to remove from `to_delete`. -/
def confirmDeletes : Conf → List (String × (Details × DelReason)) → List String →
    Option ErrKind × Conf × List String
  | c, [], rm => (none, c, rm)
  | c, (p, _) :: rest, rm =>
    let (r, b', ans, shown) := resolve c.beh.entry c.answers true
    let c' : Conf := { beh := { c.beh with entry := b' }, answers := ans,
                       prompts := if shown then c.prompts ++ [.entry] else c.prompts }
    match r with
    | .proceed => confirmDeletes c' rest rm
    | .skip => confirmDeletes c' rest (rm ++ [p])
    | _ => (some .entryErr, c', rm)

/-- Confirmation pass over the copies. -/
def confirmCopies : Conf → List (String × (Details × CopyReason)) → List String →
    Option ErrKind × Conf × List String
  | c, [], rm => (none, c, rm)
  | c, (p, (_, reason)) :: rest, rm =>
    match reason with
    | .notOnDest => confirmCopies c rest rm
    | .destNewer =>
      let (r, b', ans, shown) := resolve c.beh.newer c.answers true
      let c' : Conf := { beh := { c.beh with newer := b' }, answers := ans,
                         prompts := if shown then c.prompts ++ [.newer] else c.prompts }
      match r with
      | .proceed => confirmCopies c' rest rm
      | .skip => confirmCopies c' rest (rm ++ [p])
      | _ => (some .newerErr, c', rm)
    | .destOlder =>
      let (r, b', ans, shown) := resolve c.beh.older c.answers true
      let c' : Conf := { beh := { c.beh with older := b' }, answers := ans,
                         prompts := if shown then c.prompts ++ [.older] else c.prompts }
      match r with
      | .proceed => confirmCopies c' rest rm
      | .skip => confirmCopies c' rest (rm ++ [p])
      | _ => (some .olderErr, c', rm)
    | .sameTime =>
      let (r, b', ans, shown) := resolve c.beh.same c.answers true
      let c' : Conf := { beh := { c.beh with same := b' }, answers := ans,
                         prompts := if shown then c.prompts ++ [.same] else c.prompts }
      match r with
      | .proceed => confirmCopies c' rest rm
      | .skip => confirmCopies c' rest (rm ++ [p])
      | _ => (some .sameErr, c', rm)

def removeAll {V : Type} (m : OMap V) : List String → OMap V
  | [] => m
  | p :: ps => removeAll (m.remove p) ps

/-- `RootRelativePath::is_inside` -/
def isInside (k folder : String) : Bool :=
  if folder = "" then k != "" else (folder ++ "/").isPrefixOf k

/-- the copies that a kept destination entry stands in the way of: the source entry at a path whose
*incompatible* deletion was skipped, and everything inside it -/
def blockedCopies (del : OMap (Details × DelReason)) (cpy : OMap (Details × CopyReason)) (rm : List String) : List String :=
  let blocked := rm.filter fun p => match del.get p with
    | some (_, .incompatible) => true
    | _ => false
  cpy.keys.filter fun k => blocked.any fun b => k == b || isInside k b

/-- `confirm_actions`: deletions first, then copies; removal happens after each pass.  Copies that a
skipped incompatible deletion was to make room for are dropped before the copies are confirmed. -/
def confirmActions (c : Conf) (del : OMap (Details × DelReason)) (cpy : OMap (Details × CopyReason)) :
    Option ErrKind × Conf × OMap (Details × DelReason) × OMap (Details × CopyReason) :=
  match confirmDeletes c del.iter [] with
  | (some e, c', _) => (some e, c', del, cpy)
  | (none, c', rm) =>
    let del' := removeAll del rm
    let cpy := removeAll cpy (blockedCopies del cpy rm)
    match confirmCopies c' cpy.iter [] with
    | (some e, c'', _) => (some e, c'', del', cpy)
    | (none, c'', rm2) => (none, c'', del', removeAll cpy rm2)

end Rj
