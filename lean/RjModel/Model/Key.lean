/-! Model of the key text: the boss writes `format!("{:x}\n", key)` (generic_array `LowerHex`: two
lower-case hex digits per byte, most significant byte first) to the doer's stdin; the doer parses
it with `u128::from_str_radix(_, 16)` and takes `to_be_bytes()` (`boss_launch.rs:617-623`,
`doer.rs:188-206`). -/
namespace Rj.Key

def hexDigit (d : Nat) : Char := "0123456789abcdef".toList.getD d '?'
def fmt : List Nat → List Char
  | [] => []
  | b :: bs => hexDigit (b / 16) :: hexDigit (b % 16) :: fmt bs

/-- digit value of `u128::from_str_radix(_, 16)`, rejecting non-hex characters -/
def hexVal (c : Char) : Option Nat :=
  if '0' ≤ c ∧ c ≤ '9' then some (c.toNat - '0'.toNat)
  else if 'a' ≤ c ∧ c ≤ 'f' then some (c.toNat - 'a'.toNat + 10)
  else if 'A' ≤ c ∧ c ≤ 'F' then some (c.toNat - 'A'.toNat + 10)
  else none
def parseFrom (acc : Nat) : List Char → Option Nat
  | [] => some acc
  | c :: cs => match hexVal c with
    | some d => parseFrom (acc * 16 + d) cs
    | none => none

/-- `from_str_radix`: empty input and values that do not fit 128 bits are errors
(a leading `+` is accepted by Rust; the boss never writes one) -/
def parseU128 (s : List Char) : Option Nat :=
  if s = [] then none else
  match parseFrom 0 s with
  | some v => if v < 2 ^ 128 then some v else none
  | none => none

/-- `to_be_bytes` of the low `n` bytes -/
def toBE : Nat → Nat → List Nat
  | 0, _ => []
  | n + 1, v => (v / 256 ^ n) % 256 :: toBE n v

def fromBE (acc : Nat) : List Nat → Nat
  | [] => acc
  | b :: bs => fromBE (acc * 256 + b) bs

/-- what the doer reconstructs from the text the boss wrote -/
def roundTrip (key : List Nat) : Option (List Nat) := (parseU128 (fmt key)).map (toBE 16)

end Rj.Key
