/-! Regular expressions as an AST with an executable position-set matcher, and the model of how
`compile_filters` anchors a pattern.  `ends r s i` = all `j` such that `r` matches `s[i..j)`.

The pattern text given by the user parses to an AST `r`; what the code compiles is the *text*
`pre ++ p ++ post`.  Because concatenation binds tighter than `|`, the text `^p$` parses to
`^a|b|…|z$` when `p` is a top-level alternation — `wrapText` models exactly that. -/
namespace Rj

inductive Re
  | eps
  | chr (c : Char)
  | any                                            -- `.` : anything but '\n'
  | cls (neg : Bool) (ranges : List (Char × Char))
  | cat (a b : Re)
  | alt (a b : Re)
  | star (a : Re)
  | plus (a : Re)
  | opt (a : Re)
  | bol                                            -- `^`
  | eol                                            -- `$`
  | icase (a : Re)                                 -- `(?i:a)`
  deriving Repr, Inhabited

def foldCase (c : Char) : Char := if 'A' ≤ c ∧ c ≤ 'Z' then Char.ofNat (c.toNat + 32) else c

def inRanges (rs : List (Char × Char)) (c : Char) : Bool := rs.any fun (lo, hi) => lo ≤ c && c ≤ hi

def clsMatch (ic neg : Bool) (rs : List (Char × Char)) (c : Char) : Bool :=
  let hit := if ic then inRanges rs c || inRanges rs (foldCase c) ||
                 (if 'a' ≤ c ∧ c ≤ 'z' then inRanges rs (Char.ofNat (c.toNat - 32)) else false)
             else inRanges rs c
  if neg then !hit else hit

/-- duplicate removal (efficiency only; membership and emptiness are unchanged) -/
def dedup : List Nat → List Nat
  | [] => []
  | x :: xs => if xs.contains x then dedup xs else x :: dedup xs

/-- one round of the star closure: positions newly reachable from the frontier -/
def starLoop (step : Nat → List Nat) : Nat → List Nat → List Nat → List Nat
  | 0, seen, _ => seen
  | fuel + 1, seen, frontier =>
    let next := (frontier.flatMap step).filter (fun j => !seen.contains j)
    let next := dedup next
    if next.isEmpty then seen else starLoop step fuel (seen ++ next) next

def ends (ic : Bool) : Re → Array Char → Nat → List Nat
  | .eps, _, i => [i]
  | .chr c, s, i =>
    match s[i]? with
    | some d => if (if ic then foldCase c == foldCase d else c == d) then [i + 1] else []
    | none => []
  | .any, s, i =>
    match s[i]? with
    | some d => if d ≠ '\n' then [i + 1] else []
    | none => []
  | .cls neg rs, s, i =>
    match s[i]? with
    | some d => if clsMatch ic neg rs d then [i + 1] else []
    | none => []
  | .cat a b, s, i => dedup ((ends ic a s i).flatMap (ends ic b s))
  | .alt a b, s, i => dedup (ends ic a s i ++ ends ic b s i)
  | .star a, s, i => starLoop (ends ic a s) (s.size + 1) [i] [i]
  | .plus a, s, i =>
    let first := ends ic a s i
    dedup (first.flatMap fun j => starLoop (ends ic a s) (s.size + 1) [j] [j])
  | .opt a, s, i => dedup (i :: ends ic a s i)
  | .bol, _, i => if i = 0 then [i] else []
  | .eol, s, i => if i = s.size then [i] else []
  | .icase a, s, i => ends true a s i

/-- unanchored search, as `RegexSet::matches` does -/
def search (r : Re) (s : Array Char) : Bool :=
  (List.range (s.size + 1)).any fun i => !(ends false r s i).isEmpty

/-- `r` matches the entire string -/
def fullMatch (r : Re) (s : Array Char) : Bool := (ends false r s 0).contains s.size

/-- the text `^(?:p)$` -/
def wrapGroup (r : Re) : Re := .cat .bol (.cat r .eol)

def pushLeft : Re → Re
  | .alt a b => .alt (pushLeft a) b
  | r => .cat .bol r

def pushRight : Re → Re
  | .alt a b => .alt a (pushRight b)
  | r => .cat r .eol

/-- the text `^p$`: the anchors bind to the first and the last top-level alternative only -/
def wrapText : Re → Re
  | .alt a b => .alt (pushLeft a) (pushRight b)
  | r => .cat .bol (.cat r .eol)

/-- the wrap the current source applies (`pre`/`post` are extracted from `compile_filters`) -/
def wrapOf (pre post : String) (r : Re) : Option Re :=
  if pre = "^" ∧ post = "$" then some (wrapText r)
  else if pre = "^(?:" ∧ post = ")$" then some (wrapGroup r)
  else none

/-! ### `apply_filters` (`doer.rs:555-585`) -/

/-- `incl` = `FilterKind::Include`; `matched` = whether the compiled regex matched the path -/
def foldFilters (kinds : List Bool) (matched : List Bool) : Bool :=
  let init := match kinds.head? with
    | some true => false
    | some false => true
    | none => true
  (kinds.zip matched).foldl (fun acc (incl, m) => if m then incl else acc) init

def applyFilters (fs : List (Bool × Re)) (path : Array Char) : Bool :=
  if path.size = 0 then true
  else foldFilters (fs.map (·.1)) (fs.map fun f => search f.2 path)

/-! ### `apply_filters` as it is written: the extracted skeleton, interpreted -/

/-- what the extractor reads off `apply_filters`: the early return for the root, the three arms of the default, the two
assignments of the loop over the matched filter indices; `shape`: the function has exactly this shape and nothing else -/
structure ApplyFiltersSkel where
  rootIncluded : Bool
  dInc : Bool
  dExc : Bool
  dNone : Bool
  aInc : Bool
  aExc : Bool
  shape : Bool
  deriving DecidableEq, Repr

/-- indices of the filters that matched, ascending (what iterating a `SetMatches` yields) -/
def idxFrom : Nat → List Bool → List Nat
  | _, [] => []
  | k, m :: ms => (if m then [k] else []) ++ idxFrom (k + 1) ms

/-- the loop `for i in matches { match kinds[i] { Include => result = .., Exclude => result = .. } }` (`none`: index out of range) -/
def assignLoop (aInc aExc : Bool) (kinds : List Bool) (ms : List Nat) (init : Option Bool) : Option Bool :=
  ms.foldl (fun r i => r.bind fun _ => (kinds[i]?).map fun k => if k then aInc else aExc) init

def applyFiltersSrc (k : ApplyFiltersSkel) (isRoot : Bool) (kinds : List Bool) (ms : List Nat) : Option Bool :=
  if isRoot && k.rootIncluded then some true
  else assignLoop k.aInc k.aExc kinds ms (some (match kinds.head? with | some true => k.dInc | some false => k.dExc | none => k.dNone))

end Rj
