/-! Line-protocol helpers shared by every driver command: hex coding of strings / byte lists and
token parsing.  The format is the contract with the Rust harness (which has its own parser). -/
namespace Rj

def hexDigit (n : Nat) : Char :=
  if n < 10 then Char.ofNat (48 + n) else Char.ofNat (87 + n)

def hexVal (c : Char) : Option Nat :=
  if '0' ≤ c ∧ c ≤ '9' then some (c.toNat - 48)
  else if 'a' ≤ c ∧ c ≤ 'f' then some (c.toNat - 87)
  else if 'A' ≤ c ∧ c ≤ 'F' then some (c.toNat - 55)
  else none

def hexOfBytes (bs : List UInt8) : String :=
  String.ofList (bs.flatMap fun b => [hexDigit (b.toNat / 16), hexDigit (b.toNat % 16)])

def bytesOfHexChars : List Char → Option (List UInt8)
  | [] => some []
  | [_] => none
  | a :: b :: t => do
    let x ← hexVal a
    let y ← hexVal b
    let r ← bytesOfHexChars t
    pure (UInt8.ofNat (x * 16 + y) :: r)

def bytesOfHex (s : String) : Option (List UInt8) := bytesOfHexChars s.toList

def hexOfString (s : String) : String := hexOfBytes s.toUTF8.toList

def stringOfHex (s : String) : Option String := do
  let bs ← bytesOfHex s
  String.fromUTF8? (ByteArray.mk bs.toArray)

/-- tokens of a request line -/
def tokens (line : String) : List String :=
  (line.trimAscii.toString.splitOn " ").filter (· ≠ "")

def joinWith (sep : String) (l : List String) : String := sep.intercalate l

end Rj
