import RjModel.Model.Parse
import RjModel.Model.Wire
import RjModel.Model.Channel
/-! Line-protocol side of the wire and channel models (driver only). -/
namespace Rj
open Rj.Wire

def P.dataTok : P B := do
  let t ← P.tok
  match t.toList with
  | 'x' :: r => P.ofOpt (bytesOfHex (String.ofList r))
  | 'z' :: r =>
    match (String.ofList r).splitOn ":" with
    | [len, b] => do
      let n ← P.ofOpt len.toNat?; let v ← P.ofOpt b.toNat?
      pure (List.replicate n (UInt8.ofNat v))
    | _ => P.fail
  | _ => P.fail

def P.wstr : P B := (fun s => s.toUTF8.toList) <$> P.str

def P.wkind : P WKind := do
  match (← P.tok) with
  | "F" => pure .file | "D" => pure .folder | "U" => pure .unknown | _ => P.fail

def wTarget : Target → WTarget
  | .normalized s => .norm s.toUTF8.toList
  | .notNormalized b => .notNorm b

def splitTime (ns : Int) : Nat × Nat := (ns.toNat / 1000000000, ns.toNat % 1000000000)

def wDetails : Details → WDetails
  | .file m sz => let (s, n) := splitTime m; .file s n sz
  | .folder => .folder
  | .symlink k t => .symlink (match k with | .file => .file | .folder => .folder | .unknown => .unknown) (wTarget t)

def P.wmarker : P WMarker := do
  let w ← P.nat
  match (← P.tok) with
  | "D" => do let n ← P.nat; pure ⟨w, .deleting n⟩
  | "C" => do let n ← P.nat; let b ← P.nat; pure ⟨w, .copying n b⟩
  | "X" => pure ⟨w, .done⟩
  | _ => P.fail

def P.wcmd : P WCmd := do
  match (← P.tok) with
  | "SR" => WCmd.setRoot <$> P.wstr
  | "GE" => do
    let fs ← P.list (do let s ← P.tok; let p ← P.wstr; pure (s == "+", p))
    pure (.getEntries (fs.map (·.2)) (fs.map (·.1)))
  | "CRA" => pure .createRootAncestors
  | "GFC" => WCmd.getFileContent <$> P.wstr
  | "CUF" => do
    let p ← P.wstr; let d ← P.dataTok
    let m ← P.tok
    let t ← if m = "-" then pure none else (fun (i : Int) => some (splitTime i)) <$> P.ofOpt m.toInt?
    let more ← P.bool
    pure (.createOrUpdateFile p d t more)
  | "CS" => do
    let p ← P.wstr; let k ← P.wkind; let t ← P.ofOpt (Target.parse (← P.tok))
    pure (.createSymlink p k (wTarget t))
  | "CF" => WCmd.createFolder <$> P.wstr
  | "DF" => WCmd.deleteFile <$> P.wstr
  | "DD" => WCmd.deleteFolder <$> P.wstr
  | "DS" => do let p ← P.wstr; let k ← P.wkind; pure (.deleteSymlink p k)
  | "PTS" => pure .profilingTimeSync
  | "MK" => WCmd.marker <$> P.wmarker
  | "SH" => pure .shutdown
  | _ => P.fail

def P.wresp : P WResp := do
  match (← P.tok) with
  | "RD" => do
    let d ← P.optDetails; let diff ← P.bool; let sep ← P.nat
    pure (.rootDetails (d.map wDetails) diff sep)
  | "EN" => do let p ← P.wstr; let d ← P.details; pure (.entry p (wDetails d))
  | "EE" => pure .endOfEntries
  | "FC" => do let d ← P.dataTok; let m ← P.bool; pure (.fileContent d m)
  | "PT" => do let s ← P.nat; let n ← P.nat; pure (.profilingTimeSync s n)
  | "MK" => WResp.marker <$> P.wmarker
  | "ER" => WResp.error <$> P.wstr
  | _ => P.fail

def summarizeBytes (b : B) : String :=
  s!"len={b.length} head={hexOfBytes (b.take 64)} tail={hexOfBytes (b.drop (b.length - min b.length 16))}"

/-- how many sends complete while the receiver does nothing -/
def admittedCount (cap : Nat) (msgs : List Nat) : Nat :=
  let sched := (List.replicate msgs.length [Chan.Act.fetchAdd, .spinPass, .innerSend]).flatten
  (Chan.runSched cap (Chan.St.init msgs) sched).q.length

end Rj
