import RjModel.Model.Basic
/-! Model of how a symlink's text travels (`doer.rs:52-89, 714-742`, `root_relative_path.rs`,
`boss_doer_interface.rs::symlink_target_{to,from}_bytes`) for unix doers.  The text of a link is a
byte string.  On read, `RootRelativePath::try_from(Path)` — `Path::iter` drops empty components,
`.` components other than a leading one and trailing separators; absolute paths, components that are
not UTF-8 and components containing a backslash are refused — gives `Normalized(joined with '/')`;
anything refused is carried verbatim, byte for byte, as `NotNormalized`.  On create, `Normalized`
text has '/' replaced by the destination's separator, `NotNormalized` bytes are written as they are. -/
namespace Rj

/-- split at '/' -/
def splitSlash : List Char → List (List Char)
  | [] => [[]]
  | c :: cs =>
    match splitSlash cs with
    | [] => [[c]]
    | h :: t => if c = '/' then [] :: h :: t else (c :: h) :: t

/-- `Path::components()` on unix for a relative path: empty and (non-leading) `.` components vanish -/
def components (s : List Char) : List (List Char) :=
  let parts := splitSlash s
  let lead : List (List Char) := match parts with
    | ['.'] :: _ => [['.']]
    | _ => []
  let rest := (match parts with
    | ['.'] :: t => t
    | l => l).filter fun p => p ≠ [] ∧ p ≠ ['.']
  lead ++ rest

def joinSlash : List (List Char) → List Char
  | [] => []
  | [p] => p
  | p :: rest => p ++ '/' :: joinSlash rest

def utf8 (t : List Char) : List UInt8 := (String.ofList t).toUTF8.data.toList

def decodeUtf8 (b : List UInt8) : Option (List Char) := (ByteArray.mk b.toArray).utf8Decode?.map Array.toList

/-- is the (valid UTF-8) text refused by `RootRelativePath::try_from`? -/
def refused (t : List Char) : Bool :=
  t.head? = some '/' || (components t).any (fun p => p.contains '\\')

/-- the normal form of an accepted text -/
def normalForm (t : List Char) : List Char := joinSlash (components t)

/-- `entry_details_from_metadata` on the raw bytes of a link's text -/
def readLinkB (b : List UInt8) : Target :=
  match decodeUtf8 b with
  | none => .notNormalized b              -- some component is not UTF-8: refused, carried verbatim
  | some t => if refused t then .notNormalized b else .normalized (String.ofList (normalForm t))

/-- the same for a text given as characters (valid UTF-8) -/
def readLink (t : List Char) : Target :=
  if refused t then .notNormalized (utf8 t) else .normalized (String.ofList (normalForm t))

/-- `handle_create_symlink` on a doer whose separator is `sep`: the bytes of the text that is written -/
def writeLinkB (sep : Char) : Target → List UInt8
  | .normalized s => utf8 (s.toList.map fun c => if c = '/' then sep else c)
  | .notNormalized b => b

end Rj
