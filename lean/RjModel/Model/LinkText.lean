import RjModel.Model.Basic
/-! Model of how a symlink's text travels (`doer.rs:52-89, 714-742`, `root_relative_path.rs`) for
unix doers: on read, `RootRelativePath::try_from(Path)` — `Path::iter` drops empty components, `.`
components other than a leading one and trailing separators; absolute paths and components containing
a backslash are refused — gives `Normalized(joined with '/')`, anything refused is carried verbatim
as `NotNormalized`; on create, `Normalized` text has '/' replaced by the destination's separator. -/
namespace Rj

/-- split at '/' -/
def splitSlash : List Char → List (List Char)
  | [] => [[]]
  | c :: cs =>
    match splitSlash cs with
    | [] => [[c]]
    | h :: t => if c = '/' then [] :: h :: t else (c :: h) :: t

/-- `Path::components()` on unix for a relative path: empty and (non-leading) `.` components vanish -/
def components (s : List Char) : List (List Char) :=
  let parts := splitSlash s
  let lead : List (List Char) := match parts with
    | ['.'] :: _ => [['.']]
    | _ => []
  let rest := (match parts with
    | ['.'] :: t => t
    | l => l).filter fun p => p ≠ [] ∧ p ≠ ['.']
  lead ++ rest

def joinSlash : List (List Char) → List Char
  | [] => []
  | [p] => p
  | p :: rest => p ++ '/' :: joinSlash rest

/-- `entry_details_from_metadata` for a link text that is valid UTF-8 -/
def readLink (t : List Char) : Target :=
  if t.head? = some '/' then .notNormalized (String.ofList t)
  else if (components t).any (fun p => p.contains '\\') then .notNormalized (String.ofList t)
  else .normalized (String.ofList (joinSlash (components t)))

/-- `handle_create_symlink` on a doer whose separator is `sep` -/
def writeLink (sep : Char) : Target → List Char
  | .normalized s => s.toList.map fun c => if c = '/' then sep else c
  | .notNormalized s => s.toList

end Rj
