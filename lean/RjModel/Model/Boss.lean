import RjModel.Model.Confirm
/-! Model of `boss_sync.rs::sync` as a function from a *scenario* (everything the two doers reply,
in which order the two listings arrive, the prompt answers, when an asynchronous destination error
becomes visible) to the two command traces, the result, the prompts shown and the info-level log. -/
namespace Rj

inductive Side | src | dest
  deriving DecidableEq, Repr, Inhabited

/-- Reply to `SetRoot`. -/
inductive RootReply
  | details (d : Option Details) (diff : Bool) (sep : Char)
  | other                         -- any other response (incl. `Error`)
  deriving Repr, Inhabited

/-- One message of the merged listing streams. -/
inductive LEv
  | entry (side : Side) (p : String) (d : Details)
  | endOf (side : Side)
  | other (side : Side)           -- any unexpected response in the listing
  deriving Repr, Inhabited

/-- Source reply stream to one `GetFileContent`: chunks `(data, more_to_follow)`; a stream that does
not end with `more = false` is followed by an `Error` response. -/
abbrev FileScript := List (List UInt8 × Bool)

structure Scenario where
  srcRoot : String
  destRoot : String
  dryRun : Bool
  beh : Behaviours
  filters : List String
  srcReply : RootReply
  destReply : RootReply
  destReply2 : RootReply
  events : List LEv
  answers : List Answer
  files : List (String × FileScript)
  /-- index of the non-blocking poll at which a destination `Error` response is first seen
  (`none`: the destination doer reports no error; an index beyond the last poll: seen by the final
  blocking wait) -/
  errAtPoll : Option Nat
  /-- a destination `Error` response (it can only answer `CreateRootAncestors` that early) becomes
  visible while the boss is still in the `select` loop of the query phase -/
  errInQuery : Bool := false
  /-- which destination command (counted over the mutating ones, in sending order) the doer answers
  with an `Error` (`none`: none / not stated).  Only the barrier after the delete phase looks at it:
  the answer to a command has arrived by the time a marker sent after it is echoed. -/
  errCmd : Option Nat := none

inductive Outcome
  | ok
  | err (k : ErrKind)
  | panic
  deriving DecidableEq, Repr, Inhabited

structure RunResult where
  outcome : Outcome
  srcTrace : List Cmd
  destTrace : List Cmd
  prompts : List PromptKind
  log : List String
  deriving Repr

/-! ### filters (sign parsing and wrapping only; regex validity is the `regex` crate's) -/

def compileFilter (wrapPre wrapPost : String) (f : String) : Option FilterSpec :=
  match f.toList with
  | '+' :: r => some ⟨true, wrapPre ++ String.ofList r ++ wrapPost⟩
  | '-' :: r => some ⟨false, wrapPre ++ String.ofList r ++ wrapPost⟩
  | _ => none

def compileFilters (wrapPre wrapPost : String) : List String → Option (List FilterSpec)
  | [] => some []
  | f :: fs => do
    let x ← compileFilter wrapPre wrapPost f
    let xs ← compileFilters wrapPre wrapPost fs
    pure (x :: xs)

/-! ### strings -/

def isSlash (c : Char) : Bool := c == '/' || c == '\\'

def lastChar? (s : String) : Option Char := s.toList.getLast?

/-- `s.split(|c| c == '/' || c == '\\').last()` -/
def lastComponent (s : String) : String :=
  String.ofList ((s.toList.reverse.takeWhile (fun c => !isSlash c)).reverse)

/-- `validate_trailing_slash`: `none` = panic (empty root), `some false` = error. -/
def validateTrailingSlash (root : String) (d : Details) : Option Bool :=
  if d.isFileOrSymlink then
    match lastChar? root with
    | none => none
    | some c => some (!isSlash c)
  else some true

def replaceChar (s : String) (a b : Char) : String :=
  String.ofList (s.toList.map fun c => if c == a then b else c)

def kindName : Details → String
  | .file .. => "file" | .folder => "folder" | .symlink .. => "symlink"

/-- `PrettyPath` display (no styling: not a terminal). -/
def pretty (side : String) (sep : Char) (root : String) (path : String) (kind : String) : String :=
  if path = "" then s!"{side} root {kind} '{root}'"
  else
    let r := if lastChar? root = some sep then root else root ++ String.singleton sep
    s!"{side} {kind} '{r}{replaceChar path '/' sep}'"

/-! ### the run -/

structure Ctx where
  srcRoot : String
  destRoot : String
  srcSep : Char
  destSep : Char
  dryRun : Bool

def Ctx.prettySrc (c : Ctx) (p kind : String) : String := pretty "source" c.srcSep c.srcRoot p kind
def Ctx.prettyDest (c : Ctx) (p kind : String) : String := pretty "dest" c.destSep c.destRoot p kind

/-- Executor state. -/
structure XState where
  src : List Cmd
  dest : List Cmd
  log : List String
  polls : Nat
  deriving Repr

def XState.sendSrc (x : XState) (c : Cmd) : XState := { x with src := x.src ++ [c] }
def XState.sendDest (x : XState) (c : Cmd) : XState := { x with dest := x.dest ++ [c] }
def XState.info (x : XState) (l : String) : XState := { x with log := x.log ++ [l] }

/-- One non-blocking `process_dest_responses`: `true` = an error response was seen. -/
def XState.poll (x : XState) (errAt : Option Nat) : Bool × XState :=
  (errAt = some x.polls, { x with polls := x.polls + 1 })

structure Stats where
  filesDel : Nat := 0
  bytesDel : Nat := 0
  foldersDel : Nat := 0
  linksDel : Nat := 0
  filesCopied : Nat := 0
  bytesCopied : Nat := 0
  foldersCreated : Nat := 0
  linksCopied : Nat := 0
  deriving Repr, DecidableEq

def deleteCmd (p : String) : Details → Cmd
  | .file .. => .deleteFile p
  | .folder => .deleteFolder p
  | .symlink k _ => .deleteSymlink p k

def Stats.addDelete (s : Stats) : Details → Stats
  | .file _ sz => { s with filesDel := s.filesDel + 1, bytesDel := s.bytesDel + sz }
  | .folder => { s with foldersDel := s.foldersDel + 1 }
  | .symlink .. => { s with linksDel := s.linksDel + 1 }

/-- what one iteration of the delete loop emits -/
def delStepState (c : Ctx) (x : XState) (p : String) (d : Details) : XState :=
  if c.dryRun then x.info s!"Would delete {c.prettyDest p (kindName d)}" else x.sendDest (deleteCmd p d)

/-- The delete loop.  `some e` = the run ends with that error. -/
def deleteLoop (c : Ctx) (errAt : Option Nat) :
    List (String × (Details × DelReason)) → XState → Stats → Option ErrKind × XState × Stats
  | [], x, st => (none, x, st)
  | (p, (d, _)) :: rest, x, st =>
    let r := (delStepState c x p d).poll errAt
    if r.1 then (some .doer, r.2, st.addDelete d) else deleteLoop c errAt rest r.2 (st.addDelete d)

/-- the command that forwards one chunk: the time stamp only with the last chunk -/
def chunkCmd (p : String) (data : List UInt8) (mtime : Int) (more : Bool) : Cmd :=
  .createOrUpdateFile p data (if more then none else some mtime) more

/-- The chunk relay of `copy_file` (non-dry-run).  Returns the error (if any), the new state and
the final `chunk_offset`. -/
def chunkLoop (errAt : Option Nat) (p : String) (size : Nat) (mtime : Int) :
    FileScript → XState → Nat → Option ErrKind × XState × Nat
  | [], x, off => (some .unexpected, x, off)         -- the `Error` response that follows the script
  | (data, more) :: rest, x, off =>
    if off + data.length > size then (some .sizeChanged, x, off)  -- the source grew: error at once
    else
      let r := (x.sendDest (chunkCmd p data mtime more)).poll errAt
      if r.1 then (some .doer, r.2, off + data.length)
      else if more then chunkLoop errAt p size mtime rest r.2 (off + data.length)
      else (none, r.2, off + data.length)

/-- A file without a script is answered with an `Error` response (= the empty script). -/
def fileScript (files : List (String × FileScript)) (p : String) : FileScript :=
  match files.lookup p with
  | some s => s
  | none => []

/-- `copy_file` (non-dry-run) -/
def copyFileReal (errAt : Option Nat) (files : List (String × FileScript)) (p : String) (mtime : Int) (size : Nat)
    (x : XState) (st : Stats) : Option ErrKind × XState × Stats :=
  let r := chunkLoop errAt p size mtime (fileScript files p) (x.sendSrc (.getFileContent p)) 0
  match r.1 with
  | some e => (some e, r.2.1, st)
  | none =>
    if r.2.2 ≠ size then (some .sizeChanged, r.2.1, st)
    else (none, r.2.1, { st with filesCopied := st.filesCopied + 1, bytesCopied := st.bytesCopied + size })

/-- `copy_entry` for one entry. -/
def copyOne (c : Ctx) (errAt : Option Nat) (files : List (String × FileScript))
    (p : String) (d : Details) (x : XState) (st : Stats) : Option ErrKind × XState × Stats :=
  match d with
  | .file mtime size =>
    if c.dryRun then
      (none, x.info s!"Would copy {c.prettySrc p "file"} => {c.prettyDest p "file"}",
        { st with filesCopied := st.filesCopied + 1, bytesCopied := st.bytesCopied + size })
    else copyFileReal errAt files p mtime size x st
  | .folder =>
    let st := { st with foldersCreated := st.foldersCreated + 1 }
    if c.dryRun then (none, x.info s!"Would create {c.prettyDest p "folder"}", st)
    else (none, x.sendDest (.createFolder p), st)
  | .symlink k t =>
    let st := { st with linksCopied := st.linksCopied + 1 }
    if c.dryRun then (none, x.info s!"Would create {c.prettyDest p "symlink"}", st)
    else (none, x.sendDest (.createSymlink p k t), st)

def copyLoop (c : Ctx) (errAt : Option Nat) (files : List (String × FileScript)) :
    List (String × (Details × CopyReason)) → XState → Stats → Option ErrKind × XState × Stats
  | [], x, st => (none, x, st)
  | (p, (d, _)) :: rest, x, st =>
    let r := copyOne c errAt files p d x st
    match r.1 with
    | some e => (some e, r.2.1, r.2.2)
    | none =>
      let q := r.2.1.poll errAt
      if q.1 then (some .doer, q.2, r.2.2) else copyLoop c errAt files rest q.2 r.2.2

def summary (dry : Bool) (st : Stats) : List String :=
  (if st.filesDel + st.foldersDel + st.linksDel > 0 then
    [s!"{if dry then "Would delete" else "Deleted"} {st.filesDel} file(s) totalling {st.bytesDel}B, {st.foldersDel} folder(s) and {st.linksDel} symlink(s)"]
   else []) ++
  (if st.filesCopied + st.foldersCreated + st.linksCopied > 0 then
    [s!"{if dry then "Would copy" else "Copied"} {st.filesCopied} file(s) totalling {st.bytesCopied}B, {if dry then "would create" else "created"} {st.foldersCreated} folder(s) and {if dry then "would copy" else "copied"} {st.linksCopied} symlink(s)"]
   else []) ++
  (if st.filesDel + st.foldersDel + st.linksDel + st.filesCopied + st.foldersCreated + st.linksCopied = 0 then
    ["Nothing to do!"] else [])

/-- State of the query loop. -/
structure QState where
  ps : PState
  srcDone : Bool
  destDone : Bool

/-- The `select` loop of `query_entries` over the merged event sequence.  An event of a side that
was never asked for its entries is never delivered.  `Except`: `.error none` = panic (the `unwrap`
in `OrderedMap::update`), `.error (some e)` = error result. -/
def queryLoop (pc : PCfg) (srcAsked destAsked : Bool) : List LEv → QState → Except (Option ErrKind) QState
  | [], q => .ok q      -- (the real boss would block; scenarios always carry the end markers)
  | ev :: rest, q =>
    if q.srcDone && q.destDone then .ok q
    else
      match ev with
      | .entry .src p d =>
        if !srcAsked then queryLoop pc srcAsked destAsked rest q else
        match pstep pc q.ps (.src p d) with
        | none => .error none
        | some ps => queryLoop pc srcAsked destAsked rest { q with ps := ps }
      | .entry .dest p d =>
        if !destAsked then queryLoop pc srcAsked destAsked rest q else
        match pstep pc q.ps (.dst p d) with
        | none => .error none
        | some ps => queryLoop pc srcAsked destAsked rest { q with ps := ps }
      | .endOf .src =>
        if !srcAsked then queryLoop pc srcAsked destAsked rest q else
        queryLoop pc srcAsked destAsked rest { q with srcDone := true }
      | .endOf .dest =>
        if !destAsked then queryLoop pc srcAsked destAsked rest q else
        queryLoop pc srcAsked destAsked rest { q with destDone := true }
      | .other .src =>
        if !srcAsked then queryLoop pc srcAsked destAsked rest q else .error (some .unexpected)
      | .other .dest =>
        if !destAsked then queryLoop pc srcAsked destAsked rest q else .error (some .unexpected)

/-- How filter patterns are wrapped by `compile_filters` (extracted from the source). -/
structure Wrap where
  pre : String
  post : String

def mkResult (o : Outcome) (x : XState) (c : Conf) : RunResult :=
  { outcome := o, srcTrace := x.src, destTrace := x.dest, prompts := c.prompts, log := x.log }

/-- has the destination command that is answered with an error been sent already? -/
def XState.failedSent (x : XState) (errCmd : Option Nat) : Bool :=
  match errCmd with
  | some k => k < (x.dest.filter Cmd.mutating).length
  | none => false

/-- the barrier between the two phases: when something is deleted (not in a dry run) the boss waits
for the echo of the marker that starts the copying; a failed deletion is seen there at the latest -/
def barrierFails (sc : Scenario) (ctx : Ctx) (del : OMap (Details × DelReason)) (xm : XState) : Bool :=
  !ctx.dryRun && !del.iter.isEmpty && xm.failedSent sc.errCmd

/-- delete phase, barrier, copy phase, final wait -/
def execPhase (sc : Scenario) (ctx : Ctx) (x : XState) (conf : Conf)
    (del : OMap (Details × DelReason)) (cpy : OMap (Details × CopyReason)) : RunResult :=
  let r1 := deleteLoop ctx sc.errAtPoll del.iter x {}
  match r1.1 with
  | some e => mkResult (.err e) r1.2.1 conf
  | none =>
    if barrierFails sc ctx del (r1.2.1.sendDest (.marker .copying)) then
      mkResult (.err .doer) (r1.2.1.sendDest (.marker .copying)) conf
    else
    let r2 := copyLoop ctx sc.errAtPoll sc.files cpy.iter (r1.2.1.sendDest (.marker .copying)) r1.2.2
    match r2.1 with
    | some e => mkResult (.err e) r2.2.1 conf
    | none =>
      let x3 := r2.2.1.sendDest (.marker .done)
      -- final blocking wait: an error response, whenever it was produced, is seen here
      match sc.errAtPoll with
      | some _ => mkResult (.err .doer) x3 conf
      | none => mkResult .ok { x3 with log := x3.log ++ summary ctx.dryRun r2.2.2 } conf

/-- the planner state after both root entries, and whether each side was asked for its entries -/
def afterRoots (pc : PCfg) (srcD : Details) (destD : Option Details) : Option (PState × Bool × Bool) :=
  match pstep pc PState.init (.src "" srcD) with
  | none => none
  | some ps =>
    match destD with
    | none => some (ps, srcD.isFolder, false)
    | some d =>
      match pstep pc ps (.dst "" d) with
      | none => none
      | some ps => some (ps, srcD.isFolder, d.isFolder)

/-- query, confirmation, execution -/
def queryPhase (sc : Scenario) (fs : List FilterSpec) (ctx : Ctx) (x : XState) (conf : Conf) (pc : PCfg)
    (srcD : Details) (destD : Option Details) : RunResult :=
  match afterRoots pc srcD destD with
  | none => mkResult .panic x conf
  | some (ps, srcAsked, destAsked) =>
    let x := if srcAsked then x.sendSrc (.getEntries fs) else x
    let x := if destAsked then x.sendDest (.getEntries fs) else x
    -- A destination error seen by the `select` loop is an unexpected listing response.  It needs
    -- a command that can fail before the query (only `CreateRootAncestors`) and a running loop.
    if sc.errInQuery && (destD.isNone && !ctx.dryRun) && (srcAsked || destAsked) then
      mkResult (.err .unexpected) x conf
    else
    match queryLoop pc srcAsked destAsked sc.events ⟨ps, !srcAsked, !destAsked⟩ with
    | .error none => mkResult .panic x conf
    | .error (some e) => mkResult (.err e) x conf
    | .ok q =>
      let r := confirmActions conf q.ps.del.reverseOrder q.ps.cpy
      match r.1 with
      | some e => mkResult (.err e) x r.2.1
      | none => execPhase sc ctx x r.2.1 r.2.2.1 r.2.2.2

/-- the root-deletion gate, consulted only if the destination root exists and is incompatible -/
def gateOf (sc : Scenario) (pc0 : PCfg) (srcD : Details) (destD : Option Details) : Option Bool × Conf :=
  let conf : Conf := { beh := sc.beh, answers := sc.answers, prompts := [] }
  match destD with
  | some d => if needsDelete pc0 srcD d then rootGate conf else (some true, conf)
  | none => (some true, conf)

/-- trailing-slash validation of the destination root (absent roots are fine) -/
def destValid (destRoot : String) : Option Details → Option Bool
  | none => some true
  | some d => validateTrailingSlash destRoot d

/-- does the destination path end in `/` or `\\` -/
def destHasSlash (destRoot : String) : Bool :=
  match lastChar? destRoot with
  | some c => isSlash c
  | none => false

/-- The phases after the roots are known. -/
def runFromRoots (w : Wrap) (sc : Scenario) (fs : List FilterSpec) (ctx : Ctx) (x : XState)
    (srcD : Details) (destD : Option Details) (destDiff : Bool) : RunResult :=
  let _ := w
  let pc0 : PCfg := { sameTimeSkip := sc.beh.same == .skip, destDiff := destDiff }
  -- root-deletion gate
  let gate := gateOf sc pc0 srcD destD
  match gate.1 with
  | none => mkResult (.err .rootErr) x gate.2
  | some false => mkResult .ok x gate.2
  | some true =>
    -- missing destination ancestors
    let x := if destD.isNone && !ctx.dryRun then x.sendDest .createRootAncestors else x
    queryPhase sc fs ctx x gate.2 pc0 srcD destD

def run (w : Wrap) (sc : Scenario) : RunResult :=
  let x0 : XState := ⟨[], [], [], 0⟩
  let conf0 : Conf := { beh := sc.beh, answers := sc.answers, prompts := [] }
  match compileFilters w.pre w.post sc.filters with
  | none => mkResult (.err .badFilter) x0 conf0
  | some fs =>
    -- source root
    let x := x0.sendSrc (.setRoot sc.srcRoot)
    match sc.srcReply with
    | .other => mkResult (.err .unexpected) x conf0
    | .details none _ _ => mkResult (.err .srcMissing) x conf0
    | .details (some srcD) _ srcSep =>
      match validateTrailingSlash sc.srcRoot srcD with
      | none => mkResult .panic x conf0
      | some false => mkResult (.err .srcSlash) x conf0
      | some true =>
        -- destination root
        let x := x.sendDest (.setRoot sc.destRoot)
        match sc.destReply with
        | .other => mkResult (.err .unexpected) x conf0
        | .details destD destDiff destSep =>
          match destValid sc.destRoot destD with
          | none => mkResult .panic x conf0
          | some false => mkResult (.err .destSlash) x conf0
          | some true =>
            if srcD.isFileOrSymlink && destHasSlash sc.destRoot then
              let destRoot' := sc.destRoot ++ lastComponent sc.srcRoot
              let x := x.sendDest (.setRoot destRoot')
              match sc.destReply2 with
              | .other => mkResult (.err .unexpected) x conf0
              | .details destD2 _ _ =>
                runFromRoots w sc fs ⟨sc.srcRoot, destRoot', srcSep, destSep, sc.dryRun⟩ x srcD destD2 destDiff
            else
              runFromRoots w sc fs ⟨sc.srcRoot, sc.destRoot, srcSep, destSep, sc.dryRun⟩ x srcD destD destDiff

end Rj
