import RjModel.Model.Boss
/-! The trailing-slash table (`docs/notes.md`) as data, and what the boss model does for each cell. -/
namespace Rj

inductive SrcK | none | leaf | folder
  deriving DecidableEq, Repr
inductive Cell
  | x                     -- rejected with an error
  | b (bang : Bool)       -- the destination object itself is replaced (`!`: the root-deletion gate is consulted)
  | ba                    -- the source lands inside the destination folder (`b/a`)
  deriving DecidableEq, Repr

/-- one row of the specification table: source kind, source trailing slash, the six destination
columns (non-existent b, b/ ; file-or-symlink b, b/ ; folder b, b/) -/
structure SlashRow where
  src : SrcK
  srcSlash : Bool
  cells : List Cell
  deriving DecidableEq, Repr

/-- the scenario of one cell: source `a` / `a/`, destination `b` / `b/`; nothing exists at `b/a`;
the root behaviour is `prompt` with no answer, so that a consulted gate shows as `rootErr` -/
def cellScenario (srcD destD : Option Details) (srcSlash destSlash : Bool) : Scenario where
  srcRoot := if srcSlash then "a/" else "a"
  destRoot := if destSlash then "b/" else "b"
  dryRun := false
  beh := ⟨.proceed, .proceed, .skip, .proceed, .prompt⟩
  filters := []
  srcReply := .details srcD false '/'
  destReply := .details destD false '/'
  destReply2 := .details none false '/'
  events := [.endOf .src, .endOf .dest]
  answers := []
  files := [("", [([], false)])]
  errAtPoll := none

def lastSetRoot : List Cmd → Option String
  | [] => none
  | c :: rest => match lastSetRoot rest with
    | some r => some r
    | none => match c with
      | .setRoot r => some r
      | _ => none

/-- what the boss model does in a cell -/
def modelCell (srcD destD : Option Details) (srcSlash destSlash : Bool) : Cell :=
  let r := run ⟨"^(?:", ")$"⟩ (cellScenario srcD destD srcSlash destSlash)
  match r.outcome with
  | .err .srcMissing | .err .srcSlash | .err .destSlash => .x
  | o =>
    if lastSetRoot r.destTrace = some "b/a" then .ba
    else .b (o == .err .rootErr)

def srcDetailsOf : SrcK → List (Option Details)
  | .none => [none]
  | .leaf => [some (.file 5 0), some (.symlink .file (.normalized "t"))]
  | .folder => [some .folder]

def destColumns : List (List (Option Details) × Bool) :=
  [([none], false), ([none], true),
   ([some (.file 7 0), some (.symlink .unknown (.normalized "u"))], false),
   ([some (.file 7 0), some (.symlink .unknown (.normalized "u"))], true),
   ([some .folder], false), ([some .folder], true)]

/-- the model's cell meets the table's cell: same effective destination; where the table promises the
root-deletion gate (`!`) the model consults it (the code consults it in more cases — whenever a
symlink is replaced or replaces something — which the table's `b` does not forbid) -/
def cellMeets (want got : Cell) : Bool :=
  match want, got with
  | .x, .x => true
  | .ba, .ba => true
  | .b true, .b true => true
  | .b false, .b _ => true
  | _, _ => false

/-- every concrete instance of a table row (file and symlink variants of "File or symlink") gives
the row's cells -/
def rowHolds (row : SlashRow) : Bool :=
  (srcDetailsOf row.src).all fun sd =>
    (destColumns.zip row.cells).all fun (col, want) =>
      col.1.all fun dd => cellMeets want (modelCell sd dd row.srcSlash col.2)

end Rj
