/-! Model of `boss_frontend.rs::execute_spec`: two launches, then the syncs of the spec in order, with the exit
status and the shutdowns on every path.  The control skeleton (`RunSkel`) is **extracted from the source on every
run** (`Generated/RunSkel.lean`) and interpreted here; the theorems are proved for the reference skeleton and the
obligation `C07_run_skeleton_matches` pins it. -/
namespace Rj.Run

/-- the control skeleton of `execute_spec` as the extractor reads it -/
structure RunSkel where
  /-- exit code returned when the source / destination doer cannot be set up -/
  srcFailCode : Nat
  destFailCode : Nat
  /-- the destination's failure path shuts the already launched source comms down -/
  destFailShutsSrc : Bool
  /-- the `Err` arm of the per-sync `match` returns at once with this code (`none`: it does not return there) -/
  syncErrReturn : Option Nat
  /-- ... after shutting both comms down -/
  errArmShutsBoth : Bool
  /-- after the loop both comms are shut down and the function's value is `ExitCode::SUCCESS` -/
  finalShutsBoth : Bool
  finalIsSuccess : Bool
  deriving DecidableEq, Repr

def RunSkel.ref : RunSkel := ⟨10, 11, true, some 12, true, true, true⟩

structure RunResult where
  code : Nat
  /-- how many syncs were started -/
  syncsRun : Nat
  srcShutdowns : Nat
  destShutdowns : Nat
  srcLaunched : Bool
  destLaunched : Bool
  deriving DecidableEq, Repr

/-- the loop over the syncs: `outcomes` says whether each sync, if started, ends `Ok`.  A skeleton whose error arm does
not return goes on (and the status is then whatever the last statement makes it: 0 if it is `SUCCESS`, else the
code of the last sync) -/
def loop (k : RunSkel) : List Bool → Nat → Nat → Nat × Nat × Bool
  | [], n, last => (last, n, false)
  | ok :: rest, n, last =>
    if ok then loop k rest (n + 1) 0
    else match k.syncErrReturn with
      | some c => (c, n + 1, true)
      | none => loop k rest (n + 1) 12

def executeSpec (k : RunSkel) (srcOk destOk : Bool) (outcomes : List Bool) : RunResult :=
  if !srcOk then ⟨k.srcFailCode, 0, 0, 0, false, false⟩
  else if !destOk then ⟨k.destFailCode, 0, if k.destFailShutsSrc then 1 else 0, 0, true, false⟩
  else
    let (c, n, early) := loop k outcomes 0 0
    if early then ⟨c, n, if k.errArmShutsBoth then 1 else 0, if k.errArmShutsBoth then 1 else 0, true, true⟩
    else ⟨if k.finalIsSuccess then 0 else c, n, if k.finalShutsBoth then 1 else 0, if k.finalShutsBoth then 1 else 0, true, true⟩

end Rj.Run
