/-! Model of `ordered_map.rs`: a `Vec` of keys in insertion order (never shrunk; stale and duplicate
keys stay) plus a key→value map.  The map is an association list with recursive `lookup`/`erase`
so that the proofs are by plain structural induction. -/
namespace Rj

def lookup {V : Type} : List (String × V) → String → Option V
  | [], _ => none
  | (k', v) :: t, k => if k' = k then some v else lookup t k

def erase {V : Type} : List (String × V) → String → List (String × V)
  | [], _ => []
  | (k', v) :: t, k => if k' = k then erase t k else (k', v) :: erase t k

theorem lookup_erase_self {V} (l : List (String × V)) (k : String) : lookup (erase l k) k = none := by
  induction l with
  | nil => rfl
  | cons x xs ih => obtain ⟨k', v⟩ := x; simp only [erase]; split <;> simp_all [lookup]

theorem lookup_erase_ne {V} (l : List (String × V)) (k k' : String) (h : k' ≠ k) :
    lookup (erase l k) k' = lookup l k' := by
  induction l with
  | nil => rfl
  | cons x xs ih =>
    obtain ⟨k2, v⟩ := x; simp only [erase]
    split
    · next e => subst e; simp [lookup, ih, Ne.symm h]
    · simp [lookup, ih]

structure OMap (V : Type) where
  vec : List String
  map : List (String × V)

namespace OMap
variable {V : Type}

def empty : OMap V := ⟨[], []⟩
def get (m : OMap V) (k : String) : Option V := lookup m.map k
/-- `add`: push the key (even if it is already there) and insert/overwrite the value. -/
def add (m : OMap V) (k : String) (v : V) : OMap V := ⟨m.vec ++ [k], (k, v) :: erase m.map k⟩
/-- `remove`: only the map entry goes; the key stays in the vector. -/
def remove (m : OMap V) (k : String) : OMap V := ⟨m.vec, erase m.map k⟩
/-- `update` is `*map.get_mut(k).unwrap() = v`: it panics when the key is absent (`none`). -/
def update (m : OMap V) (k : String) (v : V) : Option (OMap V) :=
  if (m.get k).isSome then some ⟨m.vec, (k, v) :: erase m.map k⟩ else none
def reverseOrder (m : OMap V) : OMap V := ⟨m.vec.reverse, m.map⟩
/-- iteration: the vector, filtered by what is still in the map, values fetched from the map -/
def iter (m : OMap V) : List (String × V) := m.vec.filterMap (fun k => (m.get k).map (fun v => (k, v)))
def keys (m : OMap V) : List String := m.iter.map (·.1)

@[simp] theorem get_empty (k : String) : (empty : OMap V).get k = none := rfl

@[simp] theorem get_add (m : OMap V) (k k' : String) (v : V) :
    (m.add k v).get k' = if k' = k then some v else m.get k' := by
  unfold add get; simp only [lookup]
  split
  · next e => simp [e]
  · next e => simp [Ne.symm e, lookup_erase_ne _ _ _ (Ne.symm e)]

@[simp] theorem get_remove (m : OMap V) (k k' : String) :
    (m.remove k).get k' = if k' = k then none else m.get k' := by
  unfold remove get
  split
  · next e => subst e; exact lookup_erase_self _ _
  · next e => exact lookup_erase_ne _ _ _ e

theorem get_update (m m' : OMap V) (k k' : String) (v : V) (h : m.update k v = some m') :
    m'.get k' = if k' = k then some v else m.get k' := by
  unfold update at h; split at h
  · cases h; unfold get; simp only [lookup]
    split
    · next e => simp [e]
    · next e => simp [Ne.symm e, lookup_erase_ne _ _ _ (Ne.symm e)]
  · cases h

@[simp] theorem get_reverseOrder (m : OMap V) (k : String) : m.reverseOrder.get k = m.get k := rfl

@[simp] theorem vec_add (m : OMap V) (k : String) (v : V) : (m.add k v).vec = m.vec ++ [k] := rfl
@[simp] theorem vec_remove (m : OMap V) (k : String) : (m.remove k).vec = m.vec := rfl
theorem vec_update (m m' : OMap V) (k : String) (v : V) (h : m.update k v = some m') : m'.vec = m.vec := by
  unfold update at h; split at h <;> cases h; rfl

end OMap
end Rj
