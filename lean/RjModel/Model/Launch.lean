import RjModel.Model.Settings
/-! Model of the remote launch (`boss_launch.rs:181-267, 573-666`, `boss_deploy.rs:84-106`):
the handshake loop as a machine over the messages of the two reader threads, and the
launch / deploy / relaunch decision. -/
namespace Rj

inductive Strm | out | err
  deriving DecidableEq, Repr

/-- what a reader thread sends to the main thread -/
inductive HMsg
  | line (harmless : Bool)          -- other output; `harmless = false`: contains a "not present" phrase
  | started (version : String)
  | completed (port : Option Nat)   -- `none`: the port number does not parse
  | closed
  | error
  deriving DecidableEq, Repr

structure HState where
  keySent : Bool
  outDone : Bool
  errDone : Bool
  deriving DecidableEq, Repr

def HState.init : HState := ⟨false, false, false⟩

inductive LResult
  | notPresent
  | incompatible (actual : String)
  | commError
  | exited
  | success (port : Nat)
  deriving DecidableEq, Repr

/-- one iteration of the loop: `.inl (s', wroteKey)` continue, `.inr r` return -/
def hstep (localV : String) (s : HState) : Strm × HMsg → (HState × Bool) ⊕ LResult
  | (_, .line harmless) => if harmless then .inl (s, false) else .inr .notPresent
  | (st, .started v) =>
    if v ≠ localV then .inr (.incompatible v)
    else if st = .out then .inl ({ s with keySent := true }, true)
    else .inl (s, false)
  | (st, .completed port) =>
    let s' := if st = .out then { s with outDone := true } else { s with errDone := true }
    match port with
    | none => .inr .commError
    | some p => if s'.outDone && s'.errDone && s'.keySent then .inr (.success p) else .inl (s', false)
  | (_, .closed) => .inl (s, false)
  | (_, .error) => .inr .commError

/-- the loop over a message sequence; running out of messages = both reader threads are gone.
Returns the result and, per consumed message, whether the key was written at that step. -/
def hrun (localV : String) : HState → List (Strm × HMsg) → LResult × List Bool
  | _, [] => (.exited, [])
  | s, m :: rest =>
    match hstep localV s m with
    | .inr r => (r, [false])
    | .inl (s', w) => let (r, ws) := hrun localV s' rest; (r, w :: ws)

/-! ### launch / deploy / relaunch -/

inductive LaunchRes | failedSsh | commErr | exited | notPresent | incompatible | success
  deriving DecidableEq, Repr

structure SetupTrace where
  launches : Nat
  uploads : Bool
  prompted : Bool
  ok : Bool
  deriving DecidableEq, Repr

/-- consent inside `deploy_to_remote`: `some true` upload, `some false`/error -/
def deployConsent (b : DeployBeh) (answerDeploy : Bool) : Bool × Bool :=   -- (consent, prompted)
  match b with
  | .prompt => (answerDeploy, true)
  | .force => (true, false)
  | .ok => (true, false)
  | .error => (false, false)

def setupComms (b : DeployBeh) (first second : LaunchRes) (answerDeploy scpOk : Bool) : SetupTrace :=
  let needDeploy : Option Nat :=          -- number of launches so far if a deploy is attempted
    if b = .force then some 0
    else match first with
      | .notPresent | .incompatible => some 1
      | _ => none
  match needDeploy with
  | none => ⟨1, false, false, first = .success⟩
  | some n =>
    let (consent, prompted) := deployConsent b answerDeploy
    if !consent then ⟨n, false, prompted, false⟩
    else if !scpOk then ⟨n, true, prompted, false⟩
    else ⟨n + 1, true, prompted, second = .success⟩

end Rj
