import RjModel.Model.FS
/-! The destination half of a sync at the level of the file-system model: the plan computed from what
the source holds and what the destination lists (`planDel`, `planCpy` — the closed form of the boss's
planner, C13, on component paths), executed as the destination doer executes it: deletions in reverse
listing order (`remove_file` / `remove_dir`), then creations in source listing order (`create_dir`,
`symlink`, and for a file `File::create` + `write_all` + `set_file_mtime`). -/
namespace Rj

/-- what the source holds at a relative path, as the boss hands it to the destination doer -/
inductive SEntry
  | file (bytes : List UInt8) (mtime : Int)
  | folder
  | link (target : Target)
  deriving DecidableEq, Repr

/-- `needs_delete = false` (unix destination: link kinds are not compared) -/
def compatible : SEntry → Node → Bool
  | .file .., .file .. => true
  | .folder, .folder => true
  | .link t, .symlink text => t = readLinkB text
  | _, _ => false

/-- compatible and deemed up to date: no copy -/
def upToDate : SEntry → Node → Bool
  | .file _ m, .file _ (.at m') => m = m'
  | .folder, .folder => true
  | .link t, .symlink text => t = readLinkB text
  | _, _ => false

def needDel (src : FPath → Option SEntry) (x : FPath × Node) : Bool :=
  match src x.1 with
  | none => true
  | some e => !compatible e x.2

def needCpy (dst : FPath → Option Node) (x : FPath × SEntry) : Bool :=
  match dst x.1 with
  | none => true
  | some n => !upToDate x.2 n

/-- deletions: what the destination lists and the source lacks or holds as something incompatible, in reverse listing order -/
def planDel (src : FPath → Option SEntry) (ld : List (FPath × Node)) : List (FPath × Node) :=
  (ld.filter (needDel src)).reverse

/-- creations: what the source lists and the destination lacks, holds as something incompatible, or holds as an older/newer file -/
def planCpy (dst : FPath → Option Node) (ls : List (FPath × SEntry)) : List (FPath × SEntry) :=
  ls.filter (needCpy dst)

def OpR.bind {α β : Type} : OpR α → (α → OpR β) → OpR β
  | .ok a, f => f a
  | .err, _ => .err
  | .escape, _ => .escape

/-- `CreateOrUpdateFile` with the whole content: create/truncate, write, set the source's time -/
def putFile (fs : FS) (p : FPath) (b : List UInt8) (m : Int) : OpR FS :=
  (fs.createTrunc p).bind fun fs1 => (fs1.append p b).bind fun fs2 => fs2.setMtime p m

def delOp (fs : FS) (r : FPath) (x : FPath × Node) : OpR FS :=
  match x.2 with
  | .folder => fs.rmdir (r ++ x.1)
  | _ => fs.unlink (r ++ x.1)

def cpyOp (fs : FS) (r : FPath) (x : FPath × SEntry) : OpR FS :=
  match x.2 with
  | .folder => fs.mkdir (r ++ x.1)
  | .link t => fs.mksymlink (r ++ x.1) (writeLinkB '/' t)
  | .file b m => putFile fs (r ++ x.1) b m

def runOps {α : Type} (op : FS → α → OpR FS) : FS → List α → OpR FS
  | fs, [] => .ok fs
  | fs, x :: xs => (op fs x).bind fun fs' => runOps op fs' xs

/-- the destination doer's part of a sync below its root `r` -/
def syncDest (fs : FS) (r : FPath) (src : FPath → Option SEntry) (ls : List (FPath × SEntry)) (ld : List (FPath × Node)) : OpR FS :=
  (runOps (fun f x => delOp f r x) fs (planDel src ld)).bind fun fs1 =>
    runOps (fun f x => cpyOp f r x) fs1 (planCpy (fun p => fs.get (r ++ p)) ls)

/-- the listing on nodes: every child of `dir`, each real folder followed by its own listing (a symlink is a leaf) -/
def listNodes (fs : FS) : Nat → FPath → List (FPath × Node)
  | 0, _ => []
  | f + 1, dir => (fs.childrenOf dir).flatMap fun e =>
      e :: (if e.2 = .folder then listNodes fs f e.1 else [])

/-- how the source doer's entry reaches the destination doer -/
def sentryOf : Node → Option SEntry
  | .file b (.at m) => some (.file b m)
  | .folder => some .folder
  | .symlink text => some (.link (readLinkB text))
  | _ => none

/-- the source as the boss sees it: what lies at a relative path below the source root -/
def srcOfFS (S : FS) (rs : FPath) (p : FPath) : Option SEntry := (S.get (rs ++ p)).bind sentryOf

/-- the source listing: the model's own listing of the source root, paths made relative -/
def lsOfFS (S : FS) (rs : FPath) (f : Nat) : List (FPath × SEntry) :=
  (listNodes S f rs).filterMap fun e => (sentryOf e.2).map fun s => (e.1.drop rs.length, s)

/-! ### listings under filters -/

/-- the listing under filters: `keep` judges the path *relative to the root `r`*; an entry that is not kept is neither
reported nor — if it is a folder — entered (`filter_func` of `doer.rs` inside `parallel_walk_dir`) -/
def listNodesF (keep : FPath → Bool) (r : FPath) (fs : FS) : Nat → FPath → List (FPath × Node)
  | 0, _ => []
  | f + 1, dir => (fs.childrenOf dir).flatMap fun e =>
      if keep (e.1.drop r.length) then e :: (if e.2 = .folder then listNodesF keep r fs f e.1 else []) else []

/-- what the walk can reach: a relative path all of whose non-empty prefixes are kept -/
def visOf (keep : FPath → Bool) (p : FPath) : Bool :=
  (List.range p.length).all fun k => keep (p.take (k + 1))

def lsOfFSF (keep : FPath → Bool) (S : FS) (rs : FPath) (f : Nat) : List (FPath × SEntry) :=
  (listNodesF keep rs S f rs).filterMap fun e => (sentryOf e.2).map fun s => (e.1.drop rs.length, s)

/-- what a creation leaves at its path -/
def written : SEntry → Node
  | .file b m => .file b (.at m)
  | .folder => .folder
  | .link t => .symlink (writeLinkB '/' t)

end Rj
