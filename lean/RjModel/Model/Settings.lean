import RjModel.Model.Confirm
/-! Model of how the effective settings are computed (`boss_frontend.rs`): defaults, spec-file
interpretation over an abstract YAML value, `resolve_spec`, `RemotePathDesc::from_str`. -/
namespace Rj

inductive DeployBeh | prompt | error | ok | force
  deriving DecidableEq, Repr, Inhabited

/-- How `resolve_spec` treats one behaviour field — *extracted from the source text* on every run
(`Generated.fieldRules`): default, the guard and the four arms of the all-destructive block, which
command-line flag overrides it, and in which order the two are applied. -/
structure FieldRule where
  name : String
  flag : String
  default : Beh
  guardNe : Option Beh
  mapPrompt : Beh
  mapError : Beh
  mapSkip : Beh
  mapProceed : Beh
  allBeforeFlag : Bool
  deriving DecidableEq, Repr

def FieldRule.map (r : FieldRule) : Beh → Beh
  | .prompt => r.mapPrompt | .error => r.mapError | .skip => r.mapSkip | .proceed => r.mapProceed

def FieldRule.applyAll (r : FieldRule) (all : Option Beh) (cur : Beh) : Beh :=
  match all, r.guardNe with
  | some a, some g => if cur ≠ g then r.map a else cur
  | _, _ => cur

def FieldRule.applyFlag (r : FieldRule) (flag : Option Beh) (cur : Beh) : Beh :=
  if r.flag = "" then cur else flag.getD cur

/-- The value in force, as the code computes it. -/
def FieldRule.resolve (r : FieldRule) (spec all flag : Option Beh) : Beh :=
  let base := spec.getD r.default
  if r.allBeforeFlag then r.applyFlag flag (r.applyAll all base)
  else r.applyAll all (r.applyFlag flag base)

/-- The documented rule: the individual flag if given; otherwise the all-destructive value unless
the spec/default value is skip; otherwise the spec-file value; otherwise the default. -/
def docResolve (default : Beh) (spec all flag : Option Beh) : Beh :=
  match flag with
  | some f => f
  | none =>
    let base := spec.getD default
    match all with
    | some a => if base = .skip then base else a
    | none => base

/-- The documented defaults. -/
def docDefault : String → Option Beh
  | "dest_file_newer_behaviour" => some .prompt
  | "dest_file_older_behaviour" => some .proceed
  | "files_same_time_behaviour" => some .skip
  | "dest_entry_needs_deleting_behaviour" => some .proceed
  | "dest_root_needs_deleting_behaviour" => some .prompt
  | _ => none

/-! ### abstract YAML value (what `yaml-rust` hands to `parse_spec_file`) -/

inductive YScalar | str (s : String) | other (tag : String)
  deriving DecidableEq, Repr

/-- value inside a sync entry: scalar, array of scalars, other -/
inductive YVal2
  | scalar (s : YScalar)
  | arr (items : List YScalar)
  | otherV (tag : String)
  deriving Repr
/-- an element of the `syncs` array: a hash with shallow values, or something else -/
inductive YItem
  | hash (kvs : List (YScalar × YVal2))
  | otherI (tag : String)
  deriving Repr
/-- a value of the document root -/
inductive YVal
  | scalar (s : YScalar)
  | arr (items : List YItem)
  | otherV (tag : String)
  deriving Repr
/-- what `YamlLoader::load_from_str` returned, as far as `parse_spec_file` looks at it -/
inductive YDoc
  | parseError
  | noDocument
  | notHash
  | hash (kvs : List (YScalar × YVal))
  deriving Repr

structure SyncSpecM where
  src : String
  dest : String
  filters : List String
  newer : Beh
  older : Beh
  same : Beh
  entry : Beh
  root : Beh
  deriving DecidableEq, Repr

structure SpecM where
  srcHost : String
  srcUser : String
  destHost : String
  destUser : String
  deploy : DeployBeh
  syncs : List SyncSpecM
  deriving DecidableEq, Repr

def asciiLower (s : String) : String :=
  String.ofList (s.toList.map fun c => if 'A' ≤ c ∧ c ≤ 'Z' then Char.ofNat (c.toNat + 32) else c)

/-- `ValueEnum::from_str(s, ignore_case = true)` for the behaviour enums; `proceedName` is
"overwrite" or "delete". -/
def parseBehName (proceedName : String) (s : String) : Option Beh :=
  let l := asciiLower s
  if l = "prompt" then some .prompt else if l = "error" then some .error
  else if l = "skip" then some .skip else if l = proceedName then some .proceed else none

def parseDeployName (s : String) : Option DeployBeh :=
  let l := asciiLower s
  if l = "prompt" then some .prompt else if l = "error" then some .error
  else if l = "ok" then some .ok else if l = "force" then some .force else none

def defaultOf (rules : List FieldRule) (name : String) : Beh :=
  match rules.find? (·.name = name) with
  | some r => r.default
  | none => .error

def defaultSync (rules : List FieldRule) : SyncSpecM :=
  { src := "", dest := "", filters := [],
    newer := defaultOf rules "dest_file_newer_behaviour", older := defaultOf rules "dest_file_older_behaviour",
    same := defaultOf rules "files_same_time_behaviour", entry := defaultOf rules "dest_entry_needs_deleting_behaviour",
    root := defaultOf rules "dest_root_needs_deleting_behaviour" }

def strOf : YVal2 → Option String
  | .scalar (.str s) => some s
  | _ => none

def filterStrings : List YScalar → Option (List String)
  | [] => some []
  | .str s :: r => (filterStrings r).map (s :: ·)
  | _ :: _ => none

/-- `parse_sync_spec`, key by key; `none` = rejected. -/
def parseSyncKvs : List (YScalar × YVal2) → SyncSpecM → Option SyncSpecM
  | [], acc => some acc
  | (k, v) :: rest, acc =>
    match k with
    | .str "src" => (strOf v).bind fun s => parseSyncKvs rest { acc with src := s }
    | .str "dest" => (strOf v).bind fun s => parseSyncKvs rest { acc with dest := s }
    | .str "filters" =>
      match v with
      | .arr items => (filterStrings items).bind fun fs => parseSyncKvs rest { acc with filters := acc.filters ++ fs }
      | _ => none
    | .str "dest_file_newer_behaviour" =>
      ((strOf v).bind (parseBehName "overwrite")).bind fun b => parseSyncKvs rest { acc with newer := b }
    | .str "dest_file_older_behaviour" =>
      ((strOf v).bind (parseBehName "overwrite")).bind fun b => parseSyncKvs rest { acc with older := b }
    | .str "files_same_time_behaviour" =>
      ((strOf v).bind (parseBehName "overwrite")).bind fun b => parseSyncKvs rest { acc with same := b }
    | .str "dest_entry_needs_deleting_behaviour" =>
      ((strOf v).bind (parseBehName "delete")).bind fun b => parseSyncKvs rest { acc with entry := b }
    | .str "dest_root_needs_deleting_behaviour" =>
      ((strOf v).bind (parseBehName "delete")).bind fun b => parseSyncKvs rest { acc with root := b }
    | _ => none

def parseSync (rules : List FieldRule) : YItem → Option SyncSpecM
  | .hash kvs =>
    (parseSyncKvs kvs (defaultSync rules)).bind fun s =>
      if s.src = "" then none else if s.dest = "" then none else some s
  | .otherI _ => none

def parseSyncs (rules : List FieldRule) : List YItem → Option (List SyncSpecM)
  | [] => some []
  | i :: r => (parseSync rules i).bind fun s => (parseSyncs rules r).map (s :: ·)

def strOfV : YVal → Option String
  | .scalar (.str s) => some s
  | _ => none

def parseDocKvs (rules : List FieldRule) : List (YScalar × YVal) → SpecM → Option SpecM
  | [], acc => some acc
  | (k, v) :: rest, acc =>
    match k with
    | .str "src_hostname" => (strOfV v).bind fun s => parseDocKvs rules rest { acc with srcHost := s }
    | .str "src_username" => (strOfV v).bind fun s => parseDocKvs rules rest { acc with srcUser := s }
    | .str "dest_hostname" => (strOfV v).bind fun s => parseDocKvs rules rest { acc with destHost := s }
    | .str "dest_username" => (strOfV v).bind fun s => parseDocKvs rules rest { acc with destUser := s }
    | .str "deploy_behaviour" => ((strOfV v).bind parseDeployName).bind fun b => parseDocKvs rules rest { acc with deploy := b }
    | .str "syncs" =>
      match v with
      | .arr items => (parseSyncs rules items).bind fun ss => parseDocKvs rules rest { acc with syncs := acc.syncs ++ ss }
      | _ => none
    | _ => none

def emptySpec (deployDefault : DeployBeh) : SpecM := ⟨"", "", "", "", deployDefault, []⟩

/-- `parse_spec_file` on the loaded YAML. -/
def parseSpecDoc (rules : List FieldRule) (deployDefault : DeployBeh) : YDoc → Option SpecM
  | .hash kvs => parseDocKvs rules kvs (emptySpec deployDefault)
  | _ => none

/-! ### `RemotePathDesc::from_str` -/

structure PathDesc where
  user : String
  host : String
  path : String
  deriving DecidableEq, Repr

def splitOnce (s : String) (c : Char) : Option (String × String) :=
  let l := s.toList
  let a := l.takeWhile (· ≠ c)
  if a.length = l.length then none else some (String.ofList a, String.ofList (l.drop (a.length + 1)))

def parsePathDesc (s : String) : Option PathDesc :=
  let r : Option PathDesc :=
    match splitOnce s ':' with
    | none => some ⟨"", "", s⟩
    | some (a, b) =>
      if a.utf8ByteSize = 1 && (b = "" || b.toList.head? = some '\\') then some ⟨"", "", s⟩
      else
        match splitOnce a '@' with
        | none => if a = "" then none else some ⟨"", a, b⟩
        | some (u, h) => if u = "" then none else if h = "" then none else some ⟨u, h, b⟩
  r.bind fun d => if d.path = "" then none else some d

/-! ### `resolve_spec` -/

structure Cli where
  src : Option String
  dest : Option String
  specGiven : Bool
  filters : List String
  deploy : Option DeployBeh
  newer : Option Beh
  older : Option Beh
  same : Option Beh
  entry : Option Beh
  root : Option Beh
  all : Option Beh
  deriving Repr

structure ResolveCfg where
  rules : List FieldRule
  deployDefault : DeployBeh
  filtersReplace : Bool
  deployFlagOverrides : Bool

def applyRule (rules : List FieldRule) (name : String) (all flag : Option Beh) (cur : Beh) : Beh :=
  match rules.find? (·.name = name) with
  | some r => if r.allBeforeFlag then r.applyFlag flag (r.applyAll all cur) else r.applyAll all (r.applyFlag flag cur)
  | none => cur

def overrideSync (k : ResolveCfg) (c : Cli) (s : SyncSpecM) : SyncSpecM :=
  { s with
    filters := if k.filtersReplace && !c.filters.isEmpty then c.filters else s.filters,
    newer := applyRule k.rules "dest_file_newer_behaviour" c.all c.newer s.newer,
    older := applyRule k.rules "dest_file_older_behaviour" c.all c.older s.older,
    same := applyRule k.rules "files_same_time_behaviour" c.all c.same s.same,
    entry := applyRule k.rules "dest_entry_needs_deleting_behaviour" c.all c.entry s.entry,
    root := applyRule k.rules "dest_root_needs_deleting_behaviour" c.all c.root s.root }

inductive ResolveErr | clap | specFile
  deriving DecidableEq, Repr

def resolveSpec (k : ResolveCfg) (c : Cli) (doc : YDoc) : Except ResolveErr SpecM :=
  let base : Except ResolveErr SpecM :=
    if c.specGiven then
      if c.src.isSome || c.dest.isSome then .error .clap
      else match parseSpecDoc k.rules k.deployDefault doc with
        | some s => .ok s
        | none => .error .specFile
    else
      match c.src, c.dest with
      | some s, some d =>
        match parsePathDesc s, parsePathDesc d with
        | some ps, some pd =>
          .ok { srcHost := ps.host, srcUser := ps.user, destHost := pd.host, destUser := pd.user,
                deploy := k.deployDefault,
                syncs := [{ defaultSync k.rules with src := ps.path, dest := pd.path }] }
        | _, _ => .error .clap
      | _, _ => .error .clap
  match base with
  | .error e => .error e
  | .ok s =>
    .ok { s with
      deploy := if k.deployFlagOverrides then c.deploy.getD s.deploy else s.deploy,
      syncs := s.syncs.map (overrideSync k c) }

end Rj
