import RjModel.Model.Hex
/-! Basic data of the boss/doer protocol (`boss_doer_interface.rs`): entry details, commands,
responses.  Root-relative paths are normalised strings ("" is the root, '/' separated).
Times are integer nanoseconds relative to the Unix epoch (a total order, like `SystemTime`). -/
namespace Rj

inductive SymKind | file | folder | unknown
  deriving DecidableEq, Repr, Inhabited

inductive Target
  | normalized (s : String)
  | notNormalized (b : List UInt8)   -- raw bytes of the link text, carried verbatim (they need not be UTF-8)
  deriving DecidableEq, Repr, Inhabited

inductive Details
  | file (mtime : Int) (size : Nat)
  | folder
  | symlink (kind : SymKind) (target : Target)
  deriving DecidableEq, Repr, Inhabited

def Details.isFolder : Details → Bool
  | .folder => true
  | _ => false

def Details.isFileOrSymlink : Details → Bool
  | .folder => false
  | _ => true

inductive Phase | deleting | copying | done
  deriving DecidableEq, Repr, Inhabited

/-- `FilterKind` + the (already wrapped) pattern text, as shipped in `GetEntries`. -/
structure FilterSpec where
  incl : Bool
  pattern : String
  deriving DecidableEq, Repr

inductive Cmd
  | setRoot (root : String)
  | getEntries (filters : List FilterSpec)
  | createRootAncestors
  | getFileContent (path : String)
  | createOrUpdateFile (path : String) (data : List UInt8) (mtime : Option Int) (more : Bool)
  | createSymlink (path : String) (kind : SymKind) (target : Target)
  | createFolder (path : String)
  | deleteFile (path : String)
  | deleteFolder (path : String)
  | deleteSymlink (path : String) (kind : SymKind)
  | marker (phase : Phase)
  | shutdown
  deriving DecidableEq, Repr

/-- Commands that change the file system of the doer that receives them. -/
def Cmd.mutating : Cmd → Bool
  | .createRootAncestors | .createOrUpdateFile .. | .createSymlink .. | .createFolder _
  | .deleteFile _ | .deleteFolder _ | .deleteSymlink .. => true
  | _ => false

/-- Commands that only read (the source whitelist of C02). -/
def Cmd.readOnly : Cmd → Bool
  | .setRoot _ | .getEntries _ | .getFileContent _ | .shutdown => true
  | _ => false

def Cmd.path? : Cmd → Option String
  | .getFileContent p | .createOrUpdateFile p .. | .createSymlink p .. | .createFolder p
  | .deleteFile p | .deleteFolder p | .deleteSymlink p _ => some p
  | _ => none

/-! canonical text (must equal the harness's rendering byte for byte) -/

def SymKind.render : SymKind → String
  | .file => "F" | .folder => "D" | .unknown => "U"

def Target.render : Target → String
  | .normalized s => "N" ++ hexOfString s
  | .notNormalized b => "X" ++ hexOfBytes b

def Details.render : Details → String
  | .file m s => s!"F:{m}:{s}"
  | .folder => "D"
  | .symlink k t => s!"L:{k.render}:{t.render}"

def Phase.render : Phase → String
  | .deleting => "Deleting" | .copying => "Copying" | .done => "Done"

def renderTime : Option Int → String
  | none => "-"
  | some t => toString t

def Cmd.render : Cmd → String
  | .setRoot r => s!"SetRoot({hexOfString r})"
  | .getEntries fs =>
      "GetEntries(" ++ joinWith "," (fs.map fun f => (if f.incl then "+" else "-") ++ hexOfString f.pattern) ++ ")"
  | .createRootAncestors => "CreateRootAncestors"
  | .getFileContent p => s!"GetFileContent({hexOfString p})"
  | .createOrUpdateFile p d m more =>
      s!"CreateOrUpdateFile({hexOfString p},{hexOfBytes d},{renderTime m},{if more then 1 else 0})"
  | .createSymlink p k t => s!"CreateSymlink({hexOfString p},{k.render},{t.render})"
  | .createFolder p => s!"CreateFolder({hexOfString p})"
  | .deleteFile p => s!"DeleteFile({hexOfString p})"
  | .deleteFolder p => s!"DeleteFolder({hexOfString p})"
  | .deleteSymlink p k => s!"DeleteSymlink({hexOfString p},{k.render})"
  | .marker ph => s!"Marker({ph.render})"
  | .shutdown => "Shutdown"

/-! parsing of details from protocol tokens -/

def SymKind.parse : String → Option SymKind
  | "F" => some .file | "D" => some .folder | "U" => some .unknown | _ => none

def Target.parse (s : String) : Option Target :=
  match s.toList with
  | 'N' :: r => (stringOfHex (String.ofList r)).map .normalized
  | 'X' :: r => (bytesOfHex (String.ofList r)).map .notNormalized
  | _ => none

def Details.parse (s : String) : Option Details :=
  match s.splitOn ":" with
  | ["D"] => some .folder
  | ["F", m, sz] => do
      let m ← m.toInt?
      let sz ← sz.toNat?
      pure (.file m sz)
  | ["L", k, t] => do
      let k ← SymKind.parse k
      let t ← Target.parse t
      pure (.symlink k t)
  | _ => none

end Rj
