import RjModel.Model.Exe
/-! The layouts `add_section_to_elf` is written for, as an explicit decidable predicate (`ValidElf`) on byte
lists: the hypothesis of `C19_elf_roundtrip` / `C19_elf_preserved`.  Evaluated by the driver (`validelf`) on
generated images and on executables linked on this machine. -/
namespace Rj.Exe

/-- the window `[off, off+size)` of a byte vector -/
def slice (b : Bytes) (off size : Nat) : Bytes := (b.drop off).take size

/-! ### ELF: the parsed view of an image -/

def eShoff (b : Bytes) : Nat := leVal (slice b 0x28 8)
def eEntsize (b : Bytes) : Nat := leVal (slice b 0x3A 2)
def eNum (b : Bytes) : Nat := leVal (slice b 0x3C 2)
def eStrndx (b : Bytes) : Nat := leVal (slice b 0x3E 2)
/-- field `off` (of `size` bytes) of section header `i` -/
def secField (b : Bytes) (i off size : Nat) : Nat := leVal (slice b (eShoff b + i * eEntsize b + off) size)
def eNamesOff (b : Bytes) : Nat := secField b (eStrndx b) 0x18 8
def eNamesSize (b : Bytes) : Nat := secField b (eStrndx b) 0x20 8

/-- the name that starts at `so` is read without error, ends (with its terminator) before `lim`, and is not `name` -/
def NameOk (b name : Bytes) (so lim : Nat) : Prop :=
  match readStringLoop b so 32 33 0 with
  | .ok r => slice b so r ≠ name ∧ so + r + 1 ≤ lim
  | _ => False

instance (b name : Bytes) (so lim : Nat) : Decidable (NameOk b name so lim) := by
  unfold NameOk; split <;> infer_instance

/-- **The ELF64 layouts `add_section_to_elf` is meant for** — an explicit, decidable predicate: a little-endian
ELF64 V1 header; the section header table is the last thing in the file; section headers of at least
40 bytes; the section-names section lies behind the ELF header and before the table; every section's name is a
terminated string inside the names section and differs from the new name; the offsets to be shifted
do not overflow; the new name holds no NUL and is shorter than the 32 bytes `read_string` looks at. -/
structure ValidElf (b name : Bytes) : Prop where
  hval : validateElf b = .ok ()
  hsh : 64 ≤ eShoff b
  hes : 0x28 ≤ eEntsize b
  hlen : b.length = eShoff b + eNum b * eEntsize b
  hstr : eStrndx b < eNum b
  hnum : eNum b + 1 < U16
  hno : 64 ≤ eNamesOff b
  hns : eNamesOff b + eNamesSize b ≤ eShoff b
  hns32 : eNamesSize b < U32
  hnames : ∀ i, i < eNum b → NameOk b name (eNamesOff b + secField b i 0 4) (eNamesOff b + eNamesSize b)
  hshift : ∀ i, i < eNum b → eStrndx b < i → secField b i 0x18 8 + (name.length + 1) < U64
  hname0 : ∀ c, c ∈ name → c ≠ 0
  hnamelen : name.length < 32

instance (b name : Bytes) : Decidable (ValidElf b name) :=
  decidable_of_iff
    (validateElf b = .ok () ∧ 64 ≤ eShoff b ∧ 0x28 ≤ eEntsize b ∧ b.length = eShoff b + eNum b * eEntsize b ∧
     eStrndx b < eNum b ∧ eNum b + 1 < U16 ∧ 64 ≤ eNamesOff b ∧ eNamesOff b + eNamesSize b ≤ eShoff b ∧
     eNamesSize b < U32 ∧
     (∀ i, i < eNum b → NameOk b name (eNamesOff b + secField b i 0 4) (eNamesOff b + eNamesSize b)) ∧
     (∀ i, i < eNum b → eStrndx b < i → secField b i 0x18 8 + (name.length + 1) < U64) ∧
     (∀ c, c ∈ name → c ≠ 0) ∧ name.length < 32)
    ⟨fun ⟨a, b, c, d, e, f, g, h, i, j, k, l, m⟩ => ⟨a, b, c, d, e, f, g, h, i, j, k, l, m⟩,
     fun ⟨a, b, c, d, e, f, g, h, i, j, k, l, m⟩ => ⟨a, b, c, d, e, f, g, h, i, j, k, l, m⟩⟩

end Rj.Exe
