import RjModel.Model.Exe
/-! The layouts `add_section_to_elf` is written for, as an explicit decidable predicate (`ValidElf`) on byte
lists: the hypothesis of `C19_elf_roundtrip` / `C19_elf_preserved`.  Evaluated by the driver (`validelf`) on
generated images and on executables linked on this machine. -/
namespace Rj.Exe

/-- the window `[off, off+size)` of a byte vector -/
def slice (b : Bytes) (off size : Nat) : Bytes := (b.drop off).take size

/-! ### ELF: the parsed view of an image -/

def eShoff (b : Bytes) : Nat := leVal (slice b 0x28 8)
def eEntsize (b : Bytes) : Nat := leVal (slice b 0x3A 2)
def eNum (b : Bytes) : Nat := leVal (slice b 0x3C 2)
def eStrndx (b : Bytes) : Nat := leVal (slice b 0x3E 2)
/-- field `off` (of `size` bytes) of section header `i` -/
def secField (b : Bytes) (i off size : Nat) : Nat := leVal (slice b (eShoff b + i * eEntsize b + off) size)
def eNamesOff (b : Bytes) : Nat := secField b (eStrndx b) 0x18 8
def eNamesSize (b : Bytes) : Nat := secField b (eStrndx b) 0x20 8

/-- the name that starts at `so` is read without error, ends (with its terminator) before `lim`, and is not `name` -/
def NameOk (b name : Bytes) (so lim : Nat) : Prop :=
  match readStringLoop b so 32 33 0 with
  | .ok r => slice b so r ≠ name ∧ so + r + 1 ≤ lim
  | _ => False

instance (b name : Bytes) (so lim : Nat) : Decidable (NameOk b name so lim) := by
  unfold NameOk; split <;> infer_instance

/-- **The ELF64 layouts `add_section_to_elf` is meant for** — an explicit, decidable predicate: a little-endian
ELF64 V1 header; the section header table is the last thing in the file; section headers of at least
40 bytes; the section-names section lies behind the ELF header and before the table; every section's name is a
terminated string inside the names section and differs from the new name; the offsets to be shifted
do not overflow; the new name holds no NUL and is shorter than the 32 bytes `read_string` looks at. -/
structure ValidElf (b name : Bytes) : Prop where
  hval : validateElf b = .ok ()
  hsh : 64 ≤ eShoff b
  hes : 0x28 ≤ eEntsize b
  hlen : b.length = eShoff b + eNum b * eEntsize b
  hstr : eStrndx b < eNum b
  hnum : eNum b + 1 < U16
  hno : 64 ≤ eNamesOff b
  hns : eNamesOff b + eNamesSize b ≤ eShoff b
  hns32 : eNamesSize b < U32
  hnames : ∀ i, i < eNum b → NameOk b name (eNamesOff b + secField b i 0 4) (eNamesOff b + eNamesSize b)
  hshift : ∀ i, i < eNum b → secField b i 0x18 8 + (name.length + 1) < U64
  hname0 : ∀ c, c ∈ name → c ≠ 0
  hnamelen : name.length < 32

instance (b name : Bytes) : Decidable (ValidElf b name) :=
  decidable_of_iff
    (validateElf b = .ok () ∧ 64 ≤ eShoff b ∧ 0x28 ≤ eEntsize b ∧ b.length = eShoff b + eNum b * eEntsize b ∧
     eStrndx b < eNum b ∧ eNum b + 1 < U16 ∧ 64 ≤ eNamesOff b ∧ eNamesOff b + eNamesSize b ≤ eShoff b ∧
     eNamesSize b < U32 ∧
     (∀ i, i < eNum b → NameOk b name (eNamesOff b + secField b i 0 4) (eNamesOff b + eNamesSize b)) ∧
     (∀ i, i < eNum b → secField b i 0x18 8 + (name.length + 1) < U64) ∧
     (∀ c, c ∈ name → c ≠ 0) ∧ name.length < 32)
    ⟨fun ⟨a, b, c, d, e, f, g, h, i, j, k, l, m⟩ => ⟨a, b, c, d, e, f, g, h, i, j, k, l, m⟩,
     fun ⟨a, b, c, d, e, f, g, h, i, j, k, l, m⟩ => ⟨a, b, c, d, e, f, g, h, i, j, k, l, m⟩⟩

/-- `align(x, m)` of `exe_utils.rs` where it does not fail -/
def alignUp (x m : Nat) : Nat := ((x - 1) / m + 1) * m

/-! ### PE: the parsed view -/
def pSig (b : Bytes) : Nat := leVal (slice b 0x3c 4)
def pFh (b : Bytes) : Nat := pSig b + 4
def pNum (b : Bytes) : Nat := leVal (slice b (pFh b + 2) 2)
def pOptSize (b : Bytes) : Nat := leVal (slice b (pFh b + 16) 2)
def pOpt (b : Bytes) : Nat := pFh b + 20
def pSecAlign (b : Bytes) : Nat := leVal (slice b (pOpt b + 32) 4)
def pFileAlign (b : Bytes) : Nat := leVal (slice b (pOpt b + 36) 4)
def pHdrs (b : Bytes) : Nat := pOpt b + pOptSize b
def pEnd (b : Bytes) : Nat := pHdrs b + pNum b * 40
def pGap (b : Bytes) : Nat := alignUp (pEnd b) (pFileAlign b) - pEnd b
def pBump (b : Bytes) : Nat := if pGap b < 40 then alignUp (40 - pGap b) (pFileAlign b) else 0
def pPrevVa (b : Bytes) : Nat := leVal (slice b (pHdrs b + (pNum b - 1) * 40 + 12) 4)
def pPrevVs (b : Bytes) : Nat := leVal (slice b (pHdrs b + (pNum b - 1) * 40 + 8) 4)

/-- the 8-byte name field that starts at `h` reads as something other than `name` -/
def NameNe (b name : Bytes) (h : Nat) : Prop :=
  match readStringLoop b h 8 9 0 with
  | .ok r => slice b h r ≠ name
  | _ => False

instance (b name : Bytes) (h : Nat) : Decidable (NameNe b name h) := by
  unfold NameNe; split <;> infer_instance

/-- **The PE layouts `add_section_to_pe` is meant for**, as an explicit decidable predicate: the signature offset points behind the DOS
header at the `PE\\0\\0` signature; at least one section and room for one more; an optional header of at least 64 bytes; non-zero
alignments; the aligned end of the section table lies inside the file; sizes, addresses and the moved raw pointers stay below 2^32;
no section has the new name; the new name has no NUL and at most 8 bytes; the payload is not empty. -/
structure ValidPe (b name payload : Bytes) : Prop where
  hsig0 : 0x40 ≤ pSig b
  hsig : leVal (slice b (pSig b) 4) = 0x00004550
  hnum1 : 1 ≤ pNum b
  hnum : pNum b + 1 < U16
  hopt : 64 ≤ pOptSize b
  hfa : 1 ≤ pFileAlign b
  hsa : 1 ≤ pSecAlign b
  hend : pEnd b + pGap b ≤ b.length
  hsize : b.length + pBump b + payload.length + 3 * pFileAlign b < U32
  hva : pPrevVa b + pPrevVs b + 2 * pSecAlign b + 2 < U32
  hva1 : 1 ≤ pPrevVa b + pPrevVs b
  hptr : ∀ i, i < pNum b → leVal (slice b (pHdrs b + i * 40 + 20) 4) + pBump b < U32
  hnames : ∀ i, i < pNum b → NameNe b name (pHdrs b + i * 40)
  hname0 : ∀ c, c ∈ name → c ≠ 0
  hnamelen : name.length ≤ 8
  hpl : 1 ≤ payload.length


instance (b name payload : Bytes) : Decidable (ValidPe b name payload) :=
  decidable_of_iff
    (0x40 ≤ pSig b ∧ leVal (slice b (pSig b) 4) = 0x00004550 ∧ 1 ≤ pNum b ∧ pNum b + 1 < U16 ∧ 64 ≤ pOptSize b ∧
     1 ≤ pFileAlign b ∧ 1 ≤ pSecAlign b ∧ pEnd b + pGap b ≤ b.length ∧
     b.length + pBump b + payload.length + 3 * pFileAlign b < U32 ∧ pPrevVa b + pPrevVs b + 2 * pSecAlign b + 2 < U32 ∧
     1 ≤ pPrevVa b + pPrevVs b ∧ (∀ i, i < pNum b → leVal (slice b (pHdrs b + i * 40 + 20) 4) + pBump b < U32) ∧
     (∀ i, i < pNum b → NameNe b name (pHdrs b + i * 40)) ∧ (∀ c, c ∈ name → c ≠ 0) ∧ name.length ≤ 8 ∧ 1 ≤ payload.length)
    ⟨fun ⟨a, b, c, d, e, f, g, h, i, j, k, l, m, n, o, p⟩ => ⟨a, b, c, d, e, f, g, h, i, j, k, l, m, n, o, p⟩,
     fun ⟨a, b, c, d, e, f, g, h, i, j, k, l, m, n, o, p⟩ => ⟨a, b, c, d, e, f, g, h, i, j, k, l, m, n, o, p⟩⟩

end Rj.Exe
