import RjModel.Model.LinkText
/-! A model of the file system the doer works on (`doer.rs` calls `symlink_metadata`, `read_dir`,
`File::create`, `write_all`, `set_file_mtime`, `create_dir`, `create_dir_all`, `symlink`,
`remove_file`, `remove_dir`): a finite map from paths (component lists below a *world* root, the
scratch directory of a run) to nodes.  Every operation has its POSIX error cases.  Where the kernel
would *follow a symbolic link* met inside the tree (an ancestor of the operated path, or the final
component for the calls that follow) the model does not follow: it reports `escape`, the event the
confinement theorems (C02, C12) show never to happen in a boss-driven run.  The one call that is
meant to look through a link — `std::fs::metadata` for the link's kind — is modelled by `follow`. -/
namespace Rj

abbrev Comp := List Char
abbrev FPath := List Comp

/-- modification time: an explicit stamp, or "whatever the clock said when it was last written" -/
inductive MTime
  | at (ns : Int)
  | fresh
  deriving DecidableEq, Repr, Inhabited

inductive Node
  | file (bytes : List UInt8) (mt : MTime)
  | folder
  | symlink (text : List UInt8)
  | special                         -- fifo, socket, device
  deriving DecidableEq, Repr, Inhabited

structure FS where
  nodes : List (FPath × Node)
  deriving Repr

/-- outcome of a file-system call -/
inductive OpR (α : Type)
  | ok (a : α)
  | err                              -- the call fails with an OS error, nothing changed
  | escape                           -- the kernel would follow a symlink inside the tree (or the open handle no longer names the path)
  deriving Repr

namespace FS

/-- the world root `[]` is a folder -/
def get (fs : FS) (p : FPath) : Option Node :=
  if p = [] then some .folder else fs.nodes.lookup p

def set (fs : FS) (p : FPath) (n : Option Node) : FS :=
  ⟨(match n with | some x => [(p, x)] | none => []) ++ fs.nodes.filter (fun e => !(e.1 == p))⟩

def childrenOf (fs : FS) (dir : FPath) : List (FPath × Node) :=
  fs.nodes.filter fun e => e.1 ≠ [] ∧ e.1.dropLast = dir

def hasChild (fs : FS) (dir : FPath) : Bool := !(fs.childrenOf dir).isEmpty

inductive Access | ok | noent | notdir | link
  deriving DecidableEq, Repr

/-- are all proper ancestors of `pre ++ rest` below `pre` real folders? -/
def anc (fs : FS) : FPath → List Comp → Access
  | _, [] => .ok
  | _, [_] => .ok
  | pre, c :: rest =>
    match fs.get (pre ++ [c]) with
    | some .folder => anc fs (pre ++ [c]) rest
    | some (.symlink _) => .link
    | some _ => .notdir
    | none => .noent

def ancestors (fs : FS) (p : FPath) : Access := anc fs [] p

def withAnc (fs : FS) (p : FPath) (k : OpR FS) : OpR FS :=
  match fs.ancestors p with
  | .ok => k
  | .link => .escape
  | _ => .err

/-- `File::create`: open for writing, create if absent, truncate -/
def createTrunc (fs : FS) (p : FPath) : OpR FS :=
  withAnc fs p <|
    match fs.get p with
    | none => .ok (fs.set p (some (.file [] .fresh)))
    | some (.file _ _) => .ok (fs.set p (some (.file [] .fresh)))
    | some .folder => .err
    | some (.symlink _) => .escape
    | some .special => .escape

/-- `write_all` through the handle that was opened on `p` -/
def append (fs : FS) (p : FPath) (data : List UInt8) : OpR FS :=
  match fs.get p with
  | some (.file b m) => .ok (fs.set p (some (.file (b ++ data) (if data = [] then m else .fresh))))   -- `write_all(&[])` writes nothing
  | _ => .escape

/-- `filetime::set_file_mtime` (follows links) -/
def setMtime (fs : FS) (p : FPath) (t : Int) : OpR FS :=
  withAnc fs p <|
    match fs.get p with
    | some (.file b _) => .ok (fs.set p (some (.file b (.at t))))
    | some .folder => .ok fs
    | some .special => .ok fs
    | some (.symlink _) => .escape
    | none => .err

/-- `create_dir` -/
def mkdir (fs : FS) (p : FPath) : OpR FS :=
  withAnc fs p <|
    match fs.get p with
    | none => .ok (fs.set p (some .folder))
    | some _ => .err

/-- `std::os::unix::fs::symlink(text, p)` -/
def mksymlink (fs : FS) (p : FPath) (text : List UInt8) : OpR FS :=
  if text = [] ∨ (0 : UInt8) ∈ text then .err
  else withAnc fs p <|
    match fs.get p with
    | none => .ok (fs.set p (some (.symlink text)))
    | some _ => .err

/-- `remove_file` (unlink: never follows the final component) -/
def unlink (fs : FS) (p : FPath) : OpR FS :=
  withAnc fs p <|
    match fs.get p with
    | some .folder => .err
    | some _ => if p = [] then .err else .ok (fs.set p none)
    | none => .err

/-- `remove_dir` -/
def rmdir (fs : FS) (p : FPath) : OpR FS :=
  withAnc fs p <|
    match fs.get p with
    | some .folder => if p = [] ∨ fs.hasChild p then .err else .ok (fs.set p none)
    | _ => .err

/-- `create_dir_all` -/
def mkdirAll (fs : FS) : FPath → List Comp → OpR FS
  | _, [] => .ok fs
  | pre, c :: rest =>
    match fs.get (pre ++ [c]) with
    | some .folder => mkdirAll fs (pre ++ [c]) rest
    | none => mkdirAll (fs.set (pre ++ [c]) (some .folder)) (pre ++ [c]) rest
    | some (.symlink _) => .escape
    | some _ => .err

/-! ### looking through links (only `std::fs::metadata`, for a link's kind) -/

def cleanComps (cs : List Comp) : List Comp := cs.filter fun c => c ≠ [] ∧ c ≠ ['.']

/-- the text of a link as (absolute?, components); `none` if it is not UTF-8 -/
def textComps (text : List UInt8) : Option (Bool × List Comp) :=
  (decodeUtf8 text).map fun t => (t.head? = some '/', splitSlash t)

def stripPrefix : List Comp → List Comp → Option (List Comp)
  | [], l => some l
  | _ :: _, [] => none
  | a :: as, b :: bs => if a = b then stripPrefix as bs else none

/-- path resolution that follows links; `abs` is the absolute path of the world root; `none` =
the resolution fails (ENOENT, ENOTDIR, ELOOP) or leaves the modelled world -/
def follow (fs : FS) (abs : List Comp) : Nat → FPath → List Comp → Option FPath
  | 0, _, _ => none
  | _ + 1, cur, [] => some cur
  | f + 1, cur, c :: rest =>
    if c = [] ∨ c = ['.'] then follow fs abs f cur rest
    else if c = ['.', '.'] then (if cur = [] then none else follow fs abs f cur.dropLast rest)
    else match fs.get (cur ++ [c]) with
      | some .folder => follow fs abs f (cur ++ [c]) rest
      | some (.symlink t) =>
        match textComps t with
        | none => none
        | some (false, cs) => follow fs abs f cur (cs ++ rest)
        | some (true, cs) =>
          match stripPrefix abs (cleanComps cs) with
          | some cs' => follow fs abs f [] (cs' ++ rest)
          | none => none
      | some _ => if rest = [] then some (cur ++ [c]) else none
      | none => none

/-- `SymlinkKind` of the link at `p` as unix doers compute it -/
def statKind (fs : FS) (abs : List Comp) (p : FPath) : SymKind :=
  match follow fs abs 4096 [] p with
  | none => .unknown
  | some q => match fs.get q with
    | some .folder => .folder
    | some (.file ..) => .file
    | _ => .unknown

end FS
end Rj
