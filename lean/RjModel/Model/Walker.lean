/-! Model of `parallel_walk_dir.rs` as a transition system: `n` workers, a FIFO job queue, the
unfinished-jobs counter, a bounded result queue with a consumer.  Atomic statements of a worker:
`take` (receive a job), `entry` (filter + send one entry; a skipped entry or a non-directory sends
at most the entry), `inc` (fetch_add), `enq` (queue the sub-directory job), `fin` (fetch_sub; the
last finisher broadcasts `Done`), and the consumer's `consume`. -/
namespace Rj

/-- what the source text of the worker loop shows (extracted on every run) -/
structure WalkFeatures where
  entrySentBeforeJobQueued : Bool   -- result_sender.send(Ok(entry)) precedes job_sender.send(Job::Dir)
  incBeforeEnqueue : Bool           -- fetch_add precedes the job send
  recursesOnUnfollowedType : Bool   -- the recursion test is `entry.file_type()?.is_dir()` (symlinks are not followed)
  skipBeforeSend : Bool             -- a skipped entry `continue`s before anything is sent or queued
  lastFinisherBroadcasts : Bool     -- `prev_count == 1` => one Done per worker
  decAfterJob : Bool                -- fetch_sub after the job body
  deriving DecidableEq, Repr

def WalkFeatures.ref : WalkFeatures := ⟨true, true, true, true, true, true⟩

namespace Walker

/-- a directory tree as the walker sees it: every entry has an id, a skip verdict and, if it is a
    real directory that is not skipped, children -/
inductive T
  | leaf (id : Nat) (skip : Bool)
  | dir (id : Nat) (skip : Bool) (kids : List T)

mutual
def T.sz : T → Nat
  | .leaf _ _ => 1
  | .dir _ _ kids => 1 + szs kids
def szs : List T → Nat
  | [] => 0
  | t :: ts => t.sz + szs ts
end

inductive Job | dir (kids : List T) | done

inductive WS
  | idle
  | busy (rem : List T)
  | afterSend (kids rem : List T)   -- result sent, counter not yet incremented
  | afterInc (kids rem : List T)    -- counter incremented, job not yet queued
  | exited

structure St where
  jobs : List Job
  counter : Nat
  results : List Nat
  consumed : List Nat
  ws : List WS
  doneSent : Bool

inductive Act | take (w : Nat) | entry (w : Nat) | inc (w : Nat) | enq (w : Nat) | fin (w : Nat) | consume

def setW (s : St) (w : Nat) (x : WS) : St := { s with ws := s.ws.set w x }

/-- one atomic step of parallel_walk_dir with `n` workers and result-queue bound `cap` -/
def step (n cap : Nat) (s : St) : Act → Option St
  | .take w => match s.ws[w]?, s.jobs with
    | some .idle, .dir kids :: js => some (setW { s with jobs := js } w (.busy kids))
    | some .idle, .done :: js => some (setW { s with jobs := js } w .exited)
    | _, _ => none
  | .entry w => match s.ws[w]? with
    | some (.busy (.leaf id skip :: rem)) =>
      if skip then some (setW s w (.busy rem))
      else if s.results.length < cap then some (setW { s with results := s.results ++ [id] } w (.busy rem))
      else none
    | some (.busy (.dir id skip kids :: rem)) =>
      if skip then some (setW s w (.busy rem))
      else if s.results.length < cap then
        some (setW { s with results := s.results ++ [id] } w (.afterSend kids rem))
      else none
    | _ => none
  | .inc w => match s.ws[w]? with
    | some (.afterSend kids rem) => some (setW { s with counter := s.counter + 1 } w (.afterInc kids rem))
    | _ => none
  | .enq w => match s.ws[w]? with
    | some (.afterInc kids rem) => some (setW { s with jobs := s.jobs ++ [.dir kids] } w (.busy rem))
    | _ => none
  | .fin w => match s.ws[w]? with
    | some (.busy []) =>
      if s.counter = 1 ∧ ¬ s.doneSent then
        some (setW { s with counter := 0, jobs := s.jobs ++ List.replicate n .done, doneSent := true } w .idle)
      else some (setW { s with counter := s.counter - 1 } w .idle)
    | _ => none
  | .consume => match s.results with
    | r :: rs => some { s with results := rs, consumed := s.consumed ++ [r] }
    | [] => none


-- ids an unprocessed part of the tree will still emit (nothing from or beneath a skipped entry)
mutual
def T.cnt (i : Nat) : T → Nat
  | .leaf id skip => if skip then 0 else if id = i then 1 else 0
  | .dir id skip kids => if skip then 0 else (if id = i then 1 else 0) + cnts i kids
def cnts (i : Nat) : List T → Nat
  | [] => 0
  | t :: ts => t.cnt i + cnts i ts
end

def St.init (n : Nat) (root : List T) : St := ⟨[.dir root], 1, [], [], List.replicate n .idle, false⟩

/-- a schedule: any sequence of statements; disabled ones are skipped -/
def runSched (n cap : Nat) : St → List Act → St
  | s, [] => s
  | s, a :: as => match step n cap s a with
    | some s' => runSched n cap s' as
    | none => runSched n cap s as

end Walker
end Rj
