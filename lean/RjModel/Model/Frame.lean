/-! Model of the encrypted link (`encrypted_comms.rs:186-278`): every message is one frame
`len ‖ seal(key, nonce, bincode(msg))`; the nonce is a per-direction counter (parity = direction).
The AEAD is a *parameter with laws* (ideal authenticated encryption), never an axiom. -/
namespace Rj

abbrev Bytes := List Nat

structure AEAD where
  enc : Nat → Nat → Bytes → Bytes
  dec : Nat → Nat → Bytes → Option Bytes
  correct : ∀ k n p, dec k n (enc k n p) = some p
  integrity : ∀ k n c p, dec k n c = some p → c = enc k n p
  binding : ∀ k n n' p p', enc k n p = enc k n' p' → n = n' ∧ p = p'

/-- the laws are satisfiable -/
def toyAEAD : AEAD where
  enc k n p := k :: n :: p
  dec k n c := match c with
    | k' :: n' :: p => if k' = k ∧ n' = n then some p else none
    | _ => none
  correct := by intro k n p; simp
  integrity := by
    intro k n c p h
    match c, h with
    | k' :: n' :: q, h =>
      simp only at h
      split at h
      · next hh => cases h; obtain ⟨h1, h2⟩ := hh; subst h1; subst h2; rfl
      · cases h
  binding := by intro k n n' p p' h; simp at h; exact h

/-- direction: `false` = boss→doer, `true` = doer→boss.  `par d` is the sender's starting nonce. -/
def nonce (step : Nat) (par : Bool → Nat) (dir : Bool) (i : Nat) : Nat := par dir + step * i

structure Recv where
  idx : Nat            -- frames accepted so far
  alive : Bool
  delivered : List Bytes

/-- `receive()`: open under the expected nonce, else the receiving thread ends -/
def recvStep (a : AEAD) (k step : Nat) (par : Bool → Nat) (dir : Bool) (r : Recv) (c : Bytes) : Recv :=
  if r.alive then
    match a.dec k (nonce step par dir r.idx) c with
    | some p => { r with idx := r.idx + 1, delivered := r.delivered ++ [p] }
    | none => { r with alive := false }
  else r

def recvAll (a : AEAD) (k step : Nat) (par : Bool → Nat) (dir : Bool) (cs : List Bytes) : Recv :=
  cs.foldl (recvStep a k step par dir) ⟨0, true, []⟩

/-- what the honest sender of direction `d` put on the wire -/
def honest (a : AEAD) (k step : Nat) (par : Bool → Nat) (sent : Bool → List Bytes) (c : Bytes) : Prop :=
  ∃ d i, ∃ h : i < (sent d).length, c = a.enc k (nonce step par d i) ((sent d)[i])

/-- "the adversary does not hold the key": whatever opens under the key (under any nonce) was made
by one of the two honest ends of this session -/
@[reducible] def Unforgeable (a : AEAD) (k step : Nat) (par : Bool → Nat) (sent : Bool → List Bytes) (cs : List Bytes) : Prop :=
  ∀ c ∈ cs, ∀ n p, a.dec k n c = some p → honest a k step par sent c

/-! ### item-level executable instance (what the driver runs against the real link)

A delivered wire item is an unmodified frame `i` of one of the two senders, or junk (bit-flipped,
truncated, made without the key).  Under an ideal AEAD an honest frame opens iff its nonce is the
expected one. -/

inductive Item
  | frame (fromDoer : Bool) (i : Nat)
  | junk
  deriving DecidableEq, Repr

structure LinkCfg where
  sendStep : Nat
  recvStep : Nat
  bossSend : Nat
  bossRecv : Nat
  doerSend : Nat
  doerRecv : Nat
  deriving DecidableEq, Repr

/-- delivered indices at the receiving end `toDoer` (`true`: the doer's receiver) -/
def recvItems (c : LinkCfg) (toDoer : Bool) : List Item → Nat → List Nat
  | [], _ => []
  | .junk :: _, _ => []
  | .frame fromDoer i :: rest, idx =>
    let expected := (if toDoer then c.doerRecv else c.bossRecv) + c.recvStep * idx
    let used := (if fromDoer then c.doerSend else c.bossSend) + c.sendStep * i
    -- the frame must also come from the opposite end's message type to deserialise; a reflected
    -- frame of the own direction has the own sender's parity
    if used = expected then i :: recvItems c toDoer rest (idx + 1) else []

end Rj
