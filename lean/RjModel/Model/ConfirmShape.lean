/-! The shape of `confirm_actions` (boss_sync.rs) that `Model/Confirm.lean` was written against: the function's signature and body with comments,
white space, `trace!` statements and the text of string literals (other than the one-word prompt labels) removed, in pieces of 100 characters.
`confirmDeletes` / `blockedCopies` / `confirmCopies` / `confirmActions` model exactly this text: the deletion pass with its four arms (a skipped
*incompatible* deletion is remembered in `blocked`), the removal of the skipped deletions, the removal of the copies at or inside a blocked path, the
copy pass with one resolution per reason, the removal of the skipped copies.  When `confirm_actions` is edited, the extracted shape
(`Generated.confirmActionsShape`) differs from this one, `C03_confirm_actions_shape` no longer checks, and the model has to be revisited. 
The same for `copy_entry` and `copy_file` (the model's copy loop: `Boss.lean`, `copyCmds` / the chunk relay). -/
namespace Rj
/-- `confirm_actions`, normalised (see extract_more.py `confirm_shape`) -/
def confirmActionsShapeRef : List String := [
  "ctx:&mutSyncContext,actions:&mutActions->Result<(),String>{letmutto_remove=vec![];letmutblocked=vec!",
  "[];for(path,(entry_to_delete,reason))inactions.to_delete.iter(){letmsg=format!(\"\",ctx.pretty_dest(pa",
  "th,entry_to_delete),matchreason{DeleteReason::NotOnSource=>\"\",DeleteReason::Incompatible=>\"\",});letr",
  "esolved_behaviour=matchctx.dest_entry_needs_deleting_behaviour{DestEntryNeedsDeletingBehaviour::Prom",
  "pt=>{letprompt_result=resolve_prompt(format!(\"\"),None,&[(\"Skip\",DestEntryNeedsDeletingBehaviour::Ski",
  "p),(\"Delete\",DestEntryNeedsDeletingBehaviour::Delete),],true,DestEntryNeedsDeletingBehaviour::Error)",
  ";ifletSome(b)=prompt_result.remembered_behaviour{ctx.dest_entry_needs_deleting_behaviour=b;}prompt_r",
  "esult.immediate_behaviour},x=>x,};matchresolved_behaviour{DestEntryNeedsDeletingBehaviour::Prompt=>p",
  "anic!(\"\"),DestEntryNeedsDeletingBehaviour::Error=>returnErr(format!(\"\",)),DestEntryNeedsDeletingBeha",
  "viour::Skip=>{to_remove.push(path.clone());if*reason==DeleteReason::Incompatible{blocked.push(path.c",
  "lone());}}DestEntryNeedsDeletingBehaviour::Delete=>(),}}forpinto_remove{actions.to_delete.remove(&p)",
  ";}letblocked_copies:Vec<RootRelativePath>=actions.to_copy.iter().map(|(p,_)|p).filter(|p|blocked.ite",
  "r().any(|b|*p==b||p.is_inside(b))).cloned().collect();forpinblocked_copies{actions.to_copy.remove(&p",
  ");}letmutto_remove=vec![];for(path,(_entry_to_copy,reason))inactions.to_copy.iter(){matchreason{Copy",
  "Reason::NotOnDest=>(),CopyReason::DestNewer=>{letmsg=format!(\"\",ctx.pretty_dest_kind(&path,\"\"),ctx.p",
  "retty_src_kind(&path,\"\"));letresolved_behaviour=matchctx.dest_file_newer_behaviour{DestFileUpdateBeh",
  "aviour::Prompt=>{letprompt_result=resolve_prompt(format!(\"\"),None,&[(\"Skip\",DestFileUpdateBehaviour:",
  ":Skip),(\"Overwrite\",DestFileUpdateBehaviour::Overwrite),],true,DestFileUpdateBehaviour::Error);iflet",
  "Some(b)=prompt_result.remembered_behaviour{ctx.dest_file_newer_behaviour=b;}prompt_result.immediate_",
  "behaviour},x=>x,};matchresolved_behaviour{DestFileUpdateBehaviour::Prompt=>panic!(\"\"),DestFileUpdate",
  "Behaviour::Error=>returnErr(format!(\"\")),DestFileUpdateBehaviour::Skip=>{to_remove.push(path.clone()",
  ");}DestFileUpdateBehaviour::Overwrite=>{}}},CopyReason::DestOlder=>{letmsg=format!(\"\",ctx.pretty_des",
  "t_kind(&path,\"\"),ctx.pretty_src_kind(&path,\"\"));letresolved_behaviour=matchctx.dest_file_older_behav",
  "iour{DestFileUpdateBehaviour::Prompt=>{letprompt_result=resolve_prompt(format!(\"\"),None,&[(\"Skip\",De",
  "stFileUpdateBehaviour::Skip),(\"Overwrite\",DestFileUpdateBehaviour::Overwrite),],true,DestFileUpdateB",
  "ehaviour::Error);ifletSome(b)=prompt_result.remembered_behaviour{ctx.dest_file_older_behaviour=b;}pr",
  "ompt_result.immediate_behaviour},x=>x,};matchresolved_behaviour{DestFileUpdateBehaviour::Prompt=>pan",
  "ic!(\"\"),DestFileUpdateBehaviour::Error=>returnErr(format!(\"\")),DestFileUpdateBehaviour::Skip=>{to_re",
  "move.push(path.clone());}DestFileUpdateBehaviour::Overwrite=>{}}},CopyReason::SameTimeAndNotSkipped=",
  ">{letmsg=format!(\"\",ctx.pretty_dest_kind(&path,\"\"),ctx.pretty_src_kind(&path,\"\"));letresolved_behavi",
  "our=matchctx.files_same_time_behaviour{DestFileUpdateBehaviour::Prompt=>{letprompt_result=resolve_pr",
  "ompt(format!(\"\"),None,&[(\"Skip\",DestFileUpdateBehaviour::Skip),(\"Overwrite\",DestFileUpdateBehaviour:",
  ":Overwrite),],true,DestFileUpdateBehaviour::Error);ifletSome(b)=prompt_result.remembered_behaviour{c",
  "tx.files_same_time_behaviour=b;}prompt_result.immediate_behaviour},x=>x,};matchresolved_behaviour{De",
  "stFileUpdateBehaviour::Prompt=>panic!(\"\"),DestFileUpdateBehaviour::Error=>returnErr(format!(\"\")),Des",
  "tFileUpdateBehaviour::Skip=>{to_remove.push(path.clone());}DestFileUpdateBehaviour::Overwrite=>{}}},",
  "}}forpinto_remove{actions.to_copy.remove(&p);}Ok(())}"]
/-- `copy_entry`, normalised (see extract_more.py `confirm_shape`) -/
def copyEntryShapeRef : List String := [
  "ctx:&mutSyncContext,progress:&mutProgress,path:&RootRelativePath,src_details:&EntryDetails->Result<(",
  "),String>{matchsrc_details{EntryDetails::File{size,modified_time:src_modified_time}=>{copy_file(&pat",
  "h,*size,*src_modified_time,ctx,progress)?}EntryDetails::Folder=>{ctx.send_progress_marker_limited(pr",
  "ogress)?;ctx.stats.num_folders_created+=1;if!ctx.dry_run{ctx.dest_comms.send_command(Command::Create",
  "Folder{path:path.clone(),})?;}else{info!(\"\",ctx.pretty_dest_kind(&path,\"\"));}progress.copy_sent(&src",
  "_details);},EntryDetails::Symlink{refkind,reftarget}=>{ctx.send_progress_marker_limited(progress)?;c",
  "tx.stats.num_symlinks_copied+=1;if!ctx.dry_run{ctx.dest_comms.send_command(Command::CreateSymlink{pa",
  "th:path.clone(),kind:*kind,target:target.clone(),})?;}else{info!(\"\",ctx.pretty_dest_kind(&path,\"\"));",
  "}progress.copy_sent(&src_details);}}Ok(())}"]
/-- `copy_file`, normalised (see extract_more.py `confirm_shape`) -/
def copyFileShapeRef : List String := [
  "path:&RootRelativePath,size:u64,modified_time:SystemTime,ctx:&mutSyncContext,progress:&mutProgress->",
  "Result<(),String>{ctx.send_progress_marker_limited(progress)?;if!ctx.dry_run{ctx.src_comms.send_comm",
  "and(Command::GetFileContent{path:path.clone(),})?;letmutchunk_offset:u64=0;loop{ctx.send_progress_ma",
  "rker_limited(progress)?;let(data,more_to_follow)=matchctx.src_comms.receive_response()?{Response::Fi",
  "leContent{data,more_to_follow}=>(data,more_to_follow),x=>returnErr(format!(\"\",ctx.pretty_src_kind(&p",
  "ath,\"\"),x)),};letchunk_size=data.len();ifchunk_offset+chunk_sizeasu64>size{returnErr(format!(\"\",ctx.",
  "pretty_src_kind(&path,\"\")));}ctx.dest_comms.send_command(Command::CreateOrUpdateFile{path:path.clone",
  "(),data,set_modified_time:ifmore_to_follow{None}else{Some(modified_time)},more_to_follow,})?;progres",
  "s.copy_sent_partial(chunk_offset,chunk_sizeasu64,size);chunk_offset+=chunk_sizeasu64;process_dest_re",
  "sponses(ctx.dest_comms,progress,BlockUntil::Nothing)?;if!more_to_follow{break;}}ifchunk_offset!=size",
  "{returnErr(format!(\"\",ctx.pretty_src_kind(&path,\"\")));}}else{progress.copy_sent_partial(0,size,size)",
  ";info!(\"\",ctx.pretty_src_kind(&path,\"\"),ctx.pretty_dest_kind(&path,\"\"));}ctx.stats.num_files_copied+",
  "=1;ctx.stats.num_bytes_copied=ctx.stats.num_bytes_copied.saturating_add(size);ctx.stats.copied_file_",
  "size_hist.add(size);Ok(())}"]
/-- the doer's `exec_command` (doer.rs): what `Model/Doer.lean` (`dstep`) and the file-system model were written against -/
def execCommandShapeRef : List String := [
  "command:Command,comms:&mutComms,context:&mutOption<DoerContext>->Result<bool,String>{#[cfg(rjrssync_",
  "verif)]if!matches!(command,Command::SetRoot{..}|Command::GetEntries{..}|Command::GetFileContent{..}|",
  "Command::Marker(..)|Command::Shutdown){verif_point(\"\");}matchcommand{Command::SetRoot{root}=>{ifletE",
  "rr(e)=handle_set_root(comms,context,root){comms.send_response(Response::Error(e))?;}}Command::GetEnt",
  "ries{filters}=>{profile_this!(\"\");ifletErr(e)=handle_get_entries(comms,context.as_mut().unwrap(),fil",
  "ters){comms.send_response(Response::Error(e))?;}}Command::CreateRootAncestors=>{letpath_to_create=co",
  "ntext.as_ref().unwrap().root.parent();ifletSome(p)=path_to_create{profile_this!(format!(\"\",p.to_str(",
  ").unwrap().to_string()));ifletErr(e)=std::fs::create_dir_all(p){comms.send_response(Response::Error(",
  "format!(\"\",p.display())))?;}}}Command::GetFileContent{path}=>{letfull_path=path.get_full_path(&conte",
  "xt.as_ref().unwrap().root);profile_this!(format!(\"\",path.to_string()));ifletErr(e)=handle_get_file_c",
  "ontents(comms,&full_path){comms.send_response(Response::Error(e))?;}}Command::CreateOrUpdateFile{pat",
  "h,data,set_modified_time,more_to_follow}=>{letfull_path=path.get_full_path(&context.as_ref().unwrap(",
  ").root);profile_this!(format!(\"\",path.to_string()));ifcontext.as_ref().unwrap().failed_file_receive.",
  "as_ref()==Some(&path){if!more_to_follow{context.as_mut().unwrap().failed_file_receive=None;}comms.se",
  "nd_response(Response::Error(format!(\"\",full_path.display())))?;returnOk(true);}letfailed_file_receiv",
  "e=ifmore_to_follow{Some(path.clone())}else{None};letmutf=matchcontext.as_mut().unwrap().in_progress_",
  "file_receive.take(){Some((in_progress_path,f))=>{ifin_progress_path==path{f}else{context.as_mut().un",
  "wrap().failed_file_receive=failed_file_receive;comms.send_response(Response::Error(format!(\"\")))?;re",
  "turnOk(true);}},None=>matchstd::fs::File::create(&full_path){Ok(f)=>f,Err(e)=>{context.as_mut().unwr",
  "ap().failed_file_receive=failed_file_receive;comms.send_response(Response::Error(format!(\"\",full_pat",
  "h.display())))?;returnOk(true);}}};#[cfg(rjrssync_verif)]verif_point(\"\");letr=f.write_all(&data);#[c",
  "fg(rjrssync_verif)]verif_point(\"\");ifletErr(e)=r{context.as_mut().unwrap().failed_file_receive=faile",
  "d_file_receive;comms.send_response(Response::Error(format!(\"\",full_path.display())))?;returnOk(true)",
  ";}context.as_mut().unwrap().in_progress_file_receive=ifmore_to_follow{Some((path,f))}else{None};#[cf",
  "g(rjrssync_verif)]verif_point(\"\");ifletSome(t)=set_modified_time{letr=filetime::set_file_mtime(&full",
  "_path,filetime::FileTime::from_system_time(t));ifletErr(e)=r{comms.send_response(Response::Error(for",
  "mat!(\"\",full_path.display())))?;returnOk(true);}#[cfg(rjrssync_verif)]verif_point(\"\");}}Command::Cre",
  "ateFolder{path}=>{letfull_path=path.get_full_path(&context.as_ref().unwrap().root);profile_this!(for",
  "mat!(\"\",full_path.to_str().unwrap().to_string()));ifletErr(e)=std::fs::create_dir(&full_path){comms.",
  "send_response(Response::Error(format!(\"\",full_path.display())))?;}}Command::CreateSymlink{path,kind,",
  "target}=>{ifletErr(e)=handle_create_symlink(path,context.as_mut().unwrap(),kind,target){comms.send_r",
  "esponse(Response::Error(e))?;}},Command::DeleteFile{path}=>{letfull_path=path.get_full_path(&context",
  ".as_ref().unwrap().root);profile_this!(format!(\"\",path.to_string()));ifletErr(e)=std::fs::remove_fil",
  "e(&full_path){comms.send_response(Response::Error(format!(\"\",full_path.display())))?;}}Command::Dele",
  "teFolder{path}=>{letfull_path=path.get_full_path(&context.as_ref().unwrap().root);profile_this!(form",
  "at!(\"\",path.to_string()));ifletErr(e)=std::fs::remove_dir(&full_path){comms.send_response(Response::",
  "Error(format!(\"\",full_path.display())))?;}}Command::DeleteSymlink{path,kind}=>{letfull_path=path.get",
  "_full_path(&context.as_ref().unwrap().root);letres=ifcfg!(windows){matchkind{SymlinkKind::File=>std:",
  ":fs::remove_file(&full_path),SymlinkKind::Folder=>std::fs::remove_dir(&full_path),SymlinkKind::Unkno",
  "wn=>{comms.send_response(Response::Error(format!(\"\",full_path.display())))?;returnOk(true);}}}else{s",
  "td::fs::remove_file(&full_path)};ifletErr(e)=res{comms.send_response(Response::Error(format!(\"\",full",
  "_path.display())))?;}},Command::ProfilingTimeSync=>{comms.send_response(Response::ProfilingTimeSync(",
  "PROFILING_START.elapsed()))?;},Command::Marker(x)=>{comms.send_response(Response::Marker(x))?;}Comma",
  "nd::Shutdown=>{returnOk(false);},}Ok(true)}"]
/-! the doer's listing: `filter_func` (the path relative to the root, the filters' verdict, the entry's details) and `handle_get_entries` (every entry of the walk is sent, then the end marker) - what `Model/Walk.lean` / the listing model were written against -/
/-- `filter_func`, normalised (see extract_more.py `confirm_shape`) -/
def filterFuncShapeRef : List String := [
  "entry:&std::fs::DirEntry,root:&Path,filters:&Filters->Result<parallel_walk_dir::FilterResult<RootRel",
  "ativePath>,String>{letpath=entry.path().strip_prefix(root).expect(\"\").to_path_buf();letpath=matchRoo",
  "tRelativePath::try_from(&pathas&Path){Ok(p)=>p,Err(e)=>returnErr(format!(\"\",path.display())),};letsk",
  "ip=apply_filters(&path,&filters)==FilterResult::Exclude;ifskip{}Ok(parallel_walk_dir::FilterResult::",
  "<RootRelativePath>{skip,additional_data:path,})}"]
/-- `handle_get_entries`, normalised (see extract_more.py `confirm_shape`) -/
def handleGetEntriesShapeRef : List String := [
  "comms:&mutComms,context:&mutDoerContext,filters:Filters->Result<(),String>{letstart=Instant::now();l",
  "etroot=context.root.clone();letentry_receiver=parallel_walk_dir(&context.root,move|e|filter_func(e,&",
  "root,&filters));letmutcount=0;whileletOk(entry)=entry_receiver.recv(){count+=1;matchentry{Err(e)=>re",
  "turnErr(format!(\"\",context.root.display())),Ok(e)=>{profile_this!(\"\");letpath=e.additional_data;letm",
  "etadata=matche.dir_entry.metadata(){Ok(m)=>m,Err(err)=>returnErr(format!(\"\",path)),};letd=entry_deta",
  "ils_from_metadata(metadata,&e.dir_entry.path())?;comms.send_response(Response::Entry((path,d)))?;}}}",
  "letelapsed=start.elapsed().as_millis();comms.send_response(Response::EndOfEntries)?;Ok(())}"]
end Rj
