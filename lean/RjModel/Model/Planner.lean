import RjModel.Model.Basic
import RjModel.Model.OMap
/-! Model of the incremental diff in `boss_sync.rs:450-670`:
`needs_delete`, `needs_copy`, `process_src_entry`, `process_dest_entry`. -/
namespace Rj

inductive DelReason | notOnSource | incompatible
  deriving DecidableEq, Repr, Inhabited
inductive CopyReason | notOnDest | destNewer | destOlder | sameTime
  deriving DecidableEq, Repr, Inhabited

/-- What the planner's decisions depend on besides the entries. -/
structure PCfg where
  /-- `files_same_time_behaviour == Skip` at query time -/
  sameTimeSkip : Bool
  /-- `dest_platform_differentiates_symlinks` -/
  destDiff : Bool

def needsDelete (c : PCfg) : Details → Details → Bool
  | .file .., .file .. => false
  | .folder, .folder => false
  | .symlink sk st, .symlink dk dt =>
      if st ≠ dt then true else if sk ≠ dk ∧ c.destDiff then true else false
  | _, _ => true

/-- `needs_copy`.  It is only called when `needsDelete = false`, i.e. the kinds agree; the Rust code
panics ("Wrong entry type") for a source file against a non-file, which is unreachable then. -/
def needsCopy (c : PCfg) : Details → Details → Option CopyReason
  | .file sm _, .file dm _ =>
      if sm = dm then (if c.sameTimeSkip then none else some .sameTime)
      else if sm > dm then some .destOlder else some .destNewer
  | _, _ => none

structure PState where
  src : OMap Details
  dst : OMap Details
  del : OMap (Details × DelReason)
  cpy : OMap (Details × CopyReason)

def PState.init : PState := ⟨.empty, .empty, .empty, .empty⟩

inductive Ev
  | src (p : String) (d : Details)
  | dst (p : String) (d : Details)
  deriving Repr

/-- One arrival; `none` = the Rust code would panic in `update().unwrap()`. -/
def pstep (c : PCfg) (s : PState) : Ev → Option PState
  | .src p e =>
    match s.dst.get p with
    | none => some { s with cpy := s.cpy.add p (e, .notOnDest), src := s.src.add p e }
    | some d =>
      if needsDelete c e d then
        (s.del.update p (d, .incompatible)).map fun del' =>
          { s with del := del', cpy := s.cpy.add p (e, .notOnDest), src := s.src.add p e }
      else
        let s' := { s with del := s.del.remove p }
        match needsCopy c e d with
        | some r => some { s' with cpy := s'.cpy.add p (e, r), src := s.src.add p e }
        | none => some { s' with src := s.src.add p e }
  | .dst p d =>
    let s := { s with dst := s.dst.add p d }
    match s.src.get p with
    | none => some { s with del := s.del.add p (d, .notOnSource) }
    | some e =>
      if needsDelete c e d then some { s with del := s.del.add p (d, .incompatible) }
      else match needsCopy c e d with
        | some r => (s.cpy.update p (e, r)).map fun cpy' => { s with cpy := cpy' }
        | none => some { s with cpy := s.cpy.remove p }

/-- A whole arrival sequence. -/
def prun (c : PCfg) : PState → List Ev → Option PState
  | s, [] => some s
  | s, e :: es => (pstep c s e).bind fun s' => prun c s' es

end Rj
