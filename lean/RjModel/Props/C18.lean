import RjModel.Props.C13
import RjModel.Model.Settings
import RjModel.Generated.PanicSites
import RjModel.Generated.Constants
import RjModel.Model.Progress
/-! # C18 — no input makes rjrssync crash

Lean's totality says nothing about Rust panics.  What the proof side contributes is (1) a closed
inventory of every `unwrap`/`expect`/`panic!`/`assert!` group of the source, re-extracted on every run
and matched against the committed classification table (`/verif/panic_sites.json`), and (2) the guard
theorems that the table refers to.  The rest of C18 is the differential stream (L4 fuzz). -/
namespace Rj.C18
open Rj

/-- every panic-capable group of the current source is classified (same file, function, kind and
count as in the committed table) -/
theorem C18_panic_sites_classified : ∀ g ∈ Generated.panicGroups, g.classified = true := by decide

/-- modification times before the epoch (which `bincode` cannot serialise: `serialized_size` fails
and the doer thread would panic) are rejected with an error where the entry details are read -/
theorem C18_pre_epoch_rejected : Generated.preEpochRejected = true := by decide

/-- the exit statuses of the boss are the documented ones -/
theorem C18_exit_codes : ∀ c ∈ Generated.bossExitCodes, c ∈ [10, 11, 12, 18, 19] := by decide

/-- `OrderedMap::update`'s `unwrap` cannot fire: the planner never panics, for any arrival order -/
theorem C18_update_never_panics (c : PCfg) (evs : List Ev)
    (hs : ((srcOf evs).map (·.1)).Nodup) (hd : ((dstOf evs).map (·.1)).Nodup) :
    (prun c PState.init evs).isSome = true := by
  obtain ⟨s, h, _⟩ := C13.C13_closed_form c evs hs hd
  simp [h]

/-- the four "Should have been already resolved" panics: a resolved behaviour is never `prompt` -/
theorem C18_resolved_never_prompt (b : Beh) (a : List Answer) (al : Bool) : (resolve b a al).1 ≠ .prompt :=
  resolve_ne_prompt b a al

/-- `needs_copy`'s "Wrong entry type" panic: it is called only when `needs_delete` is false, and then
a source file faces a destination file -/
theorem C18_needs_copy_total (c : PCfg) (m : Int) (sz : Nat) (d : Details) (h : needsDelete c (.file m sz) d = false) :
    ∃ m' sz', d = .file m' sz' := by
  cases d with
  | file m' sz' => exact ⟨m', sz', rfl⟩
  | folder => simp [needsDelete] at h
  | symlink k t => simp [needsDelete] at h

/-- `validate_trailing_slash` unwraps the last character of the root path: both front ends only
produce non-empty paths -/
theorem C18_root_nonempty :
    (∀ s d, parsePathDesc s = some d → d.path ≠ "") ∧
    (∀ rules it s, parseSync rules it = some s → s.src ≠ "" ∧ s.dest ≠ "") := by
  constructor
  · intro s d h
    unfold parsePathDesc at h
    simp only [Option.bind_eq_some_iff] at h
    obtain ⟨d', _, h2⟩ := h
    by_cases hp : d'.path = ""
    · simp [hp] at h2
    · simp only [hp, ↓reduceIte, Option.some.injEq] at h2; subst h2; exact hp
  · intro rules it s h
    cases it with
    | otherI t => simp [parseSync] at h
    | hash kvs =>
      simp only [parseSync, Option.bind_eq_some_iff] at h
      obtain ⟨s', _, h2⟩ := h
      by_cases h1 : s'.src = ""
      · simp [h1] at h2
      · by_cases h3 : s'.dest = ""
        · simp [h1, h3] at h2
        · simp only [h1, ↓reduceIte, h3, Option.some.injEq] at h2; subst h2; exact ⟨h1, h3⟩

/-! ### the progress accounting: `debug_assert!(sent <= total)`, `debug_assert_eq!(total, sent)` -/

theorem PV.add_def (a b : PV) : a + b = ⟨a.work + b.work, a.delete + b.delete, a.copy + b.copy, a.copyBytes + b.copyBytes⟩ := rfl

/-- the chunk lengths of a successfully relayed file reach `size` exactly with the last chunk, not before
(C11: the relay succeeds iff the lengths total the listed size, and the look-ahead reader emits no empty
chunk unless the file is empty — so no chunk follows the one that reaches the size) -/
def ReachesAtEnd (size : Nat) : Nat → List Nat → Prop
  | _, [] => False
  | start, [l] => start + l = size
  | start, l :: l2 :: rest => start + l < size ∧ ReachesAtEnd size (start + l) (l2 :: rest)

theorem partial_sum (minSz size : Nat) (lens : List Nat) (start : Nat) (h : ReachesAtEnd size start lens) :
    sumPartial minSz size start lens = ⟨(if size > minSz then lens.sum else minSz), 0, 1, lens.sum⟩ := by
  induction lens generalizing start with
  | nil => exact absurd h (by simp [ReachesAtEnd])
  | cons l rest ih =>
    cases rest with
    | nil =>
      simp only [ReachesAtEnd] at h
      simp only [sumPartial, forCopyPartial, PV.add_def, List.sum_cons, List.sum_nil]
      have : ¬ start + l < size := by omega
      simp only [this, ↓reduceIte]
      split <;> simp
    | cons l2 rest' =>
      obtain ⟨h1, h2⟩ := h
      rw [sumPartial, ih (start + l) h2]
      simp only [forCopyPartial, h1, ↓reduceIte, PV.add_def, List.sum_cons]
      split <;> simp <;> omega

theorem reaches_sum (size : Nat) (lens : List Nat) (start : Nat) (h : ReachesAtEnd size start lens) : start + lens.sum = size := by
  induction lens generalizing start with
  | nil => exact absurd h (by simp [ReachesAtEnd])
  | cons l rest ih =>
    cases rest with
    | nil => simpa [ReachesAtEnd] using h
    | cons l2 rest' =>
      obtain ⟨-, h2⟩ := h
      have := ih (start + l) h2
      simp only [List.sum_cons] at this ⊢; omega

/-- **`total == sent` when a file has been relayed**: whatever the chunking — any number of chunks of
any lengths that reach the listed size with the last chunk — what the chunk loop adds to `sent`
(`for_copy_partial` per chunk) is exactly what `for_copy` put into `total` for that file: one copy,
`size` bytes, `max(size, MIN_FILE_SIZE)` work.  So `debug_assert_eq!(self.total, self.sent)` in
`all_work_sent` cannot fire after successful relays, for any `MIN_FILE_SIZE`. -/
theorem C18_progress_chunks_sum (minSz size : Nat) (lens : List Nat) (h : ReachesAtEnd size 0 lens) :
    sumPartial minSz size 0 lens = forCopyFile minSz size := by
  have hs := reaches_sum size lens 0 h
  rw [partial_sum minSz size lens 0 h]
  simp only [forCopyFile, PV.mk.injEq, true_and]
  have : lens.sum = size := by omega
  refine ⟨?_, this⟩
  rw [this]; split <;> omega

/-- **`sent ≤ total` at every moment of a relay**: after any initial part of the chunks the file counts
at most once, at most `size` bytes and at most `max(size, MIN_FILE_SIZE)` work
(`debug_assert!(self.sent.copy <= self.total.copy)` in `get_progress_marker`). -/
theorem C18_progress_prefix_le (minSz size : Nat) (lens : List Nat) (start : Nat) (h : ReachesAtEnd size start lens)
    (pre suf : List Nat) (hsplit : lens = pre ++ suf) :
    (sumPartial minSz size start pre).copy ≤ 1 ∧ (sumPartial minSz size start pre).copyBytes ≤ lens.sum ∧
    (sumPartial minSz size start pre).work ≤ (if size > minSz then lens.sum else minSz) := by
  induction pre generalizing start lens with
  | nil => simp [sumPartial]
  | cons l pre' ih =>
    cases suf with
    | nil =>
      -- the whole list
      rw [List.append_nil] at hsplit
      rw [← hsplit, partial_sum minSz size lens start h]; simp
    | cons x suf' =>
      -- a proper prefix: `l` is not the last chunk
      subst hsplit
      cases hp : pre' ++ x :: suf' with
      | nil => simp at hp
      | cons l2 rest' =>
        simp only [List.cons_append, hp] at h
        obtain ⟨h1, h2⟩ := h
        have := ih (l2 :: rest') (start + l) h2 (by rw [← hp])
        simp only [sumPartial, forCopyPartial, h1, ↓reduceIte, PV.add_def, List.cons_append, hp, List.sum_cons] at this ⊢
        refine ⟨by omega, by omega, ?_⟩
        split <;> simp_all <;> omega

/-- the guard is needed: a stream in which an (empty) chunk follows the one that reached the size counts
the file twice — `sent.copy = 2 > total.copy = 1`, the assertion would fire in a debug build.  The
look-ahead reader never produces such a stream (C11_chunks), and a doer that did would be a broken peer,
not an input. -/
theorem C18_progress_double_count_witness : (sumPartial 10 4 0 [4, 0]).copy = 2 := by decide

/-- Non-vacuity: 4096 + 8192 + 100 bytes reach 12388 with the last chunk -/
example : ReachesAtEnd 12388 0 [4096, 8192, 100] ∧ sumPartial 1048576 12388 0 [4096, 8192, 100] = forCopyFile 1048576 12388 := by
  refine ⟨by simp [ReachesAtEnd], by decide⟩

/-! ### sums of file lengths saturate (C18-F11) -/

/-- the byte sums of the source are the saturating ones the theorems below are about -/
theorem C18_byte_sums_saturate : Generated.byteSumsSaturate = true := by decide

theorem satFold (cap : Nat) (l : List Nat) (a : Nat) (ha : a ≤ cap) :
    l.foldl (satAdd cap) a = min (a + l.sum) cap := by
  induction l generalizing a with
  | nil => simp [Nat.min_eq_left ha]
  | cons x xs ih =>
    simp only [List.foldl_cons, List.sum_cons]
    rw [ih (satAdd cap a x) (by unfold satAdd; omega)]
    unfold satAdd
    omega

/-- **No length can overflow a sum**: whatever the lengths (sparse files may add up to more than 2^64), a saturating
sum never exceeds the cap — there is no value at which the addition panics. -/
theorem C18_saturating_bounded (cap : Nat) (l : List Nat) : l.foldl (satAdd cap) 0 ≤ cap := by
  rw [satFold cap l 0 (Nat.zero_le _)]; omega

/-- **The assertions about progress sums survive saturation**: `all_work_sent` asserts `total == sent` — two
saturating sums of lists with the same exact sum (the plan's entries; the chunks actually sent: `C18_progress_chunks_sum`)
are equal, in whatever order and grouping they were added; `get_progress_marker` asserts `sent ≤ total` — a saturating sum
is monotone in the exact sum. -/
theorem C18_saturating_sums_agree (cap : Nat) (l1 l2 : List Nat) :
    (l1.sum = l2.sum → l1.foldl (satAdd cap) 0 = l2.foldl (satAdd cap) 0) ∧
    (l1.sum ≤ l2.sum → l1.foldl (satAdd cap) 0 ≤ l2.foldl (satAdd cap) 0) := by
  rw [satFold cap l1 0 (Nat.zero_le _), satFold cap l2 0 (Nat.zero_le _)]
  constructor
  · intro h; rw [h]
  · intro h; omega

/-- the witness of C18-F11: three files of 2^63-1 bytes add up to more than `u64::MAX`; the saturating sum is the cap -/
example : [2^63 - 1, 2^63 - 1, 2^63 - 1].foldl (satAdd (2^64 - 1)) 0 = 2^64 - 1 ∧ (2^63 - 1) * 3 > 2^64 - 1 := by decide

end Rj.C18
