import RjModel.Props.C13
import RjModel.Model.Settings
import RjModel.Generated.PanicSites
import RjModel.Generated.Constants
/-! # C18 — no input makes rjrssync crash

Lean's totality says nothing about Rust panics.  What the proof side contributes is (1) a closed
inventory of every `unwrap`/`expect`/`panic!`/`assert!` group of the source, re-extracted on every run
and matched against the committed classification table (`/verif/panic_sites.json`), and (2) the guard
theorems that the table refers to.  The rest of C18 is the differential stream (L4 fuzz). -/
namespace Rj.C18
open Rj

/-- every panic-capable group of the current source is classified (same file, function, kind and
count as in the committed table) -/
theorem C18_panic_sites_classified : ∀ g ∈ Generated.panicGroups, g.classified = true := by decide

/-- modification times before the epoch (which `bincode` cannot serialise: `serialized_size` fails
and the doer thread would panic) are rejected with an error where the entry details are read -/
theorem C18_pre_epoch_rejected : Generated.preEpochRejected = true := by decide

/-- the exit statuses of the boss are the documented ones -/
theorem C18_exit_codes : ∀ c ∈ Generated.bossExitCodes, c ∈ [10, 11, 12, 18, 19] := by decide

/-- `OrderedMap::update`'s `unwrap` cannot fire: the planner never panics, for any arrival order -/
theorem C18_update_never_panics (c : PCfg) (evs : List Ev)
    (hs : ((srcOf evs).map (·.1)).Nodup) (hd : ((dstOf evs).map (·.1)).Nodup) :
    (prun c PState.init evs).isSome = true := by
  obtain ⟨s, h, _⟩ := C13.C13_closed_form c evs hs hd
  simp [h]

/-- the four "Should have been already resolved" panics: a resolved behaviour is never `prompt` -/
theorem C18_resolved_never_prompt (b : Beh) (a : List Answer) (al : Bool) : (resolve b a al).1 ≠ .prompt :=
  resolve_ne_prompt b a al

/-- `needs_copy`'s "Wrong entry type" panic: it is called only when `needs_delete` is false, and then
a source file faces a destination file -/
theorem C18_needs_copy_total (c : PCfg) (m : Int) (sz : Nat) (d : Details) (h : needsDelete c (.file m sz) d = false) :
    ∃ m' sz', d = .file m' sz' := by
  cases d with
  | file m' sz' => exact ⟨m', sz', rfl⟩
  | folder => simp [needsDelete] at h
  | symlink k t => simp [needsDelete] at h

/-- `validate_trailing_slash` unwraps the last character of the root path: both front ends only
produce non-empty paths -/
theorem C18_root_nonempty :
    (∀ s d, parsePathDesc s = some d → d.path ≠ "") ∧
    (∀ rules it s, parseSync rules it = some s → s.src ≠ "" ∧ s.dest ≠ "") := by
  constructor
  · intro s d h
    unfold parsePathDesc at h
    simp only [Option.bind_eq_some_iff] at h
    obtain ⟨d', _, h2⟩ := h
    by_cases hp : d'.path = ""
    · simp [hp] at h2
    · simp only [hp, ↓reduceIte, Option.some.injEq] at h2; subst h2; exact hp
  · intro rules it s h
    cases it with
    | otherI t => simp [parseSync] at h
    | hash kvs =>
      simp only [parseSync, Option.bind_eq_some_iff] at h
      obtain ⟨s', _, h2⟩ := h
      by_cases h1 : s'.src = ""
      · simp [h1] at h2
      · by_cases h3 : s'.dest = ""
        · simp [h1, h3] at h2
        · simp only [h1, ↓reduceIte, h3, Option.some.injEq] at h2; subst h2; exact ⟨h1, h3⟩

end Rj.C18
