import RjModel.Model.Settings
import RjModel.Generated.Defaults
import RjModel.Generated.PathDesc
import RjModel.Generated.BehaviourWrites
/-! # C16 — effective settings follow the documented precedence and defaults

`Generated.fieldRules` is re-extracted from `resolve_spec` / `impl Default for SyncSpec` on every run;
the theorems below are therefore re-checked against what the match arms say *now*. -/
namespace Rj.C16
open Rj

def allOB : List (Option Beh) := [none, some .prompt, some .error, some .skip, some .proceed]

theorem mem_allOB (x : Option Beh) : x ∈ allOB := by
  cases x with
  | none => simp [allOB]
  | some b => cases b <;> simp [allOB]

def fieldNames : List String :=
  ["dest_file_newer_behaviour", "dest_file_older_behaviour", "files_same_time_behaviour",
   "dest_entry_needs_deleting_behaviour", "dest_root_needs_deleting_behaviour"]

/-- every behaviour field of a sync has a rule in the source, in the documented set -/
theorem C16_rules_cover : Generated.fieldRules.map (·.name) = fieldNames := by decide

def precedenceTable : Bool :=
  Generated.fieldRules.all fun r => allOB.all fun s => allOB.all fun a => allOB.all fun f =>
    decide (some (r.resolve s a f) = (docDefault r.name).map (fun d => docResolve d s a f))

theorem precedenceTable_ok : precedenceTable = true := by decide

/-- **Precedence**, over the whole finite product: for every behaviour field, every spec-file value
(absent or one of four), every all-destructive value and every individual flag, the code computes
exactly the documented rule with the documented default. -/
theorem C16_precedence (r : FieldRule) (hr : r ∈ Generated.fieldRules) (spec all flag : Option Beh) :
    some (r.resolve spec all flag) = (docDefault r.name).map (fun d => docResolve d spec all flag) := by
  have h := precedenceTable_ok
  simp only [precedenceTable, List.all_eq_true, decide_eq_true_eq] at h
  exact h r hr spec (mem_allOB spec) all (mem_allOB all) flag (mem_allOB flag)

/-- **Defaults**: newer=prompt, older=overwrite, same time=skip, entry deletion=delete,
root deletion=prompt, deploy=prompt. -/
theorem C16_defaults :
    (∀ r ∈ Generated.fieldRules, some r.default = docDefault r.name) ∧ Generated.deployDefault = .prompt := by
  decide

/-- **Command-line filters replace spec-file filters** (and an empty command-line list leaves them). -/
theorem C16_filters_replace (k : ResolveCfg) (hk : k.filtersReplace = Generated.filtersReplace) (c : Cli) (s : SyncSpecM) :
    (overrideSync k c s).filters = if c.filters = [] then s.filters else c.filters := by
  have : Generated.filtersReplace = true := by decide
  simp only [overrideSync, hk, this, Bool.true_and]
  cases c.filters <;> simp

/-- **The deploy flag overrides the spec-file value, which overrides the default.** -/
theorem C16_deploy (k : ResolveCfg) (hk : k.deployFlagOverrides = Generated.deployFlagOverrides) (c : Cli) (doc : YDoc) (s : SpecM)
    (h : resolveSpec k c doc = .ok s) :
    ∃ base, s.deploy = c.deploy.getD base := by
  have : Generated.deployFlagOverrides = true := by decide
  simp only [resolveSpec] at h
  split at h
  · cases h
  · next b hb => cases h; exact ⟨b.deploy, by simp [hk, this]⟩

/-- **A sync described in a spec file behaves like the same sync given as `SRC DEST`**: if the spec
file parses to exactly the one sync that the two path arguments describe, both ways resolve to the
same effective spec, for every combination of the other command-line options. -/
theorem C16_spec_equals_cli (k : ResolveCfg) (c : Cli) (doc : YDoc) (s d : String) (ps pd : PathDesc)
    (hs : parsePathDesc s = some ps) (hd : parsePathDesc d = some pd)
    (hdoc : parseSpecDoc k.rules k.deployDefault doc =
      some { srcHost := ps.host, srcUser := ps.user, destHost := pd.host, destUser := pd.user, deploy := k.deployDefault,
             syncs := [{ defaultSync k.rules with src := ps.path, dest := pd.path }] }) :
    resolveSpec k { c with src := some s, dest := some d, specGiven := false } YDoc.noDocument =
    resolveSpec k { c with src := none, dest := none, specGiven := true } doc := by
  simp [resolveSpec, hs, hd, hdoc, overrideSync]

def knownRootKeys : List String :=
  ["src_hostname", "src_username", "dest_hostname", "dest_username", "deploy_behaviour", "syncs"]

/-- **Malformed spec files are rejected** (1): anything that is not a dictionary at the root —
a YAML syntax error, no document, a list, a scalar. -/
theorem C16_rejects_non_dictionary (rules : List FieldRule) (dd : DeployBeh) :
    parseSpecDoc rules dd .parseError = none ∧ parseSpecDoc rules dd .noDocument = none ∧
    parseSpecDoc rules dd .notHash = none := ⟨rfl, rfl, rfl⟩

/-- (2) an unknown or non-string key anywhere in the root dictionary -/
theorem C16_rejects_unknown_root_key (rules : List FieldRule) (kvs : List (YScalar × YVal)) (acc : SpecM)
    (k : YScalar) (v : YVal) (hm : (k, v) ∈ kvs) (hk : ∀ s, k = .str s → s ∉ knownRootKeys) :
    parseDocKvs rules kvs acc = none := by
  induction kvs generalizing acc with
  | nil => cases hm
  | cons kv rest ih =>
    obtain ⟨k', v'⟩ := kv
    rcases List.mem_cons.mp hm with h | h
    · cases h
      cases k with
      | other t => simp [parseDocKvs]
      | str s =>
        have := hk s rfl
        simp only [knownRootKeys, List.mem_cons, List.not_mem_nil, or_false, not_or] at this
        obtain ⟨h1, h2, h3, h4, h5, h6⟩ := this
        unfold parseDocKvs
        split <;> simp_all
    · unfold parseDocKvs
      split <;> first | rfl | (simp only [Option.bind_eq_none_iff]; intros; exact ih _ h) | skip
      · split
        · simp only [Option.bind_eq_none_iff]; intros; exact ih _ h
        · rfl

/-- (3) a sync entry that is not a dictionary, has an unknown key, or lacks a non-empty `src`/`dest` -/
theorem C16_rejects_bad_sync (rules : List FieldRule) :
    (∀ t, parseSync rules (.otherI t) = none) ∧
    (∀ kvs s, parseSyncKvs kvs (defaultSync rules) = some s → s.src = "" → parseSync rules (.hash kvs) = none) ∧
    (∀ kvs s, parseSyncKvs kvs (defaultSync rules) = some s → s.dest = "" → parseSync rules (.hash kvs) = none) := by
  refine ⟨fun _ => rfl, ?_, ?_⟩
  · intro kvs s h hs; simp [parseSync, h, hs]
  · intro kvs s h hd; simp only [parseSync, h, Option.bind_some, hd]; split <;> rfl

/-- (4) wrong types and bad enum values inside a sync entry -/
theorem C16_rejects_bad_values (acc : SyncSpecM) (rest : List (YScalar × YVal2)) (t : String) (items : List YScalar) :
    parseSyncKvs ((.str "src", .otherV t) :: rest) acc = none ∧
    parseSyncKvs ((.str "dest", .arr items) :: rest) acc = none ∧
    parseSyncKvs ((.str "filters", .scalar (.str t)) :: rest) acc = none ∧
    parseSyncKvs ((.str "filters", .arr [.other t]) :: rest) acc = none ∧
    (parseBehName "overwrite" t = none → parseSyncKvs ((.str "dest_file_newer_behaviour", .scalar (.str t)) :: rest) acc = none) ∧
    parseSyncKvs ((.other t, .scalar (.str t)) :: rest) acc = none := by
  refine ⟨rfl, rfl, rfl, rfl, ?_, rfl⟩
  intro h; simp [parseSyncKvs, strOf, h]

/-- (5) a rejected spec file is an error of `resolve_spec` (exit status 18, before any doer is launched) -/
theorem C16_malformed_is_error (k : ResolveCfg) (c : Cli) (doc : YDoc) (hc : c.specGiven = true)
    (hs : c.src = none) (hd : c.dest = none) (h : parseSpecDoc k.rules k.deployDefault doc = none) :
    resolveSpec k c doc = .error .specFile := by
  simp [resolveSpec, hc, hs, hd, h]

/-- Non-vacuity: with the extracted rules, `--all-destructive-behaviour error` over a spec file that
sets `files_same_time: skip` and an individual `--dest-file-older overwrite`. -/
example :
    let k : ResolveCfg := ⟨Generated.fieldRules, Generated.deployDefault, Generated.filtersReplace, Generated.deployFlagOverrides⟩
    let doc := YDoc.hash [(.str "syncs", .arr [.hash [(.str "src", .scalar (.str "a")), (.str "dest", .scalar (.str "b")),
                  (.str "files_same_time_behaviour", .scalar (.str "SKIP"))]])]
    let c : Cli := ⟨none, none, true, ["-x"], none, none, some .proceed, none, none, none, some .error⟩
    (match resolveSpec k c doc with
     | .ok s => decide (s = ⟨"", "", "", "", .prompt, [⟨"a", "b", ["-x"], .error, .proceed, .skip, .error, .error⟩]⟩)
     | .error _ => false) = true := by
  decide

/-- **The drive-letter special case of `[[user@]host:]path` is the one the model has**: the guard of that arm of
`RemotePathDesc::from_str`, read off the source on every run, is "one character before the first colon, and after it nothing or a
backslash" - so `h:/abs/path` names a path on host `h` (and the function splits exactly twice: at the first `:` and the first `@`). -/
theorem C16_path_desc_drive_guard :
    Generated.pathDescDriveGuard = "A.len()==1&&(B.is_empty()||B.starts_with('\\\\'))" ∧ Generated.pathDescSplits = 2 := by
  decide

/-- **The behaviours in force change only by a remembered prompt answer** (extracted from boss_sync.rs on every run): the only assignments to a
behaviour field of the sync context are the four `if let Some(b) = prompt_result.remembered_behaviour { ctx.<field> = b; }` inside the
resolution of that same field - which is what the model's `Conf` does (`the resolved settings`: nothing else, in particular not the
root-deletion gate, rewrites a behaviour after `resolve_spec`). -/
theorem C16_behaviours_change_only_by_remembered_answers :
    Generated.behaviourWrites = [("dest_entry_needs_deleting_behaviour", "remembered"), ("dest_file_newer_behaviour", "remembered"),
      ("dest_file_older_behaviour", "remembered"), ("files_same_time_behaviour", "remembered")] := by decide


end Rj.C16
