import RjModel.Lemmas.SyncLemmas
import RjModel.Lemmas.CrashLemmas
import RjModel.Lemmas.WalkOrderLemmas
import RjModel.Model.FileRecv
import RjModel.Generated.ConfirmShape
import RjModel.Model.ConfirmShape
/-! # C08 — an interrupted or failed sync can always be repaired by running it again
(the doer never leaves a file that carries the source's modification time but different bytes) -/
namespace Rj.C08
open Rj

/-- a state of the destination file that a later run cannot mistake for up to date:
untouched, or carrying a fresh (non-source) time stamp, or complete with the source's stamp -/
def GoodFile (pre : Option FileSt) (full : List UInt8) (fin : Bool) (f : Option FileSt) : Prop :=
  f = pre ∨ (∃ b k, f = some ⟨b, .fresh k⟩) ∨ (fin = true ∧ f = some ⟨full, .src⟩)

/-- where the doer's bookkeeping stands between two chunks of a transfer of which `d` has been sent -/
inductive Mid (pre : Option FileSt) (d : List Chunk) : RS → Prop
  | notStarted (k : Nat) : d = [] → Mid pre d ⟨pre, false, false, k⟩
  | open_ (k k' : Nat) : d ≠ [] → Mid pre d ⟨some ⟨fullBytes d, .fresh k'⟩, true, false, k⟩
  | failedUntouched (k : Nat) : Mid pre d ⟨pre, false, true, k⟩
  | failedFresh (b : List UInt8) (k k' : Nat) : Mid pre d ⟨some ⟨b, .fresh k'⟩, false, true, k⟩

theorem fullBytes_snoc (d : List Chunk) (c : Chunk) : fullBytes (d ++ [c]) = fullBytes d ++ c.data := by
  simp [fullBytes]

/-- One chunk (the repaired doer): whatever the fault, every state passed through is good, and —
if more chunks follow — the bookkeeping is again in one of the `Mid` positions. -/
theorem chunk_good (pre : Option FileSt) (d : List Chunk) (c : Chunk) (f : Fault) (s : RS) (h : Mid pre d s) :
    (∀ t ∈ chunkStates true s c f, GoodFile pre (fullBytes (d ++ [c])) (!c.more) t.file) ∧
    (c.more = true → Mid pre (d ++ [c]) (lastState s (chunkStates true s c f))) := by
  obtain ⟨data, more⟩ := c
  cases h with
  | notStarted k hd =>
    subst hd
    cases f <;> cases more <;>
      simp [chunkStates, lastState, GoodFile, fullBytes] <;>
      first
        | exact Mid.failedUntouched _
        | exact Mid.failedFresh _ _ _
        | (have h := Mid.open_ (pre := pre) (d := [⟨data, true⟩]) (k + 1 + 1) (k + 1) (by simp); simpa [fullBytes] using h)
        | skip
  | open_ k k' hd =>
    cases f <;> cases more <;>
      simp [chunkStates, lastState, GoodFile, fullBytes_snoc] <;>
      first
        | exact Mid.failedFresh _ _ _
        | (have h := Mid.open_ (pre := pre) (d := d ++ [⟨data, true⟩]) (k + 1) k (by simp); simpa [fullBytes_snoc] using h)
        | skip
  | failedUntouched k =>
    cases more <;> simp [chunkStates, lastState, GoodFile]
    exact Mid.failedUntouched _
  | failedFresh b k k' =>
    cases more <;> simp [chunkStates, lastState, GoodFile]
    exact Mid.failedFresh _ _ _

theorem GoodFile.weaken {pre : Option FileSt} {a b : List UInt8} {f : Option FileSt}
    (h : GoodFile pre a false f) : GoodFile pre b true f := by
  rcases h with h | h | ⟨h, _⟩
  · exact Or.inl h
  · exact Or.inr (Or.inl h)
  · cases h

theorem wellFormed_cons (c : Chunk) (r : List Chunk) (h : wellFormed (c :: r) = true) :
    (r = [] ∧ c.more = false) ∨ (r ≠ [] ∧ c.more = true ∧ wellFormed r = true) := by
  cases r with
  | nil => left; simpa [wellFormed] using h
  | cons c2 r2 => right; simp [wellFormed] at h; exact ⟨by simp, h.1, by simpa [wellFormed] using h.2⟩

theorem transfer_good (pre : Option FileSt) (r : List Chunk) : ∀ (d : List Chunk) (s : RS) (fs : List Fault),
    Mid pre d s → wellFormed r = true →
    ∀ t ∈ transferStates true s (r.zip fs), GoodFile pre (fullBytes (d ++ r)) true t.file := by
  induction r with
  | nil => intro d s fs _ hw; simp [wellFormed] at hw
  | cons c r' ih =>
    intro d s fs hm hw t ht
    cases fs with
    | nil => simp [transferStates] at ht
    | cons f fs' =>
      simp only [List.zip_cons_cons, transferStates, List.mem_append] at ht
      obtain ⟨hg, hmid⟩ := chunk_good pre d c f s hm
      rcases wellFormed_cons c r' hw with ⟨hr, hmore⟩ | ⟨hr, hmore, hw'⟩
      · subst hr
        rcases ht with ht | ht
        · have := hg t ht
          simpa [hmore] using this
        · simp [transferStates] at ht
      · rcases ht with ht | ht
        · have := hg t ht
          rw [hmore] at this
          exact this.weaken
        · have := ih (d ++ [c]) _ fs' (hmid hmore) hw' t ht
          simpa [List.append_assoc] using this

/-- **No stamped garbage**: for every previous state of the destination file (absent or any
content), every chunking of the transfer, every fault (create, write after any number of bytes,
set-time) at every chunk *while the remaining chunks are already queued and still arrive*, and every
crash point (any of the intermediate states), the destination file is untouched, or carries a fresh
time stamp, or holds exactly the source's bytes with the source's time stamp. -/
theorem C08_no_stamped_garbage (pre : Option FileSt) (cs : List Chunk) (hw : wellFormed cs = true)
    (fs : List Fault) (k : Nat) :
    ∀ t ∈ transferStates true ⟨pre, false, false, k⟩ (cs.zip fs), GoodFile pre (fullBytes cs) true t.file := by
  have := transfer_good pre cs [] ⟨pre, false, false, k⟩ fs (Mid.notStarted k rfl) hw
  simpa using this

/-- In particular a file stamped with the source's time holds the source's bytes. -/
theorem C08_stamped_means_complete (pre : Option FileSt) (hpre : ∀ b, pre ≠ some ⟨b, .src⟩) (cs : List Chunk)
    (hw : wellFormed cs = true) (fs : List Fault) (k : Nat) (t : RS) (b : List UInt8)
    (ht : t ∈ transferStates true ⟨pre, false, false, k⟩ (cs.zip fs)) (hs : t.file = some ⟨b, .src⟩) :
    b = fullBytes cs := by
  rcases C08_no_stamped_garbage pre cs hw fs k t ht with h | ⟨b', k', h⟩ | ⟨_, h⟩
  · rw [hs] at h; exact absurd h.symm (hpre b)
  · rw [hs] at h; cases h
  · rw [hs] at h; cases h; rfl

/-- The code before the repair: chunks 1..3 of a file, the write of chunk 2 fails, chunk 3 is already
queued: it arrives with no open handle, is taken for the start of a new transfer, re-creates the
file and stamps it — the destination is the last chunk only, with the source's time. -/
theorem C08_requeued_chunk_witness :
    let cs : List Chunk := [⟨[1, 2], true⟩, ⟨[3, 4], true⟩, ⟨[5], false⟩]
    (lastState ⟨none, false, false, 0⟩
      (transferStates false ⟨none, false, false, 0⟩ (cs.zip [.none, .write 0, .none]))).file = some ⟨[5], .src⟩ ∧
    fullBytes cs = [1, 2, 3, 4, 5] := by
  decide

/-- Non-vacuity: the same history through the repaired doer leaves a freshly stamped partial file,
and a fault-free transfer leaves the complete file with the source's stamp. -/
example :
    let cs : List Chunk := [⟨[1, 2], true⟩, ⟨[3, 4], true⟩, ⟨[5], false⟩]
    (lastState ⟨none, false, false, 0⟩
      (transferStates true ⟨none, false, false, 0⟩ (cs.zip [.none, .write 1, .none]))).file = some ⟨[1, 2, 3], .fresh 2⟩ ∧
    (lastState ⟨none, false, false, 0⟩
      (transferStates true ⟨some ⟨[9, 9, 9, 9, 9, 9, 9], .old⟩, false, false, 0⟩ (cs.zip [.none, .none, .none]))).file
        = some ⟨[1, 2, 3, 4, 5], .src⟩ := by
  decide

/-- **Recovery, on the file-system model.**  Whatever state an interrupted or failed run left behind —
any tree-closed destination: files cut short, left-over entries, missing folders — running the sync
again (overwriting permitted) ends `ok` in the mirror state; and a destination file whose time stamp is
**not** the source's (which `C08_no_stamped_garbage` shows for every incomplete file) ends up holding
exactly the source's bytes and time. -/
theorem C08_recovery_fs {fs0 : FS} {r : FPath} {ld : List (FPath × Node)} {src : FPath → Option SEntry}
    {ls : List (FPath × SEntry)} {vis : FPath → Bool} (hw : DestWF vis fs0 r ld) (hs : SrcWF vis src ls)
    (hsafe : ∀ p c n, (p, Node.folder) ∈ planDel src ld → fs0.get (r ++ (p ++ [c])) = some n → vis (p ++ [c]) = true) :
    ∃ fs', syncDest fs0 r src ls ld = .ok fs' ∧
      (∀ p, p ≠ [] → vis p = true → MirrorAt fs0 fs' r p (src p)) ∧
      ∀ p b m, p ≠ [] → vis p = true → src p = some (.file b m) →
        (∀ b', fs0.get (r ++ p) ≠ some (.file b' (.at m))) → fs'.get (r ++ p) = some (.file b (.at m)) := by
  obtain ⟨fs', h1, -, -, hm, -⟩ := sync_mirror hw hs hsafe
  refine ⟨fs', h1, hm, ?_⟩
  intro p b m hp hv hsrc hne
  have := hm p hp hv
  rw [hsrc] at this
  rcases this with h | ⟨b', h, -⟩
  · exact h
  · exact absurd h (hne b')

/-! ### every crash point (entry granularity) -/

/-- what a second run achieves from a destination state `fsk`, given any listing of it that is complete for what the
filters let through (`vis`) and parents-first -/
def Repairs (vis : FPath → Bool) (fs0 fsk : FS) (r : FPath) (src : FPath → Option SEntry) (ls : List (FPath × SEntry)) : Prop :=
  ∀ ld' : List (FPath × Node),
    (∀ p n, (p, n) ∈ ld' ↔ (p ≠ [] ∧ vis p = true ∧ fsk.get (r ++ p) = some n)) → ld'.Pairwise (fun a b => ¬ b.1 <+: a.1) →
    ∃ fs', syncDest fsk r src ls ld' = .ok fs' ∧
      (∀ q, ¬ r <+: q → fs'.get q = fs0.get q) ∧
      (∀ p, p ≠ [] → vis p = true → MirrorAt fsk fs' r p (src p)) ∧
      (∀ p, vis p = false → fs'.get (r ++ p) = fsk.get (r ++ p))

theorem repairs_of_closed {vis : FPath → Bool} {fs0 fsk : FS} {r : FPath} {src : FPath → Option SEntry} {ls : List (FPath × SEntry)}
    (hs : SrcWF vis src ls)
    (hroot : fsk.get r = some .folder) (hanc : ∀ k, k < r.length → fsk.get (r.take k) = some .folder)
    (hclosed : ∀ p, p ≠ [] → fsk.get (r ++ p) ≠ none → fsk.get (r ++ p.dropLast) = some .folder)
    (hout : ∀ q, ¬ r <+: q → fsk.get q = fs0.get q)
    (hsafe' : ∀ p c n, p ≠ [] → vis p = true → fsk.get (r ++ p) = some Node.folder → src p ≠ some .folder →
      fsk.get (r ++ (p ++ [c])) = some n → vis (p ++ [c]) = true) : Repairs vis fs0 fsk r src ls := by
  intro ld' hl hpf
  have hw' : DestWF vis fsk r ld' := ⟨hroot, hanc, hclosed, hl, hpf⟩
  have hsafe'' : ∀ p c n, (p, Node.folder) ∈ planDel src ld' → fsk.get (r ++ (p ++ [c])) = some n → vis (p ++ [c]) = true := by
    intro p c n hmem hc
    obtain ⟨h1, h2⟩ := mem_planDel.mp hmem
    obtain ⟨hne, hv, hg⟩ := (hl p .folder).mp h1
    apply hsafe' p c n hne hv hg ?_ hc
    intro e
    simp [needDel, e, compatible] at h2
  obtain ⟨fs', h1, h2, -, h4, h5⟩ := sync_mirror hw' hs hsafe''
  exact ⟨fs', h1, fun q hq => by rw [h2 q hq, hout q hq], h4, h5⟩

/-- **Recovery from a crash anywhere in the delete phase** (with any filters): after *any* prefix `done` of the planned
deletions — the state a crash, a lost link or a failing later call leaves behind — the calls made so far all succeeded, and
from the state they left a second run (on any listing of that state that is complete for what the filters let through and
parents-first) ends `ok`, mirrors the source at every visible path, leaves every hidden path as it is and changes nothing
outside the root. -/
theorem C08_recovery_from_crash_in_delete_phase {vis : FPath → Bool} {fs0 : FS} {r : FPath} {ld : List (FPath × Node)}
    {src : FPath → Option SEntry} {ls : List (FPath × SEntry)} (hw : DestWF vis fs0 r ld) (hs : SrcWF vis src ls)
    (hsafe : ∀ p c n, (p, Node.folder) ∈ planDel src ld → fs0.get (r ++ (p ++ [c])) = some n → vis (p ++ [c]) = true)
    (done rest : List (FPath × Node)) (hsplit : planDel src ld = done ++ rest) :
    ∃ fsk, runOps (fun f x => delOp f r x) fs0 done = .ok fsk ∧ Repairs vis fs0 fsk r src ls := by
  obtain ⟨fsk, hrun, hin, hout⟩ := run_dels_gen hw hs hsafe done rest [] fs0 (by simpa using hsplit) (by simp) (fun _ _ => rfl)
  simp only [List.nil_append] at hin
  obtain ⟨hroot, hclosed⟩ := dels_prefix_closed hw hs hsafe done rest hsplit fsk hin
  refine ⟨fsk, hrun, repairs_of_closed hs hroot ?_ hclosed hout ?_⟩
  · intro k hk
    rw [hout _ (not_prefix_of_shorter r k hk)]; exact hw.rootAnc k hk
  · -- a visible folder of the crash state that must go was already one that must go, with the same contents
    intro p c n hpne hv hg hsrc hc
    have hpn : p ∉ done.map (·.1) := by
      intro h; rw [hin p] at hg; simp [h] at hg
    have hg0 : fs0.get (r ++ p) = some .folder := by rw [hin p] at hg; simpa [hpn] using hg
    have hcn : (p ++ [c]) ∉ done.map (·.1) := by
      intro h; rw [hin (p ++ [c])] at hc; simp [h] at hc
    have hc0 : fs0.get (r ++ (p ++ [c])) = some n := by rw [hin (p ++ [c])] at hc; simpa [hcn] using hc
    have hmem : (p, Node.folder) ∈ planDel src ld := by
      refine mem_planDel.mpr ⟨(hw.listed _ _).mpr ⟨hpne, hv, hg0⟩, ?_⟩
      simp only [needDel]
      cases h2 : src p with
      | none => rfl
      | some e => cases e <;> simp_all [compatible]
    exact hsafe p c n hmem hc0

/-- **Recovery from a crash anywhere in the copy phase** (with any filters): after all deletions and *any* prefix `done` of
the planned creations, the same. -/
theorem C08_recovery_from_crash_in_copy_phase {vis : FPath → Bool} {fs0 : FS} {r : FPath} {ld : List (FPath × Node)}
    {src : FPath → Option SEntry} {ls : List (FPath × SEntry)} (hw : DestWF vis fs0 r ld) (hs : SrcWF vis src ls)
    (hsafe : ∀ p c n, (p, Node.folder) ∈ planDel src ld → fs0.get (r ++ (p ++ [c])) = some n → vis (p ++ [c]) = true)
    (done rest : List (FPath × SEntry)) (hsplit : planCpy (fun p => fs0.get (r ++ p)) ls = done ++ rest) :
    ∃ fs1 fsk, runOps (fun f x => delOp f r x) fs0 (planDel src ld) = .ok fs1 ∧
      runOps (fun f x => cpyOp f r x) fs1 done = .ok fsk ∧ Repairs vis fs0 fsk r src ls := by
  obtain ⟨fs1, hd, hd1, hd2⟩ := run_dels hw hs hsafe (planDel src ld) [] fs0 (by simp) (by simp) (fun _ _ => rfl)
  obtain ⟨fsk, hrun, hin, hout⟩ := run_cpys_gen hw hs done rest [] fs1 (by simpa using hsplit)
    (by intro q; simp only [List.map_nil, List.not_mem_nil, ↓reduceIte, afterDels]; exact hd1 q) hd2
  simp only [List.nil_append] at hin
  obtain ⟨hroot, hclosed⟩ := cpys_prefix_closed hw hs hsafe done rest hsplit fsk hin
  refine ⟨fs1, fsk, hd, hrun, repairs_of_closed hs hroot ?_ hclosed hout ?_⟩
  · intro k hk
    rw [hout _ (not_prefix_of_shorter r k hk)]; exact hw.rootAnc k hk
  · -- after the delete phase no visible folder is left that must go: the premise is contradictory
    intro p c n hpne hv hg hsrc _
    exfalso
    rw [hin p] at hg
    by_cases hpd : p ∈ done.map (·.1)
    · simp only [hpd, ↓reduceIte] at hg
      cases h2 : src p with
      | none => simp [h2] at hg
      | some e =>
        cases e with
        | folder => exact hsrc h2
        | file b m => simp [h2, written] at hg
        | link t => simp [h2, written] at hg
    · simp only [hpd, ↓reduceIte, afterDels] at hg
      by_cases hdel : p ∈ (planDel src ld).map (·.1)
      · simp [hdel] at hg
      · simp only [hdel, ↓reduceIte] at hg
        apply hdel
        refine List.mem_map.mpr ⟨(p, .folder), mem_planDel.mpr ⟨(hw.listed _ _).mpr ⟨hpne, hv, hg⟩, ?_⟩, rfl⟩
        simp only [needDel]
        cases h2 : src p with
        | none => rfl
        | some e => cases e <;> simp_all [compatible]

/-- **… and no listing has to be assumed for the second run**: a destination that is a well-formed file-system value
(one entry per path) is, after a crash anywhere in the delete phase or anywhere in the copy phase, again one; its own listing
in the order of the real walk (`listBelow`) is complete and parents-first (`C17_walk_order_listing`); so running the sync
again *on the crash state's own listing* ends `ok` in the mirror of the source. -/
theorem C08_rerun_after_any_crash_own_listing {fs0 : FS} (hwf : fs0.Wf) {r : FPath} {ld : List (FPath × Node)}
    {src : FPath → Option SEntry} {ls : List (FPath × SEntry)}
    (hw : DestWF (fun _ => true) fs0 r ld) (hs : SrcWF (fun _ => true) src ls) :
    (∀ done rest, planDel src ld = done ++ rest →
      ∃ fsk, runOps (fun f x => delOp f r x) fs0 done = .ok fsk ∧
        ∃ fs', syncDest fsk r src ls (listBelow fsk r) = .ok fs' ∧ ∀ p, p ≠ [] → MirrorAt fsk fs' r p (src p)) ∧
    (∀ done rest, planCpy (fun p => fs0.get (r ++ p)) ls = done ++ rest →
      ∃ fs1 fsk, runOps (fun f x => delOp f r x) fs0 (planDel src ld) = .ok fs1 ∧
        runOps (fun f x => cpyOp f r x) fs1 done = .ok fsk ∧
        ∃ fs', syncDest fsk r src ls (listBelow fsk r) = .ok fs' ∧ ∀ p, p ≠ [] → MirrorAt fsk fs' r p (src p)) := by
  have hsafe : ∀ p c n, (p, Node.folder) ∈ planDel src ld → fs0.get (r ++ (p ++ [c])) = some n → (fun _ => true) (p ++ [c]) = true :=
    fun _ _ _ _ _ => rfl
  -- from a repairable, well-formed crash state: run on its own listing
  have own : ∀ fsk, fsk.Wf → Repairs (fun _ => true) fs0 fsk r src ls →
      (fsk.get r = some .folder ∧ (∀ k, k < r.length → fsk.get (r.take k) = some .folder) ∧
        ∀ p, p ≠ [] → fsk.get (r ++ p) ≠ none → fsk.get (r ++ p.dropLast) = some .folder) →
      ∃ fs', syncDest fsk r src ls (listBelow fsk r) = .ok fs' ∧ ∀ p, p ≠ [] → MirrorAt fsk fs' r p (src p) := by
    intro fsk hk hrep ⟨h1, h2, h3⟩
    have hl := destWF_of_listBelow fsk hk r h1 h2 h3
    obtain ⟨fs', g1, -, g3, -⟩ := hrep (listBelow fsk r) hl.listed hl.parentFirst
    exact ⟨fs', g1, fun p hp => g3 p hp rfl⟩
  constructor
  · intro done rest hsplit
    obtain ⟨fsk, hrun, hin, hout⟩ := run_dels_gen hw hs hsafe done rest [] fs0 (by simpa using hsplit) (by simp) (fun _ _ => rfl)
    simp only [List.nil_append] at hin
    obtain ⟨hroot, hclosed⟩ := dels_prefix_closed hw hs hsafe done rest hsplit fsk hin
    obtain ⟨fsk', hrun', hrep⟩ := C08_recovery_from_crash_in_delete_phase hw hs hsafe done rest hsplit
    have e : fsk' = fsk := by rw [hrun] at hrun'; cases hrun'; rfl
    subst e
    refine ⟨fsk', hrun, own fsk' (Wf_runDels done fs0 fsk' hwf hrun) hrep ⟨hroot, ?_, hclosed⟩⟩
    intro k hk
    rw [hout _ (not_prefix_of_shorter r k hk)]; exact hw.rootAnc k hk
  · intro done rest hsplit
    obtain ⟨fs1, fsk, hd, hrun, hrep⟩ := C08_recovery_from_crash_in_copy_phase hw hs hsafe done rest hsplit
    obtain ⟨fs1', hd', hd1, hd2⟩ := run_dels hw hs hsafe (planDel src ld) [] fs0 (by simp) (by simp) (fun _ _ => rfl)
    have e1 : fs1' = fs1 := by rw [hd] at hd'; cases hd'; rfl
    subst e1
    obtain ⟨fsk', hrun', hin, hout⟩ := run_cpys_gen hw hs done rest [] fs1' (by simpa using hsplit)
      (by intro q; simp only [List.map_nil, List.not_mem_nil, ↓reduceIte, afterDels]; exact hd1 q) hd2
    have e2 : fsk' = fsk := by rw [hrun] at hrun'; cases hrun'; rfl
    subst e2
    simp only [List.nil_append] at hin
    obtain ⟨hroot, hclosed⟩ := cpys_prefix_closed hw hs hsafe done rest hsplit fsk' hin
    refine ⟨fs1', fsk', hd, hrun, own fsk' (Wf_runCpys done fs1' fsk' (Wf_runDels _ fs0 fs1' hwf hd) hrun) hrep ⟨hroot, ?_, hclosed⟩⟩
    intro k hk
    rw [hout _ (not_prefix_of_shorter r k hk)]; exact hw.rootAnc k hk

/-- **`copy_file` (the relay of a file's parts: first part creates, the last one carries the time, the size check at the end) still has the shape the model was written against** - a pin like `C03_confirm_actions_shape`: the normalised text extracted on every run
equals the copy kept in `Model/ConfirmShape.lean`. -/
theorem C08_copy_file_shape : Generated.copyFileShape = copyFileShapeRef := by rfl


/-- **The doer's `exec_command` still has the shape the doer model was written against** (a pin: the normalised text of the function in doer.rs, extracted on
every run, equals the copy in `Model/ConfirmShape.lean`).  The doer model is tied to the real doer by the L3 / `fsx` streams; this makes every edit of the
function visible, also where the streams do not reach. -/
theorem C08_exec_command_shape : Generated.execCommandShape = execCommandShapeRef := by rfl


end Rj.C08
