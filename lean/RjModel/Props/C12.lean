import RjModel.Lemmas.DoerLemmas
import RjModel.Lemmas.SyncLemmas
import RjModel.Lemmas.FilteredListing
import RjModel.Lemmas.LinkLemmas
import RjModel.Lemmas.PlannerInv
import RjModel.Generated.Walker
import RjModel.Model.Confirm
import RjModel.Generated.RootRelSrc
import RjModel.Generated.ConfirmShape
import RjModel.Model.ConfirmShape
/-! # C12 — symlinks are copied as links and never followed

Proved about the model (for every tree, every link text as a byte string, every command sequence):
* the listing treats a link as a leaf: the recursion into sub-folders is never consulted for an entry
  that is a symlink, whatever it points at (`C12_symlink_is_leaf`); the walker's source text has the
  recursion test on the un-followed file type (extracted on every run);
* deleting a link (`DeleteSymlink`, and `DeleteFile` applied to a link) and creating one change
  nothing but the link's own path (`C12_delete_link_local`, `C12_create_link_local`); a created link
  holds exactly the text `writeLinkB` gives;
* a link present on both sides is re-created iff its text differs or (the destination distinguishes
  file/folder links and the kinds differ) (`C12_recreate_iff`);
* text: a text that `RootRelativePath::try_from` accepts is sent in its normal form (which has the same
  path components) and written with the destination's separator; any other text — absolute, with a
  backslash component, not UTF-8 — is carried byte for byte (`C12_text`, `C12_verbatim`).
Validated rather than proved: that no command of a boss-driven run passes *through* a link (the
model's `escape` outcome): the L2 oracle on the implementation's traces, L3 with the doer model and
L4 snapshots of populated decoy targets. -/
namespace Rj.C12
open Rj FS

/-- the worker loop of the walker recurses on the un-followed file type (`entry.file_type()?.is_dir()`) -/
theorem C12_walker_unfollowed : Generated.walkFeatures.recursesOnUnfollowedType = true := by decide

/-- **A link is a leaf of the listing.**  Whatever the link's text, and whatever lies where it points,
the result of listing an entry that is a symlink does not depend on what listing "inside" it would
give: the sub-folder listing `sub` is never consulted.  (The same holds for files.) -/
theorem C12_symlink_is_leaf (fs : FS) (abs : List Comp) (keep : String → Bool) (root : FPath)
    (sub sub' : FPath → List (String × Details) × List ErrClass)
    (acc : List (String × Details) × List ErrClass) (p : FPath) (text : List UInt8) :
    listStep fs abs keep root sub acc (p, .symlink text) = listStep fs abs keep root sub' acc (p, .symlink text) := by
  simp only [listStep, detailsOf]

/-- a link that the filters keep contributes exactly one entry: its own, carrying its text as read -/
theorem C12_link_entry (fs : FS) (abs : List Comp) (keep : String → Bool) (root : FPath)
    (sub : FPath → List (String × Details) × List ErrClass)
    (acc : List (String × Details) × List ErrClass) (p : FPath) (text : List UInt8)
    (hname : (p.getLast?.getD []).contains '\\' = false) (hkeep : keep (relString root p) = true) :
    listStep fs abs keep root sub acc (p, .symlink text) =
      (acc.1 ++ [(relString root p, .symlink (fs.statKind abs p) (readLinkB text))], acc.2) := by
  have hn : ¬ '\\' ∈ p.getLast?.getD [] := by simpa using hname
  simp [listStep, detailsOf, hn, hkeep]

/-- an excluded entry (of any kind, a populated folder included) is neither reported nor descended -/
theorem C12_excluded_hidden (fs : FS) (abs : List Comp) (keep : String → Bool) (root : FPath)
    (sub : FPath → List (String × Details) × List ErrClass)
    (acc : List (String × Details) × List ErrClass) (e : FPath × Node)
    (hname : (e.1.getLast?.getD []).contains '\\' = false) (hkeep : keep (relString root e.1) = false) :
    listStep fs abs keep root sub acc e = acc := by
  have hn : ¬ '\\' ∈ e.1.getLast?.getD [] := by simpa using hname
  simp [listStep, hn, hkeep]

/-- **Deleting a link removes only the link**: a `DeleteSymlink` (or a `DeleteFile` naming a link) that the
doer executes changes no path other than the one it names. -/
theorem C12_delete_link_local (k : ChunkCfg) (keepOf : List FilterSpec → String → Bool) (st st' : DoerSt)
    (p : String) (kd : SymKind) (out : List Resp)
    (h : execCmd k keepOf st (.deleteSymlink p kd) = .ok st' out) :
    st'.fs = st.fs ∨ ∃ full, fullOf st p = some full ∧ ChangesOnly st st' full := by
  rcases execCmd_effect k keepOf st st' _ out h with e | ⟨p', full, hp, hf, -, hc⟩ | ⟨_, _, _, hc, _⟩
  · exact Or.inl e
  · simp only [Cmd.path?, Option.some.injEq] at hp; subst hp; exact Or.inr ⟨full, hf, hc⟩
  · cases hc

/-- **Creating a link touches only the link's path** -/
theorem C12_create_link_local (k : ChunkCfg) (keepOf : List FilterSpec → String → Bool) (st st' : DoerSt)
    (p : String) (kd : SymKind) (t : Target) (out : List Resp)
    (h : execCmd k keepOf st (.createSymlink p kd t) = .ok st' out) :
    st'.fs = st.fs ∨ ∃ full, fullOf st p = some full ∧ ChangesOnly st st' full := by
  rcases execCmd_effect k keepOf st st' _ out h with e | ⟨p', full, hp, hf, -, hc⟩ | ⟨_, _, _, hc, _⟩
  · exact Or.inl e
  · simp only [Cmd.path?, Option.some.injEq] at hp; subst hp; exact Or.inr ⟨full, hf, hc⟩
  · cases hc

/-- a successful `symlink` call stores exactly the given text at the path -/
theorem C12_created_text (fs fs' : FS) (p : FPath) (text : List UInt8) (h : fs.mksymlink p text = .ok fs') :
    fs'.get p = some (.symlink text) := by
  unfold FS.mksymlink at h
  split at h
  · simp at h
  · obtain ⟨-, h⟩ := withAnc_ok h
    by_cases hp : p = []
    · subst hp; simp [FS.get_nil] at h
    · split at h <;> simp at h; subst h; rw [FS.get_set _ _ _ _ hp]; simp

/-- **Re-created iff the text changed** (or, where the destination distinguishes file and folder
links, the kind): for a link on both sides the plan holds a deletion and a creation for it exactly then. -/
theorem C12_recreate_iff (c : PCfg) (src dst : String → Option Details) (p : String)
    (sk dk : SymKind) (st dt : Target) (hs : src p = some (.symlink sk st)) (hd : dst p = some (.symlink dk dt)) :
    ((delSpec c src dst p).isSome ↔ (st ≠ dt ∨ (sk ≠ dk ∧ c.destDiff = true))) ∧
    ((cpySpec c src dst p).isSome ↔ (st ≠ dt ∨ (sk ≠ dk ∧ c.destDiff = true))) := by
  simp only [delSpec, cpySpec, hs, hd, needsDelete, needsCopy]
  by_cases h1 : st = dt <;> by_cases h2 : sk = dk <;> by_cases hdiff : c.destDiff = true <;> simp [h1, h2, hdiff]

/-- **Text**: a link text is either carried verbatim, byte for byte (absolute, a component with a
backslash, not UTF-8), or it is valid UTF-8, accepted, and sent in its normal form … -/
theorem C12_text (b : List UInt8) :
    readLinkB b = .notNormalized b ∨
    ∃ t, decodeUtf8 b = some t ∧ refused t = false ∧ readLinkB b = .normalized (String.ofList (normalForm t)) := by
  unfold readLinkB
  cases h : decodeUtf8 b with
  | none => simp
  | some t =>
    by_cases hr : refused t = true
    · simp [hr]
    · right; exact ⟨t, rfl, by simpa using hr, by simp [hr]⟩

/-- … whose path components are those of the original text (only redundant separators and `.` go) … -/
theorem C12_normal_form_components (t : List Char) : components (normalForm t) = components t :=
  components_normalForm t

/-- … and is written with the destination's separator; verbatim text is written as it is. -/
theorem C12_verbatim (sep : Char) (b : List UInt8) : writeLinkB sep (.notNormalized b) = b := rfl

theorem C12_written_separator (sep : Char) (s : String) :
    writeLinkB sep (.normalized s) = utf8 (s.toList.map fun c => if c = '/' then sep else c) := rfl

/-- Non-vacuity: concrete texts of every class, as bytes: `a//b/./c/` is sent as `a/b/c`; an absolute
text, one with a backslash component and one that is not UTF-8 are carried verbatim. -/
example :
    readLinkB (utf8 "a//b/./c/".toList) = .normalized "a/b/c" ∧
    readLinkB (utf8 "./x".toList) = .normalized "./x" ∧
    readLinkB (utf8 "/abs//x/".toList) = .notNormalized (utf8 "/abs//x/".toList) ∧
    readLinkB (utf8 "a\\b/c".toList) = .notNormalized (utf8 "a\\b/c".toList) ∧
    readLinkB [0x63, 0x61, 0x66, 0xe9, 0x2f, 0x78] = .notNormalized [0x63, 0x61, 0x66, 0xe9, 0x2f, 0x78] := by
  decide

/-- **Nothing is reached through a link in a whole run** (destination half, on the file-system model): for every
destination tree — with symlinks to anything, anywhere — every source tree and every filter verdict, with the model's own
(filtered) listings, the sync ends `ok` or `err` and never `escape`, the outcome the model gives whenever a call would make
the kernel pass through a symlink inside the tree (an ancestor of the operated path, or its final component for the calls
that follow).  Also when a deletion fails half-way. -/
theorem C12_whole_run_never_through_a_link (keep : FPath → Bool) (S D : FS) (rs rd : FPath) (fS fD : Nat)
    (hS : SrcTreeOk S rs fS) (hD : D.Wf)
    (hroot : D.get rd = some .folder) (hanc : ∀ k, k < rd.length → D.get (rd.take k) = some .folder)
    (hclosed : ∀ p, p ≠ [] → D.get (rd ++ p) ≠ none → D.get (rd ++ p.dropLast) = some .folder)
    (hfuel : ∀ p, D.get (rd ++ p) ≠ none → p.length ≤ fD) :
    syncDest D rd (srcOfFS S rs) (lsOfFSF keep S rs fS)
      ((listNodesF keep rd D fD rd).map fun e => (e.1.drop rd.length, e.2)) ≠ .escape := by
  rcases sync_never_escapes (destWF_of_listNodesF keep D hD rd hroot hanc hclosed fD hfuel) (srcWF_of_treeF keep S rs fS hS)
    with ⟨fs', h⟩ | h <;> (rw [h]; intro e; cases e)

/-- **`RootRelativePath::is_inside`, translated from root_relative_path.rs on every run, is the model's `isInside`** (the set of methods of the
type, the struct, `root()`, `is_root` and `regex_set_matches` are checked by the same extractor; a new method - one the model lacks - or a body outside
the atom table makes `rootRelTranslated` false).  `isInside` decides which copies a kept destination entry blocks (`blockedCopies`): that nothing is
created beneath a kept link rests on it. -/
theorem C12_is_inside_is_the_sources : Generated.rootRelTranslated = true ∧ ∀ k f, Generated.isInsideSrc k f = isInside k f := by
  refine ⟨by decide, ?_⟩
  intro k f
  simp only [Generated.isInsideSrc, Generated.isRootSrc, isInside]
  by_cases h : f = ""
  · by_cases hk : k = "" <;> simp [h, hk]
  · simp [h]


/-- **The doer's `exec_command` still has the shape the doer model was written against** (a pin: the normalised text of the function in doer.rs, extracted on
every run, equals the copy in `Model/ConfirmShape.lean`).  The doer model is tied to the real doer by the L3 / `fsx` streams; this makes every edit of the
function visible, also where the streams do not reach. -/
theorem C12_exec_command_shape : Generated.execCommandShape = execCommandShapeRef := by rfl


end Rj.C12
