import RjModel.Generated.Session
import RjModel.Model.Frame
import RjModel.Generated.Constants
import RjModel.Generated.LinkSocket
/-! # C10 — the link rejects forged, altered, replayed or reordered frames -/
namespace Rj.C10
open Rj

/-- the parities of the repaired / intended configuration -/
def par : Bool → Nat := fun d => if d then 1 else 0

/-- **The source's nonce discipline** (extracted on every run): both counters advance by 2 per
frame (the incremented value is *stored*), boss sends even / receives odd, doer the reverse. -/
theorem C10_nonce_config :
    Generated.sendNonceStep = some 2 ∧ Generated.recvNonceStep = some 2 ∧
    Generated.bossSendParity = some 0 ∧ Generated.bossRecvParity = some 1 ∧
    Generated.doerSendParity = some 1 ∧ Generated.doerRecvParity = some 0 := by decide

/-- **No two frames of a session share a nonce**: the nonce determines direction and index
(`checked_add` excludes wrap-around: the sender panics rather than reuse). -/
theorem C10_nonce_unique (d d' : Bool) (i i' : Nat) (h : nonce 2 par d i = nonce 2 par d' i') : d = d' ∧ i = i' := by
  unfold nonce par at h
  cases d <;> cases d' <;> simp at h <;> first | (constructor <;> first | rfl | omega) | omega

theorem recv_prefix_gen (a : AEAD) (k : Nat) (dir : Bool) (sent : Bool → List Bytes)
    (cs : List Bytes) (hu : Unforgeable a k 2 par sent cs) (r : Recv)
    (hr : r.delivered = (sent dir).take r.idx ∧ r.idx ≤ (sent dir).length) :
    let r' := cs.foldl (recvStep a k 2 par dir) r
    r'.delivered = (sent dir).take r'.idx ∧ r'.idx ≤ (sent dir).length := by
  induction cs generalizing r with
  | nil => simpa using hr
  | cons c cs ih =>
    simp only [List.foldl_cons]
    apply ih
    · unfold Unforgeable; intro c' hc'; exact hu c' (List.mem_cons_of_mem _ hc')
    · unfold recvStep
      split
      · split
        · next p hp =>
          obtain ⟨d, i, hi, hc⟩ := hu c (List.mem_cons_self ..) _ _ hp
          have h2 := a.integrity _ _ _ _ hp
          rw [hc] at h2
          obtain ⟨hn, hp'⟩ := a.binding _ _ _ _ _ h2
          obtain ⟨hd, hii⟩ := C10_nonce_unique _ _ _ _ hn
          subst hd; subst hii
          obtain ⟨h1, _⟩ := hr
          refine ⟨?_, hi⟩
          simp only [h1]
          rw [← hp', List.take_succ_eq_append_getElem hi]
        · exact hr
      · exact hr

/-- **Prefix**: for every history of sent messages, every key and every sequence of byte strings the
network delivers — frames bit-flipped, truncated, made without the key, duplicated, reordered,
delivered after a dropped one, reflected from the other direction — the messages handed to the
receiving application are a prefix of what the other end sent: exactly once, in order. -/
theorem C10_prefix (a : AEAD) (k : Nat) (dir : Bool) (sent : Bool → List Bytes)
    (cs : List Bytes) (hu : Unforgeable a k 2 par sent cs) :
    ∃ j, j ≤ (sent dir).length ∧ (recvAll a k 2 par dir cs).delivered = (sent dir).take j := by
  have := recv_prefix_gen a k dir sent cs hu ⟨0, true, []⟩ (by simp)
  exact ⟨_, this.2, this.1⟩

/-- **Nothing after the first bad frame**: once a frame fails to open the receiver is dead and
delivers nothing further, whatever follows. -/
theorem C10_dead_stays_dead (a : AEAD) (k step : Nat) (p : Bool → Nat) (dir : Bool) (cs : List Bytes) (r : Recv)
    (h : r.alive = false) : cs.foldl (recvStep a k step p dir) r = r := by
  induction cs with
  | nil => rfl
  | cons c cs ih => simp only [List.foldl_cons]; rw [show recvStep a k step p dir r c = r by simp [recvStep, h]]; exact ih

/-- **No key, no command**: if nothing the peer sends opens under the session key, the receiving
application is handed nothing at all (the doer's first `receive` fails and `message_loop` ends). -/
theorem C10_no_key_no_command (a : AEAD) (k step : Nat) (p : Bool → Nat) (dir : Bool) (cs : List Bytes)
    (hk : ∀ c ∈ cs, ∀ n, a.dec k n c = none) :
    (recvAll a k step p dir cs).delivered = [] := by
  unfold recvAll
  cases cs with
  | nil => rfl
  | cons c cs =>
    simp only [List.foldl_cons]
    have : recvStep a k step p dir ⟨0, true, []⟩ c = ⟨0, false, []⟩ := by
      simp [recvStep, hk c (List.mem_cons_self ..)]
    rw [this, C10_dead_stays_dead _ _ _ _ _ _ _ rfl]

/-- the executable item-level model under the extracted configuration delivers a prefix `0,1,…,j-1` -/
theorem C10_items_prefix (toDoer : Bool) (items : List Item) (idx : Nat) :
    let c : LinkCfg := ⟨2, 2, 0, 1, 1, 0⟩
    ∃ j, recvItems c toDoer items idx = List.range' idx j := by
  induction items generalizing idx with
  | nil => exact ⟨0, rfl⟩
  | cons it rest ih =>
    cases it with
    | junk => exact ⟨0, rfl⟩
    | frame fd i =>
      have key : ∀ (used expected : Nat), used = (if fd then 1 else 0) + 2 * i →
          expected = (if toDoer then 0 else 1) + 2 * idx → used = expected → i = idx := by
        intro u e hu he h; subst hu; subst he
        cases toDoer <;> cases fd <;> simp at h <;> omega
      simp only [recvItems]
      by_cases h : (if fd = true then 1 else 0) + 2 * i = (if toDoer = true then 0 else 1) + 2 * idx
      · have hi := key _ _ rfl rfl h
        subst hi
        obtain ⟨j, hj⟩ := ih (i + 1)
        refine ⟨j + 1, ?_⟩
        simp only [h, ↓reduceIte]
        rw [hj, List.range'_succ]
      · refine ⟨0, ?_⟩
        simp only [h, ↓reduceIte]; rfl

/-- With a counter that never advances (the unrepaired tree: the result of `checked_add` was
discarded) a duplicated frame is delivered twice. -/
theorem C10_replay_witness :
    (recvAll toyAEAD 7 0 par false [toyAEAD.enc 7 0 [1], toyAEAD.enc 7 0 [1]]).delivered = [[1], [1]] := by decide

/-- Non-vacuity: an honest in-order history satisfies `Unforgeable` for the toy AEAD and is delivered whole. -/
example : (recvAll toyAEAD 7 2 par false [toyAEAD.enc 7 0 [5], toyAEAD.enc 7 2 [6], toyAEAD.enc 7 2 [6]]).delivered = [[5], [6]] := by
  decide

/-- **One session per key, one key per launch** (extracted from the source on every run): the remote
doer reads its key once, accepts exactly one TCP connection and builds exactly one encrypted link on it
(none of the three inside a loop), and the boss generates the key with `OsRng` inside every launch (no
process-wide key).  These are the facts that make "position in the stream" the same as "position in
the session" in `C10_prefix`/`C10_nonce_unique`: a recorded session cannot be replayed on a second
connection under the same key, and the two links of one boss — whose counters start at the same values —
never share a key. -/
theorem C10_session_features : Generated.sessionFeatures = ⟨true, true, true, true⟩ := by decide

/-- **The receiving end never gives up on a frame because of a silence**: no read time-out, no non-blocking mode on any
socket in the source (re-extracted on every run).  The rejection theorems treat the byte stream as "the next byte arrives or
the stream ends"; a receiver that abandons a frame after a silence and resynchronises on whatever comes next would hand an
attacker who can stall the link a way to drop frames unnoticed. -/
theorem C10_link_socket_plain : Generated.linkSocketPlain = true := by decide

end Rj.C10
