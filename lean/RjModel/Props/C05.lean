import RjModel.Lemmas.BossTraces
import RjModel.Generated.Sites
/-! # C05 — `--dry-run` changes nothing and predicts exactly what a real run does -/
namespace Rj.C05
open Rj

/-- **A dry run sends nothing that changes or reads file contents**: for every scenario and every
behaviour setting the source gets only `SetRoot`/`GetEntries` (not even `GetFileContent`) and the
destination gets no mutating command (so `CreateRootAncestors` is not sent either). -/
theorem C05_dry_readonly (w : Wrap) (sc : Scenario) (hd : sc.dryRun = true) :
    (∀ c ∈ (run w sc).srcTrace, (∃ r, c = .setRoot r) ∨ (∃ f, c = .getEntries f)) ∧
    (∀ c ∈ (run w sc).destTrace, c.mutating = false) := by
  have A : Allowed sc.dryRun (fun c => (∃ r, c = .setRoot r) ∨ (∃ f, c = .getEntries f)) (fun c => c.mutating = false) (fun f => compileFilters w.pre w.post sc.filters = some f) :=
    ⟨fun r => Or.inl ⟨r, rfl⟩, fun f _ => Or.inr ⟨f, rfl⟩, fun h => by simp [hd] at h, fun _ => rfl, fun _ _ => rfl, fun _ => rfl,
     fun h => by simp [hd] at h⟩
  exact run_ok w sc A

/-- **The same on the source text**: every site that sends a mutating command to the destination,
and the site that fetches file contents from the source, sits inside an `if !ctx.dry_run` block. -/
theorem C05_sites_guarded :
    ∀ s ∈ Generated.sites,
      (s.handle = "dest" ∧ s.variant ∈ ["CreateRootAncestors", "CreateOrUpdateFile", "CreateSymlink", "CreateFolder",
                                          "DeleteFile", "DeleteFolder", "DeleteSymlink", "Opaque"]) ∨
      (s.handle = "src" ∧ s.variant = "GetFileContent") → s.dryGuarded = true := by
  decide

/-- all seven action kinds have a site in the source (the guard theorem is not vacuous) -/
theorem C05_sites_present :
    ∀ v ∈ ["CreateRootAncestors", "CreateOrUpdateFile", "CreateSymlink", "CreateFolder", "DeleteFile", "DeleteFolder",
           "DeleteSymlink", "GetFileContent"], ∃ s ∈ Generated.sites, s.variant = v := by
  decide

def wouldDelete (c : Ctx) (e : String × (Details × DelReason)) : String :=
  s!"Would delete {c.prettyDest e.1 (kindName e.2.1)}"

theorem poll_none (x : XState) : (x.poll none).1 = false := by simp [XState.poll]

/-- **Prediction, deletions**: with the same plan, the dry run prints one "Would delete" line per
planned deletion, in the order in which the real run sends the delete commands, and both count the
same statistics. -/
theorem C05_prediction_deletes (c : Ctx) (l : List (String × (Details × DelReason))) (x : XState) (st : Stats) :
    let dry := deleteLoop { c with dryRun := true } none l x st
    let real := deleteLoop { c with dryRun := false } none l x st
    dry.1 = none ∧ real.1 = none ∧
    dry.2.1.log = x.log ++ l.map (wouldDelete c) ∧ dry.2.1.dest = x.dest ∧
    real.2.1.dest = x.dest ++ l.map (fun e => deleteCmd e.1 e.2.1) ∧ real.2.1.log = x.log ∧
    dry.2.2 = real.2.2 := by
  induction l generalizing x st with
  | nil => simp [deleteLoop]
  | cons e rest ih =>
    obtain ⟨p, d, r⟩ := e
    simp only [deleteLoop, poll_none, Bool.false_eq_true, ↓reduceIte]
    have := ih ((delStepState { c with dryRun := true } x p d).poll none).2 (st.addDelete d)
    have h2 := ih ((delStepState { c with dryRun := false } x p d).poll none).2 (st.addDelete d)
    obtain ⟨a1, _, a3, a4, _, _, a7⟩ := this
    obtain ⟨_, b2, _, _, b5, b6, b7⟩ := h2
    refine ⟨a1, b2, ?_, ?_, ?_, ?_, ?_⟩
    · rw [a3]; simp [delStepState, XState.poll, XState.info, wouldDelete, Ctx.prettyDest]
    · rw [a4]; simp [delStepState, XState.poll, XState.info]
    · rw [b5]; simp [delStepState, XState.poll, XState.sendDest]
    · rw [b6]; simp [delStepState, XState.poll, XState.sendDest]
    · -- the statistics do not depend on the traces
      have key : ∀ (l : List (String × (Details × DelReason))) (x y : XState) (st : Stats),
          (deleteLoop { c with dryRun := true } none l x st).2.2 = (deleteLoop { c with dryRun := false } none l y st).2.2 := by
        intro l
        induction l with
        | nil => intros; rfl
        | cons e rest ih2 =>
          intro x y st
          obtain ⟨p, d, r⟩ := e
          simp only [deleteLoop, poll_none, Bool.false_eq_true, ↓reduceIte]
          exact ih2 _ _ _
      exact key rest _ _ _

/-- **Prediction, copies (per entry)**: whenever the real copy of an entry succeeds, the dry run
counts it exactly as the real run does (files once per file, not once per chunk), and prints one
line for it. -/
theorem C05_prediction_copy_entry (c : Ctx) (files : List (String × FileScript)) (p : String) (d : Details)
    (x y x' : XState) (st st' : Stats)
    (h : copyOne { c with dryRun := false } none files p d x st = (none, x', st')) :
    (copyOne { c with dryRun := true } none files p d y st).1 = none ∧
    (copyOne { c with dryRun := true } none files p d y st).2.2 = st' ∧
    (copyOne { c with dryRun := true } none files p d y st).2.1.log.length = y.log.length + 1 ∧
    (copyOne { c with dryRun := true } none files p d y st).2.1.dest = y.dest := by
  cases d with
  | file mtime size =>
    simp only [copyOne, Bool.false_eq_true, ↓reduceIte, copyFileReal] at h ⊢
    generalize chunkLoop none p size mtime (fileScript files p) (x.sendSrc (.getFileContent p)) 0 = r at h
    obtain ⟨e, xx, off⟩ := r
    cases e with
    | some e => simp at h
    | none =>
      simp only at h
      by_cases ho : off = size
      · simp only [ho, ne_eq, not_true_eq_false, ↓reduceIte, Prod.mk.injEq, true_and] at h
        exact ⟨trivial, h.2, by simp [XState.info], rfl⟩
      · simp [ho] at h
  | folder =>
    simp only [copyOne, Bool.false_eq_true, ↓reduceIte, Prod.mk.injEq, true_and] at h ⊢
    exact ⟨h.2, by simp [XState.info], rfl⟩
  | symlink k t =>
    simp only [copyOne, Bool.false_eq_true, ↓reduceIte, Prod.mk.injEq, true_and] at h ⊢
    exact ⟨h.2, by simp [XState.info], rfl⟩

/-- Non-vacuity: a dry run over a plan with a deletion and a copy prints two lines and a summary,
and sends nothing mutating. -/
example :
    let sc : Scenario := { srcRoot := "S", destRoot := "D", dryRun := true, beh := ⟨.proceed, .proceed, .skip, .proceed, .proceed⟩,
                           filters := [], srcReply := .details (some .folder) false '/', destReply := .details (some .folder) false '/',
                           destReply2 := .other, events := [.entry .src "f" (.file 5 1), .entry .dest "g" (.file 1 1), .endOf .src, .endOf .dest],
                           answers := [], files := [], errAtPoll := none }
    (run ⟨"^(?:", ")$"⟩ sc).destTrace = [.setRoot "D", .getEntries [], .marker .copying, .marker .done] ∧
    (run ⟨"^(?:", ")$"⟩ sc).log.length = 4 := by
  decide

end Rj.C05
