import RjModel.Model.Chunks
import RjModel.Model.Boss
import RjModel.Generated.Constants
/-! # C11 — file contents are transferred exactly, whatever the length -/
namespace Rj.C11
open Rj

/-- **The chunks are the file.**  For every file, every chunk configuration and every schedule of
short reads, the concatenation of the emitted chunks is the file. -/
theorem C11_chunks_concat {α : Type} (k : ChunkCfg) (file : List α) (sched : List Nat) (chunk nextLen : Nat) (prev : List α) :
    ((reader k file sched chunk nextLen prev).map (·.1)).flatten = prev ++ file := by
  fun_induction reader k file sched chunk nextLen prev with
  | case1 prev => simp
  | case2 file sched chunk nextLen prev h want n data rest out next ih =>
    simp only [List.map_append, List.flatten_append, ih]
    have : data ++ rest = file := List.take_append_drop n file
    by_cases hp : prev = []
    · simp [out, hp, this]
    · simp [out, hp, this]

theorem C11_file_concat {α : Type} (k : ChunkCfg) (file : List α) (sched : List Nat) :
    ((readFile k file sched).map (·.1)).flatten = file := by
  simpa [readFile] using C11_chunks_concat k file sched k.first k.first []

/-- **Exactly the last chunk says "no more".** -/
theorem C11_chunks_flags {α : Type} (k : ChunkCfg) (file : List α) (sched : List Nat) (chunk nextLen : Nat) (prev : List α) :
    ∃ pre last, reader k file sched chunk nextLen prev = pre ++ [(last, false)] ∧ ∀ c ∈ pre, c.2 = true := by
  fun_induction reader k file sched chunk nextLen prev with
  | case1 => exact ⟨[], _, rfl, by simp⟩
  | case2 file sched chunk nextLen prev h want n data rest out next ih =>
    obtain ⟨pre, last, he, hall⟩ := ih
    refine ⟨out ++ pre, last, by rw [he, List.append_assoc], ?_⟩
    intro c hc
    rcases List.mem_append.mp hc with h1 | h1
    · by_cases hp : prev = []
      · simp [out, hp] at h1
      · simp [out, hp] at h1; simp [h1]
    · exact hall c h1

/-- **No empty chunk** is emitted unless it is the single chunk of an empty file. -/
theorem C11_chunks_nonempty {α : Type} (k : ChunkCfg) (file : List α) (sched : List Nat) (chunk nextLen : Nat) (prev : List α)
    (_hp : prev ≠ [] ∨ file = []) :
    ∀ c ∈ reader k file sched chunk nextLen prev, c.1 = [] → (prev = [] ∧ file = []) := by
  fun_induction reader k file sched chunk nextLen prev with
  | case1 prev => intro c hc h0; simp at hc; subst hc; exact ⟨h0, rfl⟩
  | case2 file sched chunk nextLen prev h want n data rest out next ih =>
    intro c hc h0
    have hd : data ≠ [] := by
      have : file.length ≠ 0 := by intro e; exact h (List.length_eq_zero_iff.mp e)
      intro e; have := congrArg List.length e
      simp only [data, n, List.length_take, List.length_nil] at this; omega
    rcases List.mem_append.mp hc with h1 | h1
    · by_cases hp' : prev = []
      · simp [out, hp'] at h1
      · simp [out, hp'] at h1; subst h1; exact absurd h0 hp'
    · have := ih (Or.inl hd) c h1 h0
      exact absurd this.1 hd

/-- **Every chunk fits the maximum**: no chunk is longer than the buffer it was read into, which
never exceeds `max first small maxc`. -/
theorem C11_chunks_bounded {α : Type} (k : ChunkCfg) (B : Nat) (hs : k.small ≤ B) (hm : k.maxc ≤ B)
    (file : List α) (sched : List Nat) (chunk nextLen : Nat) (prev : List α)
    (hn : nextLen ≤ B) (hp : prev.length ≤ B) (h1 : 1 ≤ B) :
    ∀ c ∈ reader k file sched chunk nextLen prev, c.1.length ≤ B := by
  fun_induction reader k file sched chunk nextLen prev with
  | case1 prev => intro c hc; simp at hc; subst hc; exact hp
  | case2 file sched chunk nextLen prev h want n data rest out next ih =>
    intro c hc
    have hwant : want ≤ nextLen := by
      simp only [want]; split
      · exact Nat.le_refl _
      · exact Nat.min_le_right _ _
    have hnB : n ≤ B := by simp only [n]; omega
    have hdata : data.length ≤ B := by simp only [data, List.length_take]; omega
    have hnext : next.2 ≤ B := by
      simp only [next]; split
      · exact hs
      · exact Nat.le_trans (Nat.min_le_right _ _) hm
    rcases List.mem_append.mp hc with h2 | h2
    · by_cases hp' : prev = []
      · simp [out, hp'] at h2
      · simp [out, hp'] at h2; subst h2; exact hp
    · exact ih hnext hdata c h2

/-- the length-only reader is the reader -/
theorem C11_lens_eq {α : Type} (k : ChunkCfg) (file : List α) (sched : List Nat) (chunk nextLen : Nat) (prev : List α) :
    (reader k file sched chunk nextLen prev).map (fun c => (c.1.length, c.2)) =
      readerLens k file.length sched chunk nextLen prev.length := by
  fun_induction reader k file sched chunk nextLen prev with
  | case1 => rw [readerLens.eq_def]; simp
  | case2 file sched chunk nextLen prev h want n data rest out next ih =>
    have hl : file.length ≠ 0 := by intro e; exact h (List.length_eq_zero_iff.mp e)
    rw [readerLens.eq_def]
    simp only [hl, ↓reduceDIte, List.map_append]
    have hd : data.length = n := by simp only [data, n, List.length_take]; omega
    have hr : rest.length = file.length - n := by simp [rest]
    rw [ih, hd, hr]
    congr 1
    by_cases hp : prev = []
    · simp [out, hp]
    · have : prev.length ≠ 0 := by intro e; exact hp (List.length_eq_zero_iff.mp e)
      simp [out, hp, this]

/-- The configuration extracted from the current source. -/
def cfg? : Option ChunkCfg := do
  let f ← Generated.firstChunk; let g ← Generated.chunkGrowth
  let m ← Generated.maxChunk; let s ← Generated.smallBuf
  pure ⟨f, g, m, s⟩

/-- **The largest chunk fits the frame buffers** (`encrypted_comms.rs:48,84`): with the constants of
the current source, every chunk (≤ max(first, small, max)) plus the bincode framing of a
`CreateOrUpdateFile` with a path of up to 4096 bytes (4+8+path+8+data+1+12+1), the AEAD tag (16) and
the 8-byte length prefix is within the fixed buffer. -/
theorem C11_frame_fits :
    ∃ k buf, cfg? = some k ∧ Generated.frameBuffer = some buf ∧
      k.first ≤ k.maxc ∧ k.small ≤ k.maxc ∧ 1 ≤ k.maxc ∧
      8 + (4 + 8 + 4096 + 8 + k.maxc + 1 + 12 + 1) + 16 ≤ buf := by
  refine ⟨⟨4096, 2, 4194304, 32⟩, 8388608, by decide, by decide, by decide, by decide, by decide, by decide⟩

/-- Non-vacuity / shape: 12388 bytes are sent as 4096, 8192, 100 (the chunking the real binary shows). -/
example : readFileLens ⟨4096, 2, 4194304, 32⟩ 12388 [] = [(4096, true), (8192, true), (100, false)] := by
  simp [readFileLens, readerLens]

end Rj.C11

namespace Rj.C11
open Rj

/-- the chunks of a script the boss consumes: up to and including the first `more = false` -/
def consumed : FileScript → FileScript
  | [] => []
  | (d, more) :: rest => if more then (d, more) :: consumed rest else [(d, more)]

def terminated : FileScript → Bool
  | [] => false
  | (_, more) :: rest => if more then terminated rest else true

def total (s : FileScript) : Nat := (s.map (·.1.length)).sum

/-- **Relay, success direction.**  If the chunk loop ends without error and with the expected number
of bytes, then (for every poll schedule) the source stream was properly terminated, its consumed
chunks total exactly the listed size, and exactly those chunks were forwarded to the destination, in
order, the time stamp on the last one only. -/
theorem C11_relay_ok (errAt : Option Nat) (p : String) (size : Nat) (mtime : Int) (s : FileScript)
    (x x' : XState) (off off' : Nat)
    (h : chunkLoop errAt p size mtime s x off = (none, x', off')) (hsz : off' = size) :
    terminated s = true ∧ off + total (consumed s) = size ∧
    x'.dest = x.dest ++ (consumed s).map (fun c => chunkCmd p c.1 mtime c.2) ∧
    x'.src = x.src := by
  induction s generalizing x off with
  | nil => simp [chunkLoop] at h
  | cons c rest ih =>
    obtain ⟨d, more⟩ := c
    simp only [chunkLoop] at h
    by_cases hov : off + d.length > size
    · simp [hov] at h
    · simp only [hov, ↓reduceIte] at h
      cases more with
      | true =>
        simp only [↓reduceIte] at h
        split at h
        · cases h
        · obtain ⟨t, hsum, hd, hs⟩ := ih _ _ h
          refine ⟨by simpa [terminated] using t, ?_, ?_, ?_⟩
          · simp only [consumed, total, List.map_cons, List.sum_cons, ↓reduceIte] at hsum ⊢
            omega
          · rw [hd]; simp [consumed, XState.poll, XState.sendDest]
          · rw [hs]; simp [XState.poll, XState.sendDest]
      | false =>
        simp only [Bool.false_eq_true, ↓reduceIte] at h
        split at h
        · cases h
        · cases h
          refine ⟨by simp [terminated], ?_, ?_, ?_⟩
          · simp only [consumed, total, Bool.false_eq_true, ↓reduceIte, List.map_cons, List.map_nil,
              List.sum_cons, List.sum_nil]; omega
          · simp [consumed, XState.poll, XState.sendDest]
          · simp [XState.poll, XState.sendDest]

/-- **Relay, failure direction.**  If the source's stream is not terminated or its consumed chunks
do not total the listed size — the file grew or shrank at any moment between listing and the last
read — the copy of that file does not succeed, whatever the poll schedule. -/
theorem C11_relay_err (errAt : Option Nat) (p : String) (size : Nat) (mtime : Int) (s : FileScript)
    (x : XState) (hbad : terminated s = false ∨ total (consumed s) ≠ size) :
    ∀ x' off', chunkLoop errAt p size mtime s x 0 = (none, x', off') → off' ≠ size := by
  intro x' off' h hsz
  obtain ⟨t, hsum, _, _⟩ := C11_relay_ok errAt p size mtime s x x' 0 off' h hsz
  rcases hbad with hb | hb
  · simp [t] at hb
  · exact hb (by omega)

/-- `copy_file` as a whole: it succeeds only if the stream is terminated and totals the listed size. -/
theorem C11_copy_file_ok (c : Ctx) (hdry : c.dryRun = false) (errAt : Option Nat) (files : List (String × FileScript))
    (p : String) (mtime : Int) (size : Nat) (x x' : XState) (st st' : Stats)
    (h : copyOne c errAt files p (.file mtime size) x st = (none, x', st')) :
    terminated (fileScript files p) = true ∧ total (consumed (fileScript files p)) = size := by
  simp only [copyOne, hdry, Bool.false_eq_true, ↓reduceIte, copyFileReal] at h
  generalize hr : chunkLoop errAt p size mtime (fileScript files p) (x.sendSrc (.getFileContent p)) 0 = r at h
  obtain ⟨e, xx, off⟩ := r
  cases e with
  | some e => simp at h
  | none =>
    simp only at h
    by_cases hoff : off = size
    · obtain ⟨t, hsum, _, _⟩ := C11_relay_ok errAt p size mtime _ _ _ 0 off hr hoff
      exact ⟨t, by omega⟩
    · simp [hoff] at h

/-- Non-vacuity: a 3-chunk stream that totals the size succeeds; the same stream against a size of 0
or with one extra chunk at the boundary (the two shapes the unrepaired code accepted) fails. -/
example :
    let s : FileScript := [([1, 2], true), ([3], true), ([4, 5], false)]
    let x0 : XState := ⟨[], [], [], 0⟩
    (chunkLoop none "f" 5 7 s x0 0).1 = none ∧ (chunkLoop none "f" 5 7 s x0 0).2.2 = 5 ∧
    (chunkLoop none "f" 0 7 [([9], false)] x0 0).1 = some .sizeChanged ∧
    (chunkLoop none "f" 3 7 s x0 0).1 = some .sizeChanged := by
  decide

end Rj.C11
