import RjModel.Model.Shutdown
import RjModel.Generated.Shutdown
import RjModel.Generated.Skeletons
import RjModel.Lemmas.RunLemmas
import RjModel.Generated.RunSkel
/-! # C09 — every run terminates, also when something breaks mid-transfer -/
namespace Rj.C09
open Rj Rj.Shut

/-- the shutdown / query skeleton of the source is the one the theorems are proved for -/
theorem C09_skeleton_matches : Generated.shutdownFeatures = ShutFeatures.ref := by decide

/-- **Shutdown never gets stuck, whatever is queued**: while the doer has not exited, some step is
enabled — for every capacity and every occupancy (below, at, above the capacity), however many
responses the doer still wants to send. -/
theorem C09_shutdown_no_deadlock (cap : Nat) (s : SState) (h : s.doerExited = false) :
    ∃ a, (sstep true cap s a).isSome := by
  by_cases hq : s.queued = 0
  · by_cases hp : s.pending = 0
    · exact ⟨.doerExit, by simp [sstep, h, hp]⟩
    · exact ⟨.doerSend, by simp [sstep, h, hq]; omega⟩
  · exact ⟨.bossDrain, by simp [sstep]; omega⟩

/-- **…and it terminates under every schedule**: every enabled step strictly decreases
`2·pending + queued + [doer alive]`, so there is no infinite execution. -/
theorem C09_shutdown_measure (cap : Nat) (s s' : SState) (a : SAct) (h : sstep true cap s a = some s') :
    smeasure s' < smeasure s := by
  cases a <;> simp only [sstep] at h
  · split at h <;> try cases h
    next hc => simp only [smeasure]; obtain ⟨h1, h2, h3⟩ := hc; simp [h1]; omega
  · split at h <;> try cases h
    next hc => simp only [smeasure]; obtain ⟨h1, h2⟩ := hc; simp [h1]
  · split at h <;> try cases h
    next hc => simp only [smeasure]; omega

/-- The code before the repair (the boss only joins): with more than the capacity queued and the doer
still wanting to send, nothing is enabled — the hang that was observed. -/
theorem C09_hang_witness : ∀ a, sstep false 10 ⟨5, 11, false⟩ a = none := by
  intro a; cases a <;> decide

/-- **The query loop tolerates a spuriously ready select** (repaired: non-blocking receive): from
every state in which a listing is still outstanding, a step is enabled; a spurious wake-up changes
nothing and the loop can go on. -/
theorem C09_query_no_deadlock (s : QS) (hb : s.blocked = false) (h : s.srcLeft + s.destLeft > 0) :
    ∃ a, (qstep true s a).isSome := by
  by_cases hs : s.srcLeft > 0
  · exact ⟨.recv .src, by simp [qstep, hs, hb]⟩
  · have hd : s.destLeft > 0 := by omega
    exact ⟨.recv .dest, by simp [qstep, hd, hb]⟩

/-- the repaired loop never becomes blocked: `blocked` is preserved by every step -/
theorem C09_query_never_blocks (s s' : QS) (a : QAct) (hb : s.blocked = false) (h : qstep true s a = some s') :
    s'.blocked = false := by
  cases a with
  | recv side => cases side <;> simp [qstep, hb] at h <;> obtain ⟨_, h⟩ := h <;> subst h <;> rfl
  | spurious side => simp [qstep, hb] at h; subst h; exact hb

theorem C09_query_spurious_harmless (s : QS) (hb : s.blocked = false) (side : Side) :
    qstep true s (.spurious side) = some s := by
  cases side <;> simp [qstep, hb]

/-- before the repair a spurious wake-up for a side that has nothing more to send blocks the boss for good -/
theorem C09_query_hang_witness :
    qstep false ⟨0, 3, false⟩ (.spurious .src) = some ⟨0, 3, true⟩ ∧
    ∀ a, qstep false ⟨0, 3, true⟩ a = none := by
  constructor
  · decide
  · intro a; cases a <;> (try cases ‹Side›) <;> decide

/-- **A sender waiting for space is released when its receiver is gone** (the wait loop checks the
flag the receiver sets when it is dropped — feature extracted from the source on every run), so a
boss sending a command to a dead connection with more than the capacity queued gets the
disconnection error instead of spinning forever. -/
theorem C09_sender_released_when_receiver_gone : Generated.channelFeatures.waitChecksReceiverGone = true := by decide

/-- Non-vacuity: from "above capacity" the repaired shutdown reaches the exited state. -/
example : (List.foldl (fun (s : Option SState) a => s.bind fun s => sstep true 2 s a) (some ⟨1, 3, false⟩)
            [.bossDrain, .bossDrain, .bossDrain, .doerSend, .bossDrain, .doerExit]) = some ⟨0, 0, true⟩ := by
  decide

open Rj.Run in
/-- **Every doer that was launched is shut down exactly once, on every path of `execute_spec`** (a failed second launch, a
failing sync at any position, the normal end) - on the control skeleton extracted from the current source; so no path
hands control back with a doer thread or a remote doer process still waiting for commands. -/
theorem C09_every_launched_comms_shut_down_once (srcOk destOk : Bool) (outs : List Bool)
    (hs : Generated.runSkelRecognised = true ∧ Generated.runSkel = RunSkel.ref) :
    let r := executeSpec Generated.runSkel srcOk destOk outs
    r.srcShutdowns = (if r.srcLaunched then 1 else 0) ∧ r.destShutdowns = (if r.destLaunched then 1 else 0) := by
  rw [hs.2]; exact every_launched_comms_shut_down_once srcOk destOk outs

open Rj.Run in
theorem C09_run_skeleton_matches : Generated.runSkelRecognised = true ∧ Generated.runSkel = RunSkel.ref := by decide

end Rj.C09
