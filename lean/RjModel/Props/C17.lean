import RjModel.Lemmas.ListingLemmas
import RjModel.Lemmas.FilteredListing
import RjModel.Lemmas.WalkOrderLemmas
import RjModel.Lemmas.WalkerLemmas
import RjModel.Generated.Walker
import RjModel.Generated.ConfirmShape
import RjModel.Model.ConfirmShape
import RjModel.Lemmas.TryFromLemmas
/-! # C17 — the directory walk lists every included entry exactly once and always finishes -/
namespace Rj.C17
open Rj Rj.Walker

/-- the worker loop of the source has the protocol features the theorems are proved for -/
theorem C17_skeleton_matches : Generated.walkFeatures = WalkFeatures.ref := by decide

/-- **The walk always finishes**: every atomic step of any worker or of the consumer strictly
decreases the potential `phi`, so there is no infinite execution — for every tree, every number of
workers, every result-queue bound and every schedule. -/
theorem C17_terminates (n cap : Nat) (s s' : St) (a : Act) (h : step n cap s a = some s') : phi n s' < phi n s :=
  phi_decreases n cap s s' a h

theorem sumWc_quiet (i : Nat) (ws : List WS) (h : ∀ w ∈ ws, w = .exited ∨ w = .idle) : sumWc i ws = 0 := by
  induction ws with
  | nil => rfl
  | cons w rest ih =>
    have hw := h w (List.mem_cons_self ..)
    have := ih (fun x hx => h x (List.mem_cons_of_mem _ hx))
    rcases hw with rfl | rfl <;> simp [sumWc, WS.c, this]

theorem total_init (i n : Nat) (root : List T) : total i (St.init n root) = cnts i root := by
  simp [total, St.init, sumJc, Job.c, sumWc_idle, cntL]

/-- **Exactly once, nothing hidden**: for every tree, every number of workers, every queue bound and
every schedule — once the walk is over (no job, no result in flight, every worker idle or exited) the
consumer has received every id exactly as often as it occurs among the entries the filters keep
(`cnts` counts nothing at or beneath a skipped entry: an excluded folder is never descended, and a
symlink is a leaf), i.e. every included entry once and nothing else. -/
theorem C17_exactly_once (i n cap : Nat) (root : List T) (sched : List Act)
    (hq : (runSched n cap (St.init n root) sched).jobs = [])
    (hr : (runSched n cap (St.init n root) sched).results = [])
    (hw : ∀ w ∈ (runSched n cap (St.init n root) sched).ws, w = .exited ∨ w = .idle) :
    cntL i (runSched n cap (St.init n root) sched).consumed = cnts i root := by
  have h := total_runSched i n cap sched (St.init n root)
  rw [total_init] at h
  generalize runSched n cap (St.init n root) sched = s at *
  simp only [total, hq, hr, sumJc, cntL, sumWc_quiet i _ hw] at h
  omega

/-- at every moment of every execution nothing has been delivered more often than it should be -/
theorem C17_never_twice (i n cap : Nat) (root : List T) (sched : List Act) :
    cntL i (runSched n cap (St.init n root) sched).consumed ≤ cnts i root := by
  have h := total_runSched i n cap sched (St.init n root)
  rw [total_init] at h
  generalize runSched n cap (St.init n root) sched = s at *
  simp only [total] at h
  omega

/-- an excluded folder hides everything beneath it, whatever the verdicts inside -/
theorem C17_no_descend (i id : Nat) (kids : List T) : T.cnt i (.dir id true kids) = 0 := by
  simp [T.cnt]

/-- Non-vacuity: two workers, a tree with an excluded folder and a nested folder; one complete
schedule delivers exactly the four visible ids. -/
example :
    let root : List T := [.leaf 1 false, .dir 2 false [.leaf 3 false, .dir 4 true [.leaf 5 false]], .leaf 6 true, .dir 7 false []]
    let s := runSched 2 1000 (St.init 2 root)
      [.take 0, .entry 0, .entry 0, .inc 0, .enq 0, .take 1, .entry 1, .entry 1, .fin 1, .entry 0, .entry 0, .inc 0, .enq 0, .fin 0,
       .take 0, .fin 0, .take 0, .take 1, .consume, .consume, .consume, .consume]
    s.consumed = [1, 2, 3, 7] ∧ s.jobs.length = 0 ∧ s.results = [] ∧
    s.ws.all (fun w => match w with | .exited => true | _ => false) = true := by
  decide

/-! ### the listing as a function of the file-system model (what the walk computes, schedule-free) -/

/-- **Every entry exactly once, folders before their contents** — on the file-system model: the listing
of a directory (`listNodes`: every child, each real folder followed by its own listing; a symlink is a
leaf) holds exactly the nodes strictly below the directory that are reachable through real folders —
each of them (given fuel for the depth), nothing else, none twice — and nothing listed later is a prefix
of (or equal to) something listed earlier. -/
theorem C17_listing_exact_fs (fs : FS) (hw : fs.Wf) (f : Nat) (dir : FPath) :
    (∀ p n, (p, n) ∈ listNodes fs f dir → fs.get p = some n ∧ dir <+: p ∧ p ≠ dir) ∧
    (∀ rest n, rest ≠ [] → rest.length ≤ f → fs.get (dir ++ rest) = some n →
      (∀ k, 0 < k → k < rest.length → fs.get (dir ++ rest.take k) = some .folder) → (dir ++ rest, n) ∈ listNodes fs f dir) ∧
    (listNodes fs f dir).Pairwise (fun a b => ¬ b.1 <+: a.1) ∧
    ((listNodes fs f dir).map (·.1)).Nodup := by
  refine ⟨fun p n h => ?_, fun rest n h1 h2 h3 h4 => listNodes_complete fs f dir rest n h1 h2 h3 h4,
    listNodes_parentFirst fs hw f dir, ?_⟩
  · obtain ⟨a, b, c, -⟩ := listNodes_sound fs hw f dir p n h; exact ⟨a, b, c⟩
  · unfold List.Nodup
    rw [List.pairwise_map]
    refine (listNodes_parentFirst fs hw f dir).imp ?_
    intro a b h e
    apply h
    rw [e]; exact List.prefix_refl _

/-- **`GetEntries` is that listing**: without filters and with every entry reportable (no backslash in a
name, no special file, no time before the epoch) the doer model's `GetEntries` answers exactly the
entries of `listNodes`, each with its root-relative path and details, and no error. -/
theorem C17_getentries_is_listing (fs : FS) (abs : List Comp) (root : FPath) (f : Nat) (dir : FPath)
    (hgood : ∀ e ∈ listNodes fs f dir, Reportable fs abs e) :
    listDir fs abs (fun _ => true) root f dir =
      ((listNodes fs f dir).map fun e => (relString root e.1, detOr fs abs e), []) :=
  listDir_eq_listNodes fs abs root f dir hgood

/-- **Every *included* entry exactly once, folders before their contents, excluded folders not entered** — the
listing under filters (`listNodesF`; `keep` judges the path relative to the root `r`, which lies at or above `dir`):
it reports a node iff the node is reachable through real folders **and it and every ancestor below `dir` are kept**
(so nothing beneath an excluded folder, whatever the filters say about it); it is a sub-list of the unfiltered
listing, hence parents first and without repetition. -/
theorem C17_listing_exact_filtered (keep : FPath → Bool) (r : FPath) (fs : FS) (hw : fs.Wf) (f : Nat) (dir : FPath) :
    (∀ p n, (p, n) ∈ listNodesF keep r fs f dir → fs.get p = some n ∧ dir <+: p ∧ p ≠ dir ∧
      ∀ k, dir.length < k → k ≤ p.length → keep ((p.take k).drop r.length) = true) ∧
    (∀ rest n, rest ≠ [] → rest.length ≤ f → fs.get (dir ++ rest) = some n →
      (∀ k, 0 < k → k < rest.length → fs.get (dir ++ rest.take k) = some .folder) →
      (∀ k, 0 < k → k ≤ rest.length → keep ((dir ++ rest.take k).drop r.length) = true) →
      (dir ++ rest, n) ∈ listNodesF keep r fs f dir) ∧
    (listNodesF keep r fs f dir).Pairwise (fun a b => ¬ b.1 <+: a.1) ∧
    ((listNodesF keep r fs f dir).map (·.1)).Nodup := by
  have hsub := listNodesF_sublist keep r fs f dir
  obtain ⟨-, -, hpf, hnd⟩ := C17_listing_exact_fs fs hw f dir
  refine ⟨fun p n h => ?_, fun rest n h1 h2 h3 h4 h5 => listNodesF_complete keep r fs f dir rest n h1 h2 h3 h4 h5,
    hpf.sublist hsub, hnd.sublist (hsub.map _)⟩
  obtain ⟨a, b, c, -⟩ := listNodes_sound fs hw f dir p n (hsub.subset h)
  exact ⟨a, b, c, listNodesF_kept keep r fs hw f dir p n h⟩

/-- **`GetEntries` with filters is that listing**: the doer model's walk — its filter judges the root-relative path
*string* (`keep'`), the listing function the relative *component path* (`keep`), the two agreeing (`hkk`) — answers
exactly the entries of `listNodesF`, each with its root-relative path and details, and no error (every entry
reportable). -/
theorem C17_getentries_is_filtered_listing (fs : FS) (abs : List Comp) (keep' : String → Bool) (keep : FPath → Bool)
    (root : FPath) (hkk : ∀ p, keep' (relString root p) = keep (p.drop root.length)) (f : Nat) (dir : FPath)
    (hgood : ∀ e ∈ listNodes fs f dir, Reportable fs abs e) :
    listDir fs abs keep' root f dir =
      ((listNodesF keep root fs f dir).map fun e => (relString root e.1, detOr fs abs e), []) :=
  listDir_eq_listNodesF fs abs keep' keep root hkk f dir hgood

/-- non-vacuity: `-b` hides `b` and with it `b/x` (which `+b/x` alone would let through); `a` stays -/
example :
    let fs : FS := ⟨[([['a']], .folder), ([['b']], .folder), ([['b'], ['x']], .file [] (.at 0)), ([['a'], ['y']], .file [] (.at 0))]⟩
    let keep : FPath → Bool := fun p => p != [['b']]
    (listNodesF keep [] fs 3 []).map (·.1) = [[['a']], [['a'], ['y']]] ∧
    (listNodes fs 3 []).map (·.1) = [[['a']], [['a'], ['y']], [['b']], [['b'], ['x']]] := by
  decide

/-- **The listing in the order of the real walk** (a whole directory before descending: `listBelow`, by depth) also holds
exactly the entries below the root, parents first: it meets the listing assumptions of the mirror, recovery and
never-through-a-link theorems, which therefore speak about the objects of the `syncdest` / `syncprefixes` driver commands
(whose listings are given in the order `read_dir` produced them) as well. -/
theorem C17_walk_order_listing (fs : FS) (hw : fs.Wf) (r : FPath)
    (hroot : fs.get r = some .folder) (hanc : ∀ k, k < r.length → fs.get (r.take k) = some .folder)
    (hclosed : ∀ p, p ≠ [] → fs.get (r ++ p) ≠ none → fs.get (r ++ p.dropLast) = some .folder) :
    DestWF (fun _ => true) fs r (listBelow fs r) :=
  destWF_of_listBelow fs hw r hroot hanc hclosed

/-- **The doer's listing functions still have the shape the listing model was written against** (pins: the normalised texts of `filter_func` and
`handle_get_entries` in doer.rs, extracted on every run, equal the copies in `Model/ConfirmShape.lean`): the path an entry is listed under is the one
relative to the root, once; every entry the walk yields is sent; then the end marker. -/
theorem C17_listing_shape : Generated.filterFuncShape = filterFuncShapeRef ∧ Generated.handleGetEntriesShape = handleGetEntriesShapeRef := ⟨by rfl, by rfl⟩


/-- **The path an entry is listed under** (`RootRelativePath::try_from`, whose loop is translated from root_relative_path.rs on every run - which characters
refuse a component, what goes between two components): for components as a directory walk yields them (not empty, no slash of either kind) the result is
the components joined by single slashes - the model's `joinSlash`, the spelling every planner and doer theorem uses; a component with a slash or a
backslash in it refuses the whole path (the entry is reported as an error, not listed under another name). -/
theorem C17_try_from_is_join : Generated.tryFromTranslated = true ∧
    (∀ comps, (∀ c ∈ comps, GoodC c) → Generated.tryFromSrc comps = some (joinSlash comps)) ∧
    (∀ pre c post, (∀ x ∈ pre, GoodC x) → ('/' ∈ c ∨ '\\' ∈ c) → Generated.tryFromSrc (pre ++ c :: post) = none) :=
  ⟨by decide, tryFrom_good, tryFrom_refuses⟩

example : Generated.tryFromSrc ["proj".toList, "proj".toList, "main.py".toList] = some "proj/proj/main.py".toList := by decide
example : Generated.tryFromSrc ["a".toList, "b\\c".toList] = none := by decide


end Rj.C17
