import RjModel.Lemmas.WalkerLemmas
import RjModel.Generated.Walker
/-! # C17 — the directory walk lists every included entry exactly once and always finishes -/
namespace Rj.C17
open Rj Rj.Walker

/-- the worker loop of the source has the protocol features the theorems are proved for -/
theorem C17_skeleton_matches : Generated.walkFeatures = WalkFeatures.ref := by decide

/-- **The walk always finishes**: every atomic step of any worker or of the consumer strictly
decreases the potential `phi`, so there is no infinite execution — for every tree, every number of
workers, every result-queue bound and every schedule. -/
theorem C17_terminates (n cap : Nat) (s s' : St) (a : Act) (h : step n cap s a = some s') : phi n s' < phi n s :=
  phi_decreases n cap s s' a h

theorem sumWc_quiet (i : Nat) (ws : List WS) (h : ∀ w ∈ ws, w = .exited ∨ w = .idle) : sumWc i ws = 0 := by
  induction ws with
  | nil => rfl
  | cons w rest ih =>
    have hw := h w (List.mem_cons_self ..)
    have := ih (fun x hx => h x (List.mem_cons_of_mem _ hx))
    rcases hw with rfl | rfl <;> simp [sumWc, WS.c, this]

theorem total_init (i n : Nat) (root : List T) : total i (St.init n root) = cnts i root := by
  simp [total, St.init, sumJc, Job.c, sumWc_idle, cntL]

/-- **Exactly once, nothing hidden**: for every tree, every number of workers, every queue bound and
every schedule — once the walk is over (no job, no result in flight, every worker idle or exited) the
consumer has received every id exactly as often as it occurs among the entries the filters keep
(`cnts` counts nothing at or beneath a skipped entry: an excluded folder is never descended, and a
symlink is a leaf), i.e. every included entry once and nothing else. -/
theorem C17_exactly_once (i n cap : Nat) (root : List T) (sched : List Act)
    (hq : (runSched n cap (St.init n root) sched).jobs = [])
    (hr : (runSched n cap (St.init n root) sched).results = [])
    (hw : ∀ w ∈ (runSched n cap (St.init n root) sched).ws, w = .exited ∨ w = .idle) :
    cntL i (runSched n cap (St.init n root) sched).consumed = cnts i root := by
  have h := total_runSched i n cap sched (St.init n root)
  rw [total_init] at h
  generalize runSched n cap (St.init n root) sched = s at *
  simp only [total, hq, hr, sumJc, cntL, sumWc_quiet i _ hw] at h
  omega

/-- at every moment of every execution nothing has been delivered more often than it should be -/
theorem C17_never_twice (i n cap : Nat) (root : List T) (sched : List Act) :
    cntL i (runSched n cap (St.init n root) sched).consumed ≤ cnts i root := by
  have h := total_runSched i n cap sched (St.init n root)
  rw [total_init] at h
  generalize runSched n cap (St.init n root) sched = s at *
  simp only [total] at h
  omega

/-- an excluded folder hides everything beneath it, whatever the verdicts inside -/
theorem C17_no_descend (i id : Nat) (kids : List T) : T.cnt i (.dir id true kids) = 0 := by
  simp [T.cnt]

/-- Non-vacuity: two workers, a tree with an excluded folder and a nested folder; one complete
schedule delivers exactly the four visible ids. -/
example :
    let root : List T := [.leaf 1 false, .dir 2 false [.leaf 3 false, .dir 4 true [.leaf 5 false]], .leaf 6 true, .dir 7 false []]
    let s := runSched 2 1000 (St.init 2 root)
      [.take 0, .entry 0, .entry 0, .inc 0, .enq 0, .take 1, .entry 1, .entry 1, .fin 1, .entry 0, .entry 0, .inc 0, .enq 0, .fin 0,
       .take 0, .fin 0, .take 0, .take 1, .consume, .consume, .consume, .consume]
    s.consumed = [1, 2, 3, 7] ∧ s.jobs.length = 0 ∧ s.results = [] ∧
    s.ws.all (fun w => match w with | .exited => true | _ => false) = true := by
  decide

end Rj.C17
