import RjModel.Model.Exe
/-! # C19 — a deployed binary is a faithful, runnable, self-propagating copy

The model `Rj.Exe` is the four functions of `exe_utils.rs` on byte lists with every Rust failure mode
explicit; it is tied to the code **byte for byte** (outputs, errors and panics) by the L1
correspondence.  The general round-trip statement for every valid layout is *not* proved here (see
DESIGN.md, C19: partial); what is proved: the field access lemmas the surgery rests on, and the
negation of "a malformed executable is rejected with an error rather than a crash" by concrete
witnesses, which replay on the real code (known finding C19-F9). -/
namespace Rj.C19
open Rj.Exe

theorem length_leBytes (n v : Nat) : (leBytes n v).length = n := by
  induction n generalizing v with
  | zero => rfl
  | succ k ih => simp [leBytes, ih]

theorem leVal_leBytes (n v : Nat) (h : v < 256 ^ n) : leVal (leBytes n v) = v := by
  induction n generalizing v with
  | zero => simp at h; subst h; rfl
  | succ k ih =>
    have hk : v / 256 < 256 ^ k := by
      rw [Nat.pow_succ] at h
      exact Nat.div_lt_of_lt_mul (by rw [Nat.mul_comm]; exact h)
    simp only [leBytes, leVal, ih _ hk, UInt8.toNat_ofNat']
    omega

/-- **Field write/read round trip**: a value written with `write_field` at an in-range offset is read
back by `read_field`, and the vector keeps its length (the basis of every header update). -/
theorem C19_field_roundtrip (b : Bytes) (off size v : Nat) (hr : off + size ≤ b.length) (hw : off + size < U64)
    (hv : v < 256 ^ size) :
    ∃ b', writeField b off size v = .ok b' ∧ b'.length = b.length ∧ readField b' off size = .ok v := by
  have ho : off ≤ b.length := by omega
  refine ⟨b.take off ++ leBytes size v ++ b.drop (off + size), ?_, ?_, ?_⟩
  · simp [writeField, add, hw, hr, Bind.bind, R.bind]
  · simp [length_leBytes]; omega
  · have hl : (b.take off ++ leBytes size v ++ b.drop (off + size)).length = b.length := by
      simp [length_leBytes]; omega
    have hd : ((b.take off ++ leBytes size v ++ b.drop (off + size)).drop off).take size = leBytes size v := by
      rw [List.append_assoc, List.drop_append_of_le_length (by simp [ho])]
      have : (b.take off).drop off = [] := by simp [ho]
      simp [List.length_take, ho, length_leBytes]
    simp only [readField, add, hw, ↓reduceIte, Bind.bind, R.bind, hl, hr, hd, leVal_leBytes size v hv]

/-- bytes outside the field are untouched -/
theorem C19_field_write_frame (b : Bytes) (off size v : Nat) (hr : off + size ≤ b.length) (hw : off + size < U64) (i : Nat)
    (hi : i < off ∨ off + size ≤ i) :
    ∀ b', writeField b off size v = .ok b' → b'[i]? = b[i]? := by
  intro b' h
  simp only [writeField, add, hw, ↓reduceIte, Bind.bind, R.bind, hr] at h
  cases h
  have ho : off ≤ b.length := by omega
  rcases hi with hi | hi
  · rw [List.append_assoc, List.getElem?_append_left (by simp; omega)]
    simp [List.getElem?_take, hi]
  · rw [List.getElem?_append_right (by simp [length_leBytes]; omega)]
    simp only [List.length_append, List.length_take, length_leBytes, Nat.min_eq_left ho, List.getElem?_drop]
    congr 1; omega

/-- **Malformed input can crash** (1): an ELF header whose section-table offset is 2^64-1: the
offset arithmetic overflows (dev profile: panic) instead of giving an error. -/
theorem C19_elf_overflow_witness :
    let hdr : Bytes := [0x7f, 0x45, 0x4c, 0x46, 2, 1, 1] ++ zeros 33 ++ [255, 255, 255, 255, 255, 255, 255, 255] ++ zeros 10 ++ [64, 0, 1, 0, 0, 0]
    addElf hdr [0x2e, 0x78] [1, 2, 3] = .panic ∧ extractElf hdr [0x2e, 0x78] = .panic := by
  decide

def pe1 : Bytes := [0, 0, 0, 0, 0, 0, 0, 0, 0, 0, 0, 0, 0, 0, 0, 0, 0, 0, 0, 0, 0, 0, 0, 0, 0, 0, 0, 0, 0, 0, 0, 0, 0, 0, 0, 0, 0, 0, 0, 0, 0, 0, 0, 0, 0, 0, 0, 0, 0, 0, 0, 0, 0, 0, 0, 0, 0, 0, 0, 0, 64, 0, 0, 0, 80, 69, 0, 0, 0, 0, 1, 0, 0, 0, 0, 0, 0, 0, 0, 0, 0, 0, 0, 0, 240, 0, 0, 0, 0, 0, 0, 0, 0, 0, 0, 0, 0, 0, 0, 0, 0, 0, 0, 0, 0, 0, 0, 0, 0, 0, 0, 0, 0, 0, 0, 0, 0, 0, 0, 0, 16, 0, 0, 0, 16, 0, 0, 0, 0, 0, 0, 0, 0, 0, 0, 0, 0, 0, 0, 0, 0, 0, 0, 0, 0, 0, 0, 0, 0, 0, 0, 0, 0, 0, 0, 0, 0, 0, 0, 0, 0, 0, 0, 0, 0, 0, 0, 0, 0, 0, 0, 0, 0, 0, 0, 0, 0, 0, 0, 0, 0, 0, 0, 0, 0, 0, 0, 0, 0, 0, 0, 0, 0, 0, 0, 0, 0, 0, 0, 0, 0, 0, 0, 0, 0, 0, 0, 0, 0, 0, 0, 0, 0, 0, 0, 0, 0, 0, 0, 0, 0, 0, 0, 0, 0, 0, 0, 0, 0, 0, 0, 0, 0, 0, 0, 0, 0, 0, 0, 0, 0, 0, 0, 0, 0, 0, 0, 0, 0, 0, 0, 0, 0, 0, 0, 0, 0, 0, 0, 0, 0, 0, 0, 0, 0, 0, 0, 0, 0, 0, 0, 0, 0, 0, 0, 0, 0, 0, 0, 0, 0, 0, 0, 0, 0, 0, 0, 0, 0, 0, 0, 0, 0, 0, 0, 0, 0, 0, 0, 0, 0, 0, 0, 0, 0, 0, 0, 0, 0, 0, 0, 0, 0, 0, 0, 0, 0, 0, 0, 0, 0, 0, 0, 0, 0, 0, 0, 0, 46, 115, 48, 0, 0, 0, 0, 0, 5, 0, 0, 0, 16, 0, 0, 0, 16, 0, 0, 0, 160, 1, 0, 0, 0, 0, 0, 0, 0, 0, 0, 0, 0, 0, 0, 0, 0, 0, 0, 0, 0, 0, 0, 0, 0, 0, 0, 0, 0, 0, 0, 0, 0, 0, 0, 0, 0, 0, 0, 0, 0, 0, 0, 0, 0, 0, 0, 0, 0, 0, 0, 0, 0, 0, 0, 0, 0, 0, 0, 0, 0, 0, 0, 0, 0, 0, 0, 0, 65, 30, 126, 194, 115, 0, 0, 0, 0, 0, 0, 0, 0, 0, 0, 0]

/-- (2) a well-formed PE image and an **empty payload**: `align(0, FileAlignment)` underflows. -/
theorem C19_pe_empty_payload_witness : addPe pe1 [0x2e, 0x72] [] = .panic := by
  decide +kernel

/-- non-vacuity of the model on the same image: with a payload it succeeds, and extraction returns
the payload padded with zeros to the file alignment (16) — a *test* on one image, not the theorem -/
example : (match addPe pe1 [0x2e, 0x72] [1, 2] with
           | .ok out => decide (extractPe out [0x2e, 0x72] = .ok (some ([1, 2] ++ zeros 14)))
           | _ => false) = true := by
  decide +kernel

def pe2 : Bytes := [0, 0, 0, 0, 0, 0, 0, 0, 0, 0, 0, 0, 0, 0, 0, 0, 0, 0, 0, 0, 0, 0, 0, 0, 0, 0, 0, 0, 0, 0, 0, 0, 0, 0, 0, 0, 0, 0, 0, 0, 0, 0, 0, 0, 0, 0, 0, 0, 0, 0, 0, 0, 0, 0, 0, 0, 0, 0, 0, 0, 68, 0, 0, 0, 0, 0, 0, 0, 80, 69, 0, 0, 0, 0, 1, 0, 0, 0, 0, 0, 0, 0, 0, 0, 0, 0, 0, 0, 64, 0, 0, 0, 0, 0, 0, 0, 0, 0, 0, 0, 0, 0, 0, 0, 0, 0, 0, 0, 0, 0, 0, 0, 0, 0, 0, 0, 0, 0, 0, 0, 0, 0, 0, 0, 16, 0, 0, 0, 16, 0, 0, 0, 0, 0, 0, 0, 0, 0, 0, 0, 0, 0, 0, 0, 0, 0, 0, 0, 0, 0, 0, 0, 0, 0, 0, 0, 46, 115, 48, 0, 0, 0, 0, 0, 16, 0, 0, 0, 16, 0, 0, 0, 16, 0, 0, 0, 208, 0, 0, 0, 0, 0, 0, 0, 0, 0, 0, 0, 0, 0, 0, 0, 0, 0, 0, 0, 0, 0, 0, 0, 0, 0, 0, 0, 0, 0, 0, 0, 228, 177, 71, 200, 194, 249, 221, 29, 43, 245, 49, 21, 108, 253, 216, 70]

/-- (3) **Known finding C19-F10**: one section, `FileAlignment` 16, only 8 bytes between the section table and the
first raw data: `add_section_to_pe` makes room by inserting *one* file alignment (16 bytes), which with the
gap is less than the 40 bytes of the section header it then writes — the header runs into the first
section's raw data.  The call succeeds, the payload reads back, but the bytes of section 0 (16 bytes at
offset 208 of the input, at 224 of the output) are **not** the original ones.  (The model is of the code as
it is: this replays on the real function, byte for byte.) -/
theorem C19_pe_small_alignment_witness :
    (match addPe pe2 [0x2e, 0x72] [1, 2, 3, 4] with
     | .ok out => decide ((out.drop 224).take 16 ≠ (pe2.drop 208).take 16) &&
                  decide (extractPe out [0x2e, 0x72] = .ok (some ([1, 2, 3, 4] ++ zeros 12)))
     | _ => false) = true := by
  decide +kernel

end Rj.C19
