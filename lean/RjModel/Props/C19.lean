import RjModel.Model.Exe
import RjModel.Lemmas.ExeLemmas
import RjModel.Lemmas.PeLemmas4
/-! # C19 — a deployed binary is a faithful, runnable, self-propagating copy

The model `Rj.Exe` is the four functions of `exe_utils.rs` on byte lists with every Rust failure mode
explicit; it is tied to the code **byte for byte** (outputs, errors and panics) by the L1
correspondence.  Proved here: for **ELF64** the general round trip and the preservation statement for
every image that meets the explicit, decidable layout predicate `ValidElf` and every payload
(`C19_elf_roundtrip`, `C19_elf_preserved`; helper lemmas in `Lemmas/ExeLemmas.lean`); the field access
lemmas the surgery rests on; and the negation of "a malformed executable is rejected with an error
rather than a crash" by concrete witnesses, which replay on the real code (known finding C19-F9).
For **PE** the round trip and the preservation statement are proved too, for every image meeting `ValidPe`
(`C19_pe_roundtrip`, `C19_pe_preserved`); what stays outside the theorems: images outside the two layout predicates, and
that a loader accepts the result (DESIGN.md, C19) - for small file alignments
the code was wrong until this session (`C19_pe_small_alignment_repaired`, finding C19-F10, fixed in /repo). -/
namespace Rj.C19
open Rj.Exe

/-- **Field write/read round trip**: a value written with `write_field` at an in-range offset is read
back by `read_field`, and the vector keeps its length (the basis of every header update). -/
theorem C19_field_roundtrip (b : Bytes) (off size v : Nat) (hr : off + size ≤ b.length) (hw : off + size < U64)
    (hv : v < 256 ^ size) :
    ∃ b', writeField b off size v = .ok b' ∧ b'.length = b.length ∧ readField b' off size = .ok v := by
  have ho : off ≤ b.length := by omega
  refine ⟨b.take off ++ leBytes size v ++ b.drop (off + size), ?_, ?_, ?_⟩
  · simp [writeField, add, hw, hr, Bind.bind, R.bind]
  · simp [length_leBytes]; omega
  · have hl : (b.take off ++ leBytes size v ++ b.drop (off + size)).length = b.length := by
      simp [length_leBytes]; omega
    have hd : ((b.take off ++ leBytes size v ++ b.drop (off + size)).drop off).take size = leBytes size v := by
      rw [List.append_assoc, List.drop_append_of_le_length (by simp [ho])]
      have : (b.take off).drop off = [] := by simp [ho]
      simp [List.length_take, ho, length_leBytes]
    simp only [readField, add, hw, ↓reduceIte, Bind.bind, R.bind, hl, hr, hd, leVal_leBytes size v hv]

/-- bytes outside the field are untouched -/
theorem C19_field_write_frame (b : Bytes) (off size v : Nat) (hr : off + size ≤ b.length) (hw : off + size < U64) (i : Nat)
    (hi : i < off ∨ off + size ≤ i) :
    ∀ b', writeField b off size v = .ok b' → b'[i]? = b[i]? := by
  intro b' h
  simp only [writeField, add, hw, ↓reduceIte, Bind.bind, R.bind, hr] at h
  cases h
  have ho : off ≤ b.length := by omega
  rcases hi with hi | hi
  · rw [List.append_assoc, List.getElem?_append_left (by simp; omega)]
    simp [List.getElem?_take, hi]
  · rw [List.getElem?_append_right (by simp [length_leBytes]; omega)]
    simp only [List.length_append, List.length_take, length_leBytes, Nat.min_eq_left ho, List.getElem?_drop]
    congr 1; omega

/-- **Malformed input can crash** (1): an ELF header whose section-table offset is 2^64-1: the
offset arithmetic overflows (dev profile: panic) instead of giving an error. -/
theorem C19_elf_overflow_witness :
    let hdr : Bytes := [0x7f, 0x45, 0x4c, 0x46, 2, 1, 1] ++ zeros 33 ++ [255, 255, 255, 255, 255, 255, 255, 255] ++ zeros 10 ++ [64, 0, 1, 0, 0, 0]
    addElf hdr [0x2e, 0x78] [1, 2, 3] = .panic ∧ extractElf hdr [0x2e, 0x78] = .panic := by
  decide

def pe1 : Bytes := [0, 0, 0, 0, 0, 0, 0, 0, 0, 0, 0, 0, 0, 0, 0, 0, 0, 0, 0, 0, 0, 0, 0, 0, 0, 0, 0, 0, 0, 0, 0, 0, 0, 0, 0, 0, 0, 0, 0, 0, 0, 0, 0, 0, 0, 0, 0, 0, 0, 0, 0, 0, 0, 0, 0, 0, 0, 0, 0, 0, 64, 0, 0, 0, 80, 69, 0, 0, 0, 0, 1, 0, 0, 0, 0, 0, 0, 0, 0, 0, 0, 0, 0, 0, 240, 0, 0, 0, 0, 0, 0, 0, 0, 0, 0, 0, 0, 0, 0, 0, 0, 0, 0, 0, 0, 0, 0, 0, 0, 0, 0, 0, 0, 0, 0, 0, 0, 0, 0, 0, 16, 0, 0, 0, 16, 0, 0, 0, 0, 0, 0, 0, 0, 0, 0, 0, 0, 0, 0, 0, 0, 0, 0, 0, 0, 0, 0, 0, 0, 0, 0, 0, 0, 0, 0, 0, 0, 0, 0, 0, 0, 0, 0, 0, 0, 0, 0, 0, 0, 0, 0, 0, 0, 0, 0, 0, 0, 0, 0, 0, 0, 0, 0, 0, 0, 0, 0, 0, 0, 0, 0, 0, 0, 0, 0, 0, 0, 0, 0, 0, 0, 0, 0, 0, 0, 0, 0, 0, 0, 0, 0, 0, 0, 0, 0, 0, 0, 0, 0, 0, 0, 0, 0, 0, 0, 0, 0, 0, 0, 0, 0, 0, 0, 0, 0, 0, 0, 0, 0, 0, 0, 0, 0, 0, 0, 0, 0, 0, 0, 0, 0, 0, 0, 0, 0, 0, 0, 0, 0, 0, 0, 0, 0, 0, 0, 0, 0, 0, 0, 0, 0, 0, 0, 0, 0, 0, 0, 0, 0, 0, 0, 0, 0, 0, 0, 0, 0, 0, 0, 0, 0, 0, 0, 0, 0, 0, 0, 0, 0, 0, 0, 0, 0, 0, 0, 0, 0, 0, 0, 0, 0, 0, 0, 0, 0, 0, 0, 0, 0, 0, 0, 0, 0, 0, 0, 0, 0, 0, 46, 115, 48, 0, 0, 0, 0, 0, 5, 0, 0, 0, 16, 0, 0, 0, 16, 0, 0, 0, 160, 1, 0, 0, 0, 0, 0, 0, 0, 0, 0, 0, 0, 0, 0, 0, 0, 0, 0, 0, 0, 0, 0, 0, 0, 0, 0, 0, 0, 0, 0, 0, 0, 0, 0, 0, 0, 0, 0, 0, 0, 0, 0, 0, 0, 0, 0, 0, 0, 0, 0, 0, 0, 0, 0, 0, 0, 0, 0, 0, 0, 0, 0, 0, 0, 0, 0, 0, 65, 30, 126, 194, 115, 0, 0, 0, 0, 0, 0, 0, 0, 0, 0, 0]

/-- (2) a well-formed PE image and an **empty payload**: `align(0, FileAlignment)` underflows. -/
theorem C19_pe_empty_payload_witness : addPe pe1 [0x2e, 0x72] [] = .panic := by
  decide +kernel

/-- non-vacuity of the model on the same image: with a payload it succeeds, and extraction returns
the payload padded with zeros to the file alignment (16) — a *test* on one image, not the theorem -/
example : (match addPe pe1 [0x2e, 0x72] [1, 2] with
           | .ok out => decide (extractPe out [0x2e, 0x72] = .ok (some ([1, 2] ++ zeros 14)))
           | _ => false) = true := by
  decide +kernel

def pe2 : Bytes := [0, 0, 0, 0, 0, 0, 0, 0, 0, 0, 0, 0, 0, 0, 0, 0, 0, 0, 0, 0, 0, 0, 0, 0, 0, 0, 0, 0, 0, 0, 0, 0, 0, 0, 0, 0, 0, 0, 0, 0, 0, 0, 0, 0, 0, 0, 0, 0, 0, 0, 0, 0, 0, 0, 0, 0, 0, 0, 0, 0, 68, 0, 0, 0, 0, 0, 0, 0, 80, 69, 0, 0, 0, 0, 1, 0, 0, 0, 0, 0, 0, 0, 0, 0, 0, 0, 0, 0, 64, 0, 0, 0, 0, 0, 0, 0, 0, 0, 0, 0, 0, 0, 0, 0, 0, 0, 0, 0, 0, 0, 0, 0, 0, 0, 0, 0, 0, 0, 0, 0, 0, 0, 0, 0, 16, 0, 0, 0, 16, 0, 0, 0, 0, 0, 0, 0, 0, 0, 0, 0, 0, 0, 0, 0, 0, 0, 0, 0, 0, 0, 0, 0, 0, 0, 0, 0, 46, 115, 48, 0, 0, 0, 0, 0, 16, 0, 0, 0, 16, 0, 0, 0, 16, 0, 0, 0, 208, 0, 0, 0, 0, 0, 0, 0, 0, 0, 0, 0, 0, 0, 0, 0, 0, 0, 0, 0, 0, 0, 0, 0, 0, 0, 0, 0, 0, 0, 0, 0, 228, 177, 71, 200, 194, 249, 221, 29, 43, 245, 49, 21, 108, 253, 216, 70]

/-- (3) **Finding C19-F10, repaired in /repo (dedda2b)**: one section, `FileAlignment` 16, only 8 bytes between the section
table and the first raw data.  `add_section_to_pe` used to make room by inserting *one* file alignment (16 bytes), which
with the gap is less than the 40 bytes of the section header it then writes - the header ran into the first section's raw
data.  It now inserts as many whole file alignments as the header needs (here 32): the 16 bytes of section 0 (offset 208 of
the input) are found unchanged at 240, where the updated `PointerToRawData` (header field at 156+20) points, and the payload
reads back.  (A *test* on the image that exposed the defect; it replays on the real function, byte for byte.) -/
theorem C19_pe_small_alignment_repaired :
    (match addPe pe2 [0x2e, 0x72] [1, 2, 3, 4] with
     | .ok out => decide ((out.drop 240).take 16 = (pe2.drop 208).take 16) &&
                  decide (leVal ((out.drop 176).take 4) = 240) &&
                  decide (extractPe out [0x2e, 0x72] = .ok (some ([1, 2, 3, 4] ++ zeros 12)))
     | _ => false) = true := by
  decide +kernel

/-! ### ELF64: the general statements -/

/-- **ELF round trip, for every valid layout and every payload**: if the image is an ELF64 file of the
layout `add_section_to_elf` is written for (`ValidElf`: little-endian V1 header, section header table
last, headers of at least 40 bytes, the section-names section behind the ELF header and in front of the
table, every section name a terminated string inside it and different from the new name, no offset
overflow; the new name NUL-free and shorter than 32 bytes) and the sizes stay below 2^64, then adding
the section succeeds and extracting it from the result returns exactly the payload - any number of
sections, any position of the names section, any header size, any payload including the empty one. -/
theorem C19_elf_roundtrip (b name payload : Bytes) (v : ValidElf b name)
    (hsz : b.length + payload.length + 2 ^ 17 < U64) :
    ∃ out, addElf b name payload = .ok out ∧ extractElf out name = .ok (some payload) :=
  C19_elf_roundtrip_aux b name payload v hsz

/-- **ELF preservation**: in the result, every byte below the end of the names section except the two
header fields `e_shoff` (40..47) and `e_shnum` (60,61) is the input's; the bytes from there to the old
section header table are the input's moved up by the inserted name (`name.length + 1`); the payload and
then the old section header table follow, the table changed only in the names section's size (longer by
the inserted name) and in the file offsets of the sections whose data lies at or behind the insertion point, whatever their
index (moved by the same amount; the repair of finding C19-F12) - so every section's contents are found, unchanged, where the result's header for it points,
and every segment that lies in front of the names section's end loads as before. -/
theorem C19_elf_preserved (b name payload : Bytes) (v : ValidElf b name)
    (hsz : b.length + payload.length + 2 ^ 17 < U64) :
    ∃ out T2, addElf b name payload = .ok out ∧ tableOk b name T2 ∧
      (∀ j, j < eNamesOff b + eNamesSize b → ¬ (40 ≤ j ∧ j < 48) → ¬ (60 ≤ j ∧ j < 62) → out[j]? = b[j]?) ∧
      (∀ j, eNamesOff b + eNamesSize b ≤ j → j < eShoff b → out[j + (name.length + 1)]? = b[j]?) ∧
      (∀ j, j < eNum b * eEntsize b → out[eShoff b + (name.length + 1) + payload.length + j]? = T2[j]?) ∧
      eShoff out = eShoff b + (name.length + 1) + payload.length ∧ eNum out = eNum b + 1 :=
  addElf_preserved b name payload v hsz

/-- **ELF: every old section is found, unchanged, where the result's header for it points** - whatever the order of the
sections in the file and in the table (this is what finding C19-F12 violated for layouts whose file order and table order
disagree; proved after the repair): for a section other than the names section that lies behind the ELF header, in front of the
section header table, and does not straddle the insertion point, the bytes at the offset its header in the RESULT holds are
the bytes it had in the input. -/
theorem C19_elf_sections_preserved (b name payload : Bytes) (v : ValidElf b name)
    (hsz : b.length + payload.length + 2 ^ 17 < U64) :
    ∃ out, addElf b name payload = .ok out ∧
      ∀ idx, idx < eNum b → idx ≠ eStrndx b →
        64 ≤ secField b idx 0x18 8 → secField b idx 0x18 8 + secField b idx 0x20 8 ≤ eShoff b →
        (secField b idx 0x18 8 + secField b idx 0x20 8 ≤ eNamesOff b + eNamesSize b ∨ eNamesOff b + eNamesSize b ≤ secField b idx 0x18 8) →
        slice out (leVal (slice out (eShoff out + idx * eEntsize b + 0x18) 8)) (secField b idx 0x20 8) =
          slice b (secField b idx 0x18 8) (secField b idx 0x20 8) :=
  addElf_sections_preserved b name payload v hsz

/-- a 196-byte ELF64 image: header, a names section `"\0.s\0"` at 64, the null section and the names section -/
def elf1 : Bytes := [127, 69, 76, 70, 2, 1, 1, 0, 0, 0, 0, 0, 0, 0, 0, 0, 0, 0, 0, 0, 0, 0, 0, 0, 0, 0, 0, 0, 0, 0, 0, 0, 0, 0, 0, 0, 0, 0, 0, 0, 68, 0, 0, 0, 0, 0, 0, 0, 0, 0, 0, 0, 0, 0, 0, 0, 0, 0, 64, 0, 2, 0, 1, 0, 0, 46, 115, 0, 0, 0, 0, 0, 0, 0, 0, 0, 0, 0, 0, 0, 0, 0, 0, 0, 0, 0, 0, 0, 0, 0, 0, 0, 0, 0, 0, 0, 0, 0, 0, 0, 0, 0, 0, 0, 0, 0, 0, 0, 0, 0, 0, 0, 0, 0, 0, 0, 0, 0, 0, 0, 0, 0, 0, 0, 0, 0, 0, 0, 0, 0, 0, 0, 1, 0, 0, 0, 3, 0, 0, 0, 0, 0, 0, 0, 0, 0, 0, 0, 0, 0, 0, 0, 0, 0, 0, 0, 64, 0, 0, 0, 0, 0, 0, 0, 4, 0, 0, 0, 0, 0, 0, 0, 0, 0, 0, 0, 0, 0, 0, 0, 0, 0, 0, 0, 0, 0, 0, 0, 0, 0, 0, 0, 0, 0, 0, 0]

/-- Non-vacuity: the layout predicate holds of a concrete image (and the check evaluates the same predicate,
through the driver command `validelf`, on every generated image and on an executable linked by the
toolchain of this machine) -/
example : ValidElf elf1 [0x2e, 0x72] := by decide +kernel

/-- ... and the conclusion computed on it (a *test* of the model on one image; the theorem is above) -/
example : (match addElf elf1 [0x2e, 0x72] [9, 8, 7] with
           | .ok out => decide (extractElf out [0x2e, 0x72] = .ok (some [9, 8, 7]))
           | _ => false) = true := by
  decide +kernel

/-- the predicate is not trivially true: an image whose names section would lie inside the ELF header is refused -/
example : ¬ ValidElf (elf1.set 160 8) [0x2e, 0x72] := by decide +kernel

/-! ### PE: the general round trip -/

/-- **PE round trip, for every valid layout and every non-empty payload**: if the image is a PE file of the layout
`add_section_to_pe` is written for (`ValidPe`: the signature offset points behind the DOS header at `PE\0\0`; at least one
section and room for one more; an optional header of at least 64 bytes; non-zero alignments; the aligned end of the section
table inside the file; sizes, addresses and moved raw pointers below 2^32; no section has the new name; the name NUL-free and
at most 8 bytes; the payload not empty) then adding the section succeeds and extracting it from the result returns the
payload **followed by zeros up to the file alignment** and nothing else - any number of sections, any header gap (room for
the new header or not: with the repair of C19-F10 as many whole file alignments are inserted as it takes), any alignment. -/
theorem C19_pe_roundtrip (b name payload : Bytes) (v : ValidPe b name payload) :
    ∃ out, addPe b name payload = .ok out ∧
      extractPe out name = .ok (some (payload ++ zeros (alignUp payload.length (pFileAlign b) - payload.length))) ∧
      alignUp payload.length (pFileAlign b) < payload.length + pFileAlign b := by
  obtain ⟨out, h1, h2⟩ := C19_pe_roundtrip_aux b name payload v
  exact ⟨out, h1, h2, (alignUp_bounds _ _ v.hpl v.hfa).2⟩

/-- **PE preservation, for every valid layout**: in the result, below the end of the old section table every byte is the input's
except the section count, `SizeOfImage`, `SizeOfHeaders` and the raw-data pointers of the old sections; every byte of the input from
there on that is not overwritten by the new 40-byte header is found unchanged `pBump b` bytes further on (`pBump` = 0 when there was
room for the header, else as many whole file alignments as it takes - the repair of C19-F10); and each old section's
`PointerToRawData` grew by exactly `pBump b`: every old section's raw data is found, unchanged, where its header in the result points. -/
theorem C19_pe_preserved (b name payload : Bytes) (v : ValidPe b name payload) :
    ∃ out, addPe b name payload = .ok out ∧
      (∀ j, j < pEnd b → (∀ i, i < pNum b → ¬ (pHdrs b + i * 40 + 20 ≤ j ∧ j < pHdrs b + i * 40 + 24)) →
          ¬ (pFh b + 2 ≤ j ∧ j < pFh b + 4) → ¬ (pOpt b + 56 ≤ j ∧ j < pOpt b + 64) → out[j]? = b[j]?) ∧
      (∀ j, pEnd b + 40 ≤ j + pBump b → j < b.length → pEnd b ≤ j → out[j + pBump b]? = b[j]?) ∧
      (∀ i, i < pNum b → leVal (slice out (pHdrs b + i * 40 + 20) 4) = leVal (slice b (pHdrs b + i * 40 + 20) 4) + pBump b) :=
  addPe_preserved b name payload v

/-- Non-vacuity: the two concrete images above meet the layout predicate - one with room for the new header (`pe1`), one
without and with a file alignment (16) smaller than a section header (`pe2`, the layout of finding C19-F10) -/
example : ValidPe pe1 [0x2e, 0x72] [1, 2] ∧ ValidPe pe2 [0x2e, 0x72] [1, 2, 3, 4] := by
  constructor <;> decide +kernel

/-- the predicate refuses what the code cannot handle: an empty payload (`align(0, _)` underflows: C19-F9) -/
example : ¬ ValidPe pe1 [0x2e, 0x72] [] := by decide +kernel

end Rj.C19
