import RjModel.Props.C01
import RjModel.Props.C12
import RjModel.Model.ParseWire
/-! # C04 — repeating a successful sync does nothing

What the second run sees is what the first run wrote, *read back*.  Proved about the model:
* link text round trip, on bytes: reading back a link that was written from a source link's target gives
  that target again (`C04_link_roundtrip`) — for every byte string, UTF-8 or not;
* time round trip: a modification time ≥ the epoch survives the wire form (whole seconds + nanoseconds)
  and `set mtime` / list at nanosecond resolution (`C04_time_wire`, `C04_mtime_readback`);
* with these, re-planning against the read-back destination is empty at every path
  (`C04_replan_empty`: no deletion and no copy), for every tree pair and every arrival order (C13),
  when same-time files are skipped (the default) on a destination that does not distinguish link kinds
  (unix);  an empty plan sends the destination nothing but the two markers and reports
  "Nothing to do!" (`C04_empty_plan_exec`).
* `--files-same-time overwrite` re-copies equal files on every run by the user's own choice
  (`C04_same_time_overwrite_recopies`): that is configuration, not churn.
Validated: the real doer's write-then-list round trip of times and link texts (L3), two consecutive CLI
runs in the four placements (L4). -/
namespace Rj.C04
open Rj FS

/-- **Link text round trip (bytes).**  `b` is any link text on the source; the destination link is
written from what the source doer reported and read back by the destination doer: same target. -/
theorem C04_link_roundtrip (b : List UInt8) : readLinkB (writeLinkB '/' (readLinkB b)) = readLinkB b := by
  rcases C12.C12_text b with h | ⟨t, hd, hr, h⟩
  · rw [h]; simp only [writeLinkB]; exact h
  · rw [h]
    simp only [writeLinkB, String.toList_ofList, map_slash_id]
    unfold readLinkB
    have : normalForm (normalForm t) = normalForm t := by
      show joinSlash (components (normalForm t)) = normalForm t
      rw [components_normalForm]; rfl
    simp only [decode_utf8, refused_normalForm t hr, Bool.false_eq_true, ↓reduceIte, this]

/-- what the destination doer reports for an entry the boss wrote from the source entry `w`: files
and folders as they are; a link with the written text read back and its kind probed afresh -/
def ReadBack : Details → Details → Prop
  | .symlink _ t, r => ∃ k', r = .symlink k' (readLinkB (writeLinkB '/' t))
  | w, r => r = w

/-- **Re-planning is empty.**  `dst'` is the destination as the second run lists it: where the first
run's plan copied something, that entry read back; where it deleted, nothing; elsewhere untouched.
Then the second plan has no deletion and no copy at any path. -/
theorem C04_replan_empty (c : PCfg) (hskip : c.sameTimeSkip = true) (hdiff : c.destDiff = false)
    (src dst dst' : String → Option Details)
    (hsrc : ∀ p k t, src p = some (.symlink k t) → ∃ b, t = readLinkB b)
    (h1 : ∀ p e r, cpySpec c src dst p = some (e, r) → ∃ d', dst' p = some d' ∧ ReadBack e d')
    (h2 : ∀ p, cpySpec c src dst p = none → dst' p = if (delSpec c src dst p).isSome then none else dst p)
    (p : String) : delSpec c src dst' p = none ∧ cpySpec c src dst' p = none := by
  -- an entry written from the source entry and read back needs neither deletion nor copy
  have key : ∀ e d', src p = some e → ReadBack e d' → needsDelete c e d' = false ∧ needsCopy c e d' = none := by
    intro e d' hs hrb
    cases e with
    | file m sz => simp only [ReadBack] at hrb; subst hrb; simp [needsDelete, needsCopy, hskip]
    | folder => simp only [ReadBack] at hrb; subst hrb; simp [needsDelete, needsCopy]
    | symlink k t =>
      obtain ⟨k', rfl⟩ := hrb
      obtain ⟨b, rfl⟩ := hsrc p k t hs
      simp [needsDelete, needsCopy, C04_link_roundtrip, hdiff]
  cases hs : src p with
  | none =>
    have hc : cpySpec c src dst p = none := by simp [cpySpec, hs]
    have := h2 p hc
    cases hd : dst p with
    | none => simp [delSpec, cpySpec, hs, hd] at this ⊢; simp [this]
    | some d => simp [delSpec, cpySpec, hs, hd] at this ⊢; simp [this]
  | some e =>
    cases hc : cpySpec c src dst p with
    | some er =>
      obtain ⟨e', r⟩ := er
      have he : e' = e := by
        simp only [cpySpec, hs] at hc
        split at hc
        · simp at hc; exact hc.1.symm
        · split at hc
          · simp at hc; exact hc.1.symm
          · simp only [Option.map_eq_some_iff, Prod.mk.injEq] at hc
            obtain ⟨_, _, he, _⟩ := hc; exact he.symm
      subst he
      obtain ⟨d', hd', hrb⟩ := h1 p e' r hc
      obtain ⟨k1, k2⟩ := key e' d' hs hrb
      simp [delSpec, cpySpec, hs, hd', k1, k2]
    | none =>
      have := h2 p hc
      simp only [cpySpec, hs] at hc
      cases hd : dst p with
      | none => simp [hd] at hc
      | some d =>
        simp only [hd] at hc
        by_cases hnd : needsDelete c e d = true
        · simp [hnd] at hc
        · simp only [hnd, Bool.false_eq_true, ↓reduceIte, Option.map_eq_none_iff] at hc
          simp only [delSpec, hd, hs, hnd, Bool.false_eq_true, ↓reduceIte, Option.isSome_none] at this
          simp [delSpec, cpySpec, hs, this, hnd, hc]

/-- **An empty plan does nothing**: the destination is sent only the two markers, the source nothing,
and the run reports "Nothing to do!". -/
theorem C04_empty_plan_exec (sc : Scenario) (ctx : Ctx) (x : XState) (conf : Conf)
    (del : OMap (Details × DelReason)) (cpy : OMap (Details × CopyReason))
    (hd : del.iter = []) (hc : cpy.iter = []) (he : sc.errAtPoll = none) :
    (execPhase sc ctx x conf del cpy).outcome = .ok ∧
    (execPhase sc ctx x conf del cpy).destTrace = x.dest ++ [.marker .copying, .marker .done] ∧
    (execPhase sc ctx x conf del cpy).srcTrace = x.src ∧
    (execPhase sc ctx x conf del cpy).log = x.log ++ ["Nothing to do!"] := by
  simp [execPhase, hd, hc, he, deleteLoop, copyLoop, barrierFails, mkResult, XState.sendDest, summary]

/-- the same-time behaviour `overwrite` makes every later run copy equal files again — the user's
configuration, stated so that the hypothesis of `C04_replan_empty` is seen to be needed -/
theorem C04_same_time_overwrite_recopies :
    cpySpec ⟨false, false⟩ (fun _ => some (.file 5 1)) (fun _ => some (.file 5 1)) "f" = some (.file 5 1, .sameTime) := by
  decide

/-- **Times cross the wire exactly**: whole seconds and nanoseconds since the epoch recompose to the
time, for every time ≥ the epoch. -/
theorem C04_time_wire (ns : Int) (h : 0 ≤ ns) :
    ((splitTime ns).1 : Int) * 1000000000 + (splitTime ns).2 = ns ∧ (splitTime ns).2 < 1000000000 := by
  simp only [splitTime]
  have : (ns.toNat : Int) = ns := Int.toNat_of_nonneg h
  omega

/-- **A written time is the time listed**: after a successful `set_file_mtime` the entry details of
the file carry exactly that time (nanosecond resolution), whatever the time was before. -/
theorem C04_mtime_readback (fs fs' : FS) (abs : List Comp) (p : FPath) (t : Int) (b : List UInt8) (m : MTime)
    (hp : fs.get p = some (.file b m)) (h : fs.setMtime p t = .ok fs') (ht : 0 ≤ t) :
    ∃ n, fs'.get p = some n ∧ detailsOf fs' abs p n = .ok (.file t b.length) := by
  obtain ⟨-, h⟩ := withAnc_ok h
  have hne : p ≠ [] := by intro e; subst e; simp [FS.get_nil] at hp
  simp only [hp, OpR.ok.injEq] at h
  subst h
  refine ⟨.file b (.at t), by rw [FS.get_set _ _ _ _ hne]; simp, ?_⟩
  simp only [detailsOf]
  have : ¬ t < 0 := by omega
  simp [this]

/-- **On the file-system model: a second run plans nothing.**  After the destination half of a sync
(`syncDest`, which `C01_mirror_fs` shows to end `ok` in the mirror state), the plan computed from the
same source and any complete listing of the destination as it now is — has no deletion and no creation:
whatever was written (times at ns resolution, link texts through `writeLinkB`) reads back as up to date. -/
theorem C04_second_run_empty_fs {vis : FPath → Bool} {fs0 : FS} {r : FPath} {ld ld' : List (FPath × Node)} {src : FPath → Option SEntry}
    {ls : List (FPath × SEntry)} (hw : DestWF vis fs0 r ld) (hs : SrcWF vis src ls)
    (hsafe : ∀ p c n, (p, Node.folder) ∈ planDel src ld → fs0.get (r ++ (p ++ [c])) = some n → vis (p ++ [c]) = true) :
    ∃ fs', syncDest fs0 r src ls ld = .ok fs' ∧
      ((∀ p n, (p, n) ∈ ld' → p ≠ [] ∧ vis p = true ∧ fs'.get (r ++ p) = some n) →
        planDel src ld' = [] ∧ planCpy (fun p => fs'.get (r ++ p)) ls = []) := by
  obtain ⟨fs', h1, -, -, hm, -⟩ := sync_mirror hw hs hsafe
  exact ⟨fs', h1, fun hld => second_plan_empty hm (fun p e h => (hs.listed p e).mp h) hld⟩

/-- Non-vacuity of `C04_replan_empty`'s hypotheses: a source with a file, a folder and a link whose text is
not in normal form, an empty destination; the read-back destination satisfies `h1`/`h2`. -/
example : readLinkB (writeLinkB '/' (readLinkB (utf8 "a//b/".toList))) = .normalized "a/b" ∧
    cpySpec ⟨true, false⟩ (fun p => if p = "l" then some (.symlink .unknown (readLinkB (utf8 "a//b/".toList))) else none)
      (fun _ => none) "l" = some (.symlink .unknown (.normalized "a/b"), .notOnDest) := by decide

/-- **What is equal is left alone** (file-system model, any listings, any order): an entry the destination already holds
up to date — a folder where the source has a folder, a file carrying the source's time, a link whose text reads as the source's
target — is named neither by a planned deletion nor by a planned creation, whatever else the two listings hold and in whatever
order they hold it. -/
theorem C04_equal_entry_untouched_fs (src : FPath → Option SEntry) (dst : FPath → Option Node)
    (ls : List (FPath × SEntry)) (ld : List (FPath × Node)) (p : FPath) (e : SEntry) (n : Node)
    (hs : src p = some e) (hd : dst p = some n) (hup : upToDate e n = true)
    (hls : ∀ e', (p, e') ∈ ls → e' = e) (hld : ∀ n', (p, n') ∈ ld → n' = n) :
    p ∉ (planDel src ld).map (·.1) ∧ p ∉ (planCpy dst ls).map (·.1) := by
  have hcomp : compatible e n = true := by
    cases e <;> cases n <;> simp_all [upToDate, compatible]
  constructor
  · intro h
    obtain ⟨a, ha, e1⟩ := List.mem_map.mp h
    obtain ⟨h1, h2⟩ := mem_planDel.mp ha
    obtain ⟨q, n'⟩ := a
    simp only at e1; subst e1
    have := hld n' h1; subst this
    simp [needDel, hs, hcomp] at h2
  · intro h
    obtain ⟨a, ha, e1⟩ := List.mem_map.mp h
    obtain ⟨h1, h2⟩ := mem_planCpy.mp ha
    obtain ⟨q, e'⟩ := a
    simp only at e1; subst e1
    have := hls e' h1; subst this
    simp [needCpy, hd, hup] at h2

end Rj.C04
