import RjModel.Lemmas.SyncLemmas
import RjModel.Lemmas.DoerLemmas
import RjModel.Lemmas.BossOutcome
import RjModel.Lemmas.RunLemmas
import RjModel.Generated.RunSkel
/-! # C07 — exit status 0 means everything was applied; every failure is reported -/
namespace Rj.C07
open Rj

/-- **Every destination failure is reported, however late it becomes visible**: for every scenario
and every poll index at which the destination doer's `Error` response is first seen (including
"after the last poll": the final blocking wait), the run does not end `ok` — unless it never sent
anything that could have failed (the root-deletion gate answered `skip`). -/
theorem C07_failure_reported (w : Wrap) (sc : Scenario) (j : Nat) (h : sc.errAtPoll = some j)
    (hok : (run w sc).outcome = .ok) : ∀ c ∈ (run w sc).destTrace, c.mutating = false ∨ c = .createRootAncestors :=
  (run_before w sc).2 (by simp [h]) hok

/-- the execution phase with a visible destination error never ends `ok`, whichever poll sees it -/
theorem C07_exec_never_ok (sc : Scenario) (ctx : Ctx) (x : XState) (conf : Conf)
    (del : OMap (Details × DelReason)) (cpy : OMap (Details × CopyReason)) (j : Nat) (h : sc.errAtPoll = some j) :
    (execPhase sc ctx x conf del cpy).outcome ≠ .ok :=
  (execPhase_outcome sc ctx x conf del cpy).2.1 (by simp [h])

/-- **A failing source read, an unexpected reply or a changed length fail the copy of that file**
(with C11_copy_file_ok: success ⇒ terminated stream totalling the listed size). -/
theorem C07_source_failure_reported (c : Ctx) (hd : c.dryRun = false) (errAt : Option Nat) (files : List (String × FileScript))
    (p : String) (mtime : Int) (size : Nat) (x : XState) (st : Stats) (h : fileScript files p = []) :
    (copyOne c errAt files p (.file mtime size) x st).1 = some .unexpected := by
  simp [copyOne, hd, copyFileReal, h, chunkLoop]

/-- **Summary = what was sent** (deletions): the three deletion counters add up to the number of
delete commands the real run sent. -/
theorem C07_summary_deletes (c : Ctx) (hd : c.dryRun = false) (l : List (String × (Details × DelReason))) (x : XState) (st : Stats) :
    let r := deleteLoop c none l x st
    r.2.2.filesDel + r.2.2.foldersDel + r.2.2.linksDel = st.filesDel + st.foldersDel + st.linksDel + l.length ∧
    r.2.1.dest.length = x.dest.length + l.length := by
  induction l generalizing x st with
  | nil => simp [deleteLoop]
  | cons e rest ih =>
    obtain ⟨p, d, r⟩ := e
    simp only [deleteLoop]
    have hp : ((delStepState c x p d).poll none).1 = false := by simp [XState.poll]
    simp only [hp, Bool.false_eq_true, ↓reduceIte]
    obtain ⟨h1, h2⟩ := ih ((delStepState c x p d).poll none).2 (st.addDelete d)
    constructor
    · rw [h1]; cases d <;> simp [Stats.addDelete] <;> omega
    · rw [h2]; simp [delStepState, hd, XState.poll, XState.sendDest]; omega

/-- with all six counters zero the summary is exactly "Nothing to do!"; otherwise it has one line
per non-empty group (deletions, copies) and no "Nothing to do!" line is appended -/
theorem C07_nothing_to_do (dry : Bool) (st : Stats) :
    (st.filesDel + st.foldersDel + st.linksDel + st.filesCopied + st.foldersCreated + st.linksCopied = 0 →
      summary dry st = ["Nothing to do!"]) ∧
    (st.filesDel + st.foldersDel + st.linksDel + st.filesCopied + st.foldersCreated + st.linksCopied ≠ 0 →
      (summary dry st).length = (if st.filesDel + st.foldersDel + st.linksDel > 0 then 1 else 0) +
                                 (if st.filesCopied + st.foldersCreated + st.linksCopied > 0 then 1 else 0)) := by
  unfold summary
  constructor
  · intro h
    have h1 : ¬ (st.filesDel + st.foldersDel + st.linksDel > 0) := by omega
    have h2 : ¬ (st.filesCopied + st.foldersCreated + st.linksCopied > 0) := by omega
    simp [h, h1, h2]
  · intro h
    simp only [h, ↓reduceIte, List.append_nil, List.length_append]
    congr 1 <;> split <;> rfl

/-- Non-vacuity: an error reply that becomes visible at poll 1 of a 2-deletion plan ends the run
with `err doer` after the second delete command. -/
example :
    let sc : Scenario := { srcRoot := "S", destRoot := "D", dryRun := false, beh := ⟨.proceed, .proceed, .skip, .proceed, .proceed⟩,
                           filters := [], srcReply := .details (some .folder) false '/', destReply := .details (some .folder) false '/',
                           destReply2 := .other, events := [.entry .dest "g" (.file 1 1), .entry .dest "h" (.file 1 1), .endOf .src, .endOf .dest],
                           answers := [], files := [], errAtPoll := some 1 }
    (run ⟨"^(?:", ")$"⟩ sc).outcome = .err .doer ∧
    (run ⟨"^(?:", ")$"⟩ sc).destTrace = [.setRoot "D", .getEntries [], .deleteFile "h", .deleteFile "g"] := by
  decide

/-! ### the doer's side: a failing call becomes an error response -/

/-- **A folder that still holds anything cannot be removed** (on the file-system model): whatever the
entry beneath it is — in particular one that the filters hide, which the boss therefore never planned
to delete — `remove_dir` fails, so the deletion of that folder is answered with an error … -/
theorem C07_nonempty_folder_fails (fs : FS) (P : FPath) (c : Comp) (n : Node) (h : fs.get (P ++ [c]) = some n) (fs' : FS) :
    fs.rmdir P ≠ .ok fs' :=
  rmdir_nonempty_fails fs P c n h fs'

/-- … **and every failing file-system call of a command is reported**: when the doer model executes a
`DeleteFolder`, `DeleteFile`, `DeleteSymlink`, `CreateFolder` or `CreateSymlink` whose call fails, its
output is exactly one `Error` response and the file system is unchanged (never a silent failure). -/
theorem C07_failed_call_is_reported (st : DoerSt) (r : OpR FS) (c : ErrClass) (hr : r = .err) :
    reply st r c = .ok st [.error c] := by
  subst hr; rfl

/-- a successful call is answered with nothing (errors are the only answers to mutating commands) -/
theorem C07_ok_call_is_silent (st : DoerSt) (fs' : FS) (c : ErrClass) :
    reply st (.ok fs') c = .ok { st with fs := fs' } [] := rfl

/-- **… so a sync that has to remove a folder holding a hidden entry ends in an error** (on the file-system model,
for every tree pair and filter verdict): if the plan deletes the destination folder `p` while an entry directly beneath it
is hidden by the filters — no deletion names it — the destination half of the sync ends `err`: not `ok` (the failure is
not lost), not `escape` (no link is followed on the way). -/
theorem C07_hidden_entry_fails_fs {vis : FPath → Bool} {fs0 : FS} {r : FPath} {ld : List (FPath × Node)} {src : FPath → Option SEntry}
    {ls : List (FPath × SEntry)} (hw : DestWF vis fs0 r ld) (hs : SrcWF vis src ls)
    (p : FPath) (c : Comp) (n : Node) (hdel : (p, Node.folder) ∈ planDel src ld)
    (hchild : fs0.get (r ++ (p ++ [c])) = some n) (hhidden : vis (p ++ [c]) = false) :
    syncDest fs0 r src ls ld = .err :=
  sync_hidden_child_fails hw hs p c n hdel hchild hhidden

/-! ### the whole run: `execute_spec` over the syncs of a spec file -/
open Rj.Run in
/-- the control skeleton of `execute_spec` in the source (re-extracted on every run: the exit code of each failure path,
which comms each path shuts down, whether the per-sync error arm returns at once, the function's final value; and that the
function has no other exit and keeps no status in a variable) is the one the theorems below are proved for -/
theorem C07_run_skeleton_matches : Generated.runSkelRecognised = true ∧ Generated.runSkel = RunSkel.ref := by decide

open Rj.Run in
/-- **Exit status 0 iff everything succeeded**: both doers were set up and every sync of the spec ended `Ok` - for any
number of syncs and any pattern of failures, on the skeleton of the current source.  In particular a failing sync makes
the run end non-zero however many later syncs would have succeeded (with `C07_failure_reported`: a failing operation
makes its sync end `Err`). -/
theorem C07_exit_zero_iff_all_ok (srcOk destOk : Bool) (outs : List Bool) :
    (executeSpec Generated.runSkel srcOk destOk outs).code = 0 ↔ (srcOk = true ∧ destOk = true ∧ outs.all id = true) := by
  rw [C07_run_skeleton_matches.2]; exact exit_zero_iff_all_ok srcOk destOk outs

open Rj.Run in
/-- the documented codes: 10 the source doer could not be set up, 11 the destination doer, 12 a sync failed; nothing else -/
theorem C07_exit_codes (srcOk destOk : Bool) (outs : List Bool) :
    let r := executeSpec Generated.runSkel srcOk destOk outs
    (r.code = 10 ↔ srcOk = false) ∧ (r.code = 11 ↔ (srcOk = true ∧ destOk = false)) ∧
    (r.code = 12 ↔ (srcOk = true ∧ destOk = true ∧ outs.all id = false)) ∧ r.code ∈ [0, 10, 11, 12] := by
  rw [C07_run_skeleton_matches.2]; exact exit_codes srcOk destOk outs

open Rj.Run in
/-- **Nothing runs after a failure**: the syncs started are exactly those up to and including the first failing one -/
theorem C07_syncs_run (outs : List Bool) :
    (executeSpec Generated.runSkel true true outs).syncsRun =
      if outs.all id then outs.length else (outs.takeWhile id).length + 1 := by
  rw [C07_run_skeleton_matches.2]; exact syncs_run outs

open Rj.Run in
/-- what a changed skeleton would do (the shape of seeded change C07-7): an error arm that does not return lets a later
success hide the failure -/
example : (executeSpec { RunSkel.ref with syncErrReturn := none, finalIsSuccess := false } true true [false, true]).code = 0 := by decide
open Rj.Run in
example : (executeSpec RunSkel.ref true true [true, false, true]) = ⟨12, 2, 1, 1, true, true⟩ := by decide

end Rj.C07
