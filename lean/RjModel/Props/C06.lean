import RjModel.Model.Regex
import RjModel.Lemmas.BossTraces
import RjModel.Lemmas.FilteredListing
import RjModel.Generated.Constants
import RjModel.Generated.FilterLoop
/-! # C06 — filters select by whole-path match, last match wins, same on both sides -/
namespace Rj.C06
open Rj

theorem mem_dedup (l : List Nat) (x : Nat) : x ∈ dedup l ↔ x ∈ l := by
  induction l with
  | nil => simp [dedup]
  | cons y ys ih =>
    simp only [dedup]
    split
    · next h =>
      have hy : y ∈ ys := by simpa using h
      rw [ih]; constructor
      · exact List.mem_cons_of_mem _
      · intro h; rcases List.mem_cons.mp h with rfl | h
        · exact hy
        · exact h
    · simp [ih]

theorem dedup_isEmpty (l : List Nat) : (dedup l).isEmpty = l.isEmpty := by
  cases hl : l with
  | nil => simp [dedup]
  | cons y ys =>
    have : y ∈ dedup (y :: ys) := (mem_dedup _ _).mpr (List.mem_cons_self ..)
    cases hd : dedup (y :: ys) with
    | nil => rw [hd] at this; cases this
    | cons _ _ => simp

theorem dedup_nil_iff (l : List Nat) : dedup l = [] ↔ l = [] := by
  constructor
  · intro h
    cases l with
    | nil => rfl
    | cons y ys =>
      have : y ∈ dedup (y :: ys) := (mem_dedup _ _).mpr (List.mem_cons_self ..)
      rw [h] at this; cases this
  · intro h; subst h; rfl

/-- the anchored pattern `^(?:p)$` cannot start anywhere but at 0 -/
theorem ends_wrapGroup_ne (r : Re) (s : Array Char) (i : Nat) (hi : i ≠ 0) :
    ends false (wrapGroup r) s i = [] := by
  simp [wrapGroup, ends, hi, dedup]

/-- from 0 it matches iff `p` can end at the end of the string -/
theorem ends_wrapGroup_zero (r : Re) (s : Array Char) :
    ends false (wrapGroup r) s 0 = [] ↔ s.size ∉ ends false r s 0 := by
  simp only [wrapGroup, ends, ↓reduceIte, List.flatMap_cons, List.flatMap_nil, List.append_nil]
  rw [dedup_nil_iff, dedup_nil_iff]
  constructor
  · intro h hm
    have : s.size ∈ (ends false r s 0).flatMap (fun j => if j = s.size then [j] else []) :=
      List.mem_flatMap.mpr ⟨s.size, hm, by simp⟩
    rw [h] at this; cases this
  · intro hm
    apply List.eq_nil_iff_forall_not_mem.mpr
    intro j hj
    obtain ⟨k, hk, hjk⟩ := List.mem_flatMap.mp hj
    by_cases hks : k = s.size
    · exact hm (hks ▸ hk)
    · simp [hks] at hjk

/-- **Anchoring with a non-capturing group**: for *every* regex (literals, classes, quantifiers,
groups, top-level and nested alternation, inner anchors, case-insensitive groups) and every string,
an unanchored search for `^(?:p)$` succeeds iff `p` matches the entire string. -/
theorem C06_anchoring_group (r : Re) (s : Array Char) : search (wrapGroup r) s = fullMatch r s := by
  unfold search fullMatch
  by_cases hm : s.size ∈ ends false r s 0
  · have hc : (ends false r s 0).contains s.size = true := by simpa using hm
    rw [hc]
    apply List.any_eq_true.mpr
    refine ⟨0, by simp, ?_⟩
    have : ends false (wrapGroup r) s 0 ≠ [] := fun h => (ends_wrapGroup_zero r s).mp h hm
    cases h : ends false (wrapGroup r) s 0 with
    | nil => exact absurd h this
    | cons _ _ => rfl
  · have hc : (ends false r s 0).contains s.size = false := by simpa using hm
    rw [hc]
    apply List.any_eq_false.mpr
    intro i _
    by_cases hi : i = 0
    · subst hi; rw [(ends_wrapGroup_zero r s).mpr hm]; simp
    · rw [ends_wrapGroup_ne r s i hi]; simp

/-- **Anchoring, for the wrap the current source applies** (`Generated.filterWrapPre/Post` are
extracted from `compile_filters` on every run): a filter matches iff its pattern matches the entire
normalised path. -/
theorem C06_anchoring (r : Re) (s : Array Char) :
    (wrapOf Generated.filterWrapPre Generated.filterWrapPost r).map (search · s) = some (fullMatch r s) := by
  have h : wrapOf Generated.filterWrapPre Generated.filterWrapPost r = some (wrapGroup r) := by
    simp [wrapOf, Generated.filterWrapPre, Generated.filterWrapPost]
  rw [h]; simp [C06_anchoring_group]

def lastMatch : List (Bool × Bool) → Option Bool
  | [] => none
  | (incl, m) :: rest =>
    match lastMatch rest with
    | some x => some x
    | none => if m then some incl else none

theorem foldl_lastMatch (l : List (Bool × Bool)) (acc : Bool) :
    l.foldl (fun acc (p : Bool × Bool) => if p.2 then p.1 else acc) acc = (lastMatch l).getD acc := by
  induction l generalizing acc with
  | nil => rfl
  | cons x xs ih =>
    obtain ⟨incl, m⟩ := x
    simp only [List.foldl_cons, ih, lastMatch]
    cases lastMatch xs with
    | some y => rfl
    | none => cases m <;> simp

/-- **Evaluation order**: the root is always included; otherwise the last filter whose regex matched
decides; if none matched, the verdict is the opposite of the first filter's sign (include when the
list is empty). -/
theorem C06_fold_rule (kinds matched : List Bool) :
    foldFilters kinds matched =
      (lastMatch (kinds.zip matched)).getD (match kinds.head? with | some true => false | _ => true) := by
  unfold foldFilters
  rw [foldl_lastMatch]
  cases kinds.head? with
  | none => rfl
  | some b => cases b <;> rfl

theorem C06_root_included (fs : List (Bool × Re)) : applyFilters fs #[] = true := by
  simp [applyFilters]

/-- The wrap *without* the group is not whole-path matching: `-build|dist` also matches
`builder.txt` (the first alternative is only anchored at the start) although the pattern does not
match that entire path.  This is the defect repaired in `/repo` (see known_findings.json). -/
theorem C06_alternation_witness :
    let r : Re := .alt (.cat (.chr 'b') (.cat (.chr 'u') (.cat (.chr 'i') (.cat (.chr 'l') (.chr 'd')))))
                       (.cat (.chr 'd') (.cat (.chr 'i') (.cat (.chr 's') (.chr 't'))))
    let s : Array Char := #['b', 'u', 'i', 'l', 'd', 'e', 'r']
    search (wrapText r) s = true ∧ fullMatch r s = false := by
  decide

/-- Non-vacuity of the fold rule: `+.*  -build/.*  +build/output.exe` on `build/output.exe`. -/
example : foldFilters [true, false, true] [true, true, true] = true ∧
          foldFilters [true, false, true] [true, true, false] = false ∧
          foldFilters [true, false, true] [false, false, false] = false ∧
          foldFilters [false] [false] = true := by decide

/-- **Same on both sides**: whatever the scenario (roots of any kind, any replies, behaviours, answers,
dry run or not), every `GetEntries` the boss sends — to the source doer or to the destination doer —
carries the user's complete filter list, each pattern wrapped by the anchoring that `compile_filters`
applies; so both doers evaluate the same list, and `apply_filters` is a function of (path, list) only. -/
theorem C06_same_filters (w : Wrap) (sc : Scenario) (c : Cmd) (f : List FilterSpec)
    (hc : c ∈ (run w sc).srcTrace ∨ c ∈ (run w sc).destTrace) (hf : c = .getEntries f) :
    compileFilters w.pre w.post sc.filters = some f := by
  have A : Allowed sc.dryRun
      (fun c => ∀ f, c = .getEntries f → compileFilters w.pre w.post sc.filters = some f)
      (fun c => ∀ f, c = .getEntries f → compileFilters w.pre w.post sc.filters = some f)
      (fun f => compileFilters w.pre w.post sc.filters = some f) :=
    { sSetRoot := fun _ _ h => by cases h
      sGetEntries := fun _ hF _ h => by cases h; exact hF
      sGetFile := fun _ _ _ h => by cases h
      dSetRoot := fun _ _ h => by cases h
      dGetEntries := fun _ hF _ h => by cases h; exact hF
      dMarker := fun _ _ h => by cases h
      dMutating := fun _ c hm _ h => by subst h; simp [Cmd.mutating] at hm }
  rcases hc with hc | hc
  · exact (run_ok w sc A).1 c hc f hf
  · exact (run_ok w sc A).2 c hc f hf

/-- the compiled list keeps number, order and signs of the user's filters -/
theorem C06_compile_signs (pre post : String) (fs : List String) (out : List FilterSpec)
    (h : compileFilters pre post fs = some out) :
    out.length = fs.length ∧ ∀ i (hi : i < out.length) (hj : i < fs.length),
      (out[i]).incl = ((fs[i]).toList.head? = some '+') := by
  induction fs generalizing out with
  | nil => simp only [compileFilters, Option.some.injEq] at h; subst h; simp
  | cons x xs ih =>
    simp only [compileFilters] at h
    cases hx : compileFilter pre post x with
    | none => simp [hx] at h
    | some y =>
      cases hxs : compileFilters pre post xs with
      | none => simp [hx, hxs] at h
      | some ys =>
        simp only [hx, hxs, Option.bind_eq_bind, Option.bind_some, Option.pure_def, Option.some.injEq] at h
        subst h
        obtain ⟨h1, h2⟩ := ih ys hxs
        refine ⟨by simp [h1], ?_⟩
        intro i hi hj
        cases i with
        | zero =>
          simp only [List.getElem_cons_zero]
          unfold compileFilter at hx
          split at hx
          · simp only [Option.some.injEq] at hx; subst hx; simp_all
          · simp only [Option.some.injEq] at hx; subst hx; simp_all
          · simp at hx
        | succ j => simpa using h2 j (by simpa using hi) (by simpa using hj)

/-- the verdict of a compiled filter list on a relative component path: `apply_filters` on the `/`-joined path -/
def keepOf (fs : List (Bool × Re)) (p : FPath) : Bool := applyFilters fs (joinSlash p).toArray

/-- **What the filters exclude is untouched on the destination, what they include is mirrored** — for the verdict function of
*any* compiled filter list, evaluated the same on both sides (`C06_same_filters`), with the walk not entering an excluded
folder: the destination half of a sync, on the two trees' own filtered listings, reaches the mirror state at every path the
walk reaches and leaves every other path below the destination root exactly as it was (given that no folder the plan deletes
holds an excluded entry: that run fails instead, `C07_hidden_entry_fails_fs`). -/
theorem C06_excluded_untouched_included_mirrored (fs : List (Bool × Re)) (S D : FS) (rs rd : FPath) (fS fD : Nat)
    (hS : SrcTreeOk S rs fS) (hD : D.Wf)
    (hroot : D.get rd = some .folder) (hanc : ∀ k, k < rd.length → D.get (rd.take k) = some .folder)
    (hclosed : ∀ p, p ≠ [] → D.get (rd ++ p) ≠ none → D.get (rd ++ p.dropLast) = some .folder)
    (hfuel : ∀ p, D.get (rd ++ p) ≠ none → p.length ≤ fD)
    (hsafe : ∀ p c n, (p, Node.folder) ∈ planDel (srcOfFS S rs) ((listNodesF (keepOf fs) rd D fD rd).map fun e => (e.1.drop rd.length, e.2)) →
      D.get (rd ++ (p ++ [c])) = some n → visOf (keepOf fs) (p ++ [c]) = true) :
    ∃ D', syncDest D rd (srcOfFS S rs) (lsOfFSF (keepOf fs) S rs fS)
        ((listNodesF (keepOf fs) rd D fD rd).map fun e => (e.1.drop rd.length, e.2)) = .ok D' ∧
      (∀ p, p ≠ [] → visOf (keepOf fs) p = true → MirrorAt D D' rd p (srcOfFS S rs p)) ∧
      (∀ p, visOf (keepOf fs) p = false → D'.get (rd ++ p) = D.get (rd ++ p)) := by
  obtain ⟨D', h1, -, -, h4, h5⟩ := sync_mirror (destWF_of_listNodesF (keepOf fs) D hD rd hroot hanc hclosed fD hfuel)
    (srcWF_of_treeF (keepOf fs) S rs fS hS) hsafe
  exact ⟨D', h1, h4, h5⟩

/-! ### `apply_filters` as it is written in `doer.rs` -/

theorem assignLoop_eq (kinds matched : List Bool) (hl : matched.length = kinds.length) :
    ∀ (pre : List Bool) (acc : Bool),
      assignLoop true false (pre ++ kinds) (idxFrom pre.length matched) (some acc) =
        some ((kinds.zip matched).foldl (fun acc (p : Bool × Bool) => if p.2 then p.1 else acc) acc) := by
  induction matched generalizing kinds with
  | nil => intro pre acc; cases kinds <;> simp [idxFrom, assignLoop]
  | cons m ms ih =>
    intro pre acc
    cases kinds with
    | nil => simp at hl
    | cons k ks =>
      have hl' : ms.length = ks.length := by simpa using hl
      have hpre : pre ++ k :: ks = (pre ++ [k]) ++ ks := by simp
      have := ih ks hl' (pre ++ [k])
      simp only [List.length_append, List.length_cons, List.length_nil] at this
      cases m with
      | false =>
        simp only [idxFrom, Bool.false_eq_true, ↓reduceIte, List.nil_append, List.zip_cons_cons, List.foldl_cons]
        rw [hpre]; exact this acc
      | true =>
        simp only [idxFrom, ↓reduceIte, List.zip_cons_cons, List.foldl_cons]
        unfold assignLoop
        simp only [List.cons_append, List.nil_append, List.foldl_cons, Option.bind_some]
        have hk : (pre ++ k :: ks)[pre.length]? = some k := by simp
        rw [hk]
        simp only [Option.map_some]
        have e : (if k = true then true else false) = k := by cases k <;> rfl
        rw [e, hpre]
        exact this k

/-- **`apply_filters` of `doer.rs`, as it is written** - its skeleton re-extracted from the source on every run (the early
return for the root, the three arms of the default, the loop over the matched filter indices with its two assignments, and that
the function consists of nothing else) and interpreted - **is the fold of the model** (`foldFilters`, about which `C06_fold_rule`
speaks): for every filter list and every pattern of matches the loop over the ascending matched indices never indexes out of
range and ends with the model's verdict; the root is included whatever the filters say. -/
theorem C06_apply_filters_is_the_sources :
    Generated.applyFiltersSkel.shape = true ∧
    (∀ kinds matched, matched.length = kinds.length →
      applyFiltersSrc Generated.applyFiltersSkel false kinds (idxFrom 0 matched) = some (foldFilters kinds matched)) ∧
    (∀ kinds ms, applyFiltersSrc Generated.applyFiltersSkel true kinds ms = some true) := by
  refine ⟨by decide, ?_, ?_⟩
  · intro kinds matched hl
    have key : ∀ acc, assignLoop true false kinds (idxFrom 0 matched) (some acc) =
        some ((kinds.zip matched).foldl (fun acc (p : Bool × Bool) => if p.2 then p.1 else acc) acc) := by
      intro acc
      have h := assignLoop_eq kinds matched hl [] acc
      simpa using h
    have hs : Generated.applyFiltersSkel = ⟨true, false, true, true, true, false, true⟩ := by decide
    rw [hs]
    unfold applyFiltersSrc foldFilters
    simp only [Bool.false_and, Bool.false_eq_true, ↓reduceIte]
    cases kinds.head? with
    | none => exact key true
    | some b =>
      cases b with
      | false => exact key true
      | true => exact key false
  · intro kinds ms
    have hs : Generated.applyFiltersSkel = ⟨true, false, true, true, true, false, true⟩ := by decide
    rw [hs]
    simp [applyFiltersSrc]

end Rj.C06
