import RjModel.Lemmas.PlannerInv
import RjModel.Generated.Decisions
import RjModel.Generated.ProcessEntries
import RjModel.Generated.OrderedMapSrc
/-! # C13 — what gets deleted and copied does not depend on message timing

Model objects: `prun c PState.init evs` is `query_entries` fed with the merged arrival sequence `evs`
of the two listings (`srcOf evs`, `dstOf evs`); `del`/`cpy` are `to_delete`/`to_copy`. -/
namespace Rj.C13

open Rj

/-- The initial state (empty maps) satisfies the closed form. -/
theorem init_inv (c : PCfg) : Inv c PState.init := by
  constructor <;> intro p <;> simp [PState.init, delSpec, cpySpec]

theorem fresh_init (evs : List Ev) (hs : ((srcOf evs).map (·.1)).Nodup) (hd : ((dstOf evs).map (·.1)).Nodup) :
    FreshFrom PState.init evs :=
  ⟨hs, hd, by intro p _; rfl, by intro p _; rfl⟩

/-- **Closed form, for every interleaving.**  Whatever the arrival order of the two listings (each
path at most once per side), the planner does not panic and its final maps are the order-free closed
form of the two listings: `to_delete p` and `to_copy p` depend only on what the source and the
destination hold at `p`. -/
theorem C13_closed_form (c : PCfg) (evs : List Ev)
    (hs : ((srcOf evs).map (·.1)).Nodup) (hd : ((dstOf evs).map (·.1)).Nodup) :
    ∃ s, prun c PState.init evs = some s ∧
      (∀ p, s.del.get p = delSpec c (lookup (srcOf evs).reverse) (lookup (dstOf evs).reverse) p) ∧
      (∀ p, s.cpy.get p = cpySpec c (lookup (srcOf evs).reverse) (lookup (dstOf evs).reverse) p) := by
  obtain ⟨s, h, hi, hsg, hdg⟩ := prun_inv c evs PState.init (init_inv c) (fresh_init evs hs hd)
  refine ⟨s, h, ?_, ?_⟩
  · intro p
    have e1 : s.src.get = lookup (srcOf evs).reverse := by
      funext q; rw [hsg q]; cases lookup (srcOf evs).reverse q <;> rfl
    have e2 : s.dst.get = lookup (dstOf evs).reverse := by
      funext q; rw [hdg q]; cases lookup (dstOf evs).reverse q <;> rfl
    rw [hi.1 p, e1, e2]
  · intro p
    have e1 : s.src.get = lookup (srcOf evs).reverse := by
      funext q; rw [hsg q]; cases lookup (srcOf evs).reverse q <;> rfl
    have e2 : s.dst.get = lookup (dstOf evs).reverse := by
      funext q; rw [hdg q]; cases lookup (dstOf evs).reverse q <;> rfl
    rw [hi.2 p, e1, e2]

/-- **Independence of timing and of sibling order.**  Two arrival sequences whose source listings
are permutations of one another and whose destination listings are permutations of one another
(this covers every interleaving of the two streams *and* every sibling order inside a listing)
produce the same `to_delete` and `to_copy` maps — the same entries with the same reasons. -/
theorem C13_interleaving (c : PCfg) (evs₁ evs₂ : List Ev)
    (hs : ((srcOf evs₁).map (·.1)).Nodup) (hd : ((dstOf evs₁).map (·.1)).Nodup)
    (ps : (srcOf evs₁).Perm (srcOf evs₂)) (pd : (dstOf evs₁).Perm (dstOf evs₂)) :
    ∃ s₁ s₂, prun c PState.init evs₁ = some s₁ ∧ prun c PState.init evs₂ = some s₂ ∧
      ∀ p, s₁.del.get p = s₂.del.get p ∧ s₁.cpy.get p = s₂.cpy.get p := by
  have hs2 : ((srcOf evs₂).map (·.1)).Nodup := (ps.map (·.1)).nodup_iff.mp hs
  have hd2 : ((dstOf evs₂).map (·.1)).Nodup := (pd.map (·.1)).nodup_iff.mp hd
  obtain ⟨s₁, h1, d1, c1⟩ := C13_closed_form c evs₁ hs hd
  obtain ⟨s₂, h2, d2, c2⟩ := C13_closed_form c evs₂ hs2 hd2
  have es : lookup (srcOf evs₁).reverse = lookup (srcOf evs₂).reverse := by
    funext q
    apply lookup_perm
    · exact ((List.reverse_perm _).trans ps).trans (List.reverse_perm _).symm
    · rw [List.map_reverse]; exact (List.reverse_perm _).nodup_iff.mpr hs
  have ed : lookup (dstOf evs₁).reverse = lookup (dstOf evs₂).reverse := by
    funext q
    apply lookup_perm
    · exact ((List.reverse_perm _).trans pd).trans (List.reverse_perm _).symm
    · rw [List.map_reverse]; exact (List.reverse_perm _).nodup_iff.mpr hd
  refine ⟨s₁, s₂, h1, h2, fun p => ⟨?_, ?_⟩⟩
  · rw [d1 p, d2 p, es, ed]
  · rw [c1 p, c2 p, es, ed]

/-- **Order of the two action lists.**  The deletions are iterated in *reversed* destination arrival
order and the copies in source arrival order (as sub-sequences: relative order is preserved), and no
entry is iterated twice.  Since a listing reports a folder before its contents (C17), every entry is
deleted before its parent folder and every folder is created before its contents. -/
theorem C13_order (c : PCfg) (evs : List Ev) (s : PState) (h : prun c PState.init evs = some s)
    (hs : ((srcOf evs).map (·.1)).Nodup) (hd : ((dstOf evs).map (·.1)).Nodup) :
    s.del.reverseOrder.keys.Sublist ((dstOf evs).map (·.1)).reverse ∧
    s.cpy.keys.Sublist ((srcOf evs).map (·.1)) ∧
    s.del.reverseOrder.keys.Nodup ∧ s.cpy.keys.Nodup := by
  obtain ⟨⟨X, hX, sX⟩, ⟨Y, hY, sY⟩⟩ := prun_vecs c evs PState.init s h
  simp only [PState.init, OMap.empty, List.nil_append] at hX hY
  have k1 : s.del.reverseOrder.keys.Sublist ((dstOf evs).map (·.1)).reverse := by
    have := keys_sublist_vec s.del.reverseOrder
    have hv : s.del.reverseOrder.vec = X.reverse := by simp [OMap.reverseOrder, hX]
    rw [hv] at this
    exact this.trans sX.reverse
  have k2 : s.cpy.keys.Sublist ((srcOf evs).map (·.1)) := by
    have := keys_sublist_vec s.cpy
    rw [hY] at this
    exact this.trans sY
  exact ⟨k1, k2, k1.nodup ((List.reverse_perm _).nodup_iff.mpr hd), k2.nodup hs⟩

/-- Non-vacuity: a concrete interleaving (file↔folder swap at `d`, a retimed file, an extra entry)
meets the hypotheses, and the plan is what one expects. -/
example :
    let c : PCfg := ⟨true, false⟩
    let evs := [Ev.dst "a" (.file 5 1), .src "a" (.file 7 1), .src "d" .folder, .dst "d" (.file 1 1),
                .dst "x" .folder, .src "d/f" (.file 1 1)]
    ((srcOf evs).map (·.1)).Nodup ∧ ((dstOf evs).map (·.1)).Nodup ∧
    (prun c PState.init evs).map (fun s => (s.del.reverseOrder.keys, s.cpy.keys)) = some (["x", "d"], ["a", "d", "d/f"]) := by
  decide

/-! ### the two decision functions are the source's: translated, not hand-copied -/

/-- **`needs_delete` of `boss_sync.rs`, translated from the source on every run** (`extract/translate.py`: a Rust-to-Lean translator
for the subset the function is written in - `match` on `EntryDetails`, `if`/`else if` over `!=`, `&&`; anything outside the subset makes
`decisionsTranslated` false), **is the model's `needsDelete`** - for every configuration and every pair of entries.  The planner
theorems (C13, C01, C03, C04, C12) speak about `needsDelete`; through this obligation they speak about the function in the file. -/
theorem C13_needs_delete_is_the_sources : Generated.decisionsTranslated = true ∧
    ∀ c s d, Generated.needsDeleteSrc c s d = needsDelete c s d := by
  refine ⟨by decide, ?_⟩
  intro c s d
  cases s <;> cases d <;> simp [Generated.needsDeleteSrc, needsDelete]

/-- **`needs_copy`, translated, is the model's `needsCopy`** wherever it is called (the kinds agree: `needs_delete` said no); the
`panic!("Wrong entry type")` arm - outer `none` of the translation - is then unreachable (a C18 guard). -/
theorem C13_needs_copy_is_the_sources (c : PCfg) (s d : Details) (h : needsDelete c s d = false) :
    Generated.needsCopySrc c s d = some (needsCopy c s d) := by
  cases s <;> cases d <;> simp_all [Generated.needsCopySrc, needsCopy, needsDelete]
  all_goals (split <;> split <;> rfl)

/-- **`process_src_entry` and `process_dest_entry`, translated statement by statement from boss_sync.rs on every run, are the model's
`pstep`** - for every configuration, every planner state, every path and entry, including the panics (`none`).  The statement
translator (extract/translate.py, class `S`) handles: the statistics `match` (only `ctx.stats.*` is touched: translated to nothing), the
containers' `add` / `update` / `remove`, `match <container>.lookup(&p)`, `if needs_delete(..)`, `if let Some(r) = needs_copy(..)`;
it also checks the four call sites in `query_entries` (which container is passed for which parameter).  Anything else makes
`processTranslated` false.  The order of the statements matters (`dest_entries.add` before the lookup of the source; `to_delete.update`
on a key that must be there) and is part of what is compared. -/
theorem C13_process_entries_are_the_sources : Generated.processTranslated = true ∧
    (∀ c s p e, Generated.processSrcEntrySrc c s p e = pstep c s (.src p e)) ∧
    (∀ c s p d, Generated.processDestEntrySrc c s p d = pstep c s (.dst p d)) := by
  refine ⟨by decide, ?_, ?_⟩
  · intro c s p e
    simp only [Generated.processSrcEntrySrc, pstep]
    cases hg : s.dst.get p with
    | none => rfl
    | some d =>
      simp only [(C13_needs_delete_is_the_sources).2]
      by_cases hd : needsDelete c e d = true
      · simp only [hd, if_true]
        cases hu : s.del.update p (d, .incompatible) <;> rfl
      · have hd' : needsDelete c e d = false := by simpa using hd
        simp only [hd', C13_needs_copy_is_the_sources c e d hd']
        cases needsCopy c e d <;> rfl
  · intro c s p d
    simp only [Generated.processDestEntrySrc, pstep, Option.bind]
    cases hg : s.src.get p with
    | none => rfl
    | some e =>
      simp only [(C13_needs_delete_is_the_sources).2]
      by_cases hd : needsDelete c e d = true
      · simp only [hd, if_true]
      · have hd' : needsDelete c e d = false := by simpa using hd
        simp only [hd', C13_needs_copy_is_the_sources c e d hd']
        cases needsCopy c e d <;> rfl

/-- the loop of `query_entries` over the translated functions -/
def prunSrc (c : PCfg) : PState → List Ev → Option PState
  | s, [] => some s
  | s, .src p e :: es => (Generated.processSrcEntrySrc c s p e).bind fun s' => prunSrc c s' es
  | s, .dst p d :: es => (Generated.processDestEntrySrc c s p d).bind fun s' => prunSrc c s' es

/-- **Every planner theorem speaks about the translated functions**: running the arrival sequence through the functions translated
from the file is `prun` - so `C13_closed_form`, the order-independence corollaries and the C01 / C03 / C04 / C12 theorems that go
through `prun` hold of `process_src_entry` / `process_dest_entry` as they are written today. -/
theorem C13_translated_run_is_prun (c : PCfg) (s : PState) (evs : List Ev) : prunSrc c s evs = prun c s evs := by
  induction evs generalizing s with
  | nil => rfl
  | cons ev es ih =>
    cases ev with
    | src p e => simp only [prunSrc, prun, (C13_process_entries_are_the_sources).2.1, ih]
    | dst p d => simp only [prunSrc, prun, (C13_process_entries_are_the_sources).2.2, ih]


/-- **`ordered_map.rs`, translated on every run, is the model's `OMap`**: every method body is read as a sequence of statements out of a
small table (`Vec::push` / `reverse` / `iter().filter_map`, `HashMap::insert` / `remove` / `get` / `get_mut().unwrap()`; the `HashMap` itself is
the association list with `lookup` / `erase` - that reading is the trusted part) and the resulting functions are the model's, for every
map, key and value; `update` panics (`none`) exactly when the key is absent. -/
theorem C13_ordered_map_is_the_sources {V : Type} : Generated.orderedMapTranslated = true ∧
    (∀ (m : OMap V) k v, Generated.omAdd m k v = some (m.add k v)) ∧
    (∀ (m : OMap V) k, Generated.omRemove m k = some (m.remove k)) ∧
    (∀ (m : OMap V) k v, Generated.omUpdate m k v = m.update k v) ∧
    (∀ (m : OMap V), Generated.omReverse m = some m.reverseOrder) ∧
    (∀ (m : OMap V) k, Generated.omLookup m k = m.get k) ∧
    (∀ (m : OMap V), Generated.omIter m = m.iter) := by
  refine ⟨by decide, ?_, ?_, ?_, ?_, ?_, ?_⟩
  · intro m k v; rfl
  · intro m k; rfl
  · intro m k v
    simp only [Generated.omUpdate, OMap.update, OMap.get]
    by_cases h : (lookup m.map k).isSome = true <;> simp [h]
  · intro m; rfl
  · intro m k; rfl
  · intro m
    simp only [Generated.omIter, OMap.iter, OMap.get]
    congr 1; funext k
    cases lookup m.map k <;> rfl


/-! The translated functions compute: a file that is the same on both sides is neither copied nor deleted, an extra destination folder is deleted, a file in
the way of a folder is deleted as incompatible and the folder copied (evaluated on the definitions translated from the source on this run). -/
example : ((Generated.processSrcEntrySrc ⟨true, false⟩ PState.init "a" (.file 5 3)).map (fun s => s.cpy.keys)) = some ["a"] := by decide
example : ((prunSrc ⟨true, false⟩ PState.init [.dst "a" (.file 5 3), .src "a" (.file 5 3), .dst "b" .folder]).map (fun s => (s.cpy.keys, s.del.keys))) = some ([], ["b"]) := by decide
example : ((prunSrc ⟨true, false⟩ PState.init [.src "a" .folder, .dst "a" (.file 5 3)]).map (fun s => (s.cpy.keys, s.del.iter.map (·.2.2)))) = some (["a"], [.incompatible]) := by decide


end Rj.C13
