import RjModel.Lemmas.BossOutcome
import RjModel.Generated.BehaviourWrites
import RjModel.Generated.ConfirmShape
import RjModel.Model.ConfirmShape
/-! # C03 — nothing on the destination is deleted or overwritten without configured consent -/
namespace Rj.C03
open Rj

/-- **Error / cancel ⇒ untouched**: whenever a run ends because an applicable behaviour resolved to
`error` or a prompt was cancelled (or could not be shown: an unattended terminal), the destination
has been sent nothing that deletes or overwrites — only `SetRoot`, `GetEntries` and possibly
`CreateRootAncestors` (sent only when the destination root does not exist). -/
theorem C03_error_untouched (w : Wrap) (sc : Scenario) (k : ErrKind) (hk : k.isConsent = true)
    (h : (run w sc).outcome = .err k) : ∀ c ∈ (run w sc).destTrace, c.mutating = false ∨ c = .createRootAncestors := by
  have := (run_before w sc).1 (by rw [h]; exact hk)
  exact this

/-- **Decisions come first**: the execution phase shows no prompt and changes no remembered answer —
every prompt and every behaviour resolution precedes the first delete/create command. -/
theorem C03_decide_before_act (sc : Scenario) (ctx : Ctx) (x : XState) (conf : Conf)
    (del : OMap (Details × DelReason)) (cpy : OMap (Details × CopyReason)) :
    (execPhase sc ctx x conf del cpy).prompts = conf.prompts :=
  (execPhase_outcome sc ctx x conf del cpy).2.2

/-- **skip keeps**: with the entry-deletion behaviour `skip` every planned deletion is taken off the
list, nothing is asked, and there is no error. -/
theorem C03_skip_keeps (c : Conf) (h : c.beh.entry = .skip) (items : List (String × (Details × DelReason))) (rm : List String) :
    confirmDeletes c items rm = (none, c, rm ++ items.map (·.1)) := by
  induction items generalizing rm with
  | nil => simp [confirmDeletes]
  | cons it rest ih =>
    obtain ⟨p, d⟩ := it
    simp only [confirmDeletes, resolve, h]
    have hc : ({ beh := { c.beh with entry := Beh.skip }, answers := c.answers, prompts := c.prompts } : Conf) = c := by
      cases c with
      | mk beh a p => cases beh; simp_all
    simp only [Bool.false_eq_true, ↓reduceIte, hc]
    rw [ih]; simp

/-- **delete proceeds silently** -/
theorem C03_proceed_no_prompt (c : Conf) (h : c.beh.entry = .proceed) (items : List (String × (Details × DelReason))) (rm : List String) :
    confirmDeletes c items rm = (none, c, rm) := by
  induction items generalizing rm with
  | nil => simp [confirmDeletes]
  | cons it rest ih =>
    obtain ⟨p, d⟩ := it
    simp only [confirmDeletes, resolve, h]
    have hc : ({ beh := { c.beh with entry := Beh.proceed }, answers := c.answers, prompts := c.prompts } : Conf) = c := by
      cases c with
      | mk beh a p => cases beh; simp_all
    simp only [Bool.false_eq_true, ↓reduceIte, hc]
    exact ih rm

/-- **error stops before anything**: with `error` and at least one planned deletion the pass fails. -/
theorem C03_error_stops (c : Conf) (h : c.beh.entry = .error) (it : String × (Details × DelReason))
    (rest : List (String × (Details × DelReason))) (rm : List String) :
    (confirmDeletes c (it :: rest) rm).1 = some .entryErr := by
  obtain ⟨p, d⟩ := it
  simp [confirmDeletes, resolve, h]

/-- **a cancelled prompt (or an unattended terminal) stops before anything** -/
theorem C03_cancel_stops (c : Conf) (h : c.beh.entry = .prompt) (ha : c.answers = [] ∨ c.answers.head? = some .cancel)
    (it : String × (Details × DelReason)) (rest : List (String × (Details × DelReason))) (rm : List String) :
    (confirmDeletes c (it :: rest) rm).1 = some .entryErr := by
  obtain ⟨p, d⟩ := it
  rcases ha with ha | ha
  · simp [confirmDeletes, resolve, h, ha]
  · cases hc : c.answers with
    | nil => simp [confirmDeletes, resolve, h, hc]
    | cons a as =>
      rw [hc] at ha
      simp only [List.head?_cons, Option.some.injEq] at ha
      subst ha
      simp [confirmDeletes, resolve, h, hc]

/-- the same four facts for an existing destination file, per case (newer / older / same time) -/
theorem C03_overwrite_needs_overwrite (c : Conf) (p : String) (d : Details) (rest : List (String × (Details × CopyReason))) (rm : List String) :
    (c.beh.newer = .error → (confirmCopies c ((p, (d, .destNewer)) :: rest) rm).1 = some .newerErr) ∧
    (c.beh.older = .error → (confirmCopies c ((p, (d, .destOlder)) :: rest) rm).1 = some .olderErr) ∧
    (c.beh.same = .error → (confirmCopies c ((p, (d, .sameTime)) :: rest) rm).1 = some .sameErr) ∧
    (c.beh.newer = .skip → ∃ c', confirmCopies c ((p, (d, .destNewer)) :: rest) rm = confirmCopies c' rest (rm ++ [p])) ∧
    (c.beh.older = .skip → ∃ c', confirmCopies c ((p, (d, .destOlder)) :: rest) rm = confirmCopies c' rest (rm ++ [p])) ∧
    (c.beh.same = .skip → ∃ c', confirmCopies c ((p, (d, .sameTime)) :: rest) rm = confirmCopies c' rest (rm ++ [p])) ∧
    (confirmCopies c ((p, (d, .notOnDest)) :: rest) rm = confirmCopies c rest rm) := by
  refine ⟨?_, ?_, ?_, ?_, ?_, ?_, rfl⟩
  · intro h; simp [confirmCopies, resolve, h]
  · intro h; simp [confirmCopies, resolve, h]
  · intro h; simp [confirmCopies, resolve, h]
  · intro h; exact ⟨{ c with beh := { c.beh with newer := .skip } }, by simp [confirmCopies, resolve, h]⟩
  · intro h; exact ⟨{ c with beh := { c.beh with older := .skip } }, by simp [confirmCopies, resolve, h]⟩
  · intro h; exact ⟨{ c with beh := { c.beh with same := .skip } }, by simp [confirmCopies, resolve, h]⟩

/-- **A remembered answer stays in its own category**: the deletion pass changes only the
entry-deletion behaviour; the copy pass never changes it or the root behaviour. -/
theorem C03_remember_scoped_deletes (c : Conf) (items : List (String × (Details × DelReason))) (rm : List String) :
    let c' := (confirmDeletes c items rm).2.1
    c'.beh.newer = c.beh.newer ∧ c'.beh.older = c.beh.older ∧ c'.beh.same = c.beh.same ∧ c'.beh.root = c.beh.root := by
  induction items generalizing c rm with
  | nil => simp [confirmDeletes]
  | cons it rest ih =>
    obtain ⟨p, d⟩ := it
    simp only [confirmDeletes]
    generalize resolve c.beh.entry c.answers true = r
    obtain ⟨res, b', ans, shown⟩ := r
    simp only
    cases res with
    | proceed => exact ih _ _
    | skip => exact ih _ _
    | prompt => simp
    | error => simp

/-- the root prompt offers no "all occurrences": it never changes a remembered behaviour -/
theorem C03_root_gate_scoped (c : Conf) : (rootGate c).2.beh = c.beh := by
  simp only [rootGate]
  generalize resolve c.beh.root c.answers false = r
  obtain ⟨res, b', ans, shown⟩ := r
  cases res <;> rfl

/-- the root gate: `skip` ends the sync with `Ok` and sends nothing; `error`/cancel is an error -/
theorem C03_root_gate (c : Conf) :
    (c.beh.root = .skip → (rootGate c).1 = some false) ∧ (c.beh.root = .error → (rootGate c).1 = none) ∧
    (c.beh.root = .proceed → (rootGate c).1 = some true) ∧
    (c.beh.root = .prompt → c.answers = [] → (rootGate c).1 = none) := by
  refine ⟨?_, ?_, ?_, ?_⟩ <;> intro h <;> simp [rootGate, resolve, h]
  intro ha; simp [ha]

/-- Non-vacuity: prompt with answers "skip this one, delete all": first entry kept, the rest deleted,
one behaviour remembered. -/
example :
    let c : Conf := ⟨⟨.prompt, .proceed, .skip, .prompt, .prompt⟩, [.skipOnce, .doAll], []⟩
    let r := confirmDeletes c [("a", (.folder, .notOnSource)), ("b", (.folder, .notOnSource)), ("c", (.folder, .notOnSource))] []
    r.1 = none ∧ r.2.2 = ["a"] ∧ r.2.1.beh.entry = .proceed ∧ r.2.1.prompts = [.entry, .entry] ∧ r.2.1.beh.newer = .prompt := by
  decide

/-- **The behaviours in force change only by a remembered prompt answer** (extracted from boss_sync.rs on every run): the only assignments to a
behaviour field of the sync context are the four `if let Some(b) = prompt_result.remembered_behaviour { ctx.<field> = b; }` inside the
resolution of that same field - which is what the model's `Conf` does (`C03_root_gate_scoped`: nothing else, in particular not the
root-deletion gate, rewrites a behaviour after `resolve_spec`). -/
theorem C03_behaviours_change_only_by_remembered_answers :
    Generated.behaviourWrites = [("dest_entry_needs_deleting_behaviour", "remembered"), ("dest_file_newer_behaviour", "remembered"),
      ("dest_file_older_behaviour", "remembered"), ("files_same_time_behaviour", "remembered")] := by decide


/-- **`confirm_actions` still has the shape the model was written against** (a pin, not a translation: the normalised text of the function, extracted on
every run, equals the copy kept next to the model in `Model/ConfirmShape.lean`).  The theorems above are about `confirmDeletes` / `confirmCopies` /
`confirmActions`; the L2 consent stream compares them with the function's behaviour; this obligation makes any edit of the function visible even
where the stream's scenarios do not reach. -/
theorem C03_confirm_actions_shape : Generated.confirmActionsShape = confirmActionsShapeRef := by rfl


end Rj.C03
