import RjModel.Props.C13
import RjModel.Props.C03
import RjModel.Generated.SlashTable
/-! # C01 — a successful sync makes the destination a mirror of the source

Proved at the level of the plan: the trailing-slash table, the closed form of the plan for every
arrival order (C13), the no-skip confirmation pass, and the pointwise mirror statement for the state
"(destination − deletions) overlaid with the copies".  That the doer's operations have exactly that
effect on a real file system (and that every operation's precondition holds) is validated end to
end (L3/L4), not proved: the file system is modelled at the plan level only — PARTIAL, see DESIGN.md. -/
namespace Rj.C01
open Rj

/-- **The trailing-slash table** of `docs/notes.md` (re-extracted on every run), all 36 cells, with
file *and* symlink variants of "File or symlink": the boss model rejects exactly the forbidden
combinations (sending nothing that changes either side), puts a file/symlink source inside a
trailing-slash destination (`b/a`), replaces the destination object itself otherwise, and consults the
root-deletion gate wherever the table shows `!`. -/
theorem C01_slash_table : Generated.slashTableRecognised = true ∧ Generated.slashTable.all rowHolds = true := by
  decide

end Rj.C01
