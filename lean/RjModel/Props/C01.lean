import RjModel.Props.C13
import RjModel.Props.C03
import RjModel.Props.C11
import RjModel.Generated.SlashTable
/-! # C01 — a successful sync makes the destination a mirror of the source

What is proved (for every tree pair, arrival order and poll schedule):
* the trailing-slash table of `docs/notes.md` (all cells, file and symlink variants);
* the plan is the order-free closed form (C13) and, applied as "(destination − deletions) overlaid
  with the copies", gives at **every** path the source's entry, or leaves a destination entry the boss
  deems equal (same-time file, folder, equal link); nothing else survives;
* without skips the confirmation pass keeps the whole plan (C03);
* a run that ends without error sent **exactly** one delete per planned deletion, then exactly the
  creations of the planned copies (for files: the source's chunks, time stamp on the last, C11), in
  plan order.

What is validated rather than proved (PARTIAL): that the doer's operations have exactly that effect
on a real file system — checked end to end by the L3/L4 correspondence with an independent tree
comparison in all four placements. -/
namespace Rj.C01
open Rj

/-- **The trailing-slash table** of `docs/notes.md` (re-extracted on every run), all 36 cells, with
file *and* symlink variants of "File or symlink": the boss model rejects exactly the forbidden
combinations, puts a file/symlink source inside a trailing-slash destination (`b/a`), replaces the
destination object itself otherwise, and consults the root-deletion gate wherever the table shows `!`. -/
theorem C01_slash_table : Generated.slashTableRecognised = true ∧ Generated.slashTable.all rowHolds = true := by
  decide

/-- entries the boss deems equal (no action) -/
def deemedEqual (c : PCfg) : Details → Details → Bool
  | .file sm _, .file dm _ => sm = dm
  | .folder, .folder => true
  | .symlink sk st, .symlink dk dt => st = dt && (sk = dk || !c.destDiff)
  | _, _ => false

/-- the destination after the plan took effect: deletions removed, copies put in place -/
def post (del : String → Option (Details × DelReason)) (cpy : String → Option (Details × CopyReason))
    (dst : String → Option Details) (p : String) : Option Details :=
  match cpy p with
  | some (e, _) => some e
  | none => match del p with
    | some _ => none
    | none => dst p

/-- **Mirror, pointwise.**  With the closed-form plan, at every path: nothing where the source has
nothing; where the source has `e`, either `e` itself was put there, or the destination's own entry
stays and the boss deems it equal to `e`. -/
theorem C01_plan_mirror (c : PCfg) (src dst : String → Option Details) (p : String) :
    match src p with
    | none => post (delSpec c src dst) (cpySpec c src dst) dst p = none
    | some e => post (delSpec c src dst) (cpySpec c src dst) dst p = some e ∨
        ∃ d, dst p = some d ∧ post (delSpec c src dst) (cpySpec c src dst) dst p = some d ∧ deemedEqual c e d = true := by
  cases hs : src p with
  | none =>
    simp only [post, cpySpec, delSpec, hs]
    cases dst p <;> simp
  | some e =>
    simp only [post, cpySpec, delSpec, hs]
    cases hd : dst p with
    | none => simp
    | some d =>
      by_cases hdel : needsDelete c e d = true
      · simp [hdel]
      · simp only [hdel, Bool.false_eq_true, ↓reduceIte]
        cases hc : needsCopy c e d with
        | some r => simp
        | none =>
          right
          refine ⟨d, rfl, by simp, ?_⟩
          cases e <;> cases d <;> simp_all [needsDelete, needsCopy, deemedEqual]
          all_goals grind

/-- a same-time file is left alone only if `--files-same-time` is `skip` at planning time;
otherwise every destination file that stays has … been copied -/
theorem C01_same_time_overwrite (c : PCfg) (h : c.sameTimeSkip = false) (src dst : String → Option Details) (p : String)
    (sm ss dm ds : _) (hs : src p = some (.file sm ss)) (hd : dst p = some (.file dm ds)) :
    post (delSpec c src dst) (cpySpec c src dst) dst p = some (.file sm ss) := by
  simp only [post, cpySpec, hs, hd, needsDelete, needsCopy, h]
  grind

/-- **Mirror for every arrival order**: whatever the interleaving of the two listings, the plan the
boss ends the query phase with has the mirror property at every path. -/
theorem C01_mirror_every_order (c : PCfg) (evs : List Ev)
    (hs : ((srcOf evs).map (·.1)).Nodup) (hd : ((dstOf evs).map (·.1)).Nodup) :
    ∃ s, prun c PState.init evs = some s ∧ ∀ p,
      match lookup (srcOf evs).reverse p with
      | none => post s.del.get s.cpy.get (lookup (dstOf evs).reverse) p = none
      | some e => post s.del.get s.cpy.get (lookup (dstOf evs).reverse) p = some e ∨
          ∃ d, lookup (dstOf evs).reverse p = some d ∧
            post s.del.get s.cpy.get (lookup (dstOf evs).reverse) p = some d ∧ deemedEqual c e d = true := by
  obtain ⟨s, h, hdel, hcpy⟩ := C13.C13_closed_form c evs hs hd
  refine ⟨s, h, fun p => ?_⟩
  have e1 : s.del.get = delSpec c (lookup (srcOf evs).reverse) (lookup (dstOf evs).reverse) := funext hdel
  have e2 : s.cpy.get = cpySpec c (lookup (srcOf evs).reverse) (lookup (dstOf evs).reverse) := funext hcpy
  rw [e1, e2]
  exact C01_plan_mirror c _ _ p

/-! ### what a run without error sent -/

/-- the creation commands of one planned copy -/
def copyCmds (files : List (String × FileScript)) (p : String) : Details → List Cmd
  | .file mtime _ => (C11.consumed (fileScript files p)).map fun ch => chunkCmd p ch.1 mtime ch.2
  | .folder => [.createFolder p]
  | .symlink k t => [.createSymlink p k t]

/-- **Deletions sent = deletions planned**, one command each, in plan order. -/
theorem C01_delete_trace (c : Ctx) (hdry : c.dryRun = false) (errAt : Option Nat)
    (l : List (String × (Details × DelReason))) (x x' : XState) (st st' : Stats)
    (h : deleteLoop c errAt l x st = (none, x', st')) :
    x'.dest = x.dest ++ l.map (fun it => deleteCmd it.1 it.2.1) ∧ x'.src = x.src := by
  induction l generalizing x st with
  | nil => simp only [deleteLoop, Prod.mk.injEq] at h; obtain ⟨-, rfl, -⟩ := h; simp
  | cons it rest ih =>
    obtain ⟨p, d, r⟩ := it
    simp only [deleteLoop] at h
    by_cases hp : ((delStepState c x p d).poll errAt).1 = true
    · simp [hp] at h
    · simp only [hp, Bool.false_eq_true, ↓reduceIte] at h
      obtain ⟨h1, h2⟩ := ih _ _ h
      simp only [delStepState, hdry, Bool.false_eq_true, ↓reduceIte, XState.poll, XState.sendDest] at h1 h2
      simp [h1, h2]

/-- **Creations sent = copies planned**: folders and links by one command, files by exactly the
source's chunks with the time stamp on the last one, whose lengths add up to the listed size. -/
theorem C01_copy_trace (c : Ctx) (hdry : c.dryRun = false) (errAt : Option Nat) (files : List (String × FileScript))
    (l : List (String × (Details × CopyReason))) (x x' : XState) (st st' : Stats)
    (h : copyLoop c errAt files l x st = (none, x', st')) :
    x'.dest = x.dest ++ l.flatMap (fun it => copyCmds files it.1 it.2.1) := by
  induction l generalizing x st with
  | nil => simp only [copyLoop, Prod.mk.injEq] at h; obtain ⟨-, rfl, -⟩ := h; simp
  | cons it rest ih =>
    obtain ⟨p, d, r⟩ := it
    simp only [copyLoop] at h
    generalize hr : copyOne c errAt files p d x st = r1 at h
    obtain ⟨e1, x1, st1⟩ := r1
    cases e1 with
    | some e => simp at h
    | none =>
      simp only at h
      by_cases hq : (x1.poll errAt).1 = true
      · simp [hq] at h
      · simp only [hq, Bool.false_eq_true, ↓reduceIte] at h
        have h2 := ih _ _ h
        have h1 : x1.dest = x.dest ++ copyCmds files p d := by
          cases d with
          | folder =>
            simp only [copyOne, hdry, Bool.false_eq_true, ↓reduceIte, Prod.mk.injEq] at hr
            obtain ⟨-, rfl, -⟩ := hr; simp [XState.sendDest, copyCmds]
          | symlink k t =>
            simp only [copyOne, hdry, Bool.false_eq_true, ↓reduceIte, Prod.mk.injEq] at hr
            obtain ⟨-, rfl, -⟩ := hr; simp [XState.sendDest, copyCmds]
          | file mtime size =>
            simp only [copyOne, hdry, Bool.false_eq_true, ↓reduceIte, copyFileReal] at hr
            generalize hc : chunkLoop errAt p size mtime (fileScript files p) (x.sendSrc (.getFileContent p)) 0 = rc at hr
            obtain ⟨ec, xc, off⟩ := rc
            cases ec with
            | some e => simp at hr
            | none =>
              simp only at hr
              by_cases hsz : off = size
              · simp only [hsz, ne_eq, not_true_eq_false, ↓reduceIte, Prod.mk.injEq] at hr
                obtain ⟨-, rfl, -⟩ := hr
                obtain ⟨-, -, hd, -⟩ := C11.C11_relay_ok errAt p size mtime _ _ _ 0 off hc hsz
                simpa [XState.sendSrc, copyCmds] using hd
              · simp [hsz] at hr
        simp only [XState.poll] at h2
        simp [h2, h1, List.append_assoc]

/-- Non-vacuity of the table theorem's model side: a file source into a trailing-slash folder
destination lands inside it (`b/a`), a folder source with a trailing slash on a missing destination
creates it, a file source with a trailing slash is refused. -/
example : Generated.slashTable.length = 6 ∧
    modelCell (some (.file 1 1)) (some .folder) false true = .ba ∧
    modelCell (some .folder) none true true = .b false ∧
    modelCell (some (.file 1 1)) none true false = .x := by decide

end Rj.C01
