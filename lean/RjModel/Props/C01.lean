import RjModel.Props.C13
import RjModel.Props.C03
import RjModel.Props.C11
import RjModel.Generated.SlashTable
import RjModel.Lemmas.SyncLemmas
import RjModel.Lemmas.ListingLemmas
import RjModel.Lemmas.FilteredListing
import RjModel.Lemmas.DoerLemmas
import RjModel.Lemmas.ComposeLemmas
import RjModel.Lemmas.PlanBridge
import RjModel.Generated.DeleteCmd
import RjModel.Generated.ConfirmShape
import RjModel.Model.ConfirmShape
/-! # C01 — a successful sync makes the destination a mirror of the source

What is proved (for every tree pair, arrival order and poll schedule):
* the trailing-slash table of `docs/notes.md` (all cells, file and symlink variants);
* the plan is the order-free closed form (C13) and, applied as "(destination − deletions) overlaid
  with the copies", gives at **every** path the source's entry, or leaves a destination entry the boss
  deems equal (same-time file, folder, equal link); nothing else survives;
* without skips the confirmation pass keeps the whole plan (C03);
* a run that ends without error sent **exactly** one delete per planned deletion, then exactly the
  creations of the planned copies (for files: the source's chunks, time stamp on the last, C11), in
  plan order.

What is validated rather than proved (PARTIAL): that the doer's operations have exactly that effect
on a real file system — checked end to end by the L3/L4 correspondence with an independent tree
comparison in all four placements. -/
namespace Rj.C01
open Rj

/-- **The trailing-slash table** of `docs/notes.md` (re-extracted on every run), all 36 cells, with
file *and* symlink variants of "File or symlink": the boss model rejects exactly the forbidden
combinations, puts a file/symlink source inside a trailing-slash destination (`b/a`), replaces the
destination object itself otherwise, and consults the root-deletion gate wherever the table shows `!`. -/
theorem C01_slash_table : Generated.slashTableRecognised = true ∧ Generated.slashTable.all rowHolds = true := by
  decide

/-- entries the boss deems equal (no action) -/
def deemedEqual (c : PCfg) : Details → Details → Bool
  | .file sm _, .file dm _ => sm = dm
  | .folder, .folder => true
  | .symlink sk st, .symlink dk dt => st = dt && (sk = dk || !c.destDiff)
  | _, _ => false

/-- the destination after the plan took effect: deletions removed, copies put in place -/
def post (del : String → Option (Details × DelReason)) (cpy : String → Option (Details × CopyReason))
    (dst : String → Option Details) (p : String) : Option Details :=
  match cpy p with
  | some (e, _) => some e
  | none => match del p with
    | some _ => none
    | none => dst p

/-- **Mirror, pointwise.**  With the closed-form plan, at every path: nothing where the source has
nothing; where the source has `e`, either `e` itself was put there, or the destination's own entry
stays and the boss deems it equal to `e`. -/
theorem C01_plan_mirror (c : PCfg) (src dst : String → Option Details) (p : String) :
    match src p with
    | none => post (delSpec c src dst) (cpySpec c src dst) dst p = none
    | some e => post (delSpec c src dst) (cpySpec c src dst) dst p = some e ∨
        ∃ d, dst p = some d ∧ post (delSpec c src dst) (cpySpec c src dst) dst p = some d ∧ deemedEqual c e d = true := by
  cases hs : src p with
  | none =>
    simp only [post, cpySpec, delSpec, hs]
    cases dst p <;> simp
  | some e =>
    simp only [post, cpySpec, delSpec, hs]
    cases hd : dst p with
    | none => simp
    | some d =>
      by_cases hdel : needsDelete c e d = true
      · simp [hdel]
      · simp only [hdel, Bool.false_eq_true, ↓reduceIte]
        cases hc : needsCopy c e d with
        | some r => simp
        | none =>
          right
          refine ⟨d, rfl, by simp, ?_⟩
          cases e <;> cases d <;> simp_all [needsDelete, needsCopy, deemedEqual]
          all_goals grind

/-- a same-time file is left alone only if `--files-same-time` is `skip` at planning time;
otherwise every destination file that stays has … been copied -/
theorem C01_same_time_overwrite (c : PCfg) (h : c.sameTimeSkip = false) (src dst : String → Option Details) (p : String)
    (sm ss dm ds : _) (hs : src p = some (.file sm ss)) (hd : dst p = some (.file dm ds)) :
    post (delSpec c src dst) (cpySpec c src dst) dst p = some (.file sm ss) := by
  simp only [post, cpySpec, hs, hd, needsDelete, needsCopy, h]
  grind

/-- **Mirror for every arrival order**: whatever the interleaving of the two listings, the plan the
boss ends the query phase with has the mirror property at every path. -/
theorem C01_mirror_every_order (c : PCfg) (evs : List Ev)
    (hs : ((srcOf evs).map (·.1)).Nodup) (hd : ((dstOf evs).map (·.1)).Nodup) :
    ∃ s, prun c PState.init evs = some s ∧ ∀ p,
      match lookup (srcOf evs).reverse p with
      | none => post s.del.get s.cpy.get (lookup (dstOf evs).reverse) p = none
      | some e => post s.del.get s.cpy.get (lookup (dstOf evs).reverse) p = some e ∨
          ∃ d, lookup (dstOf evs).reverse p = some d ∧
            post s.del.get s.cpy.get (lookup (dstOf evs).reverse) p = some d ∧ deemedEqual c e d = true := by
  obtain ⟨s, h, hdel, hcpy⟩ := C13.C13_closed_form c evs hs hd
  refine ⟨s, h, fun p => ?_⟩
  have e1 : s.del.get = delSpec c (lookup (srcOf evs).reverse) (lookup (dstOf evs).reverse) := funext hdel
  have e2 : s.cpy.get = cpySpec c (lookup (srcOf evs).reverse) (lookup (dstOf evs).reverse) := funext hcpy
  rw [e1, e2]
  exact C01_plan_mirror c _ _ p

/-! ### what a run without error sent -/

/-- the creation commands of one planned copy -/
def copyCmds (files : List (String × FileScript)) (p : String) : Details → List Cmd
  | .file mtime _ => (C11.consumed (fileScript files p)).map fun ch => chunkCmd p ch.1 mtime ch.2
  | .folder => [.createFolder p]
  | .symlink k t => [.createSymlink p k t]

/-- **Deletions sent = deletions planned**, one command each, in plan order. -/
theorem C01_delete_trace (c : Ctx) (hdry : c.dryRun = false) (errAt : Option Nat)
    (l : List (String × (Details × DelReason))) (x x' : XState) (st st' : Stats)
    (h : deleteLoop c errAt l x st = (none, x', st')) :
    x'.dest = x.dest ++ l.map (fun it => deleteCmd it.1 it.2.1) ∧ x'.src = x.src := by
  induction l generalizing x st with
  | nil => simp only [deleteLoop, Prod.mk.injEq] at h; obtain ⟨-, rfl, -⟩ := h; simp
  | cons it rest ih =>
    obtain ⟨p, d, r⟩ := it
    simp only [deleteLoop] at h
    by_cases hp : ((delStepState c x p d).poll errAt).1 = true
    · simp [hp] at h
    · simp only [hp, Bool.false_eq_true, ↓reduceIte] at h
      obtain ⟨h1, h2⟩ := ih _ _ h
      simp only [delStepState, hdry, Bool.false_eq_true, ↓reduceIte, XState.poll, XState.sendDest] at h1 h2
      simp [h1, h2]

/-- **Creations sent = copies planned**: folders and links by one command, files by exactly the
source's chunks with the time stamp on the last one, whose lengths add up to the listed size. -/
theorem C01_copy_trace (c : Ctx) (hdry : c.dryRun = false) (errAt : Option Nat) (files : List (String × FileScript))
    (l : List (String × (Details × CopyReason))) (x x' : XState) (st st' : Stats)
    (h : copyLoop c errAt files l x st = (none, x', st')) :
    x'.dest = x.dest ++ l.flatMap (fun it => copyCmds files it.1 it.2.1) := by
  induction l generalizing x st with
  | nil => simp only [copyLoop, Prod.mk.injEq] at h; obtain ⟨-, rfl, -⟩ := h; simp
  | cons it rest ih =>
    obtain ⟨p, d, r⟩ := it
    simp only [copyLoop] at h
    generalize hr : copyOne c errAt files p d x st = r1 at h
    obtain ⟨e1, x1, st1⟩ := r1
    cases e1 with
    | some e => simp at h
    | none =>
      simp only at h
      by_cases hq : (x1.poll errAt).1 = true
      · simp [hq] at h
      · simp only [hq, Bool.false_eq_true, ↓reduceIte] at h
        have h2 := ih _ _ h
        have h1 : x1.dest = x.dest ++ copyCmds files p d := by
          cases d with
          | folder =>
            simp only [copyOne, hdry, Bool.false_eq_true, ↓reduceIte, Prod.mk.injEq] at hr
            obtain ⟨-, rfl, -⟩ := hr; simp [XState.sendDest, copyCmds]
          | symlink k t =>
            simp only [copyOne, hdry, Bool.false_eq_true, ↓reduceIte, Prod.mk.injEq] at hr
            obtain ⟨-, rfl, -⟩ := hr; simp [XState.sendDest, copyCmds]
          | file mtime size =>
            simp only [copyOne, hdry, Bool.false_eq_true, ↓reduceIte, copyFileReal] at hr
            generalize hc : chunkLoop errAt p size mtime (fileScript files p) (x.sendSrc (.getFileContent p)) 0 = rc at hr
            obtain ⟨ec, xc, off⟩ := rc
            cases ec with
            | some e => simp at hr
            | none =>
              simp only at hr
              by_cases hsz : off = size
              · simp only [hsz, ne_eq, not_true_eq_false, ↓reduceIte, Prod.mk.injEq] at hr
                obtain ⟨-, rfl, -⟩ := hr
                obtain ⟨-, -, hd, -⟩ := C11.C11_relay_ok errAt p size mtime _ _ _ 0 off hc hsz
                simpa [XState.sendSrc, copyCmds] using hd
              · simp [hsz] at hr
        simp only [XState.poll] at h2
        simp [h2, h1, List.append_assoc]

/-- Non-vacuity of the table theorem's model side: a file source into a trailing-slash folder
destination lands inside it (`b/a`), a folder source with a trailing slash on a missing destination
creates it, a file source with a trailing slash is refused. -/
example : Generated.slashTable.length = 6 ∧
    modelCell (some (.file 1 1)) (some .folder) false true = .ba ∧
    modelCell (some .folder) none true true = .b false ∧
    modelCell (some (.file 1 1)) none true false = .x := by decide

/-! ### the destination doer's half, over the file-system model -/

/-- **Mirror, end to end on the file-system model.**  For every destination tree below the doer's
root `r` (root and its ancestors are folders; tree-closed; listed completely, parents first) and every
source tree (tree-closed, listed parents first, link targets as a doer reads them): executing the plan
— the closed form of C13 on component paths: deletions in reverse listing order, then creations in
source listing order, each as the doer's file-system calls — **never fails and never follows a link**
(the result is `ok`, not `err`/`escape`), changes **nothing outside the root**, keeps the root a
folder, and leaves at **every** relative path exactly what the source holds there: nothing where the
source has nothing; a folder; the source's bytes with the source's time (or the destination's own
file when it already carried that time: deemed up to date); a link whose text reads back as the
source's target. -/
theorem C01_mirror_fs {fs0 : FS} {r : FPath} {ld : List (FPath × Node)} {src : FPath → Option SEntry}
    {ls : List (FPath × SEntry)} (hw : DestWF (fun _ => true) fs0 r ld) (hs : SrcWF (fun _ => true) src ls) :
    ∃ fs', syncDest fs0 r src ls ld = .ok fs' ∧
      (∀ q, ¬ r <+: q → fs'.get q = fs0.get q) ∧
      fs'.get r = some .folder ∧
      ∀ p, p ≠ [] → MirrorAt fs0 fs' r p (src p) := by
  obtain ⟨fs', h1, h2, h3, h4, -⟩ := sync_mirror hw hs (fun _ _ _ _ _ => rfl)
  exact ⟨fs', h1, h2, h3, fun p hp => h4 p hp rfl⟩

/-- **Mirror under filters.**  `vis p` says whether the filters let the relative path `p` through (the
same verdict on both sides: C06); both listings hold exactly the visible entries (`DestWF.listed`,
`SrcWF.listed`), and what is visible has visible ancestors (an excluded folder is not entered).  Under
the one extra assumption that a destination folder the plan deletes holds nothing the filters hide
(`hsafe`: otherwise the deletion fails, `C07_nonempty_folder_fails`), the run ends `ok`, follows no
link, changes nothing outside the root, reaches the mirror state at **every visible path** and leaves
**every hidden path exactly as it was**. -/
theorem C01_mirror_filtered {vis : FPath → Bool} {fs0 : FS} {r : FPath} {ld : List (FPath × Node)}
    {src : FPath → Option SEntry} {ls : List (FPath × SEntry)}
    (hw : DestWF vis fs0 r ld) (hs : SrcWF vis src ls)
    (hsafe : ∀ p c n, (p, Node.folder) ∈ planDel src ld → fs0.get (r ++ (p ++ [c])) = some n → vis (p ++ [c]) = true) :
    ∃ fs', syncDest fs0 r src ls ld = .ok fs' ∧
      (∀ q, ¬ r <+: q → fs'.get q = fs0.get q) ∧
      fs'.get r = some .folder ∧
      (∀ p, p ≠ [] → vis p = true → MirrorAt fs0 fs' r p (src p)) ∧
      (∀ p, vis p = false → fs'.get (r ++ p) = fs0.get (r ++ p)) :=
  sync_mirror hw hs hsafe

/-- **… with the destination's own listing**: the assumptions about the destination listing are met by
the model's own listing function (`C17_listing_exact_fs`), so for a file-system value with one entry per
path, a root folder with folder ancestors and a tree-closed destination below it, the sync on the
listing the doer model itself produces ends in the mirror state. -/
theorem C01_mirror_fs_own_listing (fs0 : FS) (hwf : fs0.Wf) (r : FPath)
    (hroot : fs0.get r = some .folder) (hanc : ∀ k, k < r.length → fs0.get (r.take k) = some .folder)
    (hclosed : ∀ p, p ≠ [] → fs0.get (r ++ p) ≠ none → fs0.get (r ++ p.dropLast) = some .folder)
    (f : Nat) (hfuel : ∀ p, fs0.get (r ++ p) ≠ none → p.length ≤ f)
    {src : FPath → Option SEntry} {ls : List (FPath × SEntry)} (hs : SrcWF (fun _ => true) src ls) :
    ∃ fs', syncDest fs0 r src ls ((listNodes fs0 f r).map fun e => (e.1.drop r.length, e.2)) = .ok fs' ∧
      (∀ q, ¬ r <+: q → fs'.get q = fs0.get q) ∧
      fs'.get r = some .folder ∧
      ∀ p, p ≠ [] → MirrorAt fs0 fs' r p (src p) :=
  C01_mirror_fs (destWF_of_listNodes fs0 hwf r hroot hanc hclosed f hfuel) hs

/-- **Mirror, for every source tree and every destination tree** (both as file-system values): a
source tree below `rs` holding files, folders and links (tree-closed), a destination below `rd` (any
tree-closed content: files, folders, links, special files) — the listings are the model's own
(`listNodes`), the plan is the closed form, the execution is the doer's calls: the run ends `ok`,
follows no link, touches nothing outside `rd`, and at every relative path the destination ends up with
what the source holds there (`MirrorAt`).  No assumption about listings or orders is left: they are
consequences (`C17_listing_exact_fs`). -/
theorem C01_mirror_two_trees (S D : FS) (rs rd : FPath) (fS fD : Nat)
    (hS : SrcTreeOk S rs fS) (hD : D.Wf)
    (hroot : D.get rd = some .folder) (hanc : ∀ k, k < rd.length → D.get (rd.take k) = some .folder)
    (hclosed : ∀ p, p ≠ [] → D.get (rd ++ p) ≠ none → D.get (rd ++ p.dropLast) = some .folder)
    (hfuel : ∀ p, D.get (rd ++ p) ≠ none → p.length ≤ fD) :
    ∃ D', syncDest D rd (srcOfFS S rs) (lsOfFS S rs fS)
        ((listNodes D fD rd).map fun e => (e.1.drop rd.length, e.2)) = .ok D' ∧
      (∀ q, ¬ rd <+: q → D'.get q = D.get q) ∧
      D'.get rd = some .folder ∧
      ∀ p, p ≠ [] → MirrorAt D D' rd p (srcOfFS S rs p) :=
  C01_mirror_fs (destWF_of_listNodes D hD rd hroot hanc hclosed fD hfuel) (srcWF_of_tree S rs fS hS)

/-- **Mirror under filters, for every source tree and every destination tree**: both sides list with the same filter
verdict `keep` on relative paths (C06), an entry that is not kept being neither reported nor entered
(`C17_listing_exact_filtered`).  Under the one assumption that no destination folder the plan deletes holds something the
walk does not reach (`hsafe`; otherwise the deletion fails: `C07_nonempty_folder_fails`), the run ends `ok`, follows no
link, touches nothing outside `rd`, reaches the mirror state at every path the walk reaches (`visOf keep`) and leaves
every other path below `rd` exactly as it was. -/
theorem C01_mirror_two_trees_filtered (keep : FPath → Bool) (S D : FS) (rs rd : FPath) (fS fD : Nat)
    (hS : SrcTreeOk S rs fS) (hD : D.Wf)
    (hroot : D.get rd = some .folder) (hanc : ∀ k, k < rd.length → D.get (rd.take k) = some .folder)
    (hclosed : ∀ p, p ≠ [] → D.get (rd ++ p) ≠ none → D.get (rd ++ p.dropLast) = some .folder)
    (hfuel : ∀ p, D.get (rd ++ p) ≠ none → p.length ≤ fD)
    (hsafe : ∀ p c n, (p, Node.folder) ∈ planDel (srcOfFS S rs) ((listNodesF keep rd D fD rd).map fun e => (e.1.drop rd.length, e.2)) →
      D.get (rd ++ (p ++ [c])) = some n → visOf keep (p ++ [c]) = true) :
    ∃ D', syncDest D rd (srcOfFS S rs) (lsOfFSF keep S rs fS)
        ((listNodesF keep rd D fD rd).map fun e => (e.1.drop rd.length, e.2)) = .ok D' ∧
      (∀ q, ¬ rd <+: q → D'.get q = D.get q) ∧
      D'.get rd = some .folder ∧
      (∀ p, p ≠ [] → visOf keep p = true → MirrorAt D D' rd p (srcOfFS S rs p)) ∧
      (∀ p, visOf keep p = false → D'.get (rd ++ p) = D.get (rd ++ p)) :=
  sync_mirror (destWF_of_listNodesF keep D hD rd hroot hanc hclosed fD hfuel) (srcWF_of_treeF keep S rs fS hS) hsafe

/-- how an entry of the file-system model appears in a listing (`entry_details_from_metadata`; the
link kind `k` is whatever the probe gives: a unix destination does not compare it) -/
def dOfNode (k : SymKind) : Node → Details
  | .file b (.at m) => .file m b.length
  | .file b .fresh => .file (-1) b.length
  | .folder => .folder
  | .symlink text => .symlink k (readLinkB text)
  | .special => .folder      -- (never listed: the listing fails on it)

def dOfSEntry (k : SymKind) : SEntry → Details
  | .file b m => .file m b.length
  | .folder => .folder
  | .link t => .symlink k t

/-- **The plan on the file-system model is the boss's plan**: `compatible` is `needs_delete = false`
and `upToDate` is "`needs_delete = false` and `needs_copy = None`" of `boss_sync.rs` (C13's closed
form is stated with these two functions), for a unix destination with same-time files skipped and
source times at or after the epoch. -/
theorem C01_plan_bridge (ks kd : SymKind) (e : SEntry) (n : Node) (hn : n ≠ .special)
    (hm : ∀ b m, e = .file b m → 0 ≤ m) :
    needsDelete ⟨true, false⟩ (dOfSEntry ks e) (dOfNode kd n) = !compatible e n ∧
    (compatible e n = true → ((needsCopy ⟨true, false⟩ (dOfSEntry ks e) (dOfNode kd n)).isNone = upToDate e n)) := by
  cases e with
  | folder =>
    cases n with
    | file b' mt => cases mt <;> simp [dOfSEntry, dOfNode, needsDelete, compatible]
    | folder => simp [dOfSEntry, dOfNode, needsDelete, needsCopy, compatible, upToDate]
    | symlink t => simp [dOfSEntry, dOfNode, needsDelete, compatible]
    | special => exact absurd rfl hn
  | link t =>
    cases n with
    | file b' mt => cases mt <;> simp [dOfSEntry, dOfNode, needsDelete, compatible]
    | folder => simp [dOfSEntry, dOfNode, needsDelete, compatible]
    | symlink text =>
      simp only [dOfSEntry, dOfNode, needsDelete, needsCopy, compatible, upToDate]
      by_cases h : t = readLinkB text <;> simp [h]
    | special => exact absurd rfl hn
  | file b m =>
    have hm0 := hm b m rfl
    cases n with
    | file b' mt =>
      cases mt with
      | «at» m' =>
        simp only [dOfSEntry, dOfNode, needsDelete, needsCopy, compatible, upToDate, Bool.not_true, ↓reduceIte, true_and]
        intro _
        by_cases h : m = m'
        · simp [h]
        · simp only [h, ↓reduceIte, decide_false]
          split <;> rfl
      | fresh =>
        simp only [dOfSEntry, dOfNode, needsDelete, needsCopy, compatible, upToDate, Bool.not_true, ↓reduceIte, true_and]
        intro _
        have : m ≠ -1 := by omega
        simp only [this, ↓reduceIte]
        split <;> rfl
    | folder => simp [dOfSEntry, dOfNode, needsDelete, compatible]
    | symlink t => simp [dOfSEntry, dOfNode, needsDelete, compatible]
    | special => exact absurd rfl hn

/-- **The operations of `syncDest` are what the doer model executes** for the boss's commands: with the
root set (not spelled with a trailing slash) and a normalised relative path, `DeleteFolder`,
`DeleteFile`/`DeleteSymlink`, `CreateFolder` and `CreateSymlink` are exactly `rmdir`, `unlink`,
`mkdir` and `symlink(writeLinkB target)` at `root ++ path`, answered with an error response iff the
call fails. -/
theorem C01_exec_bridge (k : ChunkCfg) (keepOf : List FilterSpec → String → Bool) (st : DoerSt) (r p : FPath) (ps : String)
    (hr : st.root = some (r, false)) (hp : relComps ps = some p) :
    execCmd k keepOf st (.deleteFolder ps) = reply st (st.fs.rmdir (r ++ p)) .deleteFolder ∧
    execCmd k keepOf st (.deleteFile ps) = reply st (st.fs.unlink (r ++ p)) .deleteFile ∧
    (∀ kd, execCmd k keepOf st (.deleteSymlink ps kd) = reply st (st.fs.unlink (r ++ p)) .deleteSymlink) ∧
    execCmd k keepOf st (.createFolder ps) = reply st (st.fs.mkdir (r ++ p)) .createFolder ∧
    (∀ kd t, execCmd k keepOf st (.createSymlink ps kd t) = reply st (st.fs.mksymlink (r ++ p) (writeLinkB '/' t)) .createSymlink) := by
  simp [execCmd, hr, Cmd.path?, fullOf, hp, Cmd.isFolderOp]

/-- … and a file sent in one part (`CreateOrUpdateFile` with the time stamp, nothing in progress) is
`putFile`: create/truncate, write, set the source's time. -/
theorem C01_exec_bridge_file (st : DoerSt) (ps : String) (full : FPath) (b : List UInt8) (m : Int)
    (h1 : st.inProg = none) (h2 : st.failed = none) (fs' : FS) (h : putFile st.fs full b m = .ok fs') :
    execCreateOrUpdate st ps full b (some m) false = .ok { st with fs := fs' } [] := by
  unfold putFile OpR.bind at h
  unfold execCreateOrUpdate
  simp only [h2, h1]
  cases hc : st.fs.createTrunc full with
  | err => simp [hc] at h
  | escape => simp [hc] at h
  | ok fs1 =>
    simp only [hc] at h
    cases ha : fs1.append full b with
    | err => simp [ha] at h
    | escape => simp [ha] at h
    | ok fs2 =>
      simp only [ha] at h
      simp [ha, reply, h]

/-- Non-vacuity: a destination root holding a stale file, a folder with a child and a link; a source with
a folder, a file in it and a link with a non-normal text.  The run ends `ok` in the mirror state. -/
example :
    let fs0 : FS := ⟨[(["R".toList], .folder), (["R".toList, "old".toList], .file [1] (.at 5)),
      (["R".toList, "d".toList], .folder), (["R".toList, "d".toList, "x".toList], .symlink (utf8 "nowhere".toList)),
      (["R".toList, "l".toList], .symlink (utf8 "b".toList))]⟩
    let src : FPath → Option SEntry := fun p =>
      if p = ["d".toList] then some .folder else if p = ["d".toList, "f".toList] then some (.file [7, 8] 9)
      else if p = ["l".toList] then some (.link (readLinkB (utf8 "a//b/".toList))) else none
    let ls : List (FPath × SEntry) := [(["d".toList], .folder), (["d".toList, "f".toList], .file [7, 8] 9),
      (["l".toList], .link (readLinkB (utf8 "a//b/".toList)))]
    let ld : List (FPath × Node) := [(["old".toList], .file [1] (.at 5)), (["d".toList], .folder),
      (["d".toList, "x".toList], .symlink (utf8 "nowhere".toList)), (["l".toList], .symlink (utf8 "b".toList))]
    (match syncDest fs0 ["R".toList] src ls ld with
    | .ok fs' =>
      decide (fs'.get ["R".toList, "old".toList] = none) && decide (fs'.get ["R".toList, "d".toList, "x".toList] = none) &&
      decide (fs'.get ["R".toList, "d".toList] = some .folder) &&
      decide (fs'.get ["R".toList, "d".toList, "f".toList] = some (.file [7, 8] (.at 9))) &&
      decide (fs'.get ["R".toList, "l".toList] = some (.symlink (utf8 "a/b".toList)))
    | _ => false) = true := by
  decide

/-! ### composition: the doer model executing the boss's command trace -/

/-- **The commands of a sync, executed by the doer model, are `syncDest`.**  Take the plan of `syncDest` and
spell it as the boss's destination trace: one `DeleteFile` / `DeleteSymlink` / `DeleteFolder` per planned deletion
(reverse listing order), the `Marker` that separates the phases, then per planned copy `CreateFolder`,
`CreateSymlink` or the file's parts as `CreateOrUpdateFile` commands - **cut into parts in any way** (`parts`;
every part but the last with `more_to_follow`, the time stamp with the last).  Run through `exec_command` of the
doer model from an idle doer whose root is set, this trace ends in exactly the file system `syncDest` computes:
no error response, no file left in progress, and never one of the outcomes outside the model (`escape`: the
kernel would follow a link; `panic`; a path that is not root-relative).  This removes "the operations of
`syncDest` are what the doer executes" from the bridge lemmas: it is one theorem for whole traces, chunked
files included (`exec_fileCmds`: any chunking is `File::create` + one `write_all` + `set_file_mtime`). -/
theorem C01_doer_trace_is_syncDest (k : ChunkCfg) (keepOf : List FilterSpec → String → Bool) (kd ks : FPath → SymKind)
    (parts : FPath → List (List UInt8) × List UInt8) (abs : List Comp) (r : FPath) (ph : Phase)
    (src : FPath → Option SEntry) (ls : List (FPath × SEntry)) (ld : List (FPath × Node)) (fs fs2 : FS)
    (hgd : ∀ x ∈ ld, GoodPath x.1) (hgc : ∀ x ∈ ls, GoodPath x.1)
    (hparts : ∀ x ∈ ls, ∀ b m, x.2 = .file b m → (parts x.1).1.flatten ++ (parts x.1).2 = b)
    (h : syncDest fs r src ls ld = .ok fs2) :
    execCmds k keepOf (idle fs abs r)
        ((planDel src ld).map (delCmdOf kd) ++ (.marker ph :: (planCpy (fun p => fs.get (r ++ p)) ls).flatMap (cpyCmdsOf ks parts)))
      = (idle fs2 abs r,
         List.replicate (planDel src ld).length [] ++
           ([.marker] :: List.replicate ((planCpy (fun p => fs.get (r ++ p)) ls).flatMap (cpyCmdsOf ks parts)).length []), none) :=
  exec_trace_syncDest k keepOf kd ks parts abs r ph src ls ld fs fs2 hgd hgc hparts h

/-- the spelling is the boss model's: `deleteCmd` on the listed details of a destination node, and the chunk
commands `chunkCmd` of `copy_file` for a source stream that ends with its last part (what `C01_delete_trace` /
`C01_copy_trace` show the boss to send) -/
theorem C01_trace_spelling (k : SymKind) (p : FPath) (n : Node) (hn : n ≠ .special)
    (ps : String) (init : List (List UInt8)) (last : List UInt8) (m : Int) :
    deleteCmd (pathStr p) (dOfNode k n) = delCmdOf (fun _ => k) (p, n) ∧
    (init.map (fun c => (c, true)) ++ [(last, false)]).map (fun ch => chunkCmd ps ch.1 m ch.2) = fileCmds ps init last m :=
  ⟨by cases n with
      | file b mt => cases mt <;> rfl
      | folder => rfl
      | symlink t => rfl
      | special => exact absurd rfl hn,
   chunkCmds_eq ps init last m⟩

/-- **Mirror, for every source tree and every destination tree, by commands**: as `C01_mirror_two_trees`, but the
destination is changed by the doer model executing the command trace (names are names: no component is empty,
`.`, `..` or holds a slash - what a directory listing can return). -/
theorem C01_mirror_two_trees_by_commands (S D : FS) (rs rd : FPath) (fS fD : Nat)
    (hS : SrcTreeOk S rs fS) (hD : D.Wf)
    (hroot : D.get rd = some .folder) (hanc : ∀ k, k < rd.length → D.get (rd.take k) = some .folder)
    (hclosed : ∀ p, p ≠ [] → D.get (rd ++ p) ≠ none → D.get (rd ++ p.dropLast) = some .folder)
    (hfuel : ∀ p, D.get (rd ++ p) ≠ none → p.length ≤ fD)
    (k : ChunkCfg) (keepOf : List FilterSpec → String → Bool) (kd ks : FPath → SymKind)
    (parts : FPath → List (List UInt8) × List UInt8) (abs : List Comp) (ph : Phase)
    (hgd : ∀ x ∈ (listNodes D fD rd).map (fun e => (e.1.drop rd.length, e.2)), GoodPath x.1)
    (hgc : ∀ x ∈ lsOfFS S rs fS, GoodPath x.1)
    (hparts : ∀ x ∈ lsOfFS S rs fS, ∀ b m, x.2 = .file b m → (parts x.1).1.flatten ++ (parts x.1).2 = b) :
    ∃ D' outs,
      execCmds k keepOf (idle D abs rd)
        ((planDel (srcOfFS S rs) ((listNodes D fD rd).map fun e => (e.1.drop rd.length, e.2))).map (delCmdOf kd) ++
          (.marker ph :: (planCpy (fun p => D.get (rd ++ p)) (lsOfFS S rs fS)).flatMap (cpyCmdsOf ks parts)))
        = (idle D' abs rd, outs, none) ∧
      (∀ o ∈ outs, o = [] ∨ o = [.marker]) ∧
      (∀ q, ¬ rd <+: q → D'.get q = D.get q) ∧
      D'.get rd = some .folder ∧
      ∀ p, p ≠ [] → MirrorAt D D' rd p (srcOfFS S rs p) := by
  obtain ⟨D', h, h1, h2, h3⟩ := C01_mirror_two_trees S D rs rd fS fD hS hD hroot hanc hclosed hfuel
  refine ⟨D', _, C01_doer_trace_is_syncDest k keepOf kd ks parts abs rd ph _ _ _ D D' hgd hgc hparts h, ?_, h1, h2, h3⟩
  intro o ho
  simp only [List.mem_append, List.mem_replicate, List.mem_cons] at ho
  rcases ho with ⟨-, rfl⟩ | rfl | ⟨-, rfl⟩
  · left; rfl
  · right; rfl
  · left; rfl

/-- Non-vacuity of the composition: a stale file, a link and a file sent in three parts (one of them empty) -/
example :
    let fs0 : FS := ⟨[(["R".toList], .folder), (["R".toList, "old".toList], .file [1] (.at 5)),
      (["R".toList, "l".toList], .symlink (utf8 "b".toList))]⟩
    let src : FPath → Option SEntry := fun p =>
      if p = ["f".toList] then some (.file [7, 8, 9] 4) else if p = ["l".toList] then some (.link (readLinkB (utf8 "a//b/".toList))) else none
    let ls : List (FPath × SEntry) := [(["f".toList], .file [7, 8, 9] 4), (["l".toList], .link (readLinkB (utf8 "a//b/".toList)))]
    let ld : List (FPath × Node) := [(["old".toList], .file [1] (.at 5)), (["l".toList], .symlink (utf8 "b".toList))]
    let parts : FPath → List (List UInt8) × List UInt8 := fun _ => ([[7], [], [8]], [9])
    (match syncDest fs0 ["R".toList] src ls ld with
     | .ok fs' =>
        let r := execCmds ⟨4, 2, 16, 2⟩ (fun _ _ => true) (idle fs0 [] ["R".toList])
          ((planDel src ld).map (delCmdOf fun _ => .unknown) ++
            (.marker .copying :: (planCpy (fun p => fs0.get (["R".toList] ++ p)) ls).flatMap (cpyCmdsOf (fun _ => .unknown) parts)))
        decide (r.1.fs.get ["R".toList, "f".toList] = fs'.get ["R".toList, "f".toList]) &&
        decide (r.1.fs.get ["R".toList, "f".toList] = some (.file [7, 8, 9] (.at 4))) && decide (r.2.2 = none)
     | _ => false) = true := by
  decide

/-- **The boss's two action lists are `planDel` / `planCpy`, as command lists, for every arrival order.**  Take a source
listing and a destination listing at component level (names are names, one entry per path, nothing special, source
times at or after the epoch) and let their entries reach the boss in *any* interleaving (`evs`).  Then the planner does
not panic, and what the boss then iterates - `to_delete` in reversed order, `to_copy` in order - spelled as the commands
it sends (`deleteCmd`; `copyCmds`, for source streams that deliver each file's bytes in parts) is **exactly**
the command list of `syncDest`'s plan (`delCmdOf` over `planDel`, `cpyCmdsOf` over `planCpy`).  With
`C01_delete_trace` / `C01_copy_trace` (these are the commands a run without error sent) and
`C01_doer_trace_is_syncDest` (the doer model executing them is `syncDest`) the chain from the arrival of the listings
to the final file system is closed by theorems. -/
theorem C01_boss_lists_are_the_plan (ks kd : SymKind) (ls : List (FPath × SEntry)) (ld : List (FPath × Node))
    (src : FPath → Option SEntry) (dst : FPath → Option Node) (evs : List Ev)
    (files : List (String × FileScript)) (parts : FPath → List (List UInt8) × List UInt8)
    (hes : srcOf evs = ls.map (fun x => (pathStr x.1, dOfSEntry ks x.2)))
    (hed : dstOf evs = ld.map (fun x => (pathStr x.1, dOfNode kd x.2)))
    (hgs : ∀ x ∈ ls, GoodPath x.1) (hgd : ∀ x ∈ ld, GoodPath x.1)
    (hns : (ls.map (·.1)).Nodup) (hnd : (ld.map (·.1)).Nodup)
    (hsp : ∀ x ∈ ld, x.2 ≠ .special) (hm : ∀ x ∈ ls, ∀ b m, x.2 = .file b m → 0 ≤ m)
    (hs1 : ∀ x ∈ ls, src x.1 = some x.2) (hs2 : ∀ p e, src p = some e → (p, e) ∈ ls)
    (hd1 : ∀ x ∈ ld, dst x.1 = some x.2) (hd2 : ∀ p n, dst p = some n → (p, n) ∈ ld)
    (hfiles : ∀ x ∈ ls, ∀ b m, x.2 = .file b m →
      C11.consumed (fileScript files (pathStr x.1)) = (parts x.1).1.map (fun c => (c, true)) ++ [((parts x.1).2, false)]) :
    ∃ s, prun ⟨true, false⟩ PState.init evs = some s ∧
      s.del.reverseOrder.iter.map (fun it => deleteCmd it.1 it.2.1) = (planDel src ld).map (delCmdOf (fun _ => kd)) ∧
      s.cpy.iter.flatMap (fun it => copyCmds files it.1 it.2.1) = (planCpy dst ls).flatMap (cpyCmdsOf (fun _ => ks) parts) := by
  have nds : ((srcOf evs).map (·.1)).Nodup := by
    rw [hes, List.map_map]
    have : (ls.map ((fun x : String × Details => x.1) ∘ fun x => (pathStr x.1, dOfSEntry ks x.2))) = (ls.map (·.1)).map pathStr := by
      simp [List.map_map, Function.comp_def]
    rw [this]
    apply nodup_map_of_inj_on pathStr _ hns
    intro a ha b hb hab
    obtain ⟨x, hx, rfl⟩ := List.mem_map.mp ha
    obtain ⟨y, hy, rfl⟩ := List.mem_map.mp hb
    exact pathStr_inj (hgs x hx) (hgs y hy) hab
  have ndd : ((dstOf evs).map (·.1)).Nodup := by
    rw [hed, List.map_map]
    have : (ld.map ((fun x : String × Details => x.1) ∘ fun x => (pathStr x.1, dOfNode kd x.2))) = (ld.map (·.1)).map pathStr := by
      simp [List.map_map, Function.comp_def]
    rw [this]
    apply nodup_map_of_inj_on pathStr _ hnd
    intro a ha b hb hab
    obtain ⟨x, hx, rfl⟩ := List.mem_map.mp ha
    obtain ⟨y, hy, rfl⟩ := List.mem_map.mp hb
    exact pathStr_inj (hgd x hx) (hgd y hy) hab
  obtain ⟨s, hrun, hdel, hcpy⟩ := plan_lists ⟨true, false⟩ evs nds ndd
  have hS : ∀ p, GoodPath p → lookup (srcOf evs).reverse (pathStr p) = (src p).map (dOfSEntry ks) := by
    intro p hp; rw [hes]; exact lookup_listing ls (dOfSEntry ks) src hgs hns hs1 hs2 p hp
  have hD : ∀ p, GoodPath p → lookup (dstOf evs).reverse (pathStr p) = (dst p).map (dOfNode kd) := by
    intro p hp; rw [hed]; exact lookup_listing ld (dOfNode kd) dst hgd hnd hd1 hd2 p hp
  have hLd : (dstOf evs).map (·.1) = ld.map (fun x => pathStr x.1) := by rw [hed]; simp [List.map_map, Function.comp_def]
  have hLs : (srcOf evs).map (·.1) = ls.map (fun x => pathStr x.1) := by rw [hes]; simp [List.map_map, Function.comp_def]
  refine ⟨s, hrun, ?_, ?_⟩
  · -- deletions
    rw [hdel, hLd]
    generalize lookup (srcOf evs).reverse = S at *
    generalize lookup (dstOf evs).reverse = D at *
    rw [← List.map_reverse, List.filterMap_map]
    unfold planDel
    rw [← List.filter_reverse]
    have key := filterMap_flatMap_eq ld
      ((fun k => (delSpec ⟨true, false⟩ S D k).map fun v => (k, v)) ∘ fun x => pathStr x.1)
      (fun it => [deleteCmd it.1 it.2.1]) (needDel src) (fun x => [delCmdOf (fun _ => kd) x]) (by
        intro x hx
        have hx' : x ∈ ld := hx
        obtain ⟨p, n⟩ := x
        have hgp := hgd _ hx'
        have hDp : D (pathStr p) = some (dOfNode kd n) := by rw [hD p hgp, hd1 _ hx']; rfl
        have hSp := hS p hgp
        have hcmd := (C01_trace_spelling kd p n (hsp _ hx') "" [] [] 0).1
        simp only [Function.comp, delSpec, hDp, needDel]
        cases hsrc : src p with
        | none =>
          rw [hsrc] at hSp
          simp only [Option.map_none] at hSp
          simp [hSp, hcmd]
        | some e =>
          rw [hsrc] at hSp
          simp only [Option.map_some] at hSp
          have hb := (C01_plan_bridge ks kd e n (hsp _ hx') (fun b m he => hm (p, e) (hs2 p e hsrc) b m he)).1
          simp only [hSp, hb]
          cases hc : compatible e n <;> simp [hcmd])
    rw [flatMap_single, flatMap_single] at key
    simpa using key
  · -- copies
    rw [hcpy, hLs]
    generalize lookup (srcOf evs).reverse = S at *
    generalize lookup (dstOf evs).reverse = D at *
    rw [List.filterMap_map]
    unfold planCpy
    apply filterMap_flatMap_eq ls
      ((fun k => (cpySpec ⟨true, false⟩ S D k).map fun v => (k, v)) ∘ fun x => pathStr x.1)
      (fun it => copyCmds files it.1 it.2.1) (needCpy dst) (cpyCmdsOf (fun _ => ks) parts)
    intro x hx
    obtain ⟨p, e⟩ := x
    have hgp := hgs _ hx
    have hSp : S (pathStr p) = some (dOfSEntry ks e) := by rw [hS p hgp, hs1 _ hx]; rfl
    have hDp := hD p hgp
    -- the commands of this entry do not depend on the reason
    have hcmd : ∀ r : CopyReason, copyCmds files (pathStr p) (dOfSEntry ks e, r).1 = cpyCmdsOf (fun _ => ks) parts (p, e) := by
      intro r
      cases e with
      | folder => rfl
      | link t => rfl
      | file b m =>
        simp only [dOfSEntry, copyCmds, cpyCmdsOf]
        rw [hfiles (p, .file b m) hx b m rfl]
        exact chunkCmds_eq (pathStr p) (parts p).1 (parts p).2 m
    simp only [Function.comp, cpySpec, hSp, needCpy]
    cases hdst : dst p with
    | none =>
      rw [hdst] at hDp
      simp only [Option.map_none] at hDp
      simp only [hDp]
      exact ⟨fun _ => ⟨_, rfl, hcmd _⟩, fun h => by simp at h⟩
    | some n =>
      rw [hdst] at hDp
      simp only [Option.map_some] at hDp
      have hn : n ≠ .special := hsp (p, n) (hd2 p n hdst)
      have hb := C01_plan_bridge ks kd e n hn (fun b m he => hm (p, e) hx b m he)
      simp only [hDp, hb.1]
      cases hc : compatible e n with
      | false =>
        have hu : upToDate e n = false := by
          cases hu : upToDate e n with
          | false => rfl
          | true => rw [upToDate_compatible e n hu] at hc; cases hc
        simp only [Bool.not_false, ↓reduceIte, hu, Bool.not_false]
        exact ⟨fun _ => ⟨_, rfl, hcmd _⟩, fun h => by simp at h⟩
      | true =>
        have hb2 := hb.2 hc
        simp only [Bool.not_true, Bool.false_eq_true, ↓reduceIte]
        cases hnc : needsCopy ⟨true, false⟩ (dOfSEntry ks e) (dOfNode kd n) with
        | none =>
          rw [hnc] at hb2
          simp only [Option.isNone_none] at hb2
          simp only [Option.map_none, ← hb2]
          exact ⟨fun h => by simp at h, fun _ => trivial⟩
        | some r =>
          rw [hnc] at hb2
          simp only [Option.isNone_some] at hb2
          simp only [Option.map_some, ← hb2]
          exact ⟨fun _ => ⟨_, rfl, hcmd r⟩, fun h => by simp at h⟩

/-- Non-vacuity (a *test* on one instance, the theorem is above): destination entries arriving before, between and after
the source's; the planner's lists spelled as commands are the plan's -/
example :
    let ls : List (FPath × SEntry) := [(["a".toList], .file [1, 2] 7), (["d".toList], .folder), (["d".toList, "f".toList], .file [3] 1)]
    let ld : List (FPath × Node) := [(["a".toList], .file [9] (.at 5)), (["d".toList], .file [1] (.at 1)), (["x".toList], .folder)]
    let src : FPath → Option SEntry := fun p => ls.lookup p
    let dst : FPath → Option Node := fun p => ld.lookup p
    let evs := [Ev.dst "a" (.file 5 1), .src "a" (.file 7 2), .src "d" .folder, .dst "d" (.file 1 1), .dst "x" .folder, .src "d/f" (.file 1 1)]
    (prun ⟨true, false⟩ PState.init evs).map (fun s => s.del.reverseOrder.iter.map (fun it => deleteCmd it.1 it.2.1))
      = some ((planDel src ld).map (delCmdOf (fun _ => .unknown))) ∧
    (prun ⟨true, false⟩ PState.init evs).map (fun s => s.cpy.iter.map (·.1)) = some ((planCpy dst ls).map (fun x => pathStr x.1)) := by
  decide

/-- **The deletion command is the sources'**: the command `delete_dest_entry` builds for a destination entry (translated from boss_sync.rs on every run:
the `match` on the entry's kind, statistics updates dropped, `Command::DeleteFile / DeleteFolder / DeleteSymlink` with the path and the link's kind) is the
model's `deleteCmd`; the same extractor checks that the command is sent to the destination, once, and only outside a dry run. -/
theorem C01_delete_command_is_the_sources : Generated.deleteCmdTranslated = true ∧ ∀ p d, Generated.deleteCmdSrc p d = deleteCmd p d := by
  refine ⟨by decide, ?_⟩
  intro p d; cases d <;> rfl


/-- **`copy_entry` (one creation command per source entry, to the destination, outside a dry run) still has the shape the model was written against** - a pin like `C03_confirm_actions_shape`: the normalised text extracted on every run
equals the copy kept in `Model/ConfirmShape.lean`. -/
theorem C01_copy_entry_shape : Generated.copyEntryShape = copyEntryShapeRef := by rfl


/-- **The same, said of the functions as they are written today**: feed the arrivals through the functions *translated from boss_sync.rs on this run*
(`process_src_entry` / `process_dest_entry`: `C13.prunSrc`) and spell the deletions with the translated `delete_dest_entry` - the two command lists are
the plan's.  (`C01_boss_lists_are_the_plan` through `C13_translated_run_is_prun` and `C01_delete_command_is_the_sources`.) -/
theorem C01_translated_lists_are_the_plan (ks kd : SymKind) (ls : List (FPath × SEntry)) (ld : List (FPath × Node))
    (src : FPath → Option SEntry) (dst : FPath → Option Node) (evs : List Ev)
    (files : List (String × FileScript)) (parts : FPath → List (List UInt8) × List UInt8)
    (hes : srcOf evs = ls.map (fun x => (pathStr x.1, dOfSEntry ks x.2)))
    (hed : dstOf evs = ld.map (fun x => (pathStr x.1, dOfNode kd x.2)))
    (hgs : ∀ x ∈ ls, GoodPath x.1) (hgd : ∀ x ∈ ld, GoodPath x.1)
    (hns : (ls.map (·.1)).Nodup) (hnd : (ld.map (·.1)).Nodup)
    (hsp : ∀ x ∈ ld, x.2 ≠ .special) (hm : ∀ x ∈ ls, ∀ b m, x.2 = .file b m → 0 ≤ m)
    (hs1 : ∀ x ∈ ls, src x.1 = some x.2) (hs2 : ∀ p e, src p = some e → (p, e) ∈ ls)
    (hd1 : ∀ x ∈ ld, dst x.1 = some x.2) (hd2 : ∀ p n, dst p = some n → (p, n) ∈ ld)
    (hfiles : ∀ x ∈ ls, ∀ b m, x.2 = .file b m →
      C11.consumed (fileScript files (pathStr x.1)) = (parts x.1).1.map (fun c => (c, true)) ++ [((parts x.1).2, false)]) :
    ∃ s, C13.prunSrc ⟨true, false⟩ PState.init evs = some s ∧
      s.del.reverseOrder.iter.map (fun it => Generated.deleteCmdSrc it.1 it.2.1) = (planDel src ld).map (delCmdOf (fun _ => kd)) ∧
      s.cpy.iter.flatMap (fun it => copyCmds files it.1 it.2.1) = (planCpy dst ls).flatMap (cpyCmdsOf (fun _ => ks) parts) := by
  obtain ⟨s, h1, h2, h3⟩ := C01_boss_lists_are_the_plan ks kd ls ld src dst evs files parts hes hed hgs hgd hns hnd hsp hm hs1 hs2 hd1 hd2 hfiles
  refine ⟨s, by rw [C13.C13_translated_run_is_prun]; exact h1, ?_, h3⟩
  have : (fun it : String × (Details × DelReason) => Generated.deleteCmdSrc it.1 it.2.1) = (fun it => deleteCmd it.1 it.2.1) := by
    funext it; exact C01_delete_command_is_the_sources.2 _ _
  rw [this]; exact h2


end Rj.C01
